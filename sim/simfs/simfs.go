// Package simfs is the simulated disk: a fileops.VFS that wraps the real local
// file system, journals every mutation, can materialise the state after any
// journal prefix (plus a torn in-flight write) as a crash image in a fresh
// directory, fences dead incarnations, gates mutations for the interleaving
// scheduler and injects I/O errors.
package simfs

import (
	"bytes"
	"errors"
	"fmt"
	"io"
	"io/fs"
	"os"
	"path/filepath"
	"regexp"
	"sort"
	"strings"
	"sync"
	"syscall"
	"time"

	"github.com/openGemini/openGemini/lib/fileops"
	"github.com/openGemini/openGemini/lib/obs"
	"github.com/openGemini/openGemini/lib/request"
)

type Kind uint8

const (
	KCreate    Kind = iota + 1 // open with O_CREATE and/or O_TRUNC (Flags tells which)
	KWrite                     // write Data at Off
	KSync                      // fsync (no state change under the process-kill model)
	KRename                    // Path -> Path2
	KRemove                    // unlink file or empty dir
	KRemoveAll                 // recursive
	KMkdir                     // mkdir / mkdirAll (All tells which)
	KTruncate                  // truncate Path to Off
	KWriteFile                 // create/truncate + write whole Data
)

// KRead is never journalled: it only describes a read (Path, Off, Flags=length)
// handed to an optional read gate (world C: the interleaving scheduler also decides
// when a reader of a data file proceeds).  Without a read gate nothing changes.
const KRead Kind = 100

func (k Kind) String() string {
	switch k {
	case KCreate:
		return "create"
	case KWrite:
		return "write"
	case KSync:
		return "sync"
	case KRename:
		return "rename"
	case KRemove:
		return "remove"
	case KRemoveAll:
		return "removeall"
	case KMkdir:
		return "mkdir"
	case KTruncate:
		return "truncate"
	case KWriteFile:
		return "writefile"
	case KRead:
		return "read"
	}
	return "?"
}

// Entry is one journalled file-system mutation.  Paths are relative to the disk root.
type Entry struct {
	Seq   int
	Kind  Kind
	Path  string
	Path2 string
	Off   int64
	Data  []byte
	Flags int
	Perm  os.FileMode
	All   bool
	Tag   int // client-operation index current when the mutation happened
}

// Desc is the order-insensitive descriptor of an entry (kind, path class, size).
func (e *Entry) Desc() string {
	return fmt.Sprintf("%s %s %d", e.Kind, PathClass(e.Path), len(e.Data))
}

func (e *Entry) String() string {
	switch e.Kind {
	case KWrite:
		return fmt.Sprintf("#%d[op%d] write %s off=%d len=%d", e.Seq, e.Tag, e.Path, e.Off, len(e.Data))
	case KRename:
		return fmt.Sprintf("#%d[op%d] rename %s -> %s", e.Seq, e.Tag, e.Path, e.Path2)
	case KTruncate:
		return fmt.Sprintf("#%d[op%d] truncate %s to %d", e.Seq, e.Tag, e.Path, e.Off)
	case KWriteFile:
		return fmt.Sprintf("#%d[op%d] writefile %s len=%d", e.Seq, e.Tag, e.Path, len(e.Data))
	case KCreate:
		return fmt.Sprintf("#%d[op%d] create %s flags=%#x", e.Seq, e.Tag, e.Path, e.Flags)
	}
	return fmt.Sprintf("#%d[op%d] %s %s", e.Seq, e.Tag, e.Kind, e.Path)
}

// PathClass maps a concrete path to a class that is stable across runs (digits
// and hex runs are replaced), used for descriptors and statistics.
func PathClass(p string) string {
	var b strings.Builder
	prevDigit := false
	for _, r := range p {
		isD := (r >= '0' && r <= '9') || (r >= 'A' && r <= 'F')
		if isD {
			if !prevDigit {
				b.WriteByte('#')
			}
			prevDigit = true
			continue
		}
		prevDigit = false
		b.WriteRune(r)
	}
	return b.String()
}

// Fault is an injected error: the Nth mutation (1-based, counted from Arm) whose
// kind and path match fails with Err before taking effect (or after Short bytes
// for writes).
type Fault struct {
	Kind    Kind   // 0 = any
	PathSub string // substring of the relative path, "" = any
	Nth     int
	Err     error
	Short   int // for writes: number of bytes that do land (<0: none)
	fired   bool
	seen    int
}

// Gate is consulted before every mutation of a gated disk; it blocks until the
// scheduler releases the operation.
type Gate func(d *Disk, e *Entry)

// Disk is one simulated disk = one path prefix.
type Disk struct {
	fs        *FS
	Root      string
	mu        sync.Mutex
	journal   []*Entry
	dead      bool
	tag       int
	faults    []*Fault
	gate      Gate
	readGate  Gate // optional; see SetReadGate
	FencedOps int64
	keepData  bool
	observers []func(e *Entry)
	// opMu makes "effect on the real file system + journal entry" one atomic step, so
	// that the journal order is a legal order of the effects (begin/gates run before it)
	opMu sync.Mutex
}

// FS implements fileops.VFS.
type FS struct {
	inner fileops.VFS
	mu    sync.RWMutex
	disks []*Disk
}

var (
	installMu sync.Mutex
	installed *FS
)

// Install puts a simfs in front of the local file system (idempotent).
func Install() *FS {
	installMu.Lock()
	defer installMu.Unlock()
	if installed != nil {
		return installed
	}
	f := &FS{}
	f.inner = fileops.VerifSetLocalFS(f)
	installed = f
	return f
}

// NewDisk registers a simulated disk rooted at root (created if missing).
func (f *FS) NewDisk(root string) *Disk {
	root = filepath.Clean(root)
	if err := os.MkdirAll(root, 0o755); err != nil {
		panic(err)
	}
	d := &Disk{fs: f, Root: root, keepData: true}
	f.mu.Lock()
	f.disks = append(f.disks, d)
	f.mu.Unlock()
	return d
}

// Forget unregisters a disk (its directory is left to the caller).
func (f *FS) Forget(d *Disk) {
	f.mu.Lock()
	defer f.mu.Unlock()
	for i, x := range f.disks {
		if x == d {
			f.disks = append(f.disks[:i], f.disks[i+1:]...)
			return
		}
	}
}

func (f *FS) diskOf(p string) (*Disk, string) {
	p = filepath.Clean(p)
	f.mu.RLock()
	defer f.mu.RUnlock()
	for _, d := range f.disks {
		if p == d.Root {
			return d, "."
		}
		if strings.HasPrefix(p, d.Root) && len(p) > len(d.Root) && p[len(d.Root)] == '/' {
			return d, p[len(d.Root)+1:]
		}
	}
	return nil, ""
}

// ---- disk control -------------------------------------------------------------

func (d *Disk) SetTag(t int) { d.mu.Lock(); d.tag = t; d.mu.Unlock() }
func (d *Disk) Len() int     { d.mu.Lock(); defer d.mu.Unlock(); return len(d.journal) }
func (d *Disk) Kill()        { d.mu.Lock(); d.dead = true; d.mu.Unlock() }
func (d *Disk) Dead() bool   { d.mu.Lock(); defer d.mu.Unlock(); return d.dead }
func (d *Disk) SetGate(g Gate) {
	d.mu.Lock()
	d.gate = g
	d.mu.Unlock()
}

// SetReadGate installs an optional gate consulted before every Read/ReadAt of a
// file of this disk that is opened *after* the call (files are wrapped at open
// time only while a read gate is set).  The gate may block.  Reads are never
// journalled and a nil gate (the default) leaves every existing code path untouched.
func (d *Disk) SetReadGate(g Gate) {
	d.mu.Lock()
	d.readGate = g
	d.mu.Unlock()
}

func (d *Disk) getReadGate() Gate {
	d.mu.Lock()
	defer d.mu.Unlock()
	return d.readGate
}

func (d *Disk) beforeRead(rel string, off int64, n int) {
	if g := d.getReadGate(); g != nil {
		g(d, &Entry{Kind: KRead, Path: rel, Off: off, Flags: n})
	}
}

// rfile wraps a file opened read-only on a disk that has a read gate.
type rfile struct {
	fileops.File
	d   *Disk
	rel string
}

func (f *rfile) ReadAt(b []byte, off int64) (int, error) {
	f.d.beforeRead(f.rel, off, len(b))
	return f.File.ReadAt(b, off)
}

func (f *rfile) Read(b []byte) (int, error) {
	f.d.beforeRead(f.rel, -1, len(b))
	return f.File.Read(b)
}

func (d *Disk) Observe(fn func(e *Entry)) {
	d.mu.Lock()
	d.observers = append(d.observers, fn)
	d.mu.Unlock()
}
func (d *Disk) Arm(f *Fault) { d.mu.Lock(); d.faults = append(d.faults, f); d.mu.Unlock() }
func (d *Disk) Disarm()      { d.mu.Lock(); d.faults = nil; d.mu.Unlock() }
func (d *Disk) Journal() []*Entry {
	d.mu.Lock()
	defer d.mu.Unlock()
	return append([]*Entry(nil), d.journal...)
}

var ErrFenced = &os.PathError{Op: "simfs", Path: "fenced", Err: syscall.EIO}

// begin is called before a mutation takes effect.  It returns the entry to
// commit (nil, err) when the op must fail without effect.
func (d *Disk) begin(e *Entry) (short int, err error) {
	d.mu.Lock()
	if d.dead {
		d.FencedOps++
		d.mu.Unlock()
		return -1, &os.PathError{Op: e.Kind.String(), Path: e.Path, Err: syscall.EIO}
	}
	g := d.gate
	e.Tag = d.tag
	d.mu.Unlock()
	if g != nil {
		g(d, e) // blocks until released
		d.mu.Lock()
		dead := d.dead
		d.mu.Unlock()
		if dead {
			return -1, &os.PathError{Op: e.Kind.String(), Path: e.Path, Err: syscall.EIO}
		}
	}
	d.mu.Lock()
	defer d.mu.Unlock()
	for _, f := range d.faults {
		if f.fired {
			continue
		}
		if f.Kind != 0 && f.Kind != e.Kind {
			continue
		}
		if f.PathSub != "" && !strings.Contains(e.Path, f.PathSub) {
			continue
		}
		f.seen++
		if f.seen == f.Nth {
			f.fired = true
			if e.Kind == KWrite && f.Short > 0 && f.Short < len(e.Data) {
				return f.Short, f.Err
			}
			return -1, f.Err
		}
	}
	return 0, nil
}

func (d *Disk) commit(e *Entry) {
	d.mu.Lock()
	e.Seq = len(d.journal)
	e.Tag = d.tag
	d.journal = append(d.journal, e)
	obs := d.observers
	d.mu.Unlock()
	for _, fn := range obs {
		fn(e)
	}
}

// FiredFaults reports how many armed faults fired.
func (d *Disk) FiredFaults() int {
	d.mu.Lock()
	defer d.mu.Unlock()
	n := 0
	for _, f := range d.faults {
		if f.fired {
			n++
		}
	}
	return n
}

// ---- images ------------------------------------------------------------------

// Apply applies one journal entry to the tree under root.
func Apply(root string, e *Entry, torn int) error {
	p := filepath.Join(root, e.Path)
	switch e.Kind {
	case KCreate:
		fl := e.Flags &^ (os.O_EXCL)
		f, err := os.OpenFile(p, fl|os.O_CREATE, permOr(e.Perm, 0o600))
		if err != nil {
			return err
		}
		return f.Close()
	case KWrite:
		f, err := os.OpenFile(p, os.O_WRONLY, 0)
		if err != nil {
			return err
		}
		data := e.Data
		if torn >= 0 && torn < len(data) {
			data = data[:torn]
		}
		_, err = f.WriteAt(data, e.Off)
		f.Close()
		return err
	case KSync:
		return nil
	case KRename:
		return os.Rename(p, filepath.Join(root, e.Path2))
	case KRemove:
		return os.Remove(p)
	case KRemoveAll:
		return os.RemoveAll(p)
	case KMkdir:
		if e.All {
			return os.MkdirAll(p, permOr(e.Perm, 0o755))
		}
		return os.Mkdir(p, permOr(e.Perm, 0o755))
	case KTruncate:
		return os.Truncate(p, e.Off)
	case KWriteFile:
		data := e.Data
		if torn >= 0 && torn < len(data) {
			data = data[:torn]
		}
		return os.WriteFile(p, data, permOr(e.Perm, 0o600))
	}
	return fmt.Errorf("simfs: unknown entry kind %d", e.Kind)
}

func permOr(p, def os.FileMode) os.FileMode {
	if p == 0 {
		return def
	}
	return p | 0o600
}

// Imager builds crash images incrementally: a base directory is advanced through
// the journal, and Snapshot copies it (plus an optional torn prefix of the next
// entry) into a fresh directory.
type Imager struct {
	journal []*Entry
	base    string
	pos     int
}

func NewImager(journal []*Entry, baseDir string) *Imager {
	if err := os.MkdirAll(baseDir, 0o755); err != nil {
		panic(err)
	}
	return &Imager{journal: journal, base: baseDir}
}

// Advance applies entries up to (not including) k to the base.
func (im *Imager) Advance(k int) error {
	if k < im.pos {
		return fmt.Errorf("imager cannot go back (%d < %d)", k, im.pos)
	}
	for im.pos < k {
		if err := Apply(im.base, im.journal[im.pos], -1); err != nil {
			return fmt.Errorf("apply %s: %w", im.journal[im.pos], err)
		}
		im.pos++
	}
	return nil
}

// Snapshot materialises "journal[0:k) + first torn bytes of journal[k]" into dst
// (torn<0: no partial entry).
func (im *Imager) Snapshot(k int, torn int, dst string) error {
	if err := im.Advance(k); err != nil {
		return err
	}
	if err := CopyTree(im.base, dst); err != nil {
		return err
	}
	if torn >= 0 && k < len(im.journal) {
		e := im.journal[k]
		if e.Kind == KWrite || e.Kind == KWriteFile {
			if err := Apply(dst, e, torn); err != nil {
				return err
			}
		}
	}
	return nil
}

// CopyTree copies a directory tree (regular files and directories).
func CopyTree(src, dst string) error {
	return filepath.Walk(src, func(p string, info fs.FileInfo, err error) error {
		if err != nil {
			return err
		}
		rel, _ := filepath.Rel(src, p)
		t := filepath.Join(dst, rel)
		if info.IsDir() {
			return os.MkdirAll(t, 0o755)
		}
		if !info.Mode().IsRegular() {
			return nil
		}
		b, err := os.ReadFile(p)
		if err != nil {
			return err
		}
		return os.WriteFile(t, b, 0o600)
	})
}

// Image builds the image of journal[0:k) (+torn) from scratch into dst.
func Image(journal []*Entry, k int, torn int, dst string) error {
	if err := os.MkdirAll(dst, 0o755); err != nil {
		return err
	}
	for i := 0; i < k; i++ {
		if err := Apply(dst, journal[i], -1); err != nil {
			return fmt.Errorf("apply %s: %w", journal[i], err)
		}
	}
	if torn >= 0 && k < len(journal) {
		e := journal[k]
		if e.Kind == KWrite || e.Kind == KWriteFile {
			return Apply(dst, e, torn)
		}
	}
	return nil
}

// TreeDigest lists (relative path, size, content) of a tree for the completeness
// self-check.
func TreeDigest(root string) (map[string]string, error) {
	out := map[string]string{}
	err := filepath.Walk(root, func(p string, info fs.FileInfo, err error) error {
		if err != nil {
			return err
		}
		rel, _ := filepath.Rel(root, p)
		if info.IsDir() {
			out[rel+"/"] = "dir"
			return nil
		}
		b, err := os.ReadFile(p)
		if err != nil {
			return err
		}
		out[rel] = fmt.Sprintf("%d:%x", len(b), fnv(b))
		return nil
	})
	return out, err
}

func fnv(b []byte) uint64 {
	h := uint64(14695981039346656037)
	for _, c := range b {
		h ^= uint64(c)
		h *= 1099511628211
	}
	return h
}

// CheckComplete verifies that replaying the whole journal reproduces the live
// directory byte for byte (otherwise something bypassed the seam).
// ignore (may be nil) names relative paths that are known to be written outside
// the seam and do not take part in any verdict (documented per world).
func (d *Disk) CheckComplete(tmp string, initTree string, ignore func(rel string) bool) error {
	j := d.Journal()
	_ = os.RemoveAll(tmp)
	if initTree != "" {
		if err := CopyTree(initTree, tmp); err != nil {
			return err
		}
	}
	if err := Image(j, len(j), -1, tmp); err != nil {
		return fmt.Errorf("journal does not replay: %w", err)
	}
	defer os.RemoveAll(tmp)
	a, err := TreeDigest(d.Root)
	if err != nil {
		return err
	}
	b, err := TreeDigest(tmp)
	if err != nil {
		return err
	}
	var diffs []string
	for k, v := range a {
		if ignore != nil && ignore(k) {
			continue
		}
		if b[k] != v {
			diffs = append(diffs, fmt.Sprintf("%s live=%s image=%s", k, v, b[k]))
		}
	}
	for k, v := range b {
		if ignore != nil && ignore(k) {
			continue
		}
		if _, ok := a[k]; !ok {
			diffs = append(diffs, fmt.Sprintf("%s live=<absent> image=%s", k, v))
		}
	}
	if len(diffs) > 0 {
		sort.Strings(diffs)
		if len(diffs) > 8 {
			diffs = diffs[:8]
		}
		return errors.New("seam incomplete: " + strings.Join(diffs, "; "))
	}
	return nil
}

// ---- VFS implementation --------------------------------------------------------

type file struct {
	fileops.File
	d      *Disk
	rel    string
	append bool
	mu     sync.Mutex
}

func (f *file) Write(b []byte) (int, error) {
	f.mu.Lock()
	defer f.mu.Unlock()
	var off int64
	var err error
	if f.append {
		off, err = f.File.Size()
	} else {
		off, err = f.File.Seek(0, io.SeekCurrent)
	}
	if err != nil {
		return 0, err
	}
	e := &Entry{Kind: KWrite, Path: f.rel, Off: off, Data: append([]byte(nil), b...)}
	short, ferr := f.d.begin(e)
	f.d.opMu.Lock()
	defer f.d.opMu.Unlock()
	if ferr != nil {
		if short > 0 {
			e.Data = e.Data[:short]
			n, _ := f.File.Write(b[:short])
			e.Data = e.Data[:n]
			f.d.commit(e)
			return n, ferr
		}
		return 0, ferr
	}
	n, err := f.File.Write(b)
	if n < len(b) {
		e.Data = e.Data[:n]
	}
	if n > 0 {
		f.d.commit(e)
	}
	return n, err
}

func (f *file) ReadAt(b []byte, off int64) (int, error) {
	f.d.beforeRead(f.rel, off, len(b))
	return f.File.ReadAt(b, off)
}

func (f *file) Read(b []byte) (int, error) {
	f.d.beforeRead(f.rel, -1, len(b))
	return f.File.Read(b)
}

func (f *file) Truncate(size int64) error {
	e := &Entry{Kind: KTruncate, Path: f.rel, Off: size}
	if _, err := f.d.begin(e); err != nil {
		return err
	}
	f.d.opMu.Lock()
	defer f.d.opMu.Unlock()
	if err := f.File.Truncate(size); err != nil {
		return err
	}
	f.d.commit(e)
	return nil
}

func (f *file) Sync() error {
	e := &Entry{Kind: KSync, Path: f.rel}
	if _, err := f.d.begin(e); err != nil {
		return err
	}
	f.d.opMu.Lock()
	defer f.d.opMu.Unlock()
	if err := f.File.Sync(); err != nil {
		return err
	}
	f.d.commit(e)
	return nil
}

func (f *file) SyncUpdateLength() error {
	e := &Entry{Kind: KSync, Path: f.rel}
	if _, err := f.d.begin(e); err != nil {
		return err
	}
	f.d.opMu.Lock()
	defer f.d.opMu.Unlock()
	if err := f.File.SyncUpdateLength(); err != nil {
		return err
	}
	f.d.commit(e)
	return nil
}

func (f *file) StreamReadBatch(offs []int64, sizes []int64, minBlockSize int64, c chan *request.StreamReader, obsRangeSize int, isStat bool) {
	f.File.StreamReadBatch(offs, sizes, minBlockSize, c, obsRangeSize, isStat)
}

func (s *FS) wrap(inner fileops.File, d *Disk, rel string, flag int) fileops.File {
	return &file{File: inner, d: d, rel: rel, append: flag&os.O_APPEND != 0}
}

func (s *FS) Open(name string, opt ...fileops.FSOption) (fileops.File, error) {
	f, err := s.inner.Open(name, opt...)
	if err != nil {
		return f, err
	}
	if d, rel := s.diskOf(name); d != nil && d.getReadGate() != nil {
		return &rfile{File: f, d: d, rel: rel}, nil
	}
	return f, nil
}

func (s *FS) OpenFile(name string, flag int, perm os.FileMode, opt ...fileops.FSOption) (fileops.File, error) {
	d, rel := s.diskOf(name)
	if d == nil {
		return s.inner.OpenFile(name, flag, perm, opt...)
	}
	mut := flag&(os.O_CREATE|os.O_TRUNC) != 0
	var e *Entry
	if mut {
		// O_CREATE on an existing file without O_TRUNC changes nothing, but it is
		// journalled uniformly (Apply is idempotent for it).
		e = &Entry{Kind: KCreate, Path: rel, Flags: flag & (os.O_CREATE | os.O_TRUNC | os.O_EXCL | os.O_RDWR | os.O_WRONLY | os.O_APPEND), Perm: perm}
		if _, err := d.begin(e); err != nil {
			return nil, err
		}
		d.opMu.Lock()
		defer d.opMu.Unlock()
	} else if flag&(os.O_WRONLY|os.O_RDWR) != 0 {
		if d.Dead() {
			return nil, &os.PathError{Op: "open", Path: name, Err: syscall.EIO}
		}
	}
	f, err := s.inner.OpenFile(name, flag, perm, opt...)
	if err != nil {
		return nil, err
	}
	if mut {
		d.commit(e)
	}
	if flag&(os.O_WRONLY|os.O_RDWR) == 0 {
		if d.getReadGate() != nil {
			return &rfile{File: f, d: d, rel: rel}, nil
		}
		return f, nil
	}
	return s.wrap(f, d, rel, flag), nil
}

func (s *FS) Create(name string, opt ...fileops.FSOption) (fileops.File, error) {
	return s.OpenFile(name, os.O_RDWR|os.O_CREATE|os.O_TRUNC, 0o600, opt...)
}

func (s *FS) CreateV1(name string, opt ...fileops.FSOption) (fileops.File, error) {
	return s.Create(name, opt...)
}

func (s *FS) CreateV2(name string, opt ...fileops.FSOption) (fileops.File, error) {
	return s.Create(name, opt...)
}

func (s *FS) simple(kind Kind, name string, do func() error) error {
	d, rel := s.diskOf(name)
	if d == nil {
		return do()
	}
	e := &Entry{Kind: kind, Path: rel}
	if _, err := d.begin(e); err != nil {
		return err
	}
	d.opMu.Lock()
	defer d.opMu.Unlock()
	if err := do(); err != nil {
		return err
	}
	d.commit(e)
	return nil
}

func (s *FS) Remove(name string, opt ...fileops.FSOption) error {
	return s.simple(KRemove, name, func() error { return s.inner.Remove(name, opt...) })
}

func (s *FS) RemoveLocal(name string, opt ...fileops.FSOption) error {
	return s.simple(KRemove, name, func() error { return s.inner.RemoveLocal(name, opt...) })
}

func (s *FS) RemoveLocalEnabled(obsOptValid bool) bool { return s.inner.RemoveLocalEnabled(obsOptValid) }

func (s *FS) RemoveAll(path string, opt ...fileops.FSOption) error {
	return s.simple(KRemoveAll, path, func() error { return s.inner.RemoveAll(path, opt...) })
}

func (s *FS) RemoveAllWithOutDir(path string, opt ...fileops.FSOption) error {
	dirs, err := s.ReadDir(path)
	if err != nil {
		return err
	}
	for _, di := range dirs {
		if di.IsDir() {
			continue
		}
		if err := s.Remove(filepath.Join(path, di.Name())); err != nil {
			return err
		}
	}
	return nil
}

func (s *FS) Mkdir(path string, perm os.FileMode, opt ...fileops.FSOption) error {
	d, rel := s.diskOf(path)
	if d == nil {
		return s.inner.Mkdir(path, perm, opt...)
	}
	e := &Entry{Kind: KMkdir, Path: rel, Perm: perm}
	if _, err := d.begin(e); err != nil {
		return err
	}
	d.opMu.Lock()
	defer d.opMu.Unlock()
	if err := s.inner.Mkdir(path, perm, opt...); err != nil {
		return err
	}
	d.commit(e)
	return nil
}

func (s *FS) MkdirAll(path string, perm os.FileMode, opt ...fileops.FSOption) error {
	d, rel := s.diskOf(path)
	if d == nil {
		return s.inner.MkdirAll(path, perm, opt...)
	}
	exists := func() bool { st, err := os.Stat(path); return err == nil && st.IsDir() }
	if exists() {
		// the directory may have been created by an operation whose journal entry is
		// not committed yet: wait for it (opMu) before reporting success
		d.opMu.Lock()
		d.opMu.Unlock()
		if d.Dead() {
			return &os.PathError{Op: "mkdir", Path: path, Err: syscall.EIO}
		}
		return nil // no mutation
	}
	e := &Entry{Kind: KMkdir, Path: rel, Perm: perm, All: true}
	if _, err := d.begin(e); err != nil {
		return err
	}
	d.opMu.Lock()
	defer d.opMu.Unlock()
	if err := s.inner.MkdirAll(path, perm, opt...); err != nil {
		return err
	}
	d.commit(e)
	return nil
}

func (s *FS) NormalizeDirPath(path string) string { return s.inner.NormalizeDirPath(path) }

func (s *FS) ReadDir(dirname string) ([]fs.FileInfo, error) { return s.inner.ReadDir(dirname) }

func (s *FS) Glob(pattern string) ([]string, error) { return s.inner.Glob(pattern) }

func (s *FS) RenameFile(oldPath, newPath string, opt ...fileops.FSOption) error {
	d, rel := s.diskOf(oldPath)
	if d == nil {
		return s.inner.RenameFile(oldPath, newPath, opt...)
	}
	d2, rel2 := s.diskOf(newPath)
	if d2 != d {
		return fmt.Errorf("simfs: cross-disk rename %s -> %s", oldPath, newPath)
	}
	e := &Entry{Kind: KRename, Path: rel, Path2: rel2}
	if _, err := d.begin(e); err != nil {
		return err
	}
	d.opMu.Lock()
	defer d.opMu.Unlock()
	if err := s.inner.RenameFile(oldPath, newPath, opt...); err != nil {
		return err
	}
	d.commit(e)
	return nil
}

func (s *FS) Stat(name string) (os.FileInfo, error) { return s.inner.Stat(name) }

func (s *FS) WriteFile(filename string, data []byte, perm os.FileMode, opt ...fileops.FSOption) error {
	d, rel := s.diskOf(filename)
	if d == nil {
		return s.inner.WriteFile(filename, data, perm, opt...)
	}
	e := &Entry{Kind: KWriteFile, Path: rel, Data: append([]byte(nil), data...), Perm: perm}
	if _, err := d.begin(e); err != nil {
		return err
	}
	d.opMu.Lock()
	defer d.opMu.Unlock()
	if err := s.inner.WriteFile(filename, data, perm, opt...); err != nil {
		return err
	}
	d.commit(e)
	return nil
}

func (s *FS) ReadFile(filename string, opt ...fileops.FSOption) ([]byte, error) {
	return s.inner.ReadFile(filename, opt...)
}

func (s *FS) CopyFile(srcFile, dstFile string, opt ...fileops.FSOption) (int64, error) {
	b, err := s.inner.ReadFile(srcFile)
	if err != nil {
		return 0, err
	}
	f, err := s.Create(dstFile, opt...)
	if err != nil {
		return 0, err
	}
	defer f.Close()
	n, err := io.Copy(f, bytes.NewReader(b))
	return n, err
}

func (s *FS) CreateTime(name string) (*time.Time, error) { return s.inner.CreateTime(name) }

func (s *FS) Truncate(name string, size int64, opt ...fileops.FSOption) error {
	d, rel := s.diskOf(name)
	if d == nil {
		return s.inner.Truncate(name, size, opt...)
	}
	e := &Entry{Kind: KTruncate, Path: rel, Off: size}
	if _, err := d.begin(e); err != nil {
		return err
	}
	d.opMu.Lock()
	defer d.opMu.Unlock()
	if err := s.inner.Truncate(name, size, opt...); err != nil {
		return err
	}
	d.commit(e)
	return nil
}

func (s *FS) IsObsFile(path string) (bool, error) { return s.inner.IsObsFile(path) }

func (s *FS) CopyFileFromDFVToOBS(srcPath, dstPath string, opt ...fileops.FSOption) error {
	_, err := s.CopyFile(srcPath, dstPath, opt...)
	return err
}

func (s *FS) GetAllFilesSizeInPath(path string) (int64, int64, int64, error) {
	return s.inner.GetAllFilesSizeInPath(path)
}

func (s *FS) GetOBSTmpFileName(path string, o *obs.ObsOptions) string {
	return s.inner.GetOBSTmpFileName(path, o)
}

func (s *FS) GetOBSTmpIndexFileName(path string, o *obs.ObsOptions) string {
	return s.inner.GetOBSTmpIndexFileName(path, o)
}

func (s *FS) DecodeRemotePathToLocal(path string) (string, error) {
	return s.inner.DecodeRemotePathToLocal(path)
}

// RelocateTxn rewrites absolute paths stored *inside* files under a "txn"
// directory (the mergeset's rename-transaction files name their source and
// destination by absolute path).  A real restart reuses the same path; the
// simulator restarts an incarnation on a fresh path, so the old root prefixes
// are replaced by the new one.
func RelocateTxn(dir string, scratch string, newRoot string) error {
	// every incarnation / image root is a direct child of the run's scratch directory
	re := regexp.MustCompile(regexp.QuoteMeta(filepath.Clean(scratch)) + `/[^/\n ]+/`)
	return filepath.Walk(dir, func(p string, info fs.FileInfo, err error) error {
		if err != nil {
			return err
		}
		if info.IsDir() || !strings.Contains(p, "/txn/") {
			return nil
		}
		b, err := os.ReadFile(p)
		if err != nil {
			return err
		}
		nb := re.ReplaceAll(b, []byte(filepath.Clean(newRoot)+"/"))
		if !bytes.Equal(nb, b) {
			return os.WriteFile(p, nb, 0o600)
		}
		return nil
	})
}
