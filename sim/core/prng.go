// Package core holds the pieces of the deterministic simulator that are shared by
// all worlds: the PRNG every decision is drawn from, the worker protocol, the
// generic case minimiser and the replay file format.
package core

import (
	"math"
)

// Rand is a splitmix64 generator.  Every choice a run makes (operations,
// arguments, knobs, fault plan, scheduler decisions) is drawn from one Rand seeded
// from VERIF_SEED; logging never draws.
type Rand struct{ s uint64 }

func NewRand(seed uint64) *Rand { return &Rand{s: seed} }

func Mix(a, b uint64) uint64 {
	z := a + 0x9e3779b97f4a7c15*(b+1)
	z = (z ^ (z >> 30)) * 0xbf58476d1ce4e5b9
	z = (z ^ (z >> 27)) * 0x94d049bb133111eb
	return z ^ (z >> 31)
}

func (r *Rand) Uint64() uint64 {
	r.s += 0x9e3779b97f4a7c15
	z := r.s
	z = (z ^ (z >> 30)) * 0xbf58476d1ce4e5b9
	z = (z ^ (z >> 27)) * 0x94d049bb133111eb
	return z ^ (z >> 31)
}

// Split derives an independent stream; the parent advances by one draw.
func (r *Rand) Split() *Rand { return &Rand{s: Mix(r.Uint64(), 0x5151)} }

func (r *Rand) Intn(n int) int {
	if n <= 0 {
		return 0
	}
	return int(r.Uint64() % uint64(n))
}

func (r *Rand) Int63n(n int64) int64 {
	if n <= 0 {
		return 0
	}
	return int64(r.Uint64() % uint64(n))
}

// Range returns a value in [lo,hi].
func (r *Rand) Range(lo, hi int) int {
	if hi <= lo {
		return lo
	}
	return lo + r.Intn(hi-lo+1)
}

func (r *Rand) Float64() float64 { return float64(r.Uint64()>>11) / float64(uint64(1)<<53) }

func (r *Rand) Bool(p float64) bool { return r.Float64() < p }

func (r *Rand) Perm(n int) []int {
	p := make([]int, n)
	for i := range p {
		p[i] = i
	}
	for i := n - 1; i > 0; i-- {
		j := r.Intn(i + 1)
		p[i], p[j] = p[j], p[i]
	}
	return p
}

// Weighted picks an index with probability proportional to w[i].
func (r *Rand) Weighted(w []int) int {
	t := 0
	for _, x := range w {
		t += x
	}
	if t <= 0 {
		return 0
	}
	k := r.Intn(t)
	for i, x := range w {
		if k < x {
			return i
		}
		k -= x
	}
	return len(w) - 1
}

func Pick[T any](r *Rand, xs []T) T { return xs[r.Intn(len(xs))] }

// Sample returns k distinct indexes of [0,n) in increasing order.
func (r *Rand) Sample(n, k int) []int {
	if k >= n {
		out := make([]int, n)
		for i := range out {
			out[i] = i
		}
		return out
	}
	p := r.Perm(n)[:k]
	// insertion sort, k is small
	for i := 1; i < len(p); i++ {
		for j := i; j > 0 && p[j-1] > p[j]; j-- {
			p[j-1], p[j] = p[j], p[j-1]
		}
	}
	return p
}

func (r *Rand) NormFloat() float64 {
	u1 := r.Float64()
	if u1 < 1e-300 {
		u1 = 1e-300
	}
	return math.Sqrt(-2*math.Log(u1)) * math.Cos(2*math.Pi*r.Float64())
}
