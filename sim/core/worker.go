package core

import (
	"bufio"
	"crypto/sha256"
	"encoding/hex"
	"encoding/json"
	"fmt"
	"os"
	"path/filepath"
	"runtime"
	"runtime/debug"
	"sort"
	"strconv"
	"strings"
	"sync"
	"time"
)

// Violation describes one disagreement between the system and its oracle.
// Kind is the violation class: it is what minimisation preserves and what
// known-finding matchers look at.  Attrs carries matcher attributes (operation
// kind, read shape, ...).
type Violation struct {
	Property string            `json:"property"`
	Kind     string            `json:"kind"`
	Detail   string            `json:"detail"`
	Attrs    map[string]string `json:"attrs,omitempty"`
}

func (v *Violation) String() string {
	if v == nil {
		return "<none>"
	}
	return fmt.Sprintf("%s/%s: %s", v.Property, v.Kind, v.Detail)
}

// Outcome is what one execution of one case reports.
type Outcome struct {
	Violation  *Violation       `json:"violation,omitempty"`
	Stats      map[string]int64 `json:"stats,omitempty"`  // counters (ops, crash_states, reads, ...)
	Faults     map[string]int64 `json:"faults,omitempty"` // faults that actually fired
	Probes     map[string]int64 `json:"probes,omitempty"` // rare-branch probes that were hit
	Digest     string           `json:"digest,omitempty"` // digest of the explored history (distinctness)
	Nontrivial bool             `json:"nontrivial"`
	Layouts    []string         `json:"layouts,omitempty"` // distinct layout / state hashes reached
	SimTimeNs  int64            `json:"sim_time_ns,omitempty"`
	APILog     []string         `json:"-"` // API-level event log; hashed into APIDigest
	APIDigest  string           `json:"api_digest,omitempty"`
	Infra      string           `json:"infra,omitempty"` // harness trouble (exit 2), never a violation
	Known      map[string]int64 `json:"known,omitempty"` // listed findings met (and stepped over) inside the run
}

func NewOutcome() *Outcome {
	return &Outcome{Stats: map[string]int64{}, Faults: map[string]int64{}, Probes: map[string]int64{}}
}

func (o *Outcome) Log(format string, a ...interface{}) {
	o.APILog = append(o.APILog, fmt.Sprintf(format, a...))
}

func (o *Outcome) Finish() {
	h := sha256.New()
	for _, l := range o.APILog {
		h.Write([]byte(l))
		h.Write([]byte{'\n'})
	}
	o.APIDigest = hex.EncodeToString(h.Sum(nil))[:16]
}

func (o *Outcome) AddLayout(s string) {
	for _, x := range o.Layouts {
		if x == s {
			return
		}
	}
	o.Layouts = append(o.Layouts, s)
}

// Env is what a world gets from the worker for one execution.
type Env struct {
	Property string
	Tier     string
	Scratch  string // a fresh empty directory for this execution; removed afterwards
	Replay   bool   // executing a replay file / a minimisation candidate
	Deadline time.Time
	Extra    map[string]string
	known    []KnownFinding
}

// KnownID returns the id of a listed finding whose matcher (property, kind,
// attributes; findings that need a differential neutraliser are excluded) covers
// v, so that an enumeration can step over it and keep looking for other
// violations.  The hit is counted in the outcome.
func (e *Env) KnownID(v *Violation, out *Outcome) string {
	if os.Getenv("VERIF_COLLECT") != "" {
		// triage aid: step over everything and list the distinct classes
		if out.Known == nil {
			out.Known = map[string]int64{}
		}
		key := "collect:" + v.Kind
		for _, k := range SortedKeys(v.Attrs) {
			key += " " + k + "=" + v.Attrs[k]
		}
		if os.Getenv("VERIF_COLLECT") == "detail" {
			d := v.Detail
			if len(d) > 700 {
				d = d[:700]
			}
			key += " DETAIL " + d
		}
		out.Known[key]++
		return key
	}
	for _, k := range e.known {
		if k.Neutraliser != "" || k.Kind != v.Kind || !attrsMatch(k.Attrs, v.Attrs) {
			continue
		}
		if k.Property != v.Property && v.Property != "" {
			continue
		}
		if out.Known == nil {
			out.Known = map[string]int64{}
		}
		out.Known[k.ID]++
		return k.ID
	}
	return ""
}

// World is implemented once per simulated world, C being its case type
// (JSON-serialisable: seed-independent once generated).
type World[C any] interface {
	Name() string
	// Gen draws a complete case (knobs, operations, fault plan) from r.
	Gen(r *Rand, env *Env) C
	// Exec runs the case against the real code and its oracle.
	Exec(c C, env *Env) *Outcome
	// NumOps / Subset support delta debugging over the operation list.
	NumOps(c C) int
	Subset(c C, keep []int) C
	// Simplify proposes one-step simplifications other than dropping operations.
	Simplify(c C) []C
	// Neutralise returns the case with the named trigger removed (known-finding
	// differential matcher); ok=false if the neutraliser does not apply.
	Neutralise(c C, name string) (C, bool)
	// Components lists which parts ran real code and which were stubbed.
	Components() (real []string, stub []string)
}

// Pinner is optionally implemented by a world: Pin returns the case restricted
// to the exact fault point recorded in the violation (so that a replay checks
// that point first instead of re-enumerating).
type Pinner[C any] interface {
	Pin(c C, v *Violation) (C, bool)
}

// KnownFinding is one entry of /verif/known_findings.json.
type KnownFinding struct {
	ID          string            `json:"id"`
	Status      string            `json:"status"` // "known" | "fixed"
	Property    string            `json:"property"`
	Kind        string            `json:"kind"`
	Attrs       map[string]string `json:"attrs,omitempty"` // every listed attr must match (prefix match if value ends with '*')
	Neutraliser string            `json:"neutraliser,omitempty"`
	What        string            `json:"what"`
	Commit      string            `json:"commit,omitempty"`
}

type knownFile struct {
	Findings []KnownFinding `json:"findings"`
}

func loadKnown(path string) []KnownFinding {
	if path == "" {
		return nil
	}
	b, err := os.ReadFile(path)
	if err != nil {
		return nil
	}
	var kf knownFile
	if err := json.Unmarshal(b, &kf); err != nil {
		panic("known_findings.json unreadable: " + err.Error())
	}
	var out []KnownFinding
	for _, f := range kf.Findings {
		if f.Status == "known" {
			out = append(out, f)
		}
	}
	return out
}

func attrsMatch(want, have map[string]string) bool {
	for k, v := range want {
		h, ok := have[k]
		if !ok {
			return false
		}
		if strings.HasSuffix(v, "*") {
			if !strings.HasPrefix(h, strings.TrimSuffix(v, "*")) {
				return false
			}
		} else if h != v {
			return false
		}
	}
	return true
}

// ReplayFile is the on-disk replay format.
type ReplayFile struct {
	Property     string          `json:"property"`
	World        string          `json:"world"`
	Seed         uint64          `json:"seed"`
	Run          int             `json:"run"`
	Tier         string          `json:"tier"`
	Case         json.RawMessage `json:"case"`
	Violation    *Violation      `json:"violation"`
	Minimisation map[string]int  `json:"minimisation,omitempty"`
	Known        string          `json:"known,omitempty"`
	Note         string          `json:"note,omitempty"`
}

// line is one JSONL record written by a worker.
type line struct {
	Type      string     `json:"type"` // start | run | violation | done | replay | det
	Run       int        `json:"run"`
	Seed      uint64     `json:"seed"`
	Outcome   *Outcome   `json:"outcome,omitempty"`
	Violation *Violation `json:"violation,omitempty"`
	Replay    string     `json:"replay,omitempty"`
	Known     string     `json:"known,omitempty"`
	Sample    any        `json:"sample,omitempty"`
	Msg       string     `json:"msg,omitempty"`
	ExecMs    int64      `json:"exec_ms,omitempty"`
	Reproduce bool       `json:"reproduced,omitempty"`
}

type emitter struct {
	mu sync.Mutex
	w  *bufio.Writer
	f  *os.File
}

func (e *emitter) emit(l *line) {
	e.mu.Lock()
	defer e.mu.Unlock()
	b, err := json.Marshal(l)
	if err != nil {
		panic(err)
	}
	e.w.Write(b)
	e.w.WriteByte('\n')
	e.w.Flush()
}

func envInt(name string, def int) int {
	if s := os.Getenv(name); s != "" {
		if v, err := strconv.Atoi(s); err == nil {
			return v
		}
	}
	return def
}

func envU64(name string, def uint64) uint64 {
	if s := os.Getenv(name); s != "" {
		if v, err := strconv.ParseUint(s, 10, 64); err == nil {
			return v
		}
		if v, err := strconv.ParseInt(s, 10, 64); err == nil {
			return uint64(v)
		}
	}
	return def
}

// safeExec runs Exec and turns a panic on the calling goroutine into a violation
// of kind "panic" (panics on other goroutines kill the process; the orchestrator
// handles that by isolated re-execution).
func safeExec[C any](w World[C], c C, env *Env) (out *Outcome) {
	// watchdog: an execution that does not end is a hang of the code under test or
	// of the harness; dump every goroutine and let the orchestrator re-run the seed
	// alone (a hang that reproduces is reported, one that does not is recorded).
	limit := time.Duration(envInt("VERIF_RUN_TIMEOUT_S", 150)) * time.Second
	doneCh := make(chan struct{})
	defer close(doneCh)
	go func() {
		select {
		case <-doneCh:
		case <-time.After(limit):
			buf := make([]byte, 4<<20)
			n := runtime.Stack(buf, true)
			fmt.Fprintf(os.Stderr, "\nVERIF-WATCHDOG: execution exceeded %v; goroutine dump follows\n%s\n", limit, buf[:n])
			os.Exit(3)
		}
	}()
	defer func() {
		if r := recover(); r != nil {
			st := string(debug.Stack())
			out = NewOutcome()
			if ip, ok := r.(InfraPanic); ok {
				out.Infra = string(ip)
				return
			}
			out.Violation = &Violation{Property: env.Property, Kind: "panic",
				Detail: fmt.Sprintf("panic: %v\n%s", r, trimStack(st)),
				Attrs:  map[string]string{"frames": innerFrames(st)}}
		}
	}()
	out = w.Exec(c, env)
	if out.Violation != nil && out.Violation.Property == "" {
		out.Violation.Property = env.Property
	}
	out.Finish()
	return out
}

// InfraPanic is panicked by harness code for harness trouble (never a violation).
type InfraPanic string

func trimStack(st string) string {
	ls := strings.Split(st, "\n")
	if len(ls) > 60 {
		ls = ls[:60]
	}
	return strings.Join(ls, "\n")
}

// innerFrames returns the innermost repo function names of a stack (matcher key).
func innerFrames(st string) string {
	var fr []string
	for _, l := range strings.Split(st, "\n") {
		if strings.HasPrefix(l, "github.com/openGemini/openGemini/") && !strings.Contains(l, "verifsim") && !strings.Contains(l, "zz_verif") {
			f := strings.TrimPrefix(l, "github.com/openGemini/openGemini/")
			if i := strings.LastIndex(f, "("); i > 0 {
				f = f[:i]
			}
			if strings.Contains(f, "Verif") || strings.Contains(f, "verif") {
				continue
			}
			fr = append(fr, f)
			if len(fr) == 3 {
				break
			}
		}
	}
	return strings.Join(fr, "<")
}

var scratchSeq int

// freshScratch returns a directory whose path was never used before in this
// process: the code under test keeps process-global caches keyed by file path.
func freshScratch(base string, tag string) string {
	scratchSeq++
	d := filepath.Join(base, fmt.Sprintf("%s-%d", tag, scratchSeq))
	_ = os.RemoveAll(d)
	if err := os.MkdirAll(d, 0o755); err != nil {
		panic(err)
	}
	return d
}

// RunWorker is the entry point of every world's TestVerifWorld… function.
func RunWorker[C any](w World[C]) {
	mode := os.Getenv("VERIF_MODE")
	if mode == "" {
		fmt.Println("verif worker: VERIF_MODE not set; nothing to do")
		return
	}
	prop := os.Getenv("VERIF_PROP")
	tier := os.Getenv("VERIF_TIER")
	if tier == "" {
		tier = "quick"
	}
	root := envU64("VERIF_SEED", 1)
	wi := envInt("VERIF_WORKER", 0)
	nw := envInt("VERIF_NWORKERS", 1)
	runs := envInt("VERIF_RUNS", 1)
	budget := time.Duration(envInt("VERIF_BUDGET_S", 600)) * time.Second
	minBudget := time.Duration(envInt("VERIF_MIN_BUDGET_S", 90)) * time.Second
	maxViol := envInt("VERIF_MAX_VIOLATIONS", 2)
	only := envInt("VERIF_ONLY_RUN", -1)
	samples := envInt("VERIF_SAMPLES", 1)
	scratchBase := os.Getenv("VERIF_SCRATCH")
	if scratchBase == "" {
		scratchBase = filepath.Join(os.TempDir(), fmt.Sprintf("vsim-%d", os.Getpid()))
	}
	scratchBase = filepath.Join(scratchBase, fmt.Sprintf("w%d", wi))
	_ = os.MkdirAll(scratchBase, 0o755)
	defer os.RemoveAll(scratchBase)
	replayDir := os.Getenv("VERIF_REPLAY_DIR")
	if replayDir == "" {
		replayDir = "/verif/replays"
	}
	_ = os.MkdirAll(replayDir, 0o755)
	known := loadKnown(os.Getenv("VERIF_KNOWN"))

	outPath := os.Getenv("VERIF_OUT")
	var f *os.File
	var err error
	if outPath == "" {
		f = os.Stdout
	} else {
		f, err = os.OpenFile(outPath, os.O_CREATE|os.O_WRONLY|os.O_APPEND, 0o644)
		if err != nil {
			panic(err)
		}
		defer f.Close()
	}
	em := &emitter{w: bufio.NewWriter(f), f: f}
	start := time.Now()
	deadline := start.Add(budget)
	mkEnv := func(tag string, replay bool) *Env {
		return &Env{Property: prop, Tier: tier, Scratch: freshScratch(scratchBase, tag), Replay: replay, Deadline: deadline, Extra: map[string]string{}, known: known}
	}
	done := func(env *Env) { _ = os.RemoveAll(env.Scratch) }

	switch mode {
	case "replay":
		path := os.Getenv("VERIF_REPLAY")
		b, err := os.ReadFile(path)
		if err != nil {
			panic(InfraPanic("cannot read replay file: " + err.Error()))
		}
		var rf ReplayFile
		if err := json.Unmarshal(b, &rf); err != nil {
			panic(err)
		}
		var c C
		if err := json.Unmarshal(rf.Case, &c); err != nil {
			panic(err)
		}
		if prop == "" {
			prop = rf.Property
		}
		// a replay steps over listed findings other than the one it is about
		var others []KnownFinding
		for _, k := range known {
			if rf.Violation != nil && k.Kind == rf.Violation.Kind && attrsMatch(k.Attrs, rf.Violation.Attrs) {
				continue
			}
			others = append(others, k)
		}
		known = others
		attempts := envInt("VERIF_REPLAY_ATTEMPTS", 4)
		var out *Outcome
		rep := false
		for a := 0; a < attempts && !rep; a++ {
			env := mkEnv(fmt.Sprintf("replay%d", a), true)
			env.Property = rf.Property
			// later attempts trust the recorded fault point less and less
			if a == 1 {
				env.Extra["unpin"] = "inner"
			} else if a > 1 {
				env.Extra["unpin"] = "all"
			}
			out = safeExec(w, c, env)
			done(env)
			rep = out.Violation != nil && rf.Violation != nil && out.Violation.Kind == rf.Violation.Kind
		}
		em.emit(&line{Type: "replay", Seed: rf.Seed, Run: rf.Run, Outcome: out, Violation: out.Violation, Replay: path, Reproduce: rep})
		em.emit(&line{Type: "done"})
		return
	case "search", "det":
	default:
		panic("unknown VERIF_MODE " + mode)
	}

	nviol := 0
	nsamples := 0
	for i := wi; i < runs; i += nw {
		if only >= 0 && i != only {
			continue
		}
		if time.Now().After(deadline) {
			em.emit(&line{Type: "budget", Run: i, Msg: "wall-clock budget reached"})
			break
		}
		seed := Mix(root, uint64(i))
		genEnv := &Env{Property: prop, Tier: tier, Extra: map[string]string{}}
		c := w.Gen(NewRand(seed), genEnv)
		em.emit(&line{Type: "start", Run: i, Seed: seed})
		env := mkEnv(fmt.Sprintf("run%d", i), false)
		t0 := time.Now()
		out := safeExec(w, c, env)
		done(env)
		l := &line{Type: "run", Run: i, Seed: seed, Outcome: out, ExecMs: time.Since(t0).Milliseconds()}
		if nsamples < samples && (out.Violation == nil || i >= 8) {
			l.Sample = c
			nsamples++
		}
		em.emit(l)
		if d := os.Getenv("VERIF_DUMP_LOG"); d != "" {
			// diagnostics for the determinism self-test: the API-level log of every run, one file per run
			_ = os.MkdirAll(d, 0o755)
			_ = os.WriteFile(filepath.Join(d, fmt.Sprintf("run%d.log", i)), []byte(strings.Join(out.APILog, "\n")+"\n"), 0o644)
		}
		if mode == "det" || out.Violation == nil || out.Infra != "" {
			continue
		}
		// --- violation: classify, minimise, write replay file ---
		v := out.Violation
		knownID := ""
		matchKnown := func(cc C, vv *Violation) string {
			for _, k := range known {
				if k.Property != vv.Property || k.Kind != vv.Kind || !attrsMatch(k.Attrs, vv.Attrs) {
					continue
				}
				if k.Neutraliser == "" {
					return k.ID
				}
				nc, ok := w.Neutralise(cc, k.Neutraliser)
				if !ok {
					continue
				}
				env := mkEnv("neutral", true)
				o2 := safeExec(w, nc, env)
				done(env)
				if o2.Violation == nil {
					return k.ID
				}
				if o2.Violation.Kind != vv.Kind {
					// the neutralised history shows something else: report that instead
					em.emit(&line{Type: "note", Run: i, Seed: seed, Msg: "neutralised case shows a different violation: " + o2.Violation.String()})
				}
			}
			return ""
		}
		knownID = matchKnown(c, v)
		minC := c
		minV := v
		minStats := map[string]int{"orig_ops": w.NumOps(c)}
		if knownID == "" {
			mdl := time.Now().Add(minBudget)
			execs := 0
			test := func(cc C) *Violation {
				if time.Now().After(mdl) {
					return nil
				}
				execs++
				env := mkEnv("min", true)
				o := safeExec(w, cc, env)
				done(env)
				if o.Violation != nil && o.Violation.Kind == v.Kind && o.Violation.Property == v.Property {
					return o.Violation
				}
				return nil
			}
			minC, minV = Minimise(w, c, v, test)
			if pw, ok := any(w).(Pinner[C]); ok {
				if pc, ok2 := pw.Pin(minC, minV); ok2 {
					mdl = time.Now().Add(20 * time.Second)
					if vv := test(pc); vv != nil {
						minC, minV = pc, vv
						minStats["pinned"] = 1
					}
				}
			}
			minStats["final_ops"] = w.NumOps(minC)
			minStats["execs"] = execs
			// a minimised case may match a known finding more clearly
			knownID = matchKnown(minC, minV)
		}
		cj, _ := json.Marshal(minC)
		h := sha256.Sum256(cj)
		rp := filepath.Join(replayDir, fmt.Sprintf("%s-%d-%s.json", v.Property, seed, hex.EncodeToString(h[:])[:8]))
		rf := &ReplayFile{Property: v.Property, World: w.Name(), Seed: seed, Run: i, Tier: tier, Case: cj, Violation: minV, Minimisation: minStats, Known: knownID}
		rb, _ := json.MarshalIndent(rf, "", " ")
		if knownID == "" { // hits of listed findings are counted, not written out again
			if err := os.WriteFile(rp, rb, 0o644); err != nil {
				panic(err)
			}
		}
		em.emit(&line{Type: "violation", Run: i, Seed: seed, Violation: minV, Replay: rp, Known: knownID})
		if knownID == "" {
			nviol++
			if nviol >= maxViol {
				break
			}
		}
	}
	em.emit(&line{Type: "done", Msg: fmt.Sprintf("wall=%.1fs", time.Since(start).Seconds())})
}

// Minimise: delta debugging over operations, then one-step simplifications, to a
// fixed point.  test returns the violation if the candidate still fails in the
// same class, nil otherwise.
func Minimise[C any](w World[C], c C, v *Violation, test func(C) *Violation) (C, *Violation) {
	cur, curV := c, v
	for round := 0; round < 6; round++ {
		progress := false
		// ddmin over ops
		n := w.NumOps(cur)
		idx := make([]int, n)
		for i := range idx {
			idx[i] = i
		}
		gran := 2
		for len(idx) >= 1 && gran <= len(idx)*2 {
			chunk := (len(idx) + gran - 1) / gran
			if chunk < 1 {
				chunk = 1
			}
			reduced := false
			for s := 0; s < len(idx); s += chunk {
				e := s + chunk
				if e > len(idx) {
					e = len(idx)
				}
				keep := append(append([]int{}, idx[:s]...), idx[e:]...)
				if len(keep) == len(idx) {
					continue
				}
				cand := w.Subset(cur, keep)
				if vv := test(cand); vv != nil {
					cur, curV = cand, vv
					// indexes are renumbered by Subset
					idx = make([]int, len(keep))
					for i := range idx {
						idx[i] = i
					}
					reduced, progress = true, true
					if gran > 2 {
						gran--
					}
					break
				}
			}
			if !reduced {
				if chunk == 1 {
					break
				}
				gran *= 2
			}
		}
		// one-step simplifications
		for again := true; again; {
			again = false
			for _, cand := range w.Simplify(cur) {
				if vv := test(cand); vv != nil {
					cur, curV = cand, vv
					again, progress = true, true
					break
				}
			}
		}
		if !progress {
			break
		}
	}
	return cur, curV
}

// DigestStrings hashes a list of strings (order-sensitive).
func DigestStrings(xs []string) string {
	h := sha256.New()
	for _, x := range xs {
		h.Write([]byte(x))
		h.Write([]byte{0})
	}
	return hex.EncodeToString(h.Sum(nil))[:16]
}

func SortedKeys[V any](m map[string]V) []string {
	ks := make([]string, 0, len(m))
	for k := range m {
		ks = append(ks, k)
	}
	sort.Strings(ks)
	return ks
}
