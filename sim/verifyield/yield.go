// Package verifyield is the lock-level yield seam of world C.  It exists only in
// /verif's build overlay: `tools/yieldins` rewrites copies of selected engine source
// files so that every plain `X.Lock()` / `X.RLock()` statement is preceded, and every
// plain `X.Unlock()` / `X.RUnlock()` statement followed, by Point(site) (reference-count
// helpers are preceded by one too).  With no hook installed a Point is one atomic load.
package verifyield

import (
	"cmp"
	"iter"
	"slices"
	"sync/atomic"
)

var hook atomic.Pointer[func(site string)]

// SetHook installs (or, with nil, removes) the function every Point calls.
func SetHook(h func(site string)) {
	if h == nil {
		hook.Store(nil)
		return
	}
	hook.Store(&h)
}

// Point is a potential scheduling point.  site = "<file>:<Func>:<Kind>#<k>".
func Point(site string) {
	if h := hook.Load(); h != nil {
		(*h)(site)
	}
}

var mapOrder atomic.Uint64

// SetMapOrder chooses the iteration order of the maps ranged through Sorted: 0 =
// ascending keys; otherwise the ascending order rotated by (seed>>1) mod n, reversed if
// seed is odd.
func SetMapOrder(seed uint64) { mapOrder.Store(seed) }

// Sorted iterates over a snapshot of the keys of m in the order chosen by SetMapOrder
// (entries deleted meanwhile are skipped, entries added meanwhile are not visited — both
// allowed for a range over a map).
func Sorted[M ~map[K]V, K cmp.Ordered, V any](m M) iter.Seq2[K, V] {
	return func(yield func(K, V) bool) {
		n := len(m)
		if n == 0 {
			return
		}
		keys := make([]K, 0, n)
		for k := range m {
			keys = append(keys, k)
		}
		slices.Sort(keys)
		if seed := mapOrder.Load(); seed != 0 && len(keys) > 1 {
			if seed&1 == 1 {
				slices.Reverse(keys)
			}
			r := int((seed >> 1) % uint64(len(keys)))
			keys = append(keys[r:len(keys):len(keys)], keys[:r]...)
		}
		for _, k := range keys {
			v, ok := m[k]
			if !ok {
				continue
			}
			if !yield(k, v) {
				return
			}
		}
	}
}
