package tsi

// Demo for /verif/notes/triage-C13-stale.md (C13, kind crash_stale_value / undropped_data_lost).
//
// A series that was dropped by DROP SERIES and written again owns TWO key->id items in the index:
// the dropped id (kept until the hourly purge task) and the live one.  getSeriesIdBySeriesKey only
// looks at the FIRST item (indexSearch.getTSIDBySeriesKey), finds the dropped id, and answers
// "no such series" - so every write whose lookup misses the key->id cache (after any restart with the
// default index-read-cache-persistent=false, after a kill, after cache expiry) creates yet another
// series id for the same key.  The rows of one series are then split over several ids; reads that merge
// by tags return stale / partial rows for timestamps that exist under both ids.
//
// Run (cwd /repo, or a worktree):
//   export GOFLAGS=-mod=mod GOPROXY=off
//   cp /verif/notes/triage-C13-stale-demo/zz_triage_c13_recreated_series_test.go engine/index/tsi/   (or use -overlay)
//   go test ./engine/index/tsi/ -run TestTriageC13 -count=1

import (
	"sort"
	"testing"

	"github.com/openGemini/openGemini/lib/config"
	"github.com/openGemini/openGemini/lib/syscontrol"
	"github.com/openGemini/openGemini/lib/util/lifted/influx/influxql"
	"github.com/openGemini/openGemini/lib/util/lifted/vm/protoparser/influx"
)

func triageRow(name string, kv ...string) *influx.Row {
	pt := &influx.Row{Name: name}
	for i := 0; i+1 < len(kv); i += 2 {
		pt.Tags = append(pt.Tags, influx.Tag{Key: kv[i], Value: kv[i+1]})
	}
	sort.Sort(&pt.Tags)
	pt.Timestamp = 1
	pt.UnmarshalIndexKeys(nil)
	pt.ShardKey = pt.IndexKey
	return pt
}

func triageC13(t *testing.T, coldCache func(ms *MergeSetIndex)) {
	idx, idxBuilder := getTestIndexAndBuilder(t.TempDir(), config.TSSTORE)
	defer idxBuilder.Close()
	ms := idx.(*MergeSetIndex)
	idx1, idxBuilder1 := getTestIndexAndBuilder(t.TempDir(), config.TSSTORE)
	defer idxBuilder1.Close()
	ms.SetDeleteMergeSet(idx1.(*MergeSetIndex))
	if err := ms.DeleteMergeSet().LoadDeletedTSIDs(); err != nil {
		t.Fatal(err)
	}

	write := func() uint64 { // what a write of one point of the series does with the index
		id, err := ms.CreateIndexIfNotExistsByRow(triageRow("mst1_0000", "host", "h0", "region", "r0"))
		if err != nil || id == 0 {
			t.Fatalf("CreateIndexIfNotExistsByRow: id=%d err=%v", id, err)
		}
		ms.DebugFlush() // the index's one-second flusher
		return id
	}

	a := write()
	if again := write(); again != a {
		t.Fatalf("before any drop: the series has id %d, a second write got %d", a, again)
	}
	// DROP SERIES FROM mst1 WHERE host = 'h0'
	if err := idx.DeleteTSIDs([]byte("mst1_0000"), influxql.MustParseExpr(`host='h0'`), defaultTR); err != nil {
		t.Fatal(err)
	}
	ms.DeleteMergeSet().DebugFlush()
	b := write() // the client writes the series again: a new id, as designed
	if b == a {
		t.Fatalf("the write after the drop re-used the dropped id %d", a)
	}
	if again := write(); again != b {
		t.Fatalf("warm cache: the re-created series has id %d, the next write got %d", b, again)
	}

	coldCache(ms)

	if c := write(); c != b {
		t.Fatalf("the re-created series has id %d (dropped id %d); after the key->id cache went cold the next write of the SAME series key got a third id %d: "+
			"its rows are now split over two live series ids", b, a, c)
	}
}

// restart of ts-store with the default configuration (lib/config/store.go: IndexReadCachePersistent=false,
// pushed into syscontrol by app/ts-store/run/server.go): the key->id cache starts empty.
func TestTriageC13_RecreatedSeriesGetsThirdIdAfterRestart(t *testing.T) {
	old := syscontrol.IsIndexReadCachePersistent()
	syscontrol.SetIndexReadCachePersistent(false)
	defer syscontrol.SetIndexReadCachePersistent(old)
	triageC13(t, func(ms *MergeSetIndex) {
		if err := ms.Close(); err != nil {
			t.Fatal(err)
		}
		if err := ms.Open(); err != nil {
			t.Fatal(err)
		}
	})
}

// no restart at all: the entry left the cache (workingsetcache expiry after an idle hour, eviction,
// EngineImpl.ClearIndexCache).
func TestTriageC13_RecreatedSeriesGetsThirdIdAfterCacheClear(t *testing.T) {
	triageC13(t, func(ms *MergeSetIndex) {
		if err := ms.ClearCache(); err != nil {
			t.Fatal(err)
		}
	})
}
