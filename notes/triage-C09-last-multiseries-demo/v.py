from drive import post, query, slot, T0
def pt(mst, tags, t, tagv):
    return '%s,%s fb=%s,ff=%s,fi=%di,fs="%s-t%d" %d' % (mst, tags, "true" if t % 2 == 0 else "false", t + 0.5, t, tagv, t, (T0 + t) * 10**9)
L = []
# measurement v (last): s0 t0..t7 | t20..t22 ; s2 t10
for t in list(range(0, 8)) + [20, 21, 22]:
    L.append(pt("v", "host=h0,region=r0", t, "s0"))
L.append(pt("v", "host=h0", 10, "s2"))
# measurement u (first): s0 t0..t7 | t12..t19 ; s2 t10
for t in list(range(0, 8)) + list(range(12, 20)):
    L.append(pt("u", "host=h0,region=r0", t, "s0"))
L.append(pt("u", "host=h0", 10, "s2"))
print(post("/write?db=db0", "\n".join(L).encode()))
print(post("/debug/ctrl?mod=flush"))
