import sys
from drive import query, slot
lo, hi = int(sys.argv[1]), int(sys.argv[2])
for q in sys.argv[3:]:
    qq = q.replace("$R", "time >= %ds and time <= %ds" % (slot(lo), slot(hi)))
    print("Q:", qq); print("A:", query(qq)); print()
