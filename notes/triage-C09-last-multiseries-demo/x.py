from drive import post, query, slot, T0
import urllib.parse, sys
print(post("/query?" + urllib.parse.urlencode({"q": "create database db0"})))
def pt(mst, tags, t, tagv):
    return '%s,%s fi=%di,fs="%s-t%d" %d' % (mst, tags, t, tagv, t, (T0 + t) * 10**9)
# ONE series: t0..t999 (segment 0) and t2000..t2999 (segment 1, full, null-free) flushed to an ordered file;
# then a late point at t1500 (stays in the memtable; after another flush it is in an out-of-order file)
L = [pt("x", "host=h0", t, "s0") for t in list(range(0, 1000)) + list(range(2000, 3000))]
print(post("/write?db=db0", "\n".join(L).encode()))
print(post("/debug/ctrl?mod=flush"))
print(post("/write?db=db0", pt("x", "host=h0", 1500, "late").encode()))
