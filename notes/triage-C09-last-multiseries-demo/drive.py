import json, sys, urllib.request, urllib.parse
BASE = "http://127.0.0.1:18086"
T0 = 1609459200
def post(path, data=b""):
    req = urllib.request.Request(BASE + path, data=data, method="POST")
    try:
        with urllib.request.urlopen(req) as r:
            return r.status, r.read().decode()
    except urllib.error.HTTPError as e:
        return e.code, e.read().decode()
def query(q, db="db0"):
    url = BASE + "/query?" + urllib.parse.urlencode({"db": db, "q": q, "epoch": "s"})
    with urllib.request.urlopen(url) as r:
        return r.read().decode().strip()
SER = {0: "host=h0,region=r0", 1: "host=h1,region=r0", 2: "host=h0", 3: "host=h1", 4: "host=h0,region=r4"}
def line(mst, w, row):
    s, t, f = row["s"], row["t"], row["f"]
    cell = s * 1000 + t
    fl = []
    if f & 1: fl.append("fb=%s" % ("true" if t % 2 == 0 else "false"))
    if f & 2: fl.append("ff=%s" % ((w * 1000000 + cell) / 8.0))
    if f & 4: fl.append("fi=%di" % (w * 1000000 + cell))
    if f & 8: fl.append('fs="w%d.c%d"' % (w, cell))
    return "%s,%s %s %d" % (mst, SER[s], ",".join(fl), (T0 + t) * 10**9)
def slot(k): return T0 + k
if __name__ == "__main__":
    case = json.load(open(sys.argv[1]))["case"]
    mst = sys.argv[2]
    flush_before_last = True
    print(post("/query?" + urllib.parse.urlencode({"q": "create database db0"})))
    ops = case["ops"]
    lastw = max(i for i, o in enumerate(ops) if o["k"] == "w")
    for i, o in enumerate(ops):
        if o["k"] != "w":
            continue
        if i == lastw:
            print("flush:", post("/debug/ctrl?mod=flush"))
        body = "\n".join(line(mst, o["id"], r) for r in o["rows"]).encode()
        st, txt = post("/write?db=db0", body)
        print("write id", o["id"], len(o["rows"]), "rows ->", st, txt)
