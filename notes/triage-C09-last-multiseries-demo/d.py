from drive import post, query, slot, T0
import urllib.parse
print(post("/query?" + urllib.parse.urlencode({"q": "create database db0"})))
def pt(mst, tags, t, tagv):
    return '%s,%s fi=%di,fs="%s-t%d" %d' % (mst, tags, t, tagv, t, (T0 + t) * 10**9)
L = []
# s0: 1000 rows t0..t999 (segment 0), then t2000..t2099 (segment 1); s2: one row at t1500
for t in list(range(0, 1000)) + list(range(2000, 2100)):
    L.append(pt("d", "host=h0,region=r0", t, "s0"))
L.append(pt("d", "host=h0", 1500, "s2"))
print(post("/write?db=db0", "\n".join(L).encode()))
print(post("/debug/ctrl?mod=flush"))
