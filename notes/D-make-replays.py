import json,subprocess,os,shutil,sys
BASE={"prop":"C13","knobs":{"parts":1,"seg_rows":1000,"seg_limit":65535,"min_group":2,"mut_limit":31457280,"replay_par":False,"file_cursor":True,"chunk_size":1024,"max_parallel":1},
 "ndb":1,"nrp":1,"nmst":1,"nseries":6,"npt":1,"ngroups":1,"idx_per_group":False,"distinct_seq":True,"desc":False,"ops":[],"crash":False,"per_class":1,"crash_window":2,"read_seed":7,"only_inc":0,"only_k":-1,"only_torn":-1}
def w(i,rows,db=0,rp=0): return {"k":"w","id":i,"db":db,"rp":rp,"rows":[{"m":m,"s":s,"t":t,"f":f} for (m,s,t,f) in rows]}
def drops(cond,rp=0,m=0,db=0): return {"k":"drops","db":db,"rp":rp,"m":m,"cond":cond}
CASES={
 "C13-drop-series-index-created-after-deleted-id-index": (dict(ngroups=2,idx_per_group=True,nseries=4), [w(1,[(0,1,9,4)]), {"k":"restart"}, w(2,[(0,1,20,4)]), drops("region = 'r0'")], "dropped_data_returned", {"op":"drop_series","idx_born":"after_delidx","shape":"sel_plain"}),
 "C13-drop-series-select-not-last-measurement": (dict(nmst=2), [w(1,[(1,0,6,4),(0,0,19,4)]), drops("host = 'h0'")], "dropped_data_returned", {"op":"drop_series","shape":"sel_plain","tail":"not_last"}),
 "C13-drop-series-tag-filter-select": (dict(), [w(1,[(0,0,1,15),(0,1,2,15)]), {"k":"flush"}, drops("host = 'h1'")], "dropped_data_returned", {"op":"drop_series","shape":"tag_"}),
 "C13-drop-series-exact-listings": (dict(), [w(1,[(0,0,1,15),(0,1,2,15)]), {"k":"flush"}, drops("host = 'h1'")], "dropped_data_returned", {"op":"drop_series","shape":"listx_series"}),
 "C13-drop-series-rough-cardinality": (dict(), [w(1,[(0,0,1,15),(0,1,2,15)]), {"k":"flush"}, drops("host = 'h1'")], "dropped_data_returned", {"op":"drop_series","shape":"list_cardinality"}),
 "C13-drop-series-wal-replay": (dict(), [w(1,[(0,2,9,4)]), drops("region !~ /r0/"), {"k":"restart"}], "dropped_data_reappeared_after_restart", {"wal":"yes","shape":"sel_plain"}),
 "C13-drop-series-acknowledged-drop-lost-by-kill": (dict(crash=True), [w(1,[(0,4,14,4)]), {"k":"flush"}, drops("host = 'h0'")], "crash_dropped_data_reappeared", {"after":"crash","del_flushed":"no","shape":"sel_plain"}),
 "C13-drop-series-purge-rewrites-index-wrongly": (dict(), [w(1,[(0,1,4,4),(0,2,20,4)]), drops("region =~ /r/"), {"k":"purge"}], "undropped_data_lost", {"purged":"yes"}),
 "C13-drop-series-stale-deleted-set-in-pooled-search": (dict(npt=2,distinct_seq=False,nseries=3), [w(1,[(0,0,11,4),(0,1,14,4)]), drops("host = 'h1'")], "undropped_data_lost", {"seq":"shared"}),
 "C13-drop-measurement-listed-through-other-policy": (dict(nrp=2), [w(1,[(0,4,13,4)]), w(2,[(0,2,22,4)],rp=1), {"k":"dropm","db":0,"rp":1,"m":0}], "dropped_data_returned", {"shape":"list_series","shared_name":"yes"}),
 "C13-drop-series-ignores-named-policy": (dict(nrp=2), [w(1,[(0,4,3,4)]), w(2,[(0,4,21,4)],rp=1), drops("host = 'h0'",rp=0)], "undropped_data_lost", {"drop_scope":"other_policy"}),
 "C13-drop-series-only-first-versioned-name": (dict(nrp=2,desc=True), [w(1,[(0,2,14,4)],rp=1), w(2,[(0,0,14,4)]), {"k":"dropm","db":0,"rp":1,"m":0}, w(3,[(0,2,14,4)],rp=1), drops("region =~ /r/",rp=-1)], "dropped_data_returned", {"op":"drop_series","drop_names":"several"}),
}
d='/dev/shm/dbg'
def run(rf,known):
    json.dump(rf,open(d+'/case.json','w'))
    if os.path.exists(d+'/out.jsonl'): os.remove(d+'/out.jsonl')
    shutil.rmtree(d+'/s',ignore_errors=True)
    env=dict(os.environ,VERIF_MODE='replay',VERIF_REPLAY=d+'/case.json',VERIF_SCRATCH=d+'/s',VERIF_OUT=d+'/out.jsonl',VERIF_REPLAY_ATTEMPTS='2',VERIF_KNOWN=known,VERIF_PROP='C13')
    env.pop('VERIF_COLLECT',None)
    subprocess.run(['/verif/build/bin/D.test','-test.run','^TestVerifWorldD$','-test.count','1'],cwd=d,env=env,stdout=subprocess.PIPE,stderr=subprocess.STDOUT)
    for l in open(d+'/out.jsonl'):
        j=json.loads(l)
        if j.get('type')=='replay': return j
only=sys.argv[1:] 
for name,(cfg,ops,kind,attrs) in CASES.items():
    if only and name not in only: continue
    ok=False
    for seed in range(1,12):
        for desc in ([cfg.get('desc',False)] if 'desc' in cfg else [False]):
            c=dict(BASE); c.update(cfg); c['ops']=ops; c['read_seed']=seed; c['desc']=desc
            want=dict(attrs)
            shp=want.get('shape')
            # trial: the placeholder attrs must be matched by the known entry's matcher
            rf={"property":"C13","world":"D","seed":seed,"run":0,"tier":"quick","case":c,"violation":{"property":"C13","kind":kind,"detail":"","attrs":{k:(v if not v.endswith('_') else v+"eq") for k,v in want.items()}}}
            j=run(rf,'/dev/shm/vD/known_findings.json')
            v=j.get('violation') if j else None
            if not v: continue
            a=v.get('attrs',{})
            if v['kind']==kind and all((a.get(k,'').startswith(x) if k=='shape' else a.get(k)==x) for k,x in want.items()):
                if 'pin' in a:
                    inc,k,torn=[int(x) for x in a['pin'].split(',')]
                    c['only_inc'],c['only_k'],c['only_torn']=inc,k,torn
                rf['case']=c; rf['violation']=v; rf['minimisation']={"hand_written":1,"final_ops":len(ops)}
                j2=run(rf,'/dev/shm/vD/known_findings.json')
                if j2 and j2.get('reproduced'):
                    json.dump(rf,open('/verif/known/'+name+'.json','w'),indent=1)
                    print('OK ',name,v['kind'],{k:a[k] for k in a if k!='pin'}); ok=True; break
                else:
                    print('   not reproduced on 2nd pass',name, (j2 or {}).get('violation',{}).get('kind'))
        if ok: break
    if not ok: print('FAILED',name, (v or {}).get('kind'), (v or {}).get('attrs'))
