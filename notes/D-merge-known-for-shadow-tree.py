import json
k=json.load(open('/verif/known_findings.json'))
s=json.load(open('/verif/notes/D-suggested-known-findings.json'))
ids={f['id'] for f in k['findings']}
for f in s['findings']:
    if f['id'] not in ids:
        f=dict(f)
        import os
        if f.get('replay') and not os.path.exists('/verif/'+f['replay']): f.pop('replay')
        k['findings'].append(f)
json.dump(k,open('/dev/shm/vD/known_findings.json','w'),indent=1)
print(len(k['findings']))
