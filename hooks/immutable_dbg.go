//go:build verif

package immutable

import (
	"fmt"
	"runtime"

	"github.com/openGemini/openGemini/lib/encoding"
	"github.com/openGemini/openGemini/lib/fileops"
	"github.com/openGemini/openGemini/lib/numberenc"
	"github.com/openGemini/openGemini/lib/util/lifted/vm/protoparser/influx"
)

// isFreeDbg exposes the sequencer's "free" flag to the harness (diagnostics only).
func (s *Sequencer) IsFreeDbg() bool {
	s.seqMu.RLock()
	defer s.seqMu.RUnlock()
	return s.isFree
}

// VerifBlockModes walks every chunk, column and segment of a data file, reads the
// raw encoded bytes of the segment and reports its class "<type>/<form>/<mode>":
//
//	type  int | float | bool | string | time
//	form  one (single-value block) | full (no nulls) | empty (all nulls) |
//	      bitmap (explicit null bitmap, bitmap offset 0) | bitmap+off (bitmap offset != 0)
//	mode  the encoder mode exactly as the decoder reads it: the high nibble of the
//	      first payload byte (lib/encoding Decoding / lib/compress AdaptiveDecoding);
//	      "raw" for the single-value form, "none" for a block without payload
//
// plus "chunkmeta/<compress mode of the file's chunk meta blocks>" once per file.
// Read-only (normal-priority reads: neither the meta cache nor the background-read
// limiter are involved); used by the C07 check to measure which encoder modes the
// generated histories reach.
func VerifBlockModes(f TSSPFile, add func(key string)) error {
	add(fmt.Sprintf("chunkmeta/%s", verifChunkMetaModeName(f.ChunkMetaCompressMode())))
	n := int(f.MetaIndexItemNum())
	var cms []ChunkMeta
	var buf []byte
	for i := 0; i < n; i++ {
		mi, err := f.MetaIndexAt(i)
		if err != nil {
			return err
		}
		cms, err = f.ReadChunkMetaData(i, mi, cms[:0], fileops.IO_PRIORITY_NORMAL)
		if err != nil {
			return err
		}
		for ci := range cms {
			cm := &cms[ci]
			for k := range cm.colMeta {
				col := &cm.colMeta[k]
				for s := range col.entries {
					off, size := col.entries[s].OffsetSize()
					buf = buf[:0]
					b, err := f.ReadData(off, size, &buf, fileops.IO_PRIORITY_NORMAL)
					if err != nil {
						return err
					}
					add(verifClassifyBlock(col, b))
				}
			}
		}
	}
	return nil
}

func verifChunkMetaModeName(m uint8) string {
	switch m {
	case ChunkMetaCompressNone:
		return "none"
	case ChunkMetaCompressSnappy:
		return "snappy"
	case ChunkMetaCompressLZ4:
		return "lz4"
	case ChunkMetaCompressSelf:
		return "self"
	}
	return fmt.Sprintf("?%d", m)
}

// verifClassifyBlock mirrors decodeColumnData / appendTimeColumnData + DecodeColumnHeader.
func verifClassifyBlock(col *ColumnMeta, data []byte) (key string) {
	typ := "?"
	switch {
	case col.IsTime():
		typ = "time"
	case col.ty == influx.Field_Type_Int:
		typ = "int"
	case col.ty == influx.Field_Type_Float:
		typ = "float"
	case col.ty == influx.Field_Type_Boolean:
		typ = "bool"
	case col.ty == influx.Field_Type_String:
		typ = "string"
	}
	// a block that does not parse (a failed encoder left a header without payload, ...) is reported as
	// such; the read checks of the harness judge what it means
	defer func() {
		if recover() != nil {
			key = typ + "/malformed"
		}
	}()
	if len(data) == 0 {
		return typ + "/malformed"
	}
	if encoding.IsBlockOne(data[0]) {
		return typ + "/one/raw"
	}
	form := ""
	var payload []byte
	switch {
	case encoding.IsBlockFull(data[0]):
		form, payload = "full", data[5:]
	case encoding.IsBlockEmpty(data[0]):
		form, payload = "empty", data[5:]
	default:
		pos := 1
		bmLen := int(numberenc.UnmarshalUint32(data[pos:]))
		pos += 4 + bmLen
		bmOff := numberenc.UnmarshalUint32(data[pos:])
		pos += 8
		form, payload = "bitmap", data[pos:]
		if bmOff != 0 {
			form = "bitmap+off"
		}
	}
	if len(payload) == 0 {
		return typ + "/" + form + "/none"
	}
	m := int(payload[0] >> 4)
	mode := fmt.Sprintf("?%d", m)
	switch typ {
	case "int":
		mode = verifPick(m, map[int]string{1: "constdelta", 2: "simple8b", 3: "zstd", 4: "uncompressed"})
	case "time":
		mode = verifPick(m, map[int]string{1: "constdelta", 2: "simple8b", 3: "snappy", 4: "uncompressed"})
		if m == 2 && len(payload) >= 9 {
			// the simple8b form divides the deltas by a power of ten that is stored in front
			if numberenc.UnmarshalUint64(payload[1:]) > 1 {
				mode = "simple8b-scaled"
			}
		}
	case "float":
		mode = verifPick(m, map[int]string{0: "raw", 1: "oldgorilla", 2: "snappy", 3: "gorilla", 4: "same", 5: "rle", 6: "mlf"})
	case "bool":
		mode = verifPick(m, map[int]string{1: "bitpack"})
	case "string":
		mode = verifPick(m, map[int]string{0: "uncompressed", 1: "snappy", 2: "zstd", 3: "lz4"})
	}
	return typ + "/" + form + "/" + mode
}

func verifPick(m int, names map[int]string) string {
	if s, ok := names[m]; ok {
		return s
	}
	return fmt.Sprintf("?%d", m)
}

// VerifDropPooledCoders empties every place a column coder can outlive a table
// operation: the channel cache of stream-compaction iterators (their column builder
// keeps its coders) and, through two GC cycles, every sync.Pool of the process.  The
// harness calls it when a per-run knob changes string-compress-algo, which a running
// store never does (a string coder keeps the compressor it was first used with).
func VerifDropPooledCoders() {
	if streamIteratorsPool != nil {
		for drained := false; !drained; {
			select {
			case <-streamIteratorsPool.cache:
			default:
				drained = true
			}
		}
	}
	runtime.GC()
	runtime.GC()
}
