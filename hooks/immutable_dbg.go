//go:build verif

package immutable

// isFreeDbg exposes the sequencer's "free" flag to the harness (diagnostics only).
func (s *Sequencer) IsFreeDbg() bool {
	s.seqMu.RLock()
	defer s.seqMu.RUnlock()
	return s.isFree
}
