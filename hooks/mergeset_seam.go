//go:build verif

package mergeset

// VerifSetMergeWorkers sets the number of background part mergers every index table
// starts (the product takes cgroup.AvailableCPUs() at package initialisation) and
// returns the previous value.  World C runs its workers with one P; with this seam the
// index behaves as on a one-CPU machine too (one merger per table instead of one per
// host CPU, each of them a real-time timer loop).  Exists only under the build tag
// "verif" in /verif's overlay.
func VerifSetMergeWorkers(n int) int {
	old := mergeWorkersCount
	if n > 0 {
		mergeWorkersCount = n
	}
	return old
}
