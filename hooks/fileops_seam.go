//go:build verif

package fileops

// VerifSetLocalFS swaps the package-private local file system for the simulator's
// wrapper and returns the previous one.  Exists only under the build tag "verif"
// and only in the overlay used by /verif's checks; the shipped package is unchanged.
func VerifSetLocalFS(v VFS) VFS {
	old := localFS
	localFS = v
	return old
}
