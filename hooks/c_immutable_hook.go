//go:build verif

package immutable

// VerifHoldFileRLock read-locks the mutex of a data file the way
// tsspFile.LoadIdTimes does on entry and returns the function that releases it.
// Used only by world C's deadlock-detector self-test (a planted lock cycle of the
// shape "reader holds f.mu.RLock, Close queues f.mu.Lock, reader read-locks again");
// exists only under the build tag "verif" in /verif's overlay.
func VerifHoldFileRLock(f TSSPFile) func() {
	tf, ok := f.(*tsspFile)
	if !ok {
		return nil
	}
	tf.mu.RLock()
	return tf.mu.RUnlock
}
