# World P (one replica group of three store nodes replicating through etcd-raft) - property C05
_REAL = ["engine.EngineImpl: Assign/startRaftNode, WriteToRaft, SendRaftMessage, readCommitFromRaft/dealCommitData, readReplayForReplication, CreateShard, WriteRows, ForceFlush, Close",
         "lib/raftconn.RaftNode + go.etcd.io/etcd/raft/v3 (three nodes, real Ready/Advance loop, real tickers on the virtual clock)",
         "lib/raftlog (entry log, hard state, snapshot index) on simfs",
         "engine shard write/read path, WAL, memtable, flush, index (as world S)",
         "lib/metaclient.Client read side over a real meta.Data (DBPtView, DBRepGroups, ShardOwner, GetAliveShards, Measurement)",
         "meta.Data replication bookkeeping: CreateDBPtView/CreateDBReplication, UpdateNodeStatus, UpdatePtInfo, UpdateReplication, GetFailedPtInfos, replica-group status transitions"]
_STUB = ["transport: simulated network on raftconn.RaftNode.ISend / Engine.SendRaftMessage (per-link queues; deliver, drop, duplicate, reorder, partition)",
         "clock: testing/synctest bubble (one virtual clock for all three nodes: no skew)",
         "meta service and cluster manager: facade calling the real meta.Data methods (CreateDataNode, UpdateNodeStatus, CreateDBPtView/CreateDBReplication, CreateShardGroup, UpdatePtInfo, UpdateReplication, GetFailedPtInfos); the master-election rule of cluster_manager.go (electRgMaster) is re-stated; hashicorp-raft/meta RPC not run; the stores' catalogue caches are wire copies (MarshalBinary/UnmarshalBinary) refreshed at once, or - meta_lag cases - only when the clock moves",
         "coordinator: simulated client routing by the real GetAliveShards and retrying like points_writer.go",
         "StorageService: adapter re-stating ts-store storage.Write/WriteDataFunc", "SQL layer (reads are cursor requests as in world S)",
         "etcd-raft election jitter: package-global source re-seeded per case through go:linkname (the nodes tick at distinct phases so that draws are ordered by virtual time)",
         "process: every case runs in a child process of the worker (one process = one bubble = one case) because the engine's process-global pools of timers/channels cannot be shared between bubbles; a child that dies is reported as process_death"]

import json as _json, os as _os
# development aid: VERIF_P_OVERLAY='{"engine/x.go": "/abs/path/patched_x.go", ...}' builds world P against
# patched copies of repo files (used to check that a suggested fix silences a finding); never set by vsim
_EXTRA = {"engine/immutable/zz_verif_dbg.go": "hooks/immutable_dbg.go"}
if _os.environ.get("VERIF_P_OVERLAY"):
    _EXTRA.update(_json.loads(_os.environ["VERIF_P_OVERLAY"]))

WORLDS = {
    "P": {"pkg": "engine", "harness": "engine", "test": "TestVerifWorldP", "cpu": 1, "real": _REAL, "stub": _STUB,
          "harness_files": ["s_*.go", "p_*.go"],
          # lock-level yield points (tools/yieldins, instrumented copies of the CURRENT tree): the apply path of a
          # store node (readCommitFromRaft -> dealCommitData -> WriteRows) gets scheduling points between the entries
          # of one commit batch (p_yield.go); lib/raftlog/snapshotter.go marks the batch boundary
          "yield_files": ["engine/partition_raft.go", "engine/engine_replication.go", "engine/engine.go", "engine/shard.go",
                          "engine/ts_storage.go", "engine/mutable/table.go", "lib/raftlog/snapshotter.go"],
          "extra_overlay": _EXTRA},
}

PROPS = {
    "C05": {
        "world": "P", "level": "exploration",
        "rule": "One case = seeded knobs (as world S, plus message drop/duplicate/reorder rates and the raft log sync interval) + a seeded list of scheduler steps: "
                "client write batches with overwrites (synchronous, or left in flight), run the cluster for some virtual time, deliver a few messages only, "
                "crash a node chosen by role (raft leader / master partition owner / follower; optionally losing the un-observed tail of its disk journal - a share of it, "
                "or all of it: the earliest legal kill instant, right after the victim's last observed action - optionally with a torn last write), restart it on the crash image, isolate a node's raft links / pause a node (unreachable for clients too, failed "
                "over by the meta service, resumed later) / heal, flush a node, read the master. Optionally the universe spans two shard groups (two shards per "
                "partition, the second group created by the first write into it) and the stores' catalogue caches lag. A quarter of the cases aims at raft's persist-before-send rule (in these, and in 30 % of the others, every "
                "file-system mutation of a node first yields to the node's other goroutines, so that a message handed to the sender goroutine leaves before the disk writes that follow "
                "it in program order): ack_kill (one follower's links are slow for <= 3 s, a synchronous write is acknowledged on the other follower's answer alone and deliveries "
                "stop at that instant, that follower is killed at the earliest legal instant and restarted, the leader is killed before the entry reached the third node, the survivors "
                "elect, read), leader_ack_kill (the leader / master is killed at the earliest legal instant after it answered the client), vote_kill (the leader is isolated until a vote "
                "request is queued, heal, the third node's links are slow, the voter is killed right after its granted vote arrived and restarted, vote messages first), "
                "send_kill_storm (the general mix with few deliveries at a time, clock steps without deliveries, slow links, kills of the isolated node, earliest-instant kills). "
                "Scheduling points inside the apply path (knob apply_yield, drawn last; lock-level yield points inserted by tools/yieldins into copies of the engine files of the tree under test): "
                "the goroutine that applies a node's commit batches (readCommitFromRaft) can be parked between two entries of ONE batch, before EngineImpl.getShard / shard.WriteRows take their first lock, "
                "and stays parked while other steps run - flush or kill of that very node above all - until an aresume step, a seeded number of steps, the kill of its node or the closing phase. "
                "8 % of the cases are flush_mid_batch: a follower is cut off (or paused) while >= 3 writes commit, gets them back as one commit batch, its apply loop is parked after the first entry, "
                "the node is flushed there, the loop runs to the end of the batch (or not), the node is killed (complete journal / earliest legal instant / part of the tail lost) and restarted, then another "
                "node is killed and the master is read; 15 % of the general-mix and send_kill_storm cases have apply_yield on, with run-until-parked / flush / kill / resume steps inserted behind heal and restart steps. "
                "Further steps: the meta service's TransferLeadership towards the master partition. At most one node is down, paused or "
                "isolated at a time (an isolated node may itself be killed). After every delivered message the committed prefixes of all live nodes are compared; after every acknowledgement "
                "and at read steps the master partition's shard is compared with the last-write-wins model; at the end faults stop, a probe write must commit "
                "and all replicas must equal the model, then a further node is killed and the master is read again. Non-trivial = at least one crash and two "
                "acknowledged writes; distinct = digest of knobs + steps.",
        "eval_extra": ["reads", "prefix_checks"],
        "probes": ["crash of the raft leader", "crash of the master partition owner", "crash with a write in flight", "crash that lost a journal tail",
                   "crash inside a memtable flush", "restart replayed raft entries", "leader changed", "master partition changed", "write retried by the client",
                   "proposal forwarded to the leader", "shard group created by a write", "a write without acknowledgement took effect",
                   "kill between send and persist (earliest cut)", "leader killed before re-replication",
                   "node killed right after its append acknowledgement was delivered (earliest cut)", "node killed right after its granted vote was delivered (earliest cut)",
                   "node killed right after it answered the client (earliest cut)",
                   "flush landed inside a commit batch", "kill after a mid-batch flush", "kill with the apply loop inside a commit batch"],
        "assumptions": ["crash model = process kill at a local instant t: every file-system mutation before t survives, everything after t is lost - later mutations and later sends alike; t may lie in the past only as far as nothing the node did after t has been observed (a message delivered counts with the journal length at its send instant, so does an answered client and a committed entry the harness learned from that disk); messages sent after t are still queued and vanish with the process",
                        "hand-over of a raft message to the simulated network happens when the node's sender goroutine calls the transport; with yield the node's goroutines are rescheduled before every file-system mutation (one of the legal schedules of the same code); a slow link (hold, <= 3 s) delays messages in order and is not counted as a fault",
                        "a goroutine of the apply path that stands before a Lock/RLock statement may stay there for any time while the node's other goroutines run (one of the legal schedules of the same code); it holds no lock of the engine at the two points used",
                        "one virtual clock for all nodes (no skew); timing is judged only after faults stop (B = 60 s for a probe write, B' = 60 s for replica convergence)",
                        "a write the client got no acknowledgement for (error, timeout, connection lost, still in flight) may take effect at any later time or never (per cell), nothing else is relaxed",
                        "journal cuts do not split a group of raft.meta writes unless the case has split_meta (that is lib/raftlog's subject, C17); the order of file operations of concurrent goroutines inside one flush is a race in the code and not controlled",
                        "integers inside +-2^53, no NaN/Inf"],
        "quick": {"runs": 6000, "budget_s": 230, "workers": 14},
        "thorough": {"runs": 36000, "budget_s": 1500, "workers": 16},
    },
}
