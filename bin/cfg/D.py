# World D (one store node: EngineImpl + ts-store DDL message handlers + catalogue, on the simulated disk) - property C13
WORLDS = {
    "D": {
        "pkg": "engine", "harness": "engine", "test": "TestVerifWorldD", "cpu": 2,
        # d_handlers.go is package engine_test (it imports the handler package, which imports package engine);
        # the other d_*.go files and world S's files (read path, values, crash helpers) are package engine
        "harness_files": ["s_*.go", "d_*.go"],
        "extra_overlay": {"engine/immutable/zz_verif_dbg.go": "hooks/immutable_dbg.go"},
        "real": ["engine.EngineImpl (Assign, CreateShard, WriteRows, DropMeasurement, DropRetentionPolicy, DeleteDatabase, DropSeries purge task, SeriesKeys, TagKeys, TagValues, SeriesCardinality, SeriesExactCardinality, CreateDDLBasePlans, Close; start-up path Assign -> loadShards -> OpenIndexes -> OpenShards -> WAL replay)",
                 "ts-store DDL message handlers: handler.NewHandler(type).SetMessage/SetStore/Process on a storage.Storage bound to the engine - DropSeries, Delete (measurement / retention policy / database), SeriesKeys rough+exact, ShowTagKeys, ShowTagValues rough+exact, SeriesCardinality, SeriesExactCardinality; requests built as lib/netstorage builds them and passed through MarshalBinary/UnmarshalBinary",
                 "engine shard, WAL, memtable, immutable store (flush, level/full compaction, out-of-order merge, DropMeasurement), tsi index + mergeset incl. the deleted-series-id index, read path (CreateCursor, cursors, ChunkReader, StreamAggregateTransform; statements parsed by the real parser, plans built by the real plan builder / heuristic planner)",
                 "meta.Data catalogue methods: CreateDataNode, CreateDatabase, CreateDBPtView, CreateRetentionPolicy, CreateMeasurement (versioned names), CreateShardGroup, RetentionPolicyInfo.MatchMeasurements, MarkMeasurementDelete/DropMeasurement, MarkRetentionPolicyDelete/DropRetentionPolicy, MarkDatabaseDelete/DropDatabase, GetShardDurationsByDbPtForRetention",
                 "lib/fileops through simfs (journal, crash images at mutation boundaries, page-granular torn writes)"],
        "stub": ["meta service: consensus, RPC and the checkDelete loops - mark -> store delete -> catalogue drop is executed inline in the order of statement_executor.go / app/ts-meta/meta/store.go (deleteMeasurement with getNodeShardsMap's shard ids, deleteRetentionPolicy / deleteDatabase per partition); after a crash the pending marks are driven again as the loops would",
                 "SQL node: statement -> catalogue command / store request by a coordinator stub (DropSeriesExecutor's MatchMeasurements + one request per node with all partitions and all matched versioned names in one of the two map orders; point routing series % partitions; database / policy / measurement / shard group created on demand before a write); per-shard results are not merged across shards; reads of a measurement the catalogue does not resolve are not sent",
                 "store MetaClient: facade over the catalogue (DatabaseOption, GetShardRangeInfo, Measurement ...); the handlers' metaclient.Client has the catalogue as its cache",
                 "transport (no spdy); one store node"],
    },
}

_SHAPES = ("sel_plain, sel_plain_nogroup, sel_plain_desc, sel_field_filter[_nogroup], sel_group_by_tag, sel_group_by_time, sel_agg_bare/exact/filter (count sum min max first last over fi; "
           "bare only where no (series,timestamp) was written in two flush generations), tag_eq/neq/re/nre (host, region), tag_agg, list_series[_cond], listx_series (exact), list_tag_keys, "
           "list_tag_values, listx_tag_values, list_cardinality, list_exact_cardinality, and sel_plain on the versioned name of a dropped measurement (must be empty)")

PROPS = {
    "C13": {
        "world": "D", "level": "exploration",
        "rule": "One case = seeded configuration (1-2 databases, 1-2 retention policies, 1-2 measurements, 2-6 series with tags host/region (some without region), 1-2 partitions, time slots in 1-2 shard groups, "
                "one index per group or one for all, series-id ranges per partition equal or distinct, order of matched names, world S's knobs with 1 WAL partition) + a seeded history: phase 1 builds a layout (writes incl. late "
                "and partial-field rows, flush, level/full compaction, out-of-order merge, restart), then 1-3 rounds of a drop (DROP SERIES [rp.]m WHERE none | tag atom (= != =~ !~ on host/region) | A AND B | A OR B; "
                "DROP MEASUREMENT; DROP RETENTION POLICY (non-default); DROP DATABASE) followed by writes aimed at dropped series / timestamps (re-creating measurement, policy, database as needed), flush, compaction, merge, "
                "index-flusher tick, purge task (a minority of histories), clean restart. After every operation the plain dump of every (measurement, shard) and sampled shapes, after a drop / restart / purge and the two operations "
                "after a drop EVERY shape on every target and every listing (" + _SHAPES + ") are compared with the last-write-wins model with drops (every value names its write and cell, so a value read back is attributed: live, "
                "dropped by operation g, overwritten, foreign). 40 % of the cases then cut the journal at mutation boundaries (stratified by operation, path class, kind; + page-granular torn writes) inside each drop and the 2 operations "
                "after it, start the image with the catalogue of that moment and check again: in-flight DROP SERIES = any subset of what it names but all shapes must agree with the plain dump, then the statement is retried and the "
                "complete drop is required; in-flight DROP MEASUREMENT/POLICY/DATABASE = everything not named intact, then the meta service's pending deletion is driven again and the complete drop is required; acknowledged drops must "
                "hold; half of the states are used further (write to a dropped cell + fresh rows, flush, all shapes). evaluations = runs + crash states. Non-trivial = the history has an acknowledged drop that named at least one "
                "row, followed by a write and by a flush/compaction/merge/restart; distinct = digest of configuration + operation list.",
        "eval_extra": ["crash_states"],
        "probes": ["drop series selected no series", "drop series selected some series", "drop series selected all series",
                   "drop of data in memtable", "drop of data in ordered file", "drop of data in out-of-order file", "drop of data in compacted file",
                   "write to dropped series", "measurement re-created after drop", "retention policy re-created after drop", "database re-created after drop",
                   "restart after drop", "crash inside drop", "drop series matched several versioned names"],
        "assumptions": ["lazy-load-shard-enable (product default true) is a per-case knob, on in 70 % of the cases: after a restart a shard is opened by the first write or read that needs it", "one client, one store node; background work (flush, compaction, merge, index flusher, purge task) runs only as scheduled operations, except the index's real one-second flusher which may fire inside a slow run",
                        "crash model = process kill: completed file-system calls survive, the in-flight write may land as a page-granular prefix (byte-granular in the WAL); the catalogue (meta service) does not crash",
                        "DROP MEASUREMENT / RETENTION POLICY / DATABASE are judged after the meta service's three steps (mark, store delete, catalogue drop) - while a mark is pending the SQL node resolves nothing under the object",
                        "a series-creating write is followed by an index flush (as in world S: listings and selects may lag until the one-second flusher ran); the exact listing variants are only required to show a series after a flush of every shard",
                        "DROP SERIES FROM rp.m is taken to name the series of that policy only; DROP SERIES FROM m the series of m in every policy",
                        "predicates use literal regular expressions only (non-literal ones are C10's known findings); integers inside +-2^53, no NaN/Inf; 1 WAL partition (C01's defect kept out); aggregates over a field every row carries, one call per statement, grouped by all tags (C09's known findings kept out)",
                        "per-shard results are not merged across shards (the query layer above the store reader is not assembled)"],
        "quick": {"runs": 900, "budget_s": 120, "workers": 14},
        "thorough": {"runs": 20000, "budget_s": 1500, "workers": 16, "env": {"VERIF_RUN_TIMEOUT_S": "900"}},
    },
}
