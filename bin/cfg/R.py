# World R (lib/raftlog) - property C17

WORLDS = {
    "R": {
        "pkg": "lib/raftlog", "harness": "raftlog", "test": "TestVerifWorldR", "cpu": 1,
        "real": ["lib/raftlog (RaftDiskStorage, entryLog, logFile, metaFile, FileWrap v1 and v2)", "lib/fileops via simfs journal"],
        "stub": [],
    },
}

PROPS = {
    "C17": {
        "world": "R", "level": "fault_enumeration",
        "rule": "One case = a seeded history of Save (append / conflicting append / multi-entry / empty and large payloads / "
                "rotation by count or bytes), CreateSnapshot, DeleteBefore, TrySync, close+reopen and injected EIO on both file "
                "back-ends, run in lock-step with etcd MemoryStorage; after every op all contract queries are compared; with crash=true "
                "every journal boundary (all of them if <= max_crash, a seeded sample otherwise; page-granular torn variants of writes "
                "> 4 KiB) is crashed, reopened on a fresh path and judged old-or-new per entry, followed by an append on the recovered "
                "store. evaluations = live runs + crash states checked. A history is non-trivial if it has a conflicting save, or a "
                "save after a reopen, or crash enumeration; distinct = distinct digest of (backend, sync mode, operation list).",
        "eval_extra": ["crash_states"],
        "probes": ["raft log rotated", "conflict truncation into older file", "compaction point moved", "all crash points of the history enumerated"],
        "assumptions": ["crash model = process kill: completed file-system calls survive, an in-flight write may land as a page-granular prefix; power loss is not modelled",
                        "the compaction point is implementation-defined (file-granular) and only constrained, not equated, with the reference"],
        "quick": {"runs": 260, "budget_s": 150, "workers": 14},
        "thorough": {"runs": 12000, "budget_s": 1200, "workers": 16, "env": {"VERIF_RUN_TIMEOUT_S": "900"}},  # rotation histories x all crash points take minutes on a loaded machine
    },
}
