# World T (retention service + engine + catalogue under a simulated clock) - property C14
WORLDS = {
    "T": {
        "pkg": "engine", "harness": "engine", "test": "TestVerifWorldT", "cpu": 1,
        "harness_files": ["s_*.go", "t_*.go"],
        "extra_overlay": {"engine/immutable/zz_verif_dbg.go": "hooks/immutable_dbg.go"},
        "real": ["services/retention.Service (own ticker loop, handle, HandleLocalStorage, DeleteShardOrIndex)",
                 "engine.EngineImpl (Assign, CreateShard, WriteRows, lazy shard loading, UpdateShardDurationInfo, ExpiredShards, nilShardIsExpired, DeleteShard, ExpiredIndexes, DeleteIndex)",
                 "engine shard, tsi index builder, immutable store, read path (as world S)",
                 "meta.Data catalogue methods (CreateRetentionPolicy, CreateShardGroup, UpdateRetentionPolicy, DurationInfos, DeleteShardGroup, DeleteIndexGroup, PruneGroups, TimeRangeInfo, GetShardDurationsByDbPtForRetention)",
                 "wall clock = virtual clock of a testing/synctest bubble (every time.Now, ticker and timer of the components above)"],
        "stub": ["catalogue consensus and RPC (one un-replicated meta.Data; responses pass MarshalBinary/UnmarshalBinary)",
                 "coordinator (routing of a point to shard group/shard, up-front rejection of points older than now - duration)",
                 "StorageService adapter (create shard on ShardNotFound)", "SQL layer"],
    },
}

PROPS = {
    "C14": {
        "world": "T", "level": "exploration",
        "rule": "One case = seeded configuration (1-2 partitions, lazy shard loading on/off, check interval, phase of the service ticker relative to the full hour: "
                "a run exactly at / 1 ns before / 1 ns after end+duration, or arbitrary; 1-2 policies with duration 0 / equal / longer than the shard group duration) "
                "+ a seeded history of writes (timestamps around now-duration, now, inside the window, near future), UpdateRetentionPolicy (raise / lower / unlimited / "
                "shorter than the group duration / group durations), reads, writes kept in flight inside a shard across a service run, clean and crash restarts with down times up to 50 h, process kills between "
                "catalogue mark, engine delete and catalogue prune, a second data node joining (with and without expand-shards-enable); three generator flavours "
                "(generic / group durations altered under data / node join); the clock only moves by jumps to the next operation or service run. After every service run and every operation each "
                "shard known to the model is judged: not expired => intact in engine and catalogue and (if open, or on reads) its rows equal the model; expired at two "
                "consecutive quiet runs => gone from engine and catalogue. Non-trivial = at least one shard with rows was removed by the service and at least one unexpired "
                "shard with rows was read back after a service run; distinct = digest of the case; states = distinct (policy class, boundary class, shard state, "
                "alteration, expired) tuples judged at service runs.",
        "eval_extra": ["service_runs"],
        "fault_stats": {"restarts": "store restart (clean or crash, down time up to 50 h = clock jump)", "kills_mark": "process kill between catalogue mark and engine delete",
                        "kills_delete": "process kill between engine delete and catalogue prune", "writes_held": "write stalled inside a shard across a service run",
                        "nodes_added": "membership change (data node joined)"},
        "probes": ["service run exactly at end+duration", "service run one nanosecond after end+duration", "service run one nanosecond before end+duration",
                   "expired shard was not loaded (lazy) when the service ran", "expired shard was unknown to the engine when the service ran",
                   "duration raised after expiry under the old duration, before the service ran", "duration lowered: shard expired under the new duration only",
                   "process killed between catalogue mark and prune", "alter to a duration shorter than the shard group duration rejected",
                   "service ran while a write into a live shard was in flight", "service ran while a write into an expiring shard was in flight",
                   "expired shard was open when the service ran"],
        "assumptions": ["one store node; the catalogue is a single un-replicated meta.Data", "no file-system faults (crash images are copies of the directory at quiescent points)",
                        "the coordinator's up-front rejection of too-old points is re-implemented (second granularity, as fasttime), not executed",
                        "GOMAXPROCS is pinned to 1 inside the worker (go1.25.0 runtime: racing fixalloc in runtime.getOrSetBubbleSpecial makes WaitGroup.Add spin for ever under parallelism)",
                        "the index makes new series visible after one second measured with fasttime (a real-clock ticker); the harness issues that flush once the virtual clock is 1.5 s past the last write",
                        "virtual time spans hours (open shards own a 100 ms ticker); longer spans only while the store is down"],
        "quick": {"runs": 450, "budget_s": 130, "workers": 14},
        "thorough": {"runs": 5500, "budget_s": 1250, "workers": 16},
    },
}
