# World M (app/ts-meta/meta storeFSM replicas over real meta.Data) - properties C15 and C16

_M_RULE = ("One case = knobs (HA policy, PtNumPerNode, NumOfShards, UseIncSyncData, SchemaCleanEn, ExpandShardsEnable, RetentionAutoCreate) + "
           "one command log of 25-110 ops (thorough: 30-220) over ~60 op kinds covering 64 of the 66 registered command types (all but SetData and RecoverMetaData) with valid and "
           "invalid arguments + replica events. Three real storeFSM instances get the same raft.Log entries: A applies with Apply and is the "
           "reference; B applies in PRNG-chosen batches (Apply / ApplyBatch) and at '@snapB' goes through Snapshot -> Persist -> bytes -> Restore "
           "(Persist optionally delayed by 1-6 ops, as raft runs it concurrently with Apply; the restored image is first compared with the reference "
           "catalogue of the snapshot's log position, effects of the delay are judged end-to-end after the replay) and replays the log suffix; C takes snapshots at "
           "'@snapC' and at '@crashC' is discarded and rebuilt from its latest persisted snapshot + log suffix (or the whole log). "
           "evaluations = executed cases + log entries applied on the reference (every entry is compared on all replicas that are at that "
           "position, plus one MarshalBinary->UnmarshalBinary round trip of the reference catalogue per entry). A case is non-trivial if at "
           "least one snapshot-restore or crash-rebuild happened and at least one later command changed the catalogue; distinct = distinct "
           "digest of (knobs, batch plans, op list).")

_M_ASSUMPTIONS = [
    "consensus is stubbed by its contract: every replica receives the same entries in the same order with the same index/term; raft's snapshot index is the FSM's applied index at Snapshot()",
    "command types not generated: SetDataCommand (whole-catalogue overwrite from a legacy tool), RecoverMetaData (needs a backup image and node map), "
    "InsertFilesCommand with SQLite enabled (SQLite file store; the command is generated only against a catalogue without SQLite, where it must fail identically everywhere)",
    "migrate events (Create/Update/RemoveEvent) are applied as pure catalogue commands: the cluster manager / migrate state machine that would issue them is not running; events always carry a partition descriptor, as the product's constructor does",
    "UpdateReplicationCommand keeps the new master partition id at 0: a wild id panics in the TransferLeadership goroutine outside Apply (process death, not attributable to one replica)",
    "CreateDatabase is issued as the meta handler does: CreateDbPtView first, CreateDatabase only if that succeeded",
    "excluded from the canonical dump because they are node-local soft state that is by design outside snapshots (Restore carries them over with SetOps / Unmarshal re-derives them): "
    "Data.OpsMap*, Data.OpsToMarshalIndex, Data.UpdateNodeTmpIndexCommandStart, DataNode.Index (incremental client sync), Data.ExpandShardsEnable (config mirror, 'not persistence'), Data.SQLite; unexported caches (MeasurementInfo.originName/tagKeysTotal)",
    "wall-clock stamps (ShardGroupInfo.DeletedAt, IndexGroupInfo.DeletedAt) are compared as set/unset; empty and nil maps/slices are the same value",
    "process-global settings (HA policy, SchemaCleanEn, replica distribution policy=node-hard) are set per case; one case runs at a time per worker process",
    "Go map iteration order inside the code under test differs per replica and per run for free; a defect that depends on it shows with probability < 1 per occurrence (replays are retried); "
    "a seed whose history reaches such a defect can give different API logs in different processes (determinism self-test: expect such seeds once the map-order findings are listed and stepped over)",
    "a panic inside Apply is reported under C16 (apply_panic); the run continues from the catalogue before the command on all replicas, the half-executed state is not judged; two panics count as the same result for C15",
    "C16 structural problems are reported when they appear (with the command that introduced them, on the reference replica; on B/C only problems the reference never had), not at every later step",
]

WORLDS = {
    "M": {
        "pkg": "app/ts-meta/meta", "harness": "meta", "test": "TestVerifWorldM", "cpu": 2,
        "real": ["app/ts-meta/meta storeFSM: Apply, ApplyBatch, Snapshot, storeFSMSnapshot.Persist, Restore, all apply* handlers",
                 "lib/util/lifted/influx/meta Data and every catalogue type (Clone, Marshal/Unmarshal, apply_func_base)",
                 "protobuf encoding of commands and of the snapshot"],
        "stub": ["hashicorp/raft (one agreed log delivered to 3 FSMs)", "raft snapshot store (in-memory sink)",
                 "NetStorage (package's own mock; TransferLeadership no-op)", "cluster manager, balancer, CQ lease scheduling (not started)"],
    },
}

PROPS = {
    "C15": {
        "world": "M", "level": "exploration",
        "rule": _M_RULE + " C15 oracle: per entry the Apply results (error strings) are equal on all replicas; the canonical dump of meta.Data "
                "(incl. Term/Index) is equal on all replicas at equal log positions, right after every restore/rebuild + replay, and across "
                "MarshalBinary->UnmarshalBinary of the reference after every entry.",
        "eval_extra": ["entries"],
        "probes": ["restore of a non-empty catalogue", "Persist ran after later entries were applied", "replica rebuilt from snapshot + log suffix",
                   "replica rebuilt from the whole log", "ApplyBatch with several entries",
                   "snapshot image contains effects of entries applied after Snapshot()", "polluted snapshot image converged after replay"],
        "assumptions": _M_ASSUMPTIONS,
        "quick": {"runs": 20000, "budget_s": 110, "workers": 14},
        "thorough": {"runs": 220000, "budget_s": 900, "workers": 16},
    },
    "C16": {
        "world": "M", "level": "exploration",
        "rule": _M_RULE + " C16 oracle, after every applied command on every replica (also right after a restore): live shard groups of one "
                "policy and engine kind pairwise disjoint, the group list sorted, groups created by CreateShardGroup aligned to the policy's "
                "duration at creation; measurement / shard group / shard / index group / index ids unique in the catalogue and never handed out "
                "again after they disappeared (set of ids ever seen), policy and measurement names unique; every shard's index exists in the "
                "policy and its owner partitions exist in PtView; the default policy of a database exists; a command that returned an error "
                "left the canonical dump (minus Term/Index) unchanged; a panic inside Apply is reported as apply_panic.",
        "eval_extra": ["entries", "wellformed_checks"],
        "probes": ["restore of a non-empty catalogue", "replica rebuilt from snapshot + log suffix", "ApplyBatch with several entries"],
        "assumptions": _M_ASSUMPTIONS,
        "quick": {"runs": 20000, "budget_s": 110, "workers": 14},
        "thorough": {"runs": 220000, "budget_s": 900, "workers": 16},
    },
}
