# World S (one storage shard on the simulated disk) - properties C01, C02, C03
_REAL = ["engine shard (WriteRows, ForceFlush, WAL, memtable, replay)",
         "engine/immutable (flush, TSSP files, sequencer, compaction, merge, replace protocol, recovery)",
         "engine/index/tsi + mergeset", "lib/record, lib/encoding, lib/compress",
         "read path: CreateCursor, cursors, ChunkReader, StreamAggregateTransform", "lib/fileops through simfs"]
_STUB = ["meta service (not needed at shard level)", "SQL layer (statements parsed by the real parser; reader ops hand-written as in the repo's own tests)", "network"]

WORLDS = {
    "S": {"pkg": "engine", "harness": "engine", "test": "TestVerifWorldS", "cpu": 2, "harness_files": ["s_*.go"], "real": _REAL, "stub": _STUB,
          "extra_overlay": {"engine/immutable/zz_verif_dbg.go": "hooks/immutable_dbg.go"},
          "det_note": "API-level log and history digest are identical in every process; where runs differ (C01, C03) it is the verdict of the listed WAL partition-order finding "
                      "(crash_stale_value): with several WAL partitions the engine removes / replays the partition files from parallel goroutines, their file-system calls reach the journal in an "
                      "order the seams do not fix, and whether a given crash point shows the (known) stale value depends on that order"},
}

_CRASH_ASSUME = ["crash model = process kill: completed file-system calls survive, the in-flight write may land as a prefix (byte-granular for WAL records, page-granular elsewhere); power loss is not modelled",
                 "integers are generated inside +-2^53 and floats without NaN/Inf (those belong to C06/C07)"]

PROPS = {
    "C02": {
        "world": "S", "level": "exploration",
        "rule": "One case = seeded knobs (WAL partitions, segment/row limits, compaction group size, memtable limit, chunk size, parallelism) + a seeded "
                "history of write batches (fresh, late, overwrites, partial field sets, repeated timestamps), flush, level/full compaction, "
                "out-of-order merge, clean reopen; after every op a full dump of every measurement and seeded range/field-subset/descending reads are "
                "compared with the last-write-wins model. Non-trivial = the history has a reorganisation (flush/compact/merge/reopen) followed by a "
                "write; distinct = distinct digest of knobs + operation list.",
        "eval_extra": [], "probes": ["out-of-order file present", "compacted file (level>0) present", "size-triggered flush", "flush while the flush times were loading"],
        "assumptions": ["single client; background work runs only as scheduled operations", "integers inside +-2^53, no NaN/Inf"],
        "quick": {"runs": 7000, "budget_s": 120, "workers": 14},
        "thorough": {"runs": 60000, "budget_s": 1200, "workers": 16, "env": {"VERIF_RUN_TIMEOUT_S": "900"}},
    },
    "C01": {
        "world": "S", "level": "fault_enumeration",
        "rule": "One case = a C02-style history; afterwards the journal of every incarnation is cut at mutation boundaries, stratified by "
                "(operation, path class, kind) with per_class points per class (all with per_class=0) plus torn variants of in-flight writes; each image is "
                "recovered by the real start-up path on a fresh directory and every read compared with the model (cells of the single in-flight op may be "
                "old or new), then written to, flushed and read again; recovery itself is journalled and crashed again (nested). evaluations = live runs + "
                "crash states. Non-trivial/distinct as for C02.",
        "eval_extra": ["crash_states"], "probes": ["out-of-order file present", "size-triggered flush"],
        "assumptions": _CRASH_ASSUME,
        "quick": {"runs": 120, "budget_s": 170, "workers": 14},
        "thorough": {"runs": 3000, "budget_s": 1500, "workers": 16, "env": {"VERIF_RUN_TIMEOUT_S": "900"}},
        # World S is sequential: a flush is atomic with respect to writes there.  The second part of this check takes crash
        # images at scheduler steps of world C (harness/engine/c_crash.go): a share of the workers runs world C's binary with
        # VERIF_PROP=C01; outcomes are merged into this property's evidence under the prefix "C:".
        "also": [{
            "world": "C", "share": 0.35,
            "rule": "One case = world C's concurrent tasks without readers and dropper: 2-3 writers (disjoint series, 3-6 batches each, about half of the rows overwrite one of the "
                    "writer's last three cells), a flusher (2-4 flushes), a compactor/merger (1-3 operations), a closer in a quarter of the cases, 1 WAL partition, after a sequential "
                    "prologue (layout of ordered / out-of-order files, optional clean restart; in a quarter of the cases extended by (write, flush) pairs so that the log file sequence "
                    "number is at or just below 9 -> 10); schedule as in C04 (file-system gates on data/ and wal/, lock-level yield points in a quarter of the cases). At every "
                    "crash_every-th scheduler step (1,2,3,5; the process is quiescent: every task parked, blocked or finished) the journal of the live disk is cut at its current length, "
                    "the image of that prefix is built in a fresh directory (parked operations have had no effect; with crash_torn additionally the image in which ONE parked write "
                    "has landed as a prefix, byte-granular for log records, page-granular elsewhere), a new shard incarnation is opened on it by the real start-up path (gates and yield parking "
                    "suspended), every measurement is read in full and judged, the incarnation is closed and discarded, and the live run goes on. Steps that changed neither the gated part of "
                    "the journal nor the acknowledgement state are skipped. Oracle per cell (series, timestamp, field): the recovered value is that of the latest write to the cell whose "
                    "acknowledgement the scheduler had observed before the crash step, or of a later write to it that was issued but not (observed as) acknowledged; a point with an acknowledged "
                    "field is present; no row that no issued write contains; rows ascending, every timestamp once. evaluations += crash states. Non-trivial = at least one crash state and one "
                    "acknowledged write.",
            "eval_extra": ["crash_states"],
            "probes": ["crash with a flush in flight", "crash with a write in flight", "crash with a compaction/merge in flight", "crash with two WAL files present",
                       "crash during sequencer reload", "crash with a write and a flush in flight", "crash with two WAL files and a write acknowledged since the flush began",
                       "crash with two WAL files whose sequence numbers differ in length (9.wal, 10.wal)", "crash image holds a compaction intent log"],
            "assumptions": ["crash points of the concurrent world are the quiescent points of its scheduler (between two gated file-system calls / yield points); a write counts as acknowledged "
                            "only once the scheduler has observed its WriteRows returning nil (returned-but-unobserved = in flight)",
                            "cases contain no DropMeasurement and no reader; 1 WAL partition (the listed replay-order defect of several partitions is kept out)",
                            "live reads, the settled read and the clean reopen of world C are clauses of C04 and are not judged here",
                            "the index (mergeset) is journalled but not gated: its background flushes land in the journal in real time"],
            "quick": {"runs": 600},
            "thorough": {"runs": 12000},
        }],
    },
    "C03": {
        "world": "S", "level": "fault_enumeration",
        "rule": "One case = a layout-building history followed by reorganisations (level/full compaction, out-of-order merge); dumps before/after every "
                "reorganisation are compared with the model, and every journal boundary class inside a reorganisation (intent log, renames, deletes, log "
                "removal) is crashed, recovered (nested crashes in the recovery pass) and compared. evaluations = live runs + crash states.",
        "eval_extra": ["crash_states"], "probes": ["out-of-order file present", "compacted file (level>0) present", "crash image holds a compaction intent log",
                                                   "compaction log recovered: files renamed into place at start-up"],
        "assumptions": _CRASH_ASSUME,
        "quick": {"runs": 700, "budget_s": 150, "workers": 14},
        "thorough": {"runs": 3000, "budget_s": 1500, "workers": 16, "env": {"VERIF_RUN_TIMEOUT_S": "900"}},
    },
    "C07": {
        "world": "S", "level": "fault_enumeration",
        "rule": "Claimed clauses of C07 only (storage path and torn log records; block-level codec fuzzing is not claimed). Values come from a codec-boundary "
                "generator (val_mode 2, harness/engine/s_codec.go): per (series, field) column one pattern that selects one encoder mode (int: constant, constant delta, "
                "small deltas, int64 extremes, 53-bit noise, alternating extremes, epoch-ns with zeros, 2^40 steps, wide float64-exact noise; float: constant, few runs, integer "
                "ramp, cycling decimals, NaN payloads / +-Inf / -0.0 / subnormals / MaxFloat64, random bits, random decimals, slowly changing binary fractions, and writes with exactly one "
                "NaN/+Inf/-Inf at the first, last or an inner row of an otherwise ordinary column; string: empty, short, long repetitive, random printable, 20 KB, >= 64 KiB, unicode, "
                "binary noise, part noise part filler around the 0.85 compression-ratio threshold; bool patterns); null patterns none / alternating / leading / trailing (all-null "
                "segments) / sparse / random / single field; column lengths 1, 2, a few, exactly / one more than a segment, several segments, 24 or 160 time slots; timestamps regular, "
                "jittered, irregular multiples of 10^1..10^12 ns, and regions >= 2^60 ns apart. Per-run knobs = what the store's configuration file can set: "
                "max-rows-per-segment (3 5 8 12 16 20 100 1000), string-compress-algo (snappy lz4 zstd), float-compress-algorithm (default / mlf), chunk-meta-compress-mode (0..3), "
                "compaction-method. Half of the cases run write -> WAL -> (replay) -> flush -> compaction/merge -> read with reads after every op compared bit for bit with the model; "
                "the other half cut every selected WAL record at its prefixes (all prefixes up to 512 B in the thorough tier; header boundaries + seeded offsets in quick) and require "
                "recovery to yield exactly the acknowledged prefix. After every flush / compaction / merge every block of every new data file is classified from its raw bytes as "
                "type/form/mode (hooks/immutable_dbg.go VerifBlockModes; form: one = single-value block, full = no nulls, empty = all nulls, bitmap = null bitmap at bit offset 0, "
                "bitmap+off = at a non-zero bit offset; mode = the nibble the decoder dispatches on) and counted under 'enc ...'; 'wire ...' counts shapes of the row batches that went "
                "through FastMarshalMultiRows / FastUnmarshalMultiRows into WAL records. evaluations = live runs + crash states.",
        "eval_extra": ["crash_states"],
        # Every block class the product can write on the ts-store path with settings its configuration file exposes
        # (derived from lib/encoding/{int,float,timestamp,string,bool}.go, lib/compress/float.go, engine/immutable/column_builder.go,
        # chunkdata_builder.go).  Not in the list, because the product cannot produce them here:
        #  * float/*/oldgorilla (mode 1): decode-only compatibility branch of lib/encoding/float.go, no encoder writes it
        #  * time/{bitmap,bitmap+off,empty}/*: the time column has no nulls (EncodeTime: one-value or "full" header only)
        #  * int|float|bool/empty/<mode>: Encode{Integer,Float,Boolean}Block return at once for an all-null segment (no payload -> "none");
        #    only the string coder encodes the (empty) offset table of an all-null segment, hence string/empty/<mode>
        #  * */one/<mode>: a single-value block stores the raw value (CanEncodeOneRowMode: 1 row, 1..15 value bytes)
        #  * float/*/gorilla with mlf on, float/*/mlf with mlf off: the two float selectors exclude each other (each is reached under its own setting)
        #  * detached (CRC-prefixed) blocks, column-store fragments, colstore string V1 packing: other engine types / read-only compatibility
        #  * BlockTag / unsigned blocks: no ts-store write path produces them
        "probes": ["out-of-order file present", "compacted file (level>0) present"]
                  + ["enc %s/one/raw" % t for t in ("int", "float", "bool", "string", "time")]
                  + ["enc %s/empty/none" % t for t in ("int", "float", "bool")]
                  + ["enc int/%s/%s" % (f, m) for f in ("full", "bitmap", "bitmap+off") for m in ("constdelta", "simple8b", "zstd", "uncompressed")]
                  + ["enc float/%s/%s" % (f, m) for f in ("full", "bitmap", "bitmap+off") for m in ("raw", "snappy", "gorilla", "same", "rle", "mlf")]
                  + ["enc bool/%s/bitpack" % f for f in ("full", "bitmap", "bitmap+off")]
                  + ["enc string/%s/%s" % (f, m) for f in ("full", "bitmap", "bitmap+off", "empty") for m in ("uncompressed", "snappy", "zstd", "lz4")]
                  + ["enc time/full/%s" % m for m in ("constdelta", "simple8b", "simple8b-scaled", "snappy", "uncompressed")]
                  + ["enc chunkmeta/%s" % m for m in ("none", "snappy", "lz4", "self")]
                  + ["wire " + w for w in ("batch of 1 row", "batch >= 24 rows", "row with 1 tag", "row with 1 field", "row with all 4 field types", "string len 0",
                                           "string >= 16 KiB", "string >= 64 KiB", "float NaN", "float +-Inf", "float -0.0", "int beyond 2^53 (float64-exact)", "int negative")],
        "assumptions": _CRASH_ASSUME[:1] + ["integers inside +-2^53, or beyond it only values a float64 holds exactly (the row codec carries numbers as float64; digit loss belongs to C06)",
                                            "encoder modes reached are measured per block (probes 'enc type/form/mode', every class the product can write is listed and must be hit)",
                                            "three listed findings are kept out of the generated cases so that they do not end (or kill the worker of) every run that meets them; VERIF_C07_ALL=1 lifts that: "
                                            "out-of-order merge with max-rows-per-segment not a multiple of 8 (process death), -0.0 with float-compress-algorithm = mlf, float blocks made of zeros only with a -0.0 among them",
                                            "rows always carry the host tag (no row without tags); time/full/snappy needs timestamps >= 2^60 ns apart inside one shard, i.e. a shard duration above 36.5 years"],
        "quick": {"runs": 500, "budget_s": 150, "workers": 14},
        "thorough": {"runs": 8000, "budget_s": 1500, "workers": 16, "env": {"VERIF_RUN_TIMEOUT_S": "900"}},
    },
    "C09": {
        "world": "S", "level": "exploration",
        "rule": "C02-style histories (memtable + ordered + out-of-order + compacted + merged files, partial field sets -> nulls, multi-segment chunks); after every operation "
                "seeded pairs (aggregate, plain select) over the same field, filter, time range (ends inside / on the edge of / outside segments and files) and grouping "
                "(all tags = one series per group; host only in a third of the pairs = several series per tag set, merged by the store-level AggTagSetCursor; epoch-aligned time bucket), numeric values negative for all / some series / every third slot in 3 of 5 cases, functions count sum min max first last on all field types they apply to, in the forms bare "
                "(pre-aggregation shortcut eligible), exact-statistics hint, time bucket, field filter. Oracle: aggregate = function over the rows the engine's own plain "
                "select returns. The bare form is skipped when a (series,timestamp) in range was written in more than one flush generation (the statement's exclusion). "
                "evaluations = runs + compared pairs. mean is sum/count and not queried separately.",
        "eval_extra": ["agg_pairs"], "probes": ["out-of-order file present", "compacted file (level>0) present"],
        "assumptions": ["aggregates are executed the way the repository's own tests do: CreateCursor + ChunkReader with call reader-ops (series plan nil) + StreamAggregateTransform; the sql-side planner is not in the loop",
                        "1 WAL partition (C01's defect kept out)", "float sums compared with 1e-9 relative tolerance; generated floats are multiples of 1/8"],
        "quick": {"runs": 6000, "budget_s": 150, "workers": 14},
        "thorough": {"runs": 40000, "budget_s": 1200, "workers": 16, "env": {"VERIF_RUN_TIMEOUT_S": "900"}},
    },
}
