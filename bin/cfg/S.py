# World S (one storage shard on the simulated disk) - properties C01, C02, C03
_REAL = ["engine shard (WriteRows, ForceFlush, WAL, memtable, replay)",
         "engine/immutable (flush, TSSP files, sequencer, compaction, merge, replace protocol, recovery)",
         "engine/index/tsi + mergeset", "lib/record, lib/encoding, lib/compress",
         "read path: CreateCursor, cursors, ChunkReader, StreamAggregateTransform", "lib/fileops through simfs"]
_STUB = ["meta service (not needed at shard level)", "SQL layer (statements parsed by the real parser; reader ops hand-written as in the repo's own tests)", "network"]

WORLDS = {
    "S": {"pkg": "engine", "harness": "engine", "test": "TestVerifWorldS", "cpu": 2, "harness_files": ["s_*.go"], "real": _REAL, "stub": _STUB,
          "extra_overlay": {"engine/immutable/zz_verif_dbg.go": "hooks/immutable_dbg.go"}},
}

_CRASH_ASSUME = ["crash model = process kill: completed file-system calls survive, the in-flight write may land as a prefix (byte-granular for WAL records, page-granular elsewhere); power loss is not modelled",
                 "integers are generated inside +-2^53 and floats without NaN/Inf (those belong to C06/C07)"]

PROPS = {
    "C02": {
        "world": "S", "level": "exploration",
        "rule": "One case = seeded knobs (WAL partitions, segment/row limits, compaction group size, memtable limit, chunk size, parallelism) + a seeded "
                "history of write batches (fresh, late, overwrites, partial field sets, repeated timestamps), flush, level/full compaction, "
                "out-of-order merge, clean reopen; after every op a full dump of every measurement and seeded range/field-subset/descending reads are "
                "compared with the last-write-wins model. Non-trivial = the history has a reorganisation (flush/compact/merge/reopen) followed by a "
                "write; distinct = distinct digest of knobs + operation list.",
        "eval_extra": [], "probes": ["out-of-order file present", "compacted file (level>0) present", "size-triggered flush"],
        "assumptions": ["single client; background work runs only as scheduled operations", "integers inside +-2^53, no NaN/Inf"],
        "quick": {"runs": 2400, "budget_s": 120, "workers": 14},
        "thorough": {"runs": 60000, "budget_s": 1500, "workers": 16},
    },
    "C01": {
        "world": "S", "level": "fault_enumeration",
        "rule": "One case = a C02-style history; afterwards the journal of every incarnation is cut at mutation boundaries, stratified by "
                "(operation, path class, kind) with per_class points per class (all with per_class=0) plus torn variants of in-flight writes; each image is "
                "recovered by the real start-up path on a fresh directory and every read compared with the model (cells of the single in-flight op may be "
                "old or new), then written to, flushed and read again; recovery itself is journalled and crashed again (nested). evaluations = live runs + "
                "crash states. Non-trivial/distinct as for C02.",
        "eval_extra": ["crash_states"], "probes": ["out-of-order file present", "size-triggered flush"],
        "assumptions": _CRASH_ASSUME,
        "quick": {"runs": 120, "budget_s": 170, "workers": 14},
        "thorough": {"runs": 3000, "budget_s": 2400, "workers": 16},
    },
    "C03": {
        "world": "S", "level": "fault_enumeration",
        "rule": "One case = a layout-building history followed by reorganisations (level/full compaction, out-of-order merge); dumps before/after every "
                "reorganisation are compared with the model, and every journal boundary class inside a reorganisation (intent log, renames, deletes, log "
                "removal) is crashed, recovered (nested crashes in the recovery pass) and compared. evaluations = live runs + crash states.",
        "eval_extra": ["crash_states"], "probes": ["out-of-order file present", "compacted file (level>0) present", "crash image holds a compaction intent log",
                                                   "compaction log recovered: files renamed into place at start-up"],
        "assumptions": _CRASH_ASSUME,
        "quick": {"runs": 700, "budget_s": 150, "workers": 14},
        "thorough": {"runs": 3000, "budget_s": 2400, "workers": 16},
    },
    "C07": {
        "world": "S", "level": "fault_enumeration",
        "rule": "Claimed clauses of C07 only (storage path and torn log records; block-level codec fuzzing is not claimed). Values come from a codec-boundary "
                "generator (per column: constant, constant-delta, small deltas, extremes, random bits; NaN payloads, +-Inf, -0.0, subnormals, MaxFloat64; empty, long "
                "compressible, random, 20 KB and unicode strings; boolean patterns; null patterns through partial field sets; 1-3 segments per column). Half of the cases run "
                "write -> WAL -> (replay) -> flush -> compaction/merge -> read with reads after every op compared bit for bit with the model; the other half cut every "
                "selected WAL record at its prefixes (all prefixes up to 512 B in the thorough tier; header boundaries + seeded offsets in quick) and require recovery to "
                "yield exactly the acknowledged prefix. evaluations = live runs + crash states.",
        "eval_extra": ["crash_states"], "probes": ["out-of-order file present", "compacted file (level>0) present"],
        "assumptions": _CRASH_ASSUME[:1] + ["integers inside +-2^53 (larger ones belong to C06)", "encoder modes reached are those the generated columns select; not measured per block"],
        "quick": {"runs": 500, "budget_s": 150, "workers": 14},
        "thorough": {"runs": 8000, "budget_s": 2400, "workers": 16},
    },
    "C09": {
        "world": "S", "level": "exploration",
        "rule": "C02-style histories (memtable + ordered + out-of-order + compacted + merged files, partial field sets -> nulls, multi-segment chunks); after every operation "
                "seeded pairs (aggregate, plain select) over the same field, filter, time range (ends inside / on the edge of / outside segments and files) and grouping "
                "(all tags, host only, epoch-aligned time bucket), asc/desc, functions count sum min max first last on all field types they apply to, in the forms bare "
                "(pre-aggregation shortcut eligible), exact-statistics hint, time bucket, field filter. Oracle: aggregate = function over the rows the engine's own plain "
                "select returns. The bare form is skipped when a (series,timestamp) in range was written in more than one flush generation (the statement's exclusion). "
                "evaluations = runs + compared pairs. mean is sum/count and not queried separately.",
        "eval_extra": ["agg_pairs"], "probes": ["out-of-order file present", "compacted file (level>0) present"],
        "assumptions": ["aggregates are executed the way the repository's own tests do: CreateCursor + ChunkReader with call reader-ops (series plan nil) + StreamAggregateTransform; the sql-side planner is not in the loop",
                        "1 WAL partition (C01's defect kept out)", "float sums compared with 1e-9 relative tolerance; generated floats are multiples of 1/8"],
        "quick": {"runs": 1500, "budget_s": 150, "workers": 14},
        "thorough": {"runs": 40000, "budget_s": 1800, "workers": 16},
    },
}
