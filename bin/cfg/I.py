# World I (engine/index/tsi) - property C10

WORLDS = {
    "I": {
        "pkg": "engine/index/tsi", "harness": "tsi", "test": "TestVerifWorldI", "cpu": 1,
        "real": ["engine/index/tsi (IndexBuilder, IndexRelation, MergeSetIndex, indexSearch, tagFilter, IndexCache)",
                 "engine/index/mergeindex", "lib/util/lifted/vm/mergeset (Table, parts, bloom-filter files) on simfs",
                 "lib/util/lifted/vm/protoparser/influx (line-protocol parser, index keys)",
                 "lib/util/lifted/influx/influxql (ConditionExpr, AST)", "lib/fileops via simfs journal"],
        "stub": ["meta service (logical clock = previous + 1 on every reopen)",
                 "store handler parseTagKeyCondition (ConditionExpr + VarRef.Type=Tag repeated in the harness)",
                 "engine.handleTagKeys (split of rendered series keys repeated in the harness for the tag-key listing)"],
    },
}

PROPS = {
    "C10": {
        "world": "I", "level": "exploration",
        "rule": "One case = knobs (bloom filter, perl-regex mode, cache compression, persistent read cache, background flusher on/off, "
                "prune threshold, logical clock / sequence base) + a seeded history of insert batches (line protocol parsed by the real parser, "
                "series keys from an adversarial alphabet, known series written again), index flush, cache clear, clean close + reopen on a fresh "
                "copy of the directory with logical clock + 1, lookups and searches of 3-8 generated predicate trees (=, !=, =~, !~, AND/OR/parentheses, "
                "depth <= 3) through SearchSeriesByTableAndCond, SearchSeriesKeys, SeriesCardinality, SearchTagValues(+Cardinality) and "
                "SearchSeriesWithOpts (time-range variants where the entry point takes one); every leaf is first handed to tagFilter.Init / matchSuffix on its own; every answer is compared with a brute-force evaluation over the map of written series "
                "(series created since the last flush may or may not be listed - the table makes raw items searchable within its 1 s flush interval). "
                "Ids: one per distinct key, never changed, never shared, key->id and id->key agree, never-written neighbour keys resolve to nothing. "
                "evaluations = runs + searches + lookups. A history is non-trivial if it created series, evaluated at least one predicate with a "
                "non-empty expected set, and searched after a flush, cache clear or reopen; distinct = distinct digest of (knobs, queries, operation list).",
        "eval_extra": ["searches", "lookups"],
        "probes": ["known series written again after reopen", "cache clear while items are un-flushed", "close with un-flushed items",
                   "more than MaxTSIDsPerRow (64) series in one measurement"],
        "assumptions": ["clean close / reopen only (crash is not in this property's quantifier); a reopened incarnation gets logical clock + 1 and a fresh sequence counter",
                        "series created since the last index flush may or may not be visible to searches (visibility delay of the mergeset raw-items flusher, 1 s); ids are exact at all times",
                        "with knob bg=false the table's background flusher and mergers are parked (Table.StopMergeAndFlusher) so that visibility does not depend on the wall clock; with bg=true they run and a cache clear takes an explicit flush first",
                        "bloom-filter cases (6%) are kept short (each flush writes ~120 MB of filter files) and skip the seam-completeness check; persistent-read-cache cases skip it too (fastcache writes with os calls)",
                        "a panic inside a search leaves the search's table cursor open; with bg=true conditions whose prune path is known to panic are not sent through SearchSeriesWithOpts (they are with bg=false)"],
        "quick": {"runs": 22000, "budget_s": 110, "workers": 14},
        "thorough": {"runs": 300000, "budget_s": 1200, "workers": 16},
    },
}
