# World C (concurrent clients on one storage shard under a seeded interleaving scheduler) - property C04
_REAL = ["engine shard (WriteRows, ForceFlush, DropMeasurement, Close, WAL, memtable, snapshot)",
         "engine/immutable (flush, TSSP files, reference counts, sequencer + asynchronous reload, level/full compaction, out-of-order merge, ReplaceFiles)",
         "read path: CreateCursor (cloneReaders, GetBothFilesRef), cursors, ChunkReader", "engine/index/tsi + mergeset (not gated)",
         "lib/fileops through simfs gates (mutations and reads of data/ and wal/)", "lock-level yield points (tools/yieldins: Lock/RLock/Unlock/RUnlock/Ref/Unref statements of the shard, memtable and immutable packages) under the seeded scheduler", "Go runtime scheduler between two yield points (real goroutines; GOMAXPROCS=1 without asynchronous preemption, 3 chaos workers at GOMAXPROCS=4)"]
_STUB = ["meta service (not needed at shard level)", "SQL layer (statements parsed by the real parser; reader ops hand-written as in the repo's own tests)", "network",
         "timers: size/time triggered flush and the compaction worker are switched off; flush/compaction/merge are client operations"]

WORLDS = {
    "C": {"pkg": "engine", "harness": "engine", "test": "TestVerifWorldC", "hang_is_violation": True, "cpu": 1,
          # one P and no asynchronous preemption: goroutines switch only where they block, park or yield
          # VERIF_C_YIELD_EXCLUDE: comma-separated substrings of yield-site names where no goroutine is ever parked
          "env": {"GODEBUG": "asyncpreemptoff=1", "VERIF_C_YIELD_EXCLUDE": ""},
          "det_cpus": [1, 1, 1, 1], "det_burners": [0, 0, 3, 3],
          "det_note": "registered configuration of world C is GOMAXPROCS=1 with GODEBUG=asyncpreemptoff=1 (chaos workers excepted); the "
                      "self-test therefore runs its four processes at GOMAXPROCS=1, concurrently, together with six busy-looping processes that compete for the machine "
                      "(processes are not pinned: the code under test sizes limiters by the CPUs of the affinity mask)", "real": _REAL, "stub": _STUB,
          "harness_files": ["s_*.go", "c_*.go"],
          # lock-level yield points (tools/yieldins): instrumented copies of these files of the current tree
          "yield_files": ["engine/shard.go", "engine/shard_ddl.go", "engine/ts_storage.go", "engine/iterators.go", "engine/wal.go",
                          "engine/mutable/table.go", "engine/mutable/ts_table.go", "engine/mutable/pool.go",
                          "engine/immutable/mms_tables.go", "engine/immutable/ts_mms_tables.go", "engine/immutable/tssp_file.go",
                          "engine/immutable/tssp_reader.go", "engine/immutable/compact.go", "engine/immutable/merge_out_of_order.go",
                          "engine/immutable/merge_tool.go", "engine/immutable/merge_util.go", "engine/immutable/sequencer.go",
                          "engine/immutable/mms_loader.go"],
          "extra_overlay": {"engine/immutable/zz_verif_dbg.go": "hooks/immutable_dbg.go",
                            "engine/immutable/zz_verif_c_hook.go": "hooks/c_immutable_hook.go",
                            "lib/util/lifted/vm/mergeset/zz_verif_seam.go": "hooks/mergeset_seam.go"}},
}

PROPS = {
    "C04": {
        "world": "C", "level": "exploration",
        "rule": "One case = knobs + operation list in rounds (T=0 operations run alone and ungated: prologue, clean restarts between concurrent segments) = a sequential prologue that builds a file layout (writes incl. late data, flushes, merge, compaction, optional clean "
                "reopen so that the first concurrent write starts the asynchronous sequencer reload) + operation lists of 2-3 writers (disjoint series, monotone "
                "with own overwrites), 2 readers, a flusher, a compactor/merger, optionally a dropper and a closer + a schedule seed. Every mutation (and per case "
                "every read of chosen classes: sequencer reload, query, compaction, merge) of data/ and wal/ files parks at a gate; one scheduler step = start one "
                "operation or release one parked FS operation or one goroutine parked at a lock-level yield point (descriptor-keyed uniform choice, PCT priorities over task classes in half of the runs, or a recorded schedule used as priority order in replays/minimisation), then wait for process-wide quiescence (runtime.Stack). Oracle per query: "
                "acknowledged-before-start points present, no duplicate/out-of-order timestamps, every value written to that cell by a write issued before the query "
                "ended, nothing a reader saw disappears; no deadlock/panic; settled full reads and a reopen equal the model. evaluations = runs + queries judged. "
                "Non-trivial = at least one scheduler step with a query in flight together with a flush/compaction/merge/sequencer reload/drop/close and at least one "
                "acknowledged concurrent write; distinct = distinct digest of (case, chosen-action sequence).",
        "eval_extra": ["queries", "final_reads"],
        "probes": ["sequencer reload in flight across scheduler steps", "query overlapped flush", "query overlapped compact", "query overlapped merge",
                   "query overlapped seq_reload", "query overlapped close", "query overlapped drop"],
        "assumptions": ["interleavings are explored at file-system-call granularity in every run and, in about two thirds of the runs (knob lock_nth), also at the Lock/RLock/Unlock/RUnlock/Ref/Unref "
                        "statements of the instrumented files (cfg yield_files; sites chosen per case by lock_sites/lock_cls, one arrival in lock_nth parks); code between two such points runs "
                        "un-interleaved at GOMAXPROCS=1 (goroutines woken or spawned inside a step are stopped at their next yield point and resumed one at a time in canonical order); "
                        "3 of the workers run at GOMAXPROCS=4 without that serialisation (chaos_runs)",
                        "the iteration order of the engine's measurement/series maps in the instrumented files is a per-case knob (map_order), not the runtime's random order",
                        "the index starts one background part merger per table (as on a one-CPU machine) in the GOMAXPROCS=1 workers",
                        "series are created and made visible in the prologue; writers own disjoint series",
                        "timer-driven flush/compaction are off (they are client operations)", "race-detector reports are leads, not violations"],
        # 3 of the workers run at GOMAXPROCS=4 ("chaos": in-memory races inside one scheduler step are left to the Go
        # runtime, as all workers did before the lock-level yield points existed); counted in stats as chaos_runs
        "chaos_workers": 3, "chaos_cpu": 4,
        "quick": {"runs": 3500, "budget_s": 170, "workers": 14},
        "thorough": {"runs": 45000, "budget_s": 1500, "workers": 16},
    },
}
