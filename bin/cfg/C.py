# World C (concurrent clients on one storage shard under a seeded interleaving scheduler) - property C04
_REAL = ["engine shard (WriteRows, ForceFlush, DropMeasurement, Close, WAL, memtable, snapshot)",
         "engine/immutable (flush, TSSP files, reference counts, sequencer + asynchronous reload, level/full compaction, out-of-order merge, ReplaceFiles)",
         "read path: CreateCursor (cloneReaders, GetBothFilesRef), cursors, ChunkReader", "engine/index/tsi + mergeset (not gated)",
         "lib/fileops through simfs gates (mutations and reads of data/ and wal/)", "Go runtime scheduler inside one step (real goroutines, GOMAXPROCS=4)"]
_STUB = ["meta service (not needed at shard level)", "SQL layer (statements parsed by the real parser; reader ops hand-written as in the repo's own tests)", "network",
         "timers: size/time triggered flush and the compaction worker are switched off; flush/compaction/merge are client operations"]

WORLDS = {
    "C": {"pkg": "engine", "harness": "engine", "test": "TestVerifWorldC", "cpu": 4, "real": _REAL, "stub": _STUB,
          "harness_files": ["s_*.go", "c_*.go"],
          "extra_overlay": {"engine/immutable/zz_verif_dbg.go": "hooks/immutable_dbg.go",
                            "engine/immutable/zz_verif_c_hook.go": "hooks/c_immutable_hook.go"}},
}

PROPS = {
    "C04": {
        "world": "C", "level": "exploration",
        "rule": "One case = knobs + operation list in rounds (T=0 operations run alone and ungated: prologue, clean restarts between concurrent segments) = a sequential prologue that builds a file layout (writes incl. late data, flushes, merge, compaction, optional clean "
                "reopen so that the first concurrent write starts the asynchronous sequencer reload) + operation lists of 2-3 writers (disjoint series, monotone "
                "with own overwrites), 2 readers, a flusher, a compactor/merger, optionally a dropper and a closer + a schedule seed. Every mutation (and per case "
                "every read of chosen classes: sequencer reload, query, compaction, merge) of data/ and wal/ files parks at a gate; one scheduler step = start one "
                "operation or release one parked FS operation (descriptor-keyed uniform choice, PCT priorities over task classes in half of the runs, or a recorded schedule used as priority order in replays/minimisation), then wait for process-wide quiescence (runtime.Stack). Oracle per query: "
                "acknowledged-before-start points present, no duplicate/out-of-order timestamps, every value written to that cell by a write issued before the query "
                "ended, nothing a reader saw disappears; no deadlock/panic; settled full reads and a reopen equal the model. evaluations = runs + queries judged. "
                "Non-trivial = at least one scheduler step with a query in flight together with a flush/compaction/merge/sequencer reload/drop/close and at least one "
                "acknowledged concurrent write; distinct = distinct digest of (case, chosen-action sequence).",
        "eval_extra": ["queries", "final_reads"],
        "probes": ["sequencer reload in flight across scheduler steps", "query overlapped flush", "query overlapped compact", "query overlapped merge",
                   "query overlapped seq_reload", "query overlapped close", "query overlapped drop"],
        "assumptions": ["interleavings are explored at file-system-call granularity; races between two in-memory sections inside one scheduler step are left to the Go scheduler",
                        "series are created and made visible in the prologue; writers own disjoint series",
                        "timer-driven flush/compaction are off (they are client operations)", "race-detector reports are leads, not violations"],
        "quick": {"runs": 3500, "budget_s": 170, "workers": 14},
        "thorough": {"runs": 45000, "budget_s": 2300, "workers": 16},
    },
}
