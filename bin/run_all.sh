#!/bin/bash
# runs every registered check of one tier in sequence against /repo; prints one line per check
cd "$(dirname "$0")/.."
tier=${1:-quick}; shift
ids=${@:-$(python3 -c "import json;print(' '.join(c['property_id'] for c in json.load(open('MANIFEST.json'))['checks']))")}
mkdir -p build/logs
for id in $ids; do
  t0=$(date +%s)
  ./bin/vsim check $id --tier $tier > build/logs/$tier-$id.log 2>&1; rc=$?
  echo "$id tier=$tier exit=$rc wall=$(( $(date +%s)-t0 ))s violations=$(grep -c '^VIOLATION' build/logs/$tier-$id.log) known=$(grep -c '^KNOWN-FINDING' build/logs/$tier-$id.log) unconfirmed=$(grep -c '^UNCONFIRMED' build/logs/$tier-$id.log)"
done
