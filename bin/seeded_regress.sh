#!/bin/bash
# Re-validates the saved seeded changes: for each seeded/<id>/ a scratch worktree of /repo gets patch.diff applied and the
# registered quick check of the property (or the checks named in meta.json "checks") is run against it with VERIF_REPO.
# Prints one line per (change, check): caught (exit 1 with VIOLATION lines) / MISSED (exit 0) / trouble (exit 2).
# usage: bin/seeded_regress.sh [id ...]      (default: all);   results also in build/logs/seeded-<id>-<check>.log
cd "$(dirname "$0")/.."
V=$(pwd)
ids=${@:-$(ls seeded)}
mkdir -p build/logs
for id in $ids; do
  d=seeded/$id
  [ -f $d/patch.diff ] || continue
  checks=$(python3 -c "import json;m=json.load(open('$d/meta.json'));print(' '.join(m.get('checks') or [m['property']]))")
  wt=/tmp/vsim-seeded-$id
  git -C /repo worktree remove --force $wt >/dev/null 2>&1; rm -rf $wt
  git -C /repo worktree add --detach $wt HEAD >/dev/null 2>&1 || { echo "$id worktree failed"; continue; }
  if ! git -C $wt apply $V/$d/patch.diff 2>/dev/null; then echo "$id patch does not apply to HEAD"; git -C /repo worktree remove --force $wt; continue; fi
  for c in $checks; do
    t0=$(date +%s)
    VERIF_REPO=$wt ./bin/vsim check $c --tier quick > build/logs/seeded-$id-$c.log 2>&1; rc=$?
    n=$(grep -c '^VIOLATION' build/logs/seeded-$id-$c.log)
    case $rc in 1) r="caught ($n violations)";; 0) r="MISSED";; *) r="trouble (exit $rc)";; esac
    echo "$id check=$c $r wall=$(( $(date +%s)-t0 ))s"
  done
  altdir="build/alt-$(python3 -c "import hashlib,os,sys;print(hashlib.sha1(os.path.realpath(sys.argv[1]).encode()).hexdigest()[:8])" $wt)"
  git -C /repo worktree remove --force $wt >/dev/null 2>&1; rm -rf $wt
  rm -rf "$altdir"
done
