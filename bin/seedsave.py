#!/usr/bin/env python3
"""seedsave.py <id> <worktree> <confirmed text> <check_run> <check_result>: copies a seeded change (out/patch.diff,
out/demo, out/meta.json of a sub-agent's scratch worktree) to /verif/seeded/<id>/ and records what was run."""
import json, os, shutil, sys
sid, wt, conf, run, res = sys.argv[1:6]
dst = os.path.join("/verif/seeded", sid)
os.makedirs(dst, exist_ok=True)
shutil.copy(os.path.join(wt, "out/patch.diff"), os.path.join(dst, "patch.diff"))
if os.path.isdir(os.path.join(dst, "demo")):
    shutil.rmtree(os.path.join(dst, "demo"))
shutil.copytree(os.path.join(wt, "out/demo"), os.path.join(dst, "demo"))
m = json.load(open(os.path.join(wt, "out/meta.json")))
m["origin"] = "independent sub-agent given only the property text and a scratch worktree"
m["confirmed_by_me"] = conf
m["check_run"] = run
m["check_result"] = res
json.dump(m, open(os.path.join(dst, "meta.json"), "w"), indent=1)
print("saved", dst)
