# Per-world and per-property configuration of the vsim orchestrator.
# Each file bin/cfg/<World>.py defines WORLDS = {...} and PROPS = {...}; they are merged here.
import glob, os, runpy

WORLDS, PROPS = {}, {}
for _f in sorted(glob.glob(os.path.join(os.path.dirname(os.path.abspath(__file__)), "cfg", "*.py"))):
    _ns = runpy.run_path(_f)
    WORLDS.update(_ns.get("WORLDS", {}))
    PROPS.update(_ns.get("PROPS", {}))
