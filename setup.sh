#!/bin/sh
# Builds nothing heavy yet; checks rebuild from /repo's working tree on each run.
set -e
cd "$(dirname "$0")"
mkdir -p build evidence replays selftest
exit 0
