module verif/tools/yieldins

go 1.23

// built with the toolchain of /repo: the map-order rewrite reads the export data that toolchain writes
toolchain go1.25.0
