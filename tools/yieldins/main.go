// yieldins inserts lock-level yield points into copies of Go source files.
//
//	yieldins -repo /repo -out /verif/build/gen-C [-import <path of verifyield>] file.go ...
//
// For every file (path relative to -repo) an instrumented copy is written to
// <out>/<file>.  In every function body
//
//	X.Lock()   X.RLock()                       (plain statements, zero arguments)
//
// are preceded by, and
//
//	X.Unlock() X.RUnlock()                     (plain statements; defers are left alone)
//
// are followed by `verifyield.Point("<file>:<Func>:<Kind>#<k>")` (Lock/RLock statements
// are also followed by one of kind Locked/RLocked, `X.Wait()` and `<-ch` statements by
// one of kind Waited/Recvd: places where a goroutine may just have been woken by
// another one; the scheduler parks there only to serialise, never by seeded choice); plain statements
// `X.Ref()`, `X.UnRef()`, `X.Unref()`, `X.RefFileReader()`, `X.UnrefFileReader()` and
// `if`-statements whose condition calls one of them are preceded by one.  <Func> is the
// enclosing top-level function ("Recv.Method"), k the ordinal of the site inside it.
//
// The text is edited in place (`stmt` -> `verifyield.Point(..); stmt` on the same line;
// the import is appended to the line of the package clause), so line numbers, comments,
// function names and build constraints of the copy are those of the original.
//
// With -exports <file> (lines "<import path>\t<export data file>", from `go list -export
// -deps`) the packages of the listed files are type-checked and every `range X` over a map
// with an ordered key type becomes `range verifyield.Sorted(X)`: the iteration order of
// those maps is then a seeded choice of the harness instead of the runtime's random one.
// If the type check cannot be set up the files are instrumented without that rewrite.
//
// Exit status 0 always unless the arguments are unusable; a file that cannot be
// instrumented is reported on stderr ("WARN ...") and no copy is written for it — the
// caller then builds with the original file.  One line per file on stdout:
// "<file> <number of sites>".
package main

import (
	"bufio"
	"flag"
	"fmt"
	"go/ast"
	"go/build"
	"go/importer"
	"go/parser"
	"go/token"
	"go/types"
	"io"
	"os"
	"path/filepath"
	"sort"
	"strconv"
	"strings"
)

var (
	lockKinds   = map[string]bool{"Lock": true, "RLock": true}
	unlockKinds = map[string]bool{"Unlock": true, "RUnlock": true}
	refKinds    = map[string]bool{"Ref": true, "UnRef": true, "Unref": true, "RefFileReader": true, "UnrefFileReader": true}
)

type edit struct {
	off  int
	text string
	seq  int
}

type rewriter struct {
	fset  *token.FileSet
	file  string // repo-relative path, used in site names
	fn    string // enclosing top-level function
	k     int    // ordinal inside fn
	edits []edit
	sites []string
}

// callKind: X.<Name>() with zero arguments -> Name.
func callKind(e ast.Expr) string {
	c, ok := e.(*ast.CallExpr)
	if !ok || len(c.Args) != 0 {
		return ""
	}
	s, ok := c.Fun.(*ast.SelectorExpr)
	if !ok {
		return ""
	}
	return s.Sel.Name
}

// refCallIn: the condition of an if statement calls a reference-count helper.
func refCallIn(e ast.Expr) string {
	kind := ""
	ast.Inspect(e, func(n ast.Node) bool {
		if _, ok := n.(*ast.FuncLit); ok {
			return false
		}
		if x, ok := n.(ast.Expr); ok && kind == "" {
			if k := callKind(x); refKinds[k] {
				kind = k
			}
		}
		return kind == ""
	})
	return kind
}

func (r *rewriter) point(kind string) string {
	r.k++
	site := fmt.Sprintf("%s:%s:%s#%d", r.file, r.fn, kind, r.k)
	r.sites = append(r.sites, site)
	return "verifyield.Point(" + strconv.Quote(site) + ")"
}

func (r *rewriter) before(n ast.Node, kind string) {
	r.edits = append(r.edits, edit{off: r.fset.Position(n.Pos()).Offset, text: r.point(kind) + "; ", seq: len(r.edits)})
}

func (r *rewriter) after(n ast.Node, kind string) {
	r.edits = append(r.edits, edit{off: r.fset.Position(n.End()).Offset, text: "; " + r.point(kind), seq: len(r.edits)})
}

// stmts handles one statement list (block, case clause, select clause).
func (r *rewriter) stmts(list []ast.Stmt) {
	for _, s := range list {
		switch st := s.(type) {
		case *ast.ExprStmt:
			k := callKind(st.X)
			switch {
			case lockKinds[k]:
				r.before(st, k)
				r.after(st, k+"ed") // "Locked"/"RLocked": the goroutine may just have been woken
			case refKinds[k]:
				r.before(st, k)
			case unlockKinds[k]:
				r.after(st, k)
			case k == "Wait":
				r.after(st, "Waited") // sync.WaitGroup / sync.Cond: woken by another goroutine
			}
			if u, ok := st.X.(*ast.UnaryExpr); ok && u.Op == token.ARROW {
				r.after(st, "Recvd") // plain channel receive statement
			}
		case *ast.IfStmt:
			if st.Init == nil {
				if k := refCallIn(st.Cond); k != "" {
					r.before(st, k)
				}
			}
		}
	}
}

func (r *rewriter) walk(body *ast.BlockStmt) {
	ast.Inspect(body, func(n ast.Node) bool {
		switch x := n.(type) {
		case *ast.BlockStmt:
			r.stmts(x.List)
		case *ast.CaseClause:
			r.stmts(x.Body)
		case *ast.CommClause:
			r.stmts(x.Body)
		}
		return true
	})
}

func recvName(fd *ast.FuncDecl) string {
	if fd.Recv == nil || len(fd.Recv.List) == 0 {
		return ""
	}
	t := fd.Recv.List[0].Type
	for {
		switch x := t.(type) {
		case *ast.StarExpr:
			t = x.X
			continue
		case *ast.IndexExpr:
			t = x.X
			continue
		case *ast.IndexListExpr:
			t = x.X
			continue
		case *ast.ParenExpr:
			t = x.X
			continue
		case *ast.Ident:
			return x.Name + "."
		}
		return ""
	}
}

// mapRanges: the range statements of f whose operand is a map with an ordered key type.
func mapRanges(f *ast.File, info *types.Info) []*ast.RangeStmt {
	var out []*ast.RangeStmt
	if info == nil {
		return nil
	}
	ast.Inspect(f, func(n ast.Node) bool {
		rs, ok := n.(*ast.RangeStmt)
		if !ok || (rs.Key == nil && rs.Value == nil) {
			return true
		}
		t := info.TypeOf(rs.X)
		if t == nil {
			return true
		}
		m, ok := t.Underlying().(*types.Map)
		if !ok {
			return true
		}
		b, ok := m.Key().Underlying().(*types.Basic)
		if !ok || b.Info()&(types.IsInteger|types.IsFloat|types.IsString) == 0 {
			return true
		}
		out = append(out, rs)
		return true
	})
	return out
}

// typeCheckDir type-checks the package in dir (non-test files matching the build
// constraints) and returns the type information, or nil.
func typeCheckDir(repo, dir string, exports map[string]string) (*types.Info, *token.FileSet, map[string]*ast.File, map[string][]byte) {
	if len(exports) == 0 {
		return nil, nil, nil, nil
	}
	ents, err := os.ReadDir(filepath.Join(repo, dir))
	if err != nil {
		return nil, nil, nil, nil
	}
	ctx := build.Default
	fset := token.NewFileSet()
	byName := map[string]*ast.File{}
	srcs := map[string][]byte{}
	var files []*ast.File
	for _, e := range ents {
		n := e.Name()
		if e.IsDir() || !strings.HasSuffix(n, ".go") || strings.HasSuffix(n, "_test.go") {
			continue
		}
		if ok, err := ctx.MatchFile(filepath.Join(repo, dir), n); err != nil || !ok {
			continue
		}
		rel := filepath.Join(dir, n)
		src, err := os.ReadFile(filepath.Join(repo, rel))
		if err != nil {
			return nil, nil, nil, nil
		}
		f, err := parser.ParseFile(fset, rel, src, parser.ParseComments|parser.SkipObjectResolution)
		if err != nil {
			fmt.Fprintf(os.Stderr, "WARN yieldins: %s does not parse (%v): no map-order rewrite in %s\n", rel, err, dir)
			return nil, nil, nil, nil
		}
		files = append(files, f)
		byName[rel] = f
		srcs[rel] = src
	}
	imp := importer.ForCompiler(fset, "gc", func(path string) (io.ReadCloser, error) {
		p, ok := exports[path]
		if !ok {
			return nil, fmt.Errorf("no export data for %s", path)
		}
		return os.Open(p)
	})
	nerr := 0
	conf := types.Config{Importer: imp, FakeImportC: true, Error: func(err error) {
		if nerr < 3 {
			fmt.Fprintf(os.Stderr, "WARN yieldins: type check of %s: %v\n", dir, err)
		}
		nerr++
	}}
	info := &types.Info{Types: map[ast.Expr]types.TypeAndValue{}}
	_, _ = conf.Check(dir, fset, files, info)
	if nerr > 0 {
		// incomplete type information could make Sorted() wrap something that is not a map:
		// the build would fail; better no map-order rewrite in this package
		fmt.Fprintf(os.Stderr, "WARN yieldins: %d type errors in %s: no map-order rewrite there\n", nerr, dir)
		return nil, fset, byName, srcs
	}
	return info, fset, byName, srcs
}

type pkgInfo struct {
	info   *types.Info
	fset   *token.FileSet
	byName map[string]*ast.File
	srcs   map[string][]byte
}

func instrument(repo, rel, out, imp string, pi *pkgInfo) (int, error) {
	var src []byte
	var fset *token.FileSet
	var f *ast.File
	var info *types.Info
	if pi != nil && pi.byName[rel] != nil {
		src, fset, f, info = pi.srcs[rel], pi.fset, pi.byName[rel], pi.info
	} else {
		var err error
		src, err = os.ReadFile(filepath.Join(repo, rel))
		if err != nil {
			return 0, err
		}
		fset = token.NewFileSet()
		f, err = parser.ParseFile(fset, rel, src, parser.ParseComments|parser.SkipObjectResolution)
		if err != nil {
			return 0, err
		}
	}
	for _, is := range f.Imports {
		if is.Name != nil && is.Name.Name == "verifyield" {
			return 0, fmt.Errorf("already imports verifyield")
		}
	}
	if f.Scope != nil && f.Scope.Lookup("verifyield") != nil {
		return 0, fmt.Errorf("declares an identifier verifyield")
	}
	r := &rewriter{fset: fset, file: filepath.ToSlash(rel)}
	for _, d := range f.Decls {
		fd, ok := d.(*ast.FuncDecl)
		if !ok || fd.Body == nil {
			continue
		}
		r.fn, r.k = recvName(fd)+fd.Name.Name, 0
		r.walk(fd.Body)
	}
	nmaps := 0
	for _, rs := range mapRanges(f, info) {
		r.edits = append(r.edits, edit{off: fset.Position(rs.X.Pos()).Offset, text: "verifyield.Sorted(", seq: len(r.edits)})
		r.edits = append(r.edits, edit{off: fset.Position(rs.X.End()).Offset, text: ")", seq: len(r.edits)})
		r.sites = append(r.sites, fmt.Sprintf("%s:%d:maprange", r.file, fset.Position(rs.Pos()).Line))
		nmaps++
	}
	if len(r.edits) == 0 {
		return 0, nil
	}
	// the import goes onto the line of the package clause
	r.edits = append(r.edits, edit{off: fset.Position(f.Name.End()).Offset, text: "; import verifyield " + strconv.Quote(imp), seq: -1})
	sort.SliceStable(r.edits, func(i, j int) bool {
		if r.edits[i].off != r.edits[j].off {
			return r.edits[i].off < r.edits[j].off
		}
		return r.edits[i].seq < r.edits[j].seq
	})
	var b strings.Builder
	last := 0
	for _, e := range r.edits {
		if e.off < last || e.off > len(src) {
			return 0, fmt.Errorf("internal: edit offsets out of order")
		}
		b.Write(src[last:e.off])
		b.WriteString(e.text)
		last = e.off
	}
	b.Write(src[last:])
	res := b.String()
	// the result must parse and must have the same top-level functions on the same lines
	fset2 := token.NewFileSet()
	f2, err := parser.ParseFile(fset2, rel, res, parser.SkipObjectResolution)
	if err != nil {
		return 0, fmt.Errorf("instrumented copy does not parse: %v", err)
	}
	if len(f2.Decls) != len(f.Decls)+1 {
		return 0, fmt.Errorf("instrumented copy has %d declarations, expected %d", len(f2.Decls), len(f.Decls)+1)
	}
	for i, d := range f.Decls {
		a, ok := d.(*ast.FuncDecl)
		if !ok {
			continue
		}
		c, ok := f2.Decls[i+1].(*ast.FuncDecl)
		if !ok || c.Name.Name != a.Name.Name || fset.Position(a.Pos()).Line != fset2.Position(c.Pos()).Line || fset.Position(a.End()).Line != fset2.Position(c.End()).Line {
			return 0, fmt.Errorf("function %s moved in the instrumented copy", a.Name.Name)
		}
	}
	dst := filepath.Join(out, rel)
	if err := os.MkdirAll(filepath.Dir(dst), 0o755); err != nil {
		return 0, err
	}
	tmp := dst + ".tmp"
	if err := os.WriteFile(tmp, []byte(res), 0o644); err != nil {
		return 0, err
	}
	if err := os.Rename(tmp, dst); err != nil {
		return 0, err
	}
	_ = os.WriteFile(dst+".sites", []byte(strings.Join(r.sites, "\n")+"\n"), 0o644)
	nMapRanges += nmaps
	return len(r.sites) - nmaps, nil
}

var nMapRanges int

func readExports(path string) map[string]string {
	m := map[string]string{}
	if path == "" {
		return m
	}
	fh, err := os.Open(path)
	if err != nil {
		fmt.Fprintf(os.Stderr, "WARN yieldins: %v: no map-order rewrite\n", err)
		return m
	}
	defer fh.Close()
	sc := bufio.NewScanner(fh)
	sc.Buffer(make([]byte, 1<<20), 1<<20)
	for sc.Scan() {
		if p := strings.SplitN(sc.Text(), "\t", 2); len(p) == 2 && p[1] != "" {
			m[p[0]] = p[1]
		}
	}
	return m
}

func main() {
	repo := flag.String("repo", "/repo", "root of the source tree")
	out := flag.String("out", "", "directory for the instrumented copies")
	imp := flag.String("import", "github.com/openGemini/openGemini/verifsim/verifyield", "import path of the verifyield package")
	exp := flag.String("exports", "", "file with lines \"<import path>\\t<export data file>\" (go list -export -deps); enables the map-order rewrite")
	flag.Parse()
	if *out == "" || flag.NArg() == 0 {
		fmt.Fprintln(os.Stderr, "usage: yieldins -repo DIR -out DIR file.go ...")
		os.Exit(2)
	}
	exports := readExports(*exp)
	pkgs := map[string]*pkgInfo{}
	for _, rel := range flag.Args() {
		_ = os.Remove(filepath.Join(*out, rel)) // never leave a stale copy behind
		dir := filepath.Dir(rel)
		pi, seen := pkgs[dir]
		if !seen {
			pi = &pkgInfo{}
			func() {
				defer func() {
					if r := recover(); r != nil {
						fmt.Fprintf(os.Stderr, "WARN yieldins: type check of %s panicked (%v): no map-order rewrite there\n", dir, r)
						pi = &pkgInfo{}
					}
				}()
				pi.info, pi.fset, pi.byName, pi.srcs = typeCheckDir(*repo, dir, exports)
			}()
			pkgs[dir] = pi
		}
		n, err := instrument(*repo, rel, *out, *imp, pi)
		if err != nil {
			fmt.Fprintf(os.Stderr, "WARN yieldins: %s not instrumented: %v\n", rel, err)
			continue
		}
		fmt.Printf("%s %d\n", rel, n)
	}
	fmt.Printf("#maprange %d\n", nMapRanges)
}
