#!/bin/bash
# dev aid: run a world P replay file by hand (worker + child process), keep the worker log and the outcome
# usage: p-replay.sh <replay.json> [binary]     env: TAG=x (separate scratch), VERIF_DEBUG=1 (step log, child stderr), VERIF_PLOG=1
REPLAY=$(readlink -f "$1")
BIN=${2:-/verif/build/bin/P.test}
D=/dev/shm/ptriage${TAG:-}
mkdir -p $D
rm -rf $D/scr $D/out.jsonl $D/log.txt $D/replays
cd $D
export GODEBUG=${GODEBUG:-asyncpreemptoff=1} VERIF_MODE=replay VERIF_PROP=C05 VERIF_OUT=$D/out.jsonl VERIF_SCRATCH=$D/scr \
  VERIF_KNOWN=${VERIF_KNOWN:-/verif/known_findings.json} VERIF_REPLAY_DIR=$D/replays VERIF_REPLAY=$REPLAY
$BIN -test.run '^TestVerifWorldP$' -test.count 1 -test.timeout 0 -test.cpu 1 > log.txt 2>&1
python3 - <<'E'
import json,os
for l in open(os.environ['VERIF_OUT']):
    l=json.loads(l)
    if l.get('type')=='replay':
        v=(l.get('outcome') or {}).get('violation') or l.get('violation')
        print(json.dumps(v,indent=1)[:6000] if v else 'no violation')
E
