#!/bin/bash
# dev aid: run world C's worker by hand for property C01 (crash images at scheduler steps)
# usage: runc.sh <runs> [seed] [binary]
RUNS=${1:-6}
SEED=${2:-1}
BIN=${3:-/verif/build/bin/C.test}
D=/dev/shm/c3t${TAG:-}
mkdir -p $D
rm -rf $D/scr $D/out.jsonl $D/log.txt $D/replays
cd $D
export GODEBUG=asyncpreemptoff=1 VERIF_MODE=${MODE:-search} VERIF_PROP=C01 VERIF_TIER=quick VERIF_SEED=$SEED VERIF_WORKER=0 VERIF_NWORKERS=1 \
  VERIF_RUNS=$RUNS VERIF_BUDGET_S=${BUDGET:-120} VERIF_OUT=$D/out.jsonl VERIF_SCRATCH=$D/scr VERIF_KNOWN=/verif/known_findings.json VERIF_REPLAY_DIR=$D/replays VERIF_REPLAY=${REPLAY:-}
time $BIN -test.run '^TestVerifWorldC$' -test.count 1 -test.timeout 0 -test.cpu 1 > log.txt 2>&1
tail -5 log.txt | cut -c1-300
python3 - <<'E'
import json
tot={}
for l in open('/dev/shm/c3t'+__import__("os").environ.get("TAG","")+'/out.jsonl'):
    l=json.loads(l)
    if l['type']=='run':
        o=l['outcome']; st=o.get('stats',{})
        print(l['run'],l['exec_ms'],'ms steps',st.get('steps'),'crash_states',st.get('crash_states'),'torn',st.get('crash_torn_states'),'skipped',st.get('crash_steps_same_state_skipped'),'check_ms',(st.get('crash_check_us') or 0)//1000,'viol',(o.get('violation') or {}).get('kind'), (o.get('infra') or '')[:600])
        for k,v in (o.get('probes') or {}).items(): tot[k]=tot.get(k,0)+v
        for k,v in (o.get('known') or {}).items(): tot['KNOWN '+k]=tot.get('KNOWN '+k,0)+v
    elif l['type'] not in ('start',): print(str(l)[:2500])
for k in sorted(tot): print('  ',tot[k],k)
E
