package tsi

// World I — execution of a case against the real index and the oracle of C10.

import (
	"fmt"
	"os"
	"path/filepath"
	"runtime/debug"
	"sort"
	"strings"
	"sync"
	"testing"
	"time"

	"github.com/openGemini/openGemini/lib/config"
	"github.com/openGemini/openGemini/lib/index"
	oglogger "github.com/openGemini/openGemini/lib/logger"
	"github.com/openGemini/openGemini/lib/syscontrol"
	"github.com/openGemini/openGemini/lib/util/lifted/influx/influxql"
	"github.com/openGemini/openGemini/lib/util/lifted/influx/meta"
	"github.com/openGemini/openGemini/lib/util/lifted/influx/query"
	"github.com/openGemini/openGemini/lib/util/lifted/vm/protoparser/influx"
	"github.com/openGemini/openGemini/verifsim/core"
	"github.com/openGemini/openGemini/verifsim/simfs"
	"github.com/savsgio/dictpool"
	"go.uber.org/zap"
)

// entry points a search op goes through
var allAPIs = []string{"ids", "series", "card", "tagvalues", "opts"}

type iRun struct {
	c     ICase
	env   *core.Env
	out   *core.Outcome
	fs    *simfs.FS
	disk  *simfs.Disk
	disks []*simfs.Disk
	inits []string

	builder *IndexBuilder
	idx     *MergeSetIndex
	seq     *uint64
	clock   uint64
	inc     int
	lock    string

	model  *iModel
	idOrd  map[uint64]int
	trFlip int
	after  string // kind of the last state-changing operation (insert|flush|cacheclear|reopen|open)
	opIdx  int
	nLine  int
	// what happened since the series became pending (for attribution)
	sawFlushLike        bool
	searchesAfterChange int
}

// knownID: is v a listed finding that can be stepped over?  Triage aid: with
// VERIF_I_FOCUS=<substring> set, every violation whose "kind k=v k=v ..." line does not
// contain the substring (several: joined with '&') is stepped over as well (never set by vsim).
func (run *iRun) knownID(v *core.Violation) string {
	if f := os.Getenv("VERIF_I_FOCUS"); f != "" {
		line := v.Kind
		for _, k := range core.SortedKeys(v.Attrs) {
			line += " " + k + "=" + v.Attrs[k]
		}
		for _, part := range strings.Split(f, "&") {
			if !strings.Contains(line, part) {
				return "unfocused"
			}
		}
		return ""
	}
	return run.env.KnownID(v, run.out)
}

// idn names an id without its scheduling-dependent part: rows of one batch get their
// sequence numbers on several goroutines, so the raw value is not a function of the case;
// the logical clock (upper 3 bytes) and the order in which the harness met the id are.
func (run *iRun) idn(id uint64) string {
	if id == 0 {
		return "id 0"
	}
	if run.idOrd == nil {
		run.idOrd = map[uint64]int{}
	}
	o, ok := run.idOrd[id]
	if !ok {
		o = len(run.idOrd) + 1
		run.idOrd[id] = o
	}
	return fmt.Sprintf("id#%d(clock %d)", o, id>>40)
}

func violI(kind, detail string, attrs map[string]string) *core.Violation {
	return &core.Violation{Property: "C10", Kind: kind, Detail: detail, Attrs: attrs}
}

func (run *iRun) baseAttrs(extra map[string]string) map[string]string {
	a := map[string]string{
		"after":   run.after,
		"pending": fmt.Sprint(run.model.pendingCount() > 0),
	}
	for k, v := range extra {
		a[k] = v
	}
	return a
}

var quietOnce sync.Once

func (w worldI) Exec(c ICase, env *core.Env) *core.Outcome {
	out := core.NewOutcome()
	// the default logger writes under $HOME/.openGemini/logs: nothing may be written outside the scratch directory
	quietOnce.Do(func() { oglogger.SetLogger(zap.NewNop()) })
	// knobs (process-global configuration, set for every case)
	ic := config.NewIndex()
	ic.CacheCompressEnable = !c.Knobs.NoCompress
	ic.BloomFilterEnabled = c.Knobs.Bloom
	ic.TagScanPruneThreshold = c.Knobs.PruneThresh
	ic.TSIDCacheSize, ic.SKeyCacheSize, ic.TagCacheSize, ic.TagFilterCostCacheSize = 1<<20, 1<<20, 1<<20, 1<<20
	config.SetIndexConfig(ic)
	sc := *config.GetStoreConfig()
	sc.EnablePerlRegrep = c.Knobs.PerlRegex
	config.SetStoreConfig(sc)
	syscontrol.SetIndexReadCachePersistent(c.Knobs.PersistCache)

	run := &iRun{c: c, env: env, out: out, fs: simfs.Install(), model: newModel(), clock: c.Knobs.Clock0, after: "open"}
	defer run.cleanup()
	if err := run.open(filepath.Join(env.Scratch, "inc0"), ""); err != nil {
		out.Violation = violI("open_failed", "first open failed: "+err.Error(), nil)
		return out
	}
	var hd []string
	kb := fmt.Sprintf("%+v", c.Knobs)
	hd = append(hd, kb)
	out.Log("knobs %s", kb)
	for i, q := range c.Queries {
		ps := "<all>"
		if q.Pred != nil {
			ps = q.Pred.String()
		}
		hd = append(hd, fmt.Sprintf("q%d %q %s %q", i, q.Mst, ps, q.Keys))
	}
	checkedAfterChange := false
	for i, op := range c.Ops {
		run.opIdx = i
		run.disk.SetTag(i)
		hd = append(hd, opDigest(op))
		v := run.step(i, op)
		if v != nil {
			out.Violation = v
			return out
		}
		out.Stats["ops"]++
		if op.Kind == "search" && (run.after != "open" && run.after != "insert") && len(run.model.list) > 0 {
			checkedAfterChange = true
		}
	}
	// final implicit checks: every series by key and by id, every query through every API
	run.opIdx = len(c.Ops)
	if v := run.lookupAll(); v != nil {
		out.Violation = v
		return out
	}
	for qi := range c.Queries {
		if v := run.searchQuery(qi, nil); v != nil {
			out.Violation = v
			return out
		}
	}
	out.Digest = core.DigestStrings(hd)
	out.Nontrivial = checkedAfterChange && out.Stats["series_created"] > 0 && out.Stats["nonempty_expectations"] > 0
	if !c.Knobs.PersistCache && !c.Knobs.Bloom {
		// (bloom-filter cases write ~120 MB per flush and skip this for cost)
		// the persistent read cache is written by fastcache with os calls (outside the
		// seam by construction); everything else must have gone through the journal
		if err := run.closeForCheck(); err != nil {
			out.Violation = violI("close_error", "final close: "+err.Error(), run.baseAttrs(nil))
			return out
		}
		// the table removes finished merge-transaction files on a goroutine of its own: give it a moment
		var cerr error
		for try := 0; try < 20; try++ {
			if cerr = run.disk.CheckComplete(filepath.Join(env.Scratch, "complete-check"), run.inits[len(run.inits)-1], nil); cerr == nil {
				break
			}
			time.Sleep(10 * time.Millisecond)
		}
		if cerr != nil {
			out.Infra = cerr.Error()
		}
	}
	return out
}

func opDigest(op IOp) string {
	s := op.Kind
	for _, x := range op.Series {
		s += " " + x.String()
	}
	if op.Kind == "search" {
		s += fmt.Sprint(" ", op.Q, op.APIs)
	}
	return s
}

func (run *iRun) closeForCheck() error {
	if run.builder == nil {
		return nil
	}
	err := run.builder.Close()
	run.builder, run.idx = nil, nil
	return err
}

func (run *iRun) cleanup() {
	if run.builder != nil {
		func() {
			defer func() { _ = recover() }()
			_ = run.builder.Close()
		}()
		run.builder = nil
	}
	for _, d := range run.disks {
		d.Kill()
		run.fs.Forget(d)
	}
	syscontrol.SetIndexReadCachePersistent(false)
}

var (
	idxStart = time.Unix(1700000000, 0).UTC()
	idxEnd   = idxStart.Add(24 * time.Hour)
)

// open starts an incarnation on a fresh path (a copy of `from` if given), with the
// logical clock the meta service would hand out.
func (run *iRun) open(dir, from string) error {
	if from != "" {
		if err := simfs.CopyTree(from, dir); err != nil {
			panic(core.InfraPanic("copy tree: " + err.Error()))
		}
		// mergeset transaction files name their parts by absolute path; a restart on a
		// fresh path relocates them (a real restart reuses the path)
		if err := simfs.RelocateTxn(dir, filepath.Dir(dir), dir); err != nil {
			panic(core.InfraPanic("relocate: " + err.Error()))
		}
	} else if err := os.MkdirAll(dir, 0o755); err != nil {
		panic(core.InfraPanic("mkdir: " + err.Error()))
	}
	init := dir + ".init"
	if !run.c.Knobs.Bloom {
		if err := simfs.CopyTree(dir, init); err != nil {
			panic(core.InfraPanic("copy tree: " + err.Error()))
		}
	}
	run.inits = append(run.inits, init)
	d := run.fs.NewDisk(dir)
	d.SetTag(run.opIdx)
	run.disk = d
	run.disks = append(run.disks, d)

	seq := run.c.Knobs.SeqBase
	run.seq = &seq
	run.lock = ""
	ident := &meta.IndexIdentifier{OwnerDb: "db0", OwnerPt: 1, Policy: "rp0"}
	ident.Index = &meta.IndexDescriptor{IndexID: 1, IndexGroupID: 1, TimeRange: meta.TimeRangeInfo{StartTime: idxStart, EndTime: idxEnd}}
	opts := new(Options).
		Ident(ident).
		Path(dir).
		IndexType(index.MergeSet).
		EngineType(config.TSSTORE).
		StartTime(idxStart).
		EndTime(idxEnd).
		Duration(24 * time.Hour).
		CacheDuration(24 * time.Hour).
		LogicalClock(run.clock).
		SequenceId(run.seq).
		Lock(&run.lock)
	b := NewIndexBuilder(opts)
	primary, err := NewIndex(opts)
	if err != nil {
		return err
	}
	primary.SetIndexBuilder(b)
	rel, err := NewIndexRelation(opts, primary, b)
	if err != nil {
		return err
	}
	b.Relations[uint32(index.MergeSet)] = rel
	if err := b.Open(); err != nil {
		return err
	}
	run.builder = b
	run.idx = primary.(*MergeSetIndex)
	if !run.c.Knobs.Bg {
		// all operations of a case happen inside one tick of the table's 1 s raw-items
		// flusher: park the flusher (and the background mergers that share its switch) so
		// that visibility of un-flushed items does not depend on the wall clock
		run.idx.tb.StopMergeAndFlusher()
	}
	run.inc++
	return nil
}

func (run *iRun) markFlushed() {
	for _, s := range run.model.list {
		s.flushed = true
	}
}

func (run *iRun) step(i int, op IOp) *core.Violation {
	out := run.out
	switch op.Kind {
	case "insert":
		return run.insert(i, op)
	case "flush":
		run.builder.Flush()
		run.markFlushed()
		run.after = "flush"
		out.Log("op%d flush", i)
		out.Stats["flushes"]++
	case "cacheclear":
		if run.c.Knobs.Bg {
			// with the real-time flusher running, whether an un-flushed item is already
			// searchable is a matter of the wall clock: take the flush explicitly
			run.builder.Flush()
			run.markFlushed()
		} else if run.model.pendingCount() > 0 {
			out.Probes["cache clear while items are un-flushed"]++
		}
		for _, s := range run.model.list {
			if !s.flushed {
				s.clearedPending = true
			}
		}
		if err := run.builder.ClearCache(); err != nil {
			return violI("cacheclear_error", fmt.Sprintf("op %d: ClearCache = %v", i, err), run.baseAttrs(nil))
		}
		run.after = "cacheclear"
		out.Log("op%d cacheclear", i)
		out.Stats["cacheclears"]++
	case "reopen":
		if run.model.pendingCount() > 0 {
			out.Probes["close with un-flushed items"]++
		}
		if err := run.builder.Close(); err != nil {
			run.builder = nil
			return violI("close_error", fmt.Sprintf("op %d: Close = %v", i, err), run.baseAttrs(nil))
		}
		run.builder, run.idx = nil, nil
		prev := run.disk
		prev.Kill()
		run.markFlushed() // a clean close persists everything
		run.clock++       // the meta service hands a restarted store node the next logical clock
		if err := run.open(filepath.Join(run.env.Scratch, fmt.Sprintf("inc%d", run.inc)), prev.Root); err != nil {
			return violI("open_failed", fmt.Sprintf("op %d: open after clean close failed: %v", i, err), run.baseAttrs(nil))
		}
		// the previous incarnation is not needed any more (no crash enumeration in this world)
		_ = os.RemoveAll(prev.Root)
		_ = os.RemoveAll(prev.Root + ".init")
		run.after = "reopen"
		out.Faults["clean_restart"]++
		out.Log("op%d reopen clock=%d", i, run.clock)
		out.AddLayout(fmt.Sprintf("inc=%d parts=%d", run.inc, run.countParts()))
	case "lookup":
		out.Log("op%d lookup", i)
		return run.lookupAll()
	case "search":
		for _, qi := range op.Q {
			if qi < 0 || qi >= len(run.c.Queries) {
				continue
			}
			if v := run.searchQuery(qi, op.APIs); v != nil {
				return v
			}
		}
	default:
		panic(core.InfraPanic("unknown op kind " + op.Kind))
	}
	return nil
}

func (run *iRun) countParts() int {
	ents, err := os.ReadDir(filepath.Join(run.disk.Root, MergeSetDirName))
	if err != nil {
		return 0
	}
	n := 0
	for _, e := range ents {
		if e.IsDir() && e.Name() != "tmp" && e.Name() != "txn" && e.Name() != "bloomfilter" {
			n++
		}
	}
	return n
}

// ---- insert -------------------------------------------------------------------------------

func (run *iRun) insert(i int, op IOp) *core.Violation {
	out := run.out
	if len(op.Series) == 0 {
		return nil
	}
	var sb strings.Builder
	for _, s := range op.Series {
		run.nLine++
		sb.WriteString(lpLine(s, run.nLine))
		sb.WriteByte('\n')
	}
	text := sb.String()
	var pr influx.PointRows
	if err := pr.Unmarshal(text, false); err != nil {
		// not this property's subject (C06); the batch is rejected as a whole
		out.Probes["line protocol rejected by the parser"]++
		out.Log("op%d insert rejected by parser", i)
		return nil
	}
	if len(pr.Rows) != len(op.Series) {
		out.Probes["line protocol row count differs"]++
	}
	// group by measurement as the write path does (dict of measurement -> *[]Row)
	mm := &dictpool.Dict{}
	order := []string{}
	groups := map[string]*[]influx.Row{}
	for ri := range pr.Rows {
		row := pr.Rows[ri]
		if ri < len(op.Series) {
			im, it := op.Series[ri].intended()
			same := im == row.Name && len(it) == len(row.Tags)
			for k := 0; same && k < len(it); k++ {
				same = it[k].Key == row.Tags[k].Key && it[k].Value == row.Tags[k].Value
			}
			if !same {
				out.Probes["line protocol round trip differs (model follows the parser)"]++
			}
		}
		dup := false
		for k := 1; k < len(row.Tags); k++ {
			dup = dup || row.Tags[k].Key == row.Tags[k-1].Key
		}
		if dup {
			continue // the write path rejects duplicate tag keys before the index
		}
		row.UnmarshalIndexKeys(nil)
		g, ok := groups[row.Name]
		if !ok {
			g = &[]influx.Row{}
			groups[row.Name] = g
			order = append(order, row.Name)
		}
		*g = append(*g, row)
	}
	for _, name := range order {
		mm.Set(name, groups[name])
	}
	if err := run.builder.CreateIndexIfNotExists(mm, true); err != nil {
		return violI("insert_error", fmt.Sprintf("op %d: CreateIndexIfNotExists = %v", i, err), run.baseAttrs(nil))
	}
	created, again := 0, 0
	for _, name := range order {
		rows := *groups[name]
		for ri := range rows {
			row := &rows[ri]
			key := string(row.IndexKey)
			id := row.SeriesId
			desc := fmt.Sprintf("%q", row.Name)
			for _, t := range row.Tags {
				desc += fmt.Sprintf(",%q=%q", t.Key, t.Value)
			}
			_ = run.idn(id)
			if id == 0 {
				return violI("id_zero", fmt.Sprintf("op %d: insert of series %s returned id 0", i, desc), run.baseAttrs(nil))
			}
			if s, ok := run.model.byKey[key]; ok {
				again++
				if !s.hasID(id) {
					a := run.baseAttrs(map[string]string{"series_flushed": fmt.Sprint(s.flushed), "cache_cleared_while_unflushed": fmt.Sprint(s.clearedPending)})
					v := violI("id_changed", fmt.Sprintf("op %d (after %s): series %s was given %s when created (creation #%d) and %s when written again; flushed-since-creation=%v",
						i, run.after, desc, run.idn(s.id), s.ord, run.idn(id), s.flushed), a)
					if run.knownID(v) == "" {
						return v
					}
					// stepped over: from now on the series is known under both ids
					if o, ok := run.model.byID[id]; ok && o != s {
						return violI("id_shared", fmt.Sprintf("op %d (after %s): series %s was given %s, which belongs to series %s", i, run.after, desc, run.idn(id), o), run.baseAttrs(nil))
					}
					s.alias = append(s.alias, id)
					s.flushed = false
					run.model.byID[id] = s
				}
				if run.after == "reopen" {
					out.Probes["known series written again after reopen"]++
				}
				continue
			}
			if o, ok := run.model.byID[id]; ok {
				return violI("id_shared", fmt.Sprintf("op %d (after %s): new series %s was given %s, which belongs to series %s",
					i, run.after, desc, run.idn(id), o), run.baseAttrs(nil))
			}
			s := &mSeries{mst: row.Name, ikey: key, id: id, ord: len(run.model.list), tagMap: map[string]string{}}
			for _, t := range row.Tags {
				s.tags = append(s.tags, influx.Tag{Key: strings.Clone(t.Key), Value: strings.Clone(t.Value)})
				s.tagMap[t.Key] = t.Value
			}
			s.mst = strings.Clone(row.Name)
			run.model.byKey[key] = s
			run.model.byID[id] = s
			run.model.list = append(run.model.list, s)
			created++
		}
	}
	out.Stats["series_created"] += int64(created)
	out.Stats["series_rewritten"] += int64(again)
	run.after = "insert"
	out.Log("op%d insert rows=%d created=%d again=%d total=%d", i, len(pr.Rows), created, again, len(run.model.list))
	perMst := map[string]int{}
	for _, s := range run.model.list {
		perMst[s.mst]++
		if perMst[s.mst] == 65 {
			out.Probes["more than MaxTSIDsPerRow (64) series in one measurement"]++
		}
	}
	return nil
}

// ---- lookups ------------------------------------------------------------------------------

func (run *iRun) lookupAll() *core.Violation {
	out := run.out
	for _, s := range run.model.list {
		out.Stats["lookups"]++
		id, err := run.idx.GetSeriesIdBySeriesKey([]byte(s.ikey))
		if err != nil {
			return violI("lookup_error", fmt.Sprintf("GetSeriesIdBySeriesKey(%s) = %v", s, err), run.baseAttrs(nil))
		}
		if !s.hasID(id) {
			if id == 0 && !s.flushed {
				// created since the last flush: not searchable yet (only the id cache knows it)
				out.Stats["pending_not_visible"]++
			} else {
				dir := "other"
				if id == 0 {
					dir = "missing"
				}
				return violI("lookup_mismatch", fmt.Sprintf("after %s: GetSeriesIdBySeriesKey(%s) = %s, the series was created with %s", run.after, s, run.idn(id), run.idn(s.id)),
					run.baseAttrs(map[string]string{"api": "key2id", "direction": dir}))
			}
		}
		// id -> key namespace
		key, err := run.idx.searchSeriesKey(nil, s.id)
		if err != nil {
			if !s.flushed {
				out.Stats["pending_not_visible"]++
				continue
			}
			return violI("lookup_mismatch", fmt.Sprintf("after %s: series key of %s (series %s) not found: %v", run.after, run.idn(s.id), s, err),
				run.baseAttrs(map[string]string{"api": "id2key", "direction": "missing"}))
		}
		if string(key) != s.ikey {
			return violI("lookup_mismatch", fmt.Sprintf("after %s: %s maps to series key %q, expected %q (series %s)", run.after, run.idn(s.id), key, s.ikey, s),
				run.baseAttrs(map[string]string{"api": "id2key", "direction": "other"}))
		}
	}
	// keys that were never written must not resolve: neighbours of written keys
	probes := 0
	for _, s := range run.model.list {
		if probes >= 12 {
			break
		}
		for _, alt := range neighbours(s) {
			k := string(influx.MakeIndexKey(alt.mst, alt.tags, nil))
			if _, ok := run.model.byKey[k]; ok {
				continue
			}
			probes++
			out.Stats["lookups"]++
			id, err := run.idx.GetSeriesIdBySeriesKey([]byte(k))
			if err != nil {
				return violI("lookup_error", fmt.Sprintf("GetSeriesIdBySeriesKey(%s) = %v", alt, err), run.baseAttrs(nil))
			}
			if id != 0 {
				owner := "nobody"
				if o, ok := run.model.byID[id]; ok {
					owner = o.String()
				}
				return violI("lookup_mismatch", fmt.Sprintf("after %s: GetSeriesIdBySeriesKey of never-written series %s = %s (id of %s)", run.after, alt, run.idn(id), owner),
					run.baseAttrs(map[string]string{"api": "key2id", "direction": "extra"}))
			}
		}
	}
	return nil
}

// neighbours returns series keys close to s that the client may never have written.
func neighbours(s *mSeries) []*mSeries {
	var out []*mSeries
	mk := func(mst string, tags []influx.Tag) {
		n := &mSeries{mst: mst}
		n.tags = append(n.tags, tags...)
		out = append(out, n)
	}
	if len(s.tags) > 0 {
		mk(s.mst, s.tags[:len(s.tags)-1]) // last tag dropped
		t := append([]influx.Tag{}, s.tags...)
		t[len(t)-1].Value += "x" // value extended
		mk(s.mst, t)
		t = append([]influx.Tag{}, s.tags...)
		v := t[len(t)-1].Value
		if len(v) > 1 {
			t[len(t)-1].Value = v[:len(v)-1] // value shortened
			mk(s.mst, t)
		}
	}
	mk("x"+s.mst, s.tags)
	return out
}

// ---- searches -----------------------------------------------------------------------------

// cond hands a predicate to the index the way the store's handlers do
// (app/ts-store/transport/handler/functions.go: parseTagKeyCondition): reduce with
// ConditionExpr, type every variable reference as a tag.
func condFor(p *IPred) (influxql.Expr, error) {
	if p == nil {
		return nil, nil
	}
	valuer := influxql.NowValuer{Now: idxStart}
	e, _, err := influxql.ConditionExpr(p.expr(), &valuer)
	if err != nil {
		return nil, err
	}
	influxql.WalkFunc(e, func(n influxql.Node) {
		if ref, ok := n.(*influxql.VarRef); ok {
			ref.Type = influxql.Tag
		}
	})
	return e, nil
}

type searchRes struct {
	ids      []uint64 // for id-returning entry points
	rendered []string // for SearchSeries
	count    uint64
	hasCount bool
	values   [][]string
}

type apiPanic struct {
	msg   string
	frame string
}

func (e *apiPanic) Error() string { return "panic: " + e.msg + " at " + e.frame }

func (run *iRun) callAPI(api string, name []byte, p *IPred, keys []string) (res *searchRes, err error) {
	defer func() {
		if r := recover(); r != nil {
			if ip, ok := r.(core.InfraPanic); ok {
				panic(ip)
			}
			frame := tsiFrame()
			res, err = nil, &apiPanic{msg: fmt.Sprint(r), frame: frame}
		}
	}()
	return run.callAPI0(api, name, p, keys)
}

func (run *iRun) callAPI0(api string, name []byte, p *IPred, keys []string) (*searchRes, error) {
	cond, err := condFor(p)
	if err != nil {
		return nil, fmt.Errorf("ConditionExpr: %w", err)
	}
	res := &searchRes{}
	switch api {
	case "ids":
		// the index is not partitioned by time: any time range must give the same answer
		tr := DefaultTR
		run.trFlip++
		switch run.trFlip % 3 {
		case 1:
			tr = TimeRange{Min: idxStart.UnixNano(), Max: idxStart.Add(time.Hour).UnixNano()}
		case 2:
			tr = TimeRange{Min: -5, Max: 10}
		}
		ids, err := run.idx.SearchSeriesByTableAndCond(name, cond, tr)
		if err != nil {
			return nil, err
		}
		res.ids = ids
	case "series":
		series, err := run.idx.SearchSeriesKeys(nil, name, cond)
		if err != nil {
			return nil, err
		}
		for _, k := range series {
			res.rendered = append(res.rendered, string(k))
		}
	case "card":
		n, err := run.idx.SeriesCardinality(name, cond, DefaultTR)
		if err != nil {
			return nil, err
		}
		res.count, res.hasCount = n, true
	case "tagvalues":
		kb := make([][]byte, len(keys))
		for i, k := range keys {
			kb[i] = []byte(k)
		}
		vals, err := run.idx.SearchTagValues(name, kb, cond)
		if err != nil {
			return nil, err
		}
		res.values = vals
	case "opts":
		opt := &query.ProcessorOptions{Name: string(name), Condition: cond, StartTime: DefaultTR.Min, EndTime: DefaultTR.Max, Ascending: true}
		groups, _, err := run.idx.SearchSeriesWithOpts(nil, name, opt, func(int64) error { return nil }, nil)
		if err != nil {
			return nil, err
		}
		for _, g := range groups {
			for i := 0; i < g.Len(); i++ {
				res.ids = append(res.ids, g.GetSid(i, 0))
			}
		}
	default:
		panic(core.InfraPanic("unknown api " + api))
	}
	return res, nil
}

func fmtSet(xs []string) string {
	const max = 8
	n := len(xs)
	if n > max {
		xs = xs[:max]
	}
	s := "[" + strings.Join(xs, " | ") + "]"
	if n > max {
		s += fmt.Sprintf(" (+%d more)", n-max)
	}
	return s
}

func seriesNames(ss []*mSeries) []string {
	out := make([]string, len(ss))
	for i, s := range ss {
		out[i] = s.String()
	}
	sort.Strings(out)
	return out
}

// judge compares one entry point's answer for predicate p with the model.  nil = agrees.
// Series created since the last flush may or may not be visible (the table makes raw
// items searchable within its 1 s flush interval); everything else is exact.
func (run *iRun) judge(api string, mst string, p *IPred, keys []string) *core.Violation {
	out := run.out
	name := []byte(mst + mstVersionSuffix)
	all := run.model.ofMst(string(name))
	var must, may []*mSeries // must be returned / may be returned (pending)
	for _, s := range all {
		if p.eval(s.tagMap) {
			if s.flushed {
				must = append(must, s)
			} else {
				may = append(may, s)
			}
		}
	}
	if len(must) > 0 {
		out.Stats["nonempty_expectations"]++
	}
	res, err := run.callAPI(api, name, p, keys)
	out.Stats["searches"]++
	ps := "<none>"
	if p != nil {
		ps = p.String()
	}
	where := fmt.Sprintf("after %s, measurement %q, api %s, predicate %s", run.after, name, api, ps)
	if err != nil {
		if ap, ok := err.(*apiPanic); ok {
			// the search was abandoned half way (its table cursor still pins parts): not safe to go on
			return violI("search_panic", where+": "+ap.Error(), map[string]string{"api": api, "frame": ap.frame, "recovered_in": "search"})
		}
		return violI("search_error", where+": error "+err.Error(), map[string]string{"api": api})
	}
	mismatch := func(kind, dir string, exp, act, missing, extra []string) *core.Violation {
		d := fmt.Sprintf("%s: expected %d %s, got %d %s; missing %s; unexpected %s", where, len(exp), fmtSet(exp), len(act), fmtSet(act), fmtSet(missing), fmtSet(extra))
		if len(may) > 0 {
			d += fmt.Sprintf("; (%d matching series are un-flushed and may or may not be listed)", len(may))
		}
		return violI(kind, d, map[string]string{"api": api, "direction": dir})
	}
	dirOf := func(missing, extra []string) string {
		switch {
		case len(missing) > 0 && len(extra) > 0:
			return "both"
		case len(missing) > 0:
			return "missing"
		}
		return "extra"
	}
	switch api {
	case "ids", "opts":
		seen := map[uint64]int{}
		seenS := map[*mSeries]int{}
		var act, extra, missing []string
		for _, id := range res.ids {
			seen[id]++
			s, ok := run.model.byID[id]
			if !ok {
				// an id nobody was given: which series does the index think it is?
				k, kerr := run.idx.searchSeriesKey(nil, id)
				owner := "<no series key>"
				if kerr == nil {
					if o, ok := run.model.byKey[string(k)]; ok {
						owner = o.String()
						return violI("duplicate_id", fmt.Sprintf("%s: returned %s, which was never handed out; it maps to series %s whose id is %s", where, run.idn(id), owner, run.idn(o.id)),
							map[string]string{"api": api})
					}
					owner = fmt.Sprintf("%q", k)
				}
				return violI("phantom_id", fmt.Sprintf("%s: returned %s, which was never handed out (series key: %s)", where, run.idn(id), owner), map[string]string{"api": api})
			}
			seenS[s]++
			act = append(act, s.String())
			if s.mst != string(name) || !p.eval(s.tagMap) {
				extra = append(extra, s.String())
			}
			if seen[id] == 2 {
				return violI("duplicate_result", fmt.Sprintf("%s: %s (series %s) returned more than once", where, run.idn(id), s), map[string]string{"api": api})
			}
		}
		for _, s := range must {
			if seenS[s] == 0 {
				missing = append(missing, s.String())
			}
		}
		for _, s := range may {
			if seenS[s] == 0 {
				out.Stats["pending_not_visible"]++
			}
		}
		if len(missing)+len(extra) > 0 {
			sort.Strings(act)
			sort.Strings(missing)
			sort.Strings(extra)
			return mismatch("search_mismatch", dirOf(missing, extra), seriesNames(must), act, missing, extra)
		}
	case "series":
		// rendered series keys, as a multiset
		mustR := map[string]int{}
		mayR := map[string]int{}
		for _, s := range must {
			mustR[s.rendered()]++
		}
		for _, s := range may {
			mayR[s.rendered()] += 1 + len(s.alias)
		}
		for _, s := range must {
			mayR[s.rendered()] += len(s.alias)
		}
		actR := map[string]int{}
		for _, k := range res.rendered {
			actR[k]++
		}
		var missing, extra []string
		for k, n := range mustR {
			if actR[k] < n {
				missing = append(missing, fmt.Sprintf("%q", k))
			}
		}
		for k, n := range actR {
			if n > mustR[k]+mayR[k] {
				extra = append(extra, fmt.Sprintf("%q", k))
			}
		}
		if len(missing)+len(extra) > 0 {
			var exp, act []string
			for _, s := range must {
				exp = append(exp, fmt.Sprintf("%q", s.rendered()))
			}
			for _, k := range res.rendered {
				act = append(act, fmt.Sprintf("%q", k))
			}
			sort.Strings(exp)
			sort.Strings(act)
			sort.Strings(missing)
			sort.Strings(extra)
			return mismatch("series_keys_mismatch", dirOf(missing, extra), exp, act, missing, extra)
		}
		// tag-key listing: engine.handleTagKeys splits the rendered keys on ',' and '='
		if v := run.judgeListings(where, api, must, may, res.rendered); v != nil {
			return v
		}
	case "card":
		lo, hi := uint64(len(must)), uint64(len(must)+len(may))
		for _, s := range append(append([]*mSeries{}, must...), may...) {
			hi += uint64(len(s.alias))
		}
		if res.count < lo || res.count > hi {
			dir := "missing"
			if res.count > hi {
				dir = "extra"
			}
			d := fmt.Sprintf("%s: cardinality %d, expected %d", where, res.count, lo)
			if hi != lo {
				d = fmt.Sprintf("%s: cardinality %d, expected %d..%d (un-flushed series may or may not count)", where, res.count, lo, hi)
			}
			d += "; matching series " + fmtSet(seriesNames(must))
			return violI("search_mismatch", d, map[string]string{"api": api, "direction": dir})
		}
	case "tagvalues":
		for ki, key := range keys {
			mustV, mayV := map[string]bool{}, map[string]bool{}
			for _, s := range must {
				if v, ok := s.tagMap[key]; ok {
					mustV[v] = true
				}
			}
			for _, s := range may {
				if v, ok := s.tagMap[key]; ok {
					mayV[v] = true
				}
			}
			var act []string
			if ki < len(res.values) {
				act = res.values[ki]
			}
			seen := map[string]int{}
			var missing, extra, actq []string
			for _, v := range act {
				seen[v]++
				actq = append(actq, fmt.Sprintf("%q", v))
				if seen[v] == 2 || (!mustV[v] && !mayV[v]) {
					extra = append(extra, fmt.Sprintf("%q", v))
				}
			}
			var exp []string
			for v := range mustV {
				exp = append(exp, fmt.Sprintf("%q", v))
				if seen[v] == 0 {
					missing = append(missing, fmt.Sprintf("%q", v))
				}
			}
			if len(missing)+len(extra) > 0 {
				sort.Strings(exp)
				sort.Strings(actq)
				sort.Strings(missing)
				sort.Strings(extra)
				v := mismatch("tag_values_mismatch", dirOf(missing, extra), exp, actq, missing, extra)
				v.Detail = fmt.Sprintf("values of tag key %q: ", key) + v.Detail
				return v
			}
		}
		if p == nil {
			for _, key := range keys {
				vals := map[string]bool{}
				pend := map[string]bool{}
				for _, s := range all {
					if v, ok := s.tagMap[key]; ok {
						if s.flushed {
							vals[v] = true
						} else {
							pend[v] = true
						}
					}
				}
				hi := len(vals)
				for v := range pend {
					if !vals[v] {
						hi++
					}
				}
				n, err := run.idx.SearchTagValuesCardinality(name, []byte(key))
				out.Stats["searches"]++
				if err != nil {
					return violI("search_error", where+": SearchTagValuesCardinality error "+err.Error(), map[string]string{"api": "tagvaluescard"})
				}
				if int(n) < len(vals) || int(n) > hi {
					return violI("tag_values_mismatch", fmt.Sprintf("%s: SearchTagValuesCardinality(%q) = %d, expected %d..%d", where, key, n, len(vals), hi),
						map[string]string{"api": "tagvaluescard", "direction": "count"})
				}
			}
		}
	}
	return nil
}

// judgeListings: show-series and tag-key listings as the engine derives them from the
// rendered keys (engine/engine_ddl.go: SeriesKeys/handleSeries de-duplicate the rendered
// strings; TagKeys/handleTagKeys split them on "," and "=").
func (run *iRun) judgeListings(where, api string, must, may []*mSeries, rendered []string) *core.Violation {
	out := run.out
	// show series: distinct series must stay distinct
	r2s := map[string]*mSeries{}
	for _, s := range append(append([]*mSeries{}, must...), may...) {
		r := s.rendered()
		if o, ok := r2s[r]; ok && o != s {
			out.Probes["two distinct series render to the same show-series line"]++
			v := violI("listing_ambiguous", fmt.Sprintf("%s: the distinct series %s and %s are both listed as %q (tag keys / values are rendered without escaping; the engine's show series de-duplicates the lines)", where, o, s, r),
				map[string]string{"api": api, "listing": "series", "special_in": specialIn(must, may)})
			return v
		}
		r2s[r] = s
	}
	// show tag keys
	mustK, mayK := map[string]bool{}, map[string]bool{}
	for _, s := range must {
		for _, t := range s.tags {
			mustK[t.Key] = true
		}
	}
	for _, s := range may {
		for _, t := range s.tags {
			mayK[t.Key] = true
		}
	}
	actK := map[string]bool{}
	for _, key := range rendered {
		arr := strings.Split(key, ",")
		for _, item := range arr[1:] {
			kv := strings.Split(item, "=")
			actK[kv[0]] = true
		}
	}
	var missing, extra []string
	for k := range mustK {
		if !actK[k] {
			missing = append(missing, fmt.Sprintf("%q", k))
		}
	}
	for k := range actK {
		if !mustK[k] && !mayK[k] {
			extra = append(extra, fmt.Sprintf("%q", k))
		}
	}
	if len(missing)+len(extra) > 0 {
		sort.Strings(missing)
		sort.Strings(extra)
		var exp []string
		for k := range mustK {
			exp = append(exp, fmt.Sprintf("%q", k))
		}
		sort.Strings(exp)
		return violI("tag_keys_mismatch", fmt.Sprintf("%s: tag keys derived from the series listing (split on ',' and '=' as engine.handleTagKeys does): expected %s; missing %s; unexpected %s",
			where, fmtSet(exp), fmtSet(missing), fmtSet(extra)), map[string]string{"api": api, "listing": "tag_keys", "special_in": specialIn(must, may)})
	}
	return nil
}

// specialIn says which components of the listed series contain ',' or '='.
func specialIn(must, may []*mSeries) string {
	w := map[string]bool{}
	for _, s := range append(append([]*mSeries{}, must...), may...) {
		if strings.ContainsAny(s.mst, ",=") {
			w["measurement"] = true
		}
		for _, t := range s.tags {
			if strings.ContainsAny(t.Key, ",=") {
				w["key"] = true
			}
			if strings.ContainsAny(t.Value, ",=") {
				w["value"] = true
			}
		}
	}
	if len(w) == 0 {
		return "none"
	}
	return strings.Join(core.SortedKeys(w), "+")
}

// searchQuery evaluates one query through the chosen entry points; a disagreement on a
// predicate tree is first narrowed to a leaf (evaluated alone through the same entry
// point) so that the violation names the defect class.
func (run *iRun) searchQuery(qi int, apis []string) *core.Violation {
	out := run.out
	q := run.c.Queries[qi]
	if len(apis) == 0 {
		apis = allAPIs
	}
	// every leaf is first handed to the real tagFilter.Init on its own: a pattern the index
	// cannot digest (error or panic) is reported from there, where no table cursor is open
	for _, l := range q.Pred.leaves(nil) {
		v := run.probeLeaf(q.Mst, l)
		if v == nil {
			continue
		}
		out.Log("op%d q%d probe %s", run.opIdx, qi, v.Kind)
		if v.Attrs == nil {
			v.Attrs = map[string]string{}
		}
		predAttrs(l, v.Attrs, run.c.Knobs.PerlRegex)
		v.Attrs["after"] = run.after
		v.Attrs["sep_bytes"] = fmt.Sprint(hasSepBytes(l.Key) || hasSepBytes(l.Val))
		if id := run.knownID(v); id != "" {
			return nil // the whole query is skipped: every entry point would fail the same way
		}
		return v
	}
	for _, api := range apis {
		if api == "opts" && run.c.Knobs.Bg && q.Pred != nil && !q.Pred.isLeaf() {
			// a panic inside a search leaves its table cursor open (parts stay pinned); with the
			// background mergers running that can block every later OpenTable of this process.
			// Conditions whose prune path is known to panic are not sent down that path here;
			// the cases with bg=false do send them.
			unsafe := false
			for _, l := range q.Pred.leaves(nil) {
				unsafe = unsafe || pruneWouldPanic([]byte(q.Mst+mstVersionSuffix), l)
			}
			if unsafe {
				out.Stats["searches_skipped_unsafe"]++
				continue
			}
		}
		v := run.judge(api, q.Mst, q.Pred, q.Keys)
		verdict := "ok"
		if v != nil {
			verdict = v.Kind
		}
		out.Log("op%d q%d api=%s %s", run.opIdx, qi, api, verdict)
		if v == nil {
			continue
		}
		v = run.attribute(v, api, q)
		if v.Attrs["recovered_in"] == "search" && run.c.Knobs.Bg {
			return v // not safe to go on (see above)
		}
		if id := run.knownID(v); id != "" {
			continue
		}
		return v
	}
	return nil
}

// probeLeaf hands one leaf to the real tagFilter code outside any search, i.e. while no
// table cursor pins parts: (1) tagFilter.Init with the arguments every entry point passes;
// (2) tagFilter.matchSuffix, which the scan of the tag's values calls for every value it
// meets (only if some series of the measurement carries the tag key, so that the scan does
// meet one).  An error or a panic here is what every search with this leaf runs into.
func (run *iRun) probeLeaf(mst string, l *IPred) (v *core.Violation) {
	name := []byte(mst + mstVersionSuffix)
	where := fmt.Sprintf("after %s, measurement %q, predicate %s", run.after, name, l.String())
	stage := "tagFilter.Init"
	defer func() {
		if r := recover(); r != nil {
			frame := tsiFrame()
			v = violI("search_panic", fmt.Sprintf("%s: %s panics: %v (at %s)", where, stage, r, frame), map[string]string{"api": "init", "frame": frame})
		}
	}()
	tf, err := initFilter(name, l)
	if err != nil {
		return violI("search_error", fmt.Sprintf("%s: tagFilter.Init = %v", where, err), map[string]string{"api": "init"})
	}
	hasKey := false
	for _, s := range run.model.ofMst(string(name)) {
		// (un-flushed series count too: they become searchable at any moment)
		if _, ok := s.tagMap[l.Key]; ok {
			hasKey = true
		}
	}
	if hasKey && tf.isRegexp && len(tf.orSuffixes) == 0 {
		stage = "tagFilter.matchSuffix"
		if _, err := tf.matchSuffix([]byte{'x', tagSeparatorChar}); err != nil {
			return violI("search_error", fmt.Sprintf("%s: tagFilter.matchSuffix = %v", where, err), map[string]string{"api": "init"})
		}
	}
	return nil
}

func initFilter(name []byte, l *IPred) (*tagFilter, error) {
	tf := new(tagFilter)
	var err error
	switch l.Op {
	case "=", "!=":
		err = tf.Init(name, []byte(l.Key), []byte(l.Val), l.Op == "!=", false)
	default:
		re, _ := compileRe(l.Val)
		err = tf.Init(name, []byte(l.Key), []byte(re.String()), l.Op == "!~", true)
	}
	return tf, err
}

// pruneWouldPanic: the prune path of an all-AND condition (search_prune.go) re-compiles
// tagFilter.value; does that blow up for this leaf?  Used only as a guard (see searchQuery).
func pruneWouldPanic(name []byte, l *IPred) (bad bool) {
	defer func() {
		if r := recover(); r != nil {
			bad = true
		}
	}()
	tf, err := initFilter(name, l)
	if err != nil {
		return false
	}
	_ = matchSeriesKeyTagFilter(influx.PointTags{{Key: l.Key, Value: "x"}}, tf, false)
	return false
}

// tsiFrame: innermost frame of the code under test on the current (panicking) stack.
func tsiFrame() string {
	for _, ln := range strings.Split(string(debug.Stack()), "\n") {
		if strings.Contains(ln, "openGemini/engine/index/tsi.") && !strings.Contains(ln, "iRun") && !strings.Contains(ln, "tsiFrame") &&
			!strings.Contains(ln, "tsi.initFilter") && !strings.Contains(ln, "tsi.pruneWouldPanic") {
			frame := strings.TrimSpace(ln)
			if i := strings.LastIndex(frame, "("); i > 0 && strings.Contains(frame[i:], "0x") {
				frame = frame[:i]
			}
			return frame
		}
	}
	return "?"
}

func predAttrs(p *IPred, a map[string]string, perl bool) {
	if p == nil {
		a["op"] = "none"
		return
	}
	a["op"] = p.Op
	if p.isLeaf() {
		if p.Op == "=~" || p.Op == "!~" {
			a["regex_class"] = regexClass(p.Val)
			re, _ := compileRe(p.Val)
			a["matches_empty"] = fmt.Sprint(re != nil && re.MatchString(""))
			a["perl_regex"] = fmt.Sprint(perl)
		} else {
			a["empty_value"] = fmt.Sprint(p.Val == "")
		}
	}
}

// causeOf buckets a mismatch by the cheapest syntactic explanation (matcher attribute
// for known findings; the first that applies).
func causeOf(p *IPred, a map[string]string, sep bool) string {
	switch {
	case p == nil:
		return "no_predicate"
	case !p.isLeaf():
		// every leaf alone agrees: the combination is at fault
		for _, l := range p.leaves(nil) {
			if l.Op == "!~" {
				if re, err := compileRe(l.Val); err == nil && re.MatchString("") {
					return "tree_with_negated_match_all"
				}
			}
		}
		for _, l := range p.leaves(nil) {
			if (l.Op == "=~" || l.Op == "!~") && regexClass(l.Val) == "literal" && strings.Contains(l.Val, "\\") {
				return "tree_with_escaped_literal_regex"
			}
		}
		return "tree"
	case p.Op == "=" || p.Op == "!=":
		return "string_leaf"
	}
	cls := a["regex_class"]
	switch {
	case strings.HasPrefix(cls, "anchored") && a["matches_empty"] == "true":
		return "anchored_regex_matching_empty"
	case cls == "anchored":
		return "anchored_literal"
	case cls != "literal":
		return "nonliteral_regex"
	case sep:
		// a plain literal pattern, separator / escape bytes in the pattern or in the values it meets
		return "sep_bytes"
	case strings.Contains(p.Val, "\\"):
		// a literal written with escapes (/web\|db/, /\.\*/): its unescaped text reads like another pattern
		return "escaped_literal_regex"
	}
	return "literal_regex"
}

func isMismatchKind(k string) bool {
	return k == "search_mismatch" || k == "series_keys_mismatch" || k == "tag_values_mismatch" || k == "search_error" || k == "search_panic"
}

// attribute gives a mismatch its matcher attributes.  A disagreement on a tree is
// narrowed to the first leaf that disagrees when evaluated alone through the same
// entry point; if every leaf alone agrees, the combination is at fault.
func (run *iRun) attribute(v *core.Violation, api string, q IQuery) *core.Violation {
	if v.Attrs == nil {
		v.Attrs = map[string]string{}
	}
	if !isMismatchKind(v.Kind) {
		v.Attrs["after"] = run.after
		return v
	}
	final, fp := v, q.Pred
	narrowed := false
	if q.Pred != nil && !q.Pred.isLeaf() {
		for _, leaf := range q.Pred.leaves(nil) {
			l := *leaf
			l.Paren = false
			napi := api
			if api == "card" || api == "tagvalues" {
				// same search underneath; a count / a value list cannot tell which series is wrong
				napi = "ids"
			}
			lv := run.judge(napi, q.Mst, &l, q.Keys)
			if lv == nil || !isMismatchKind(lv.Kind) {
				continue
			}
			if napi == api && lv.Kind == v.Kind {
				lv.Detail += "  [narrowed from the tree " + q.Pred.String() + "]"
				if lv.Attrs == nil {
					lv.Attrs = map[string]string{}
				}
				lv.Attrs["in_tree"] = "true"
				final, fp = lv, &l
			} else {
				v.Detail += "  [the leaf " + l.String() + " alone is answered wrongly: " + lv.Detail + "]"
				v.Attrs["in_tree"] = "true"
				fp = &l
			}
			narrowed = true
			break
		}
		if !narrowed {
			v.Attrs["leaves_ok"] = "true"
			ops := map[string]bool{}
			for _, l := range q.Pred.leaves(nil) {
				ops[l.Op] = true
			}
			v.Attrs["leaf_ops"] = strings.Join(core.SortedKeys(ops), ",")
		}
	}
	predAttrs(fp, final.Attrs, run.c.Knobs.PerlRegex)
	final.Attrs["after"] = run.after
	// do the predicate or the values of its keys carry separator / escape bytes?
	sep := false
	for _, l := range fp.leaves(nil) {
		sep = sep || hasSepBytes(l.Key) || hasSepBytes(l.Val)
		for _, s := range run.model.ofMst(q.Mst + mstVersionSuffix) {
			sep = sep || hasSepBytes(s.tagMap[l.Key])
		}
	}
	if api == "tagvalues" {
		for _, k := range q.Keys {
			sep = sep || hasSepBytes(k)
			for _, s := range run.model.ofMst(q.Mst + mstVersionSuffix) {
				sep = sep || hasSepBytes(s.tagMap[k])
			}
		}
	}
	final.Attrs["sep_bytes"] = fmt.Sprint(sep)
	final.Attrs["cause"] = causeOf(fp, final.Attrs, sep)
	return final
}

func TestVerifWorldI(t *testing.T) { core.RunWorker[ICase](worldI{}) }
