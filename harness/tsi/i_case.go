package tsi

// World I — the series index (engine/index/tsi: IndexBuilder + MergeSetIndex + mergeset
// tables) on the simulated disk, judged against a map of inserted series keys and a
// brute-force predicate evaluator (property C10).
//
// This file: the case type, the generator, delta-debugging support.

import (
	"encoding/json"
	"fmt"
	"sort"

	"github.com/openGemini/openGemini/verifsim/core"
)

// ISeries is one series as the client writes it: measurement (without version suffix)
// and tags in the order the client sends them.
type ISeries struct {
	Mst  string      `json:"m"`
	Tags [][2]string `json:"t,omitempty"`
}

// IPred is a predicate tree.  Leaves: Op in {"=", "!=", "=~", "!~"} with Key / Val;
// inner nodes: Op in {"and", "or"} with L / R; Paren wraps the node in parentheses.
type IPred struct {
	Op    string `json:"op"`
	Key   string `json:"k,omitempty"`
	Val   string `json:"v,omitempty"`
	L     *IPred `json:"l,omitempty"`
	R     *IPred `json:"r,omitempty"`
	Paren bool   `json:"paren,omitempty"`
}

// IQuery is a search: measurement, predicate (nil = all series of the measurement) and
// the tag keys asked from the tag-value listing.
type IQuery struct {
	Mst  string   `json:"m"`
	Pred *IPred   `json:"p,omitempty"`
	Keys []string `json:"keys,omitempty"`
}

type IOp struct {
	Kind   string    `json:"k"`             // insert | flush | cacheclear | reopen | lookup | search
	Series []ISeries `json:"s,omitempty"`   // insert: one write batch
	Q      []int     `json:"q,omitempty"`   // search: indexes into ICase.Queries
	APIs   []string  `json:"api,omitempty"` // search: which entry points (empty = all)
}

type IKnobs struct {
	Bloom        bool   `json:"bloom"`         // [index] bloom-filter-enable
	PerlRegex    bool   `json:"perl_regex"`    // [data] enable-perl-regrep
	NoCompress   bool   `json:"no_compress"`   // [index] cache-compress-enable = false
	PersistCache bool   `json:"persist_cache"` // syscontrol: index read cache persistent
	Bg           bool   `json:"bg"`            // leave the table's background flusher / mergers running
	PruneThresh  int    `json:"prune_thresh"`  // [index] tag-scan-prune-threshold (0 = default)
	Clock0       uint64 `json:"clock0"`        // logical clock of the first incarnation
	SeqBase      uint64 `json:"seq_base"`      // sequence id every incarnation starts from
}

type ICase struct {
	Knobs   IKnobs   `json:"knobs"`
	Ops     []IOp    `json:"ops"`
	Queries []IQuery `json:"queries"`
}

type worldI struct{}

func (worldI) Name() string { return "I" }
func (worldI) Components() ([]string, []string) {
	return []string{
			"engine/index/tsi (IndexBuilder, IndexRelation, MergeSetIndex, indexSearch, tagFilter, IndexCache)",
			"engine/index/mergeindex", "lib/util/lifted/vm/mergeset (Table, parts, bloom filter files) on simfs",
			"lib/util/lifted/vm/protoparser/influx (line-protocol parser, index keys)",
			"lib/util/lifted/influx/influxql (ConditionExpr, AST)",
		}, []string{
			"meta service: logical clock handed out as previous+1 on every reopen",
			"store handler parseTagKeyCondition (its ConditionExpr + VarRef.Type=Tag steps are repeated in the harness; package handler cannot be imported from package tsi)",
			"engine.handleTagKeys (the split of rendered series keys into tag keys is repeated in the harness for the tag-key listing)",
		}
}

// ---- alphabets ----------------------------------------------------------------------

var (
	// measurement names (the engine appends a version suffix, "_0000")
	mstAlpha = []string{"m", "ma", "m a", "m,x", "cpu", "cp", "m\x01", "мера", "m=1", "m\\"}
	// tag keys
	keyAlpha = []string{"host", "hos", "host2", "region", "tk1", "h,k", "k=", "k y", "k\\", "a\x00", "a\x01b", "\x02", "ключ", "_k", "K", "dc"}
	// tag values
	valAlpha = []string{
		"web", "web-1", "web-01", "web-2", "db", "db-1", "d", "w", "web|db", "a,b", "a=b", "a b", "a\\b", "b\\",
		"\x00", "a\x01", "\x02x", "a\x001", "\x01\x01", "значение", "日本", "日", ".*", "web.1", "(", "[ab]", "^web$", "WEB", "Web",
		"1", "01", "x", "", "", "webweb", "-", "b", "eb",
		// a value extended by one of the index's escape / separator bytes sorts BEFORE the value's own
		// terminator in the item space: pairs (V, V+sep+...) under one key
		"web\x00a", "web\x01", "db\x02z", "x\x00", "w\x01w", "1\x00", "d\x00",
	}
	// regular expressions by class
	reAlpha = []string{
		// literals
		"web", "eb", "db", "-", "1", "a,b", "a=b", "日", "значение", "WEB",
		// fully anchored
		"^web$", "^web-1$", "^$", "^db$", "^a b$", "^w$",
		// half anchored
		"^web", "^d", "b$", "1$", "^", "$",
		// alternation
		"web|db", "^(web|db)$", "web-1|web-01", "(web|db)-1", "w|d", "^web|db$", "a,b|a=b", "web|",
		// character classes
		"[wd]", "web-[0-9]", "[^w]", "[a-z]+", "^[wd]", "[0-9]$", "[,=]", "\\d", "\\w+-\\d",
		// dot / repetition
		".*", ".+", "web.*", ".*b", "^.*$", ".*web.*", "w.b", ".", "web-.", "..", "^.{3}$",
		"webs?", "web-0?1", "a*", "(web)+", "x?", "w+", "web-?1", "0*1",
		// flags
		"(?i)web", "(?i)^WEB$", "(?s).",
		// escaped meta characters
		"web\\.1", "\\(", "web\\|db", "\\[ab\\]", "\\^web\\$", "\\.\\*",
		// separator / escape bytes
		"a\x01", "\x00", "a.1", "\\x01", "^\x02x$", "[\x00-\x02]", "a\x001",
		// unicode
		"знач", "日.", "^日本$", "[а-я]+",
	}
)

func pickWeightedStr(r *core.Rand, local []string, global []string, pLocal float64) string {
	if len(local) > 0 && r.Bool(pLocal) {
		return core.Pick(r, local)
	}
	return core.Pick(r, global)
}

// ---- generator ----------------------------------------------------------------------

func (worldI) Gen(r *core.Rand, env *core.Env) ICase {
	var c ICase
	c.Knobs = IKnobs{
		Bloom:        r.Bool(0.06),
		PerlRegex:    r.Bool(0.4),
		NoCompress:   r.Bool(0.25),
		PersistCache: r.Bool(0.15),
		Bg:           r.Bool(0.25),
		Clock0:       uint64(r.Range(1, 5)),
		SeqBase:      uint64(r.Range(0, 3)) * 1000,
	}
	if r.Bool(0.3) {
		c.Knobs.PruneThresh = core.Pick(r, []int{1, 2, 8, 1000000})
	}
	// the vocabulary of this case: few measurements, few keys, few values, so that
	// series share prefixes / tags and predicates select non-trivial subsets
	nm := r.Weighted([]int{0, 5, 4, 2, 1})
	var msts []string
	for len(msts) < nm {
		m := pickWeightedStr(r, []string{"m", "ma", "cpu"}, mstAlpha, 0.5)
		dup := false
		for _, x := range msts {
			dup = dup || x == m
		}
		if !dup {
			msts = append(msts, m)
		}
	}
	nk := r.Range(1, 5)
	var keys []string
	for len(keys) < nk {
		k := pickWeightedStr(r, []string{"host", "region", "tk1", "dc"}, keyAlpha, 0.45)
		dup := false
		for _, x := range keys {
			dup = dup || x == k
		}
		if !dup {
			keys = append(keys, k)
		}
	}
	nv := r.Range(2, 9)
	var vals []string
	for len(vals) < nv {
		vals = append(vals, pickWeightedStr(r, []string{"web", "web-1", "web-01", "db", "db-1", "w", "d"}, valAlpha, 0.4))
	}
	maxSeries := 24
	switch r.Weighted([]int{6, 3, 1}) {
	case 1:
		maxSeries = 64
	case 2:
		maxSeries = 80 // more than mergeindex.MaxTSIDsPerRow series under one tag / measurement
	}
	genSeries := func() ISeries {
		s := ISeries{Mst: core.Pick(r, msts)}
		perm := r.Perm(len(keys))
		nt := r.Range(0, len(keys))
		if r.Bool(0.7) && nt == 0 {
			nt = 1
		}
		for _, ki := range perm[:nt] {
			s.Tags = append(s.Tags, [2]string{keys[ki], core.Pick(r, vals)})
		}
		return s
	}
	var written []ISeries
	nops := r.Range(6, 40)
	if env != nil && env.Tier == "thorough" && r.Bool(0.3) {
		nops = r.Range(30, 60)
	}
	if c.Knobs.Bloom {
		// the bloom filter is sized for 1e8 keys: every flush writes ~120 MB; keep such cases short
		nops = r.Range(5, 12)
	}
	// queries first (so that search ops can refer to them)
	nq := r.Range(3, 8)
	for i := 0; i < nq; i++ {
		q := IQuery{Mst: core.Pick(r, msts)}
		if !r.Bool(0.12) {
			q.Pred = genPred(r, keys, vals, r.Weighted([]int{5, 3, 2, 1}))
		}
		nkq := r.Range(1, 2)
		for j := 0; j < nkq; j++ {
			q.Keys = append(q.Keys, core.Pick(r, keys))
		}
		if r.Bool(0.05) {
			q.Keys = append(q.Keys, "nokey")
		}
		c.Queries = append(c.Queries, q)
	}
	nseries, heavy := 0, 0
	for len(c.Ops) < nops {
		switch r.Weighted([]int{10, 4, 3, 3, 3, 9}) {
		case 0:
			op := IOp{Kind: "insert"}
			n := r.Weighted([]int{0, 4, 3, 2, 2, 1, 1, 1})
			if maxSeries > 24 && r.Bool(0.5) {
				n = r.Range(8, 30)
			}
			for j := 0; j < n; j++ {
				if len(written) > 0 && (r.Bool(0.3) || nseries >= maxSeries) {
					op.Series = append(op.Series, written[r.Intn(len(written))]) // re-write a known series
					continue
				}
				s := genSeries()
				op.Series = append(op.Series, s)
				written = append(written, s)
				nseries++
			}
			c.Ops = append(c.Ops, op)
		case 1:
			if c.Knobs.Bloom && heavy >= 3 {
				continue
			}
			heavy++
			c.Ops = append(c.Ops, IOp{Kind: "flush"})
		case 2:
			c.Ops = append(c.Ops, IOp{Kind: "cacheclear"})
		case 3:
			if c.Knobs.Bloom && heavy >= 3 {
				continue
			}
			heavy++
			c.Ops = append(c.Ops, IOp{Kind: "reopen"})
		case 4:
			c.Ops = append(c.Ops, IOp{Kind: "lookup"})
		case 5:
			op := IOp{Kind: "search"}
			if r.Bool(0.6) {
				for qi := range c.Queries {
					op.Q = append(op.Q, qi)
				}
			} else {
				op.Q = r.Sample(len(c.Queries), r.Range(1, len(c.Queries)))
				sort.Ints(op.Q)
			}
			if r.Bool(0.3) {
				op.APIs = []string{core.Pick(r, allAPIs)}
			}
			c.Ops = append(c.Ops, op)
		}
	}
	return c
}

func genPred(r *core.Rand, keys, vals []string, depth int) *IPred {
	if depth <= 0 || r.Bool(0.25) {
		p := &IPred{Key: core.Pick(r, keys)}
		if r.Bool(0.04) {
			p.Key = "nokey"
		}
		switch r.Weighted([]int{3, 3, 5, 4}) {
		case 0:
			p.Op = "="
		case 1:
			p.Op = "!="
		case 2:
			p.Op = "=~"
		case 3:
			p.Op = "!~"
		}
		if p.Op == "=" || p.Op == "!=" {
			if r.Bool(0.12) {
				p.Val = ""
			} else {
				p.Val = pickWeightedStr(r, vals, valAlpha, 0.75)
			}
		} else {
			p.Val = core.Pick(r, reAlpha)
			if r.Bool(0.2) && len(vals) > 0 {
				// a pattern derived from a value that was written
				v := core.Pick(r, vals)
				if _, err := compileRe(v); err == nil && v != "" {
					p.Val = v
					if r.Bool(0.5) {
						p.Val = "^" + v + "$"
						if _, err := compileRe(p.Val); err != nil {
							p.Val = v
						}
					}
				}
			}
		}
		p.Paren = r.Bool(0.1)
		return p
	}
	p := &IPred{Op: "and", Paren: r.Bool(0.35)}
	if r.Bool(0.45) {
		p.Op = "or"
	}
	p.L = genPred(r, keys, vals, depth-1)
	p.R = genPred(r, keys, vals, depth-1)
	return p
}

// ---- delta debugging ------------------------------------------------------------------

func (worldI) NumOps(c ICase) int { return len(c.Ops) }

func cloneCase(c ICase) ICase {
	b, err := json.Marshal(c)
	if err != nil {
		panic(core.InfraPanic("clone: " + err.Error()))
	}
	var n ICase
	if err := json.Unmarshal(b, &n); err != nil {
		panic(core.InfraPanic("clone: " + err.Error()))
	}
	return n
}

// Subset: every operation is self-contained (queries are referred to by index into a
// list that is not touched), so any sub-list is executable.
func (worldI) Subset(c ICase, keep []int) ICase {
	n := cloneCase(c)
	n.Ops = nil
	cc := cloneCase(c)
	for _, i := range keep {
		n.Ops = append(n.Ops, cc.Ops[i])
	}
	return n
}

func (worldI) Simplify(c ICase) []ICase {
	var out []ICase
	// 1. search ops: one query, one API
	for i, op := range c.Ops {
		if op.Kind != "search" {
			continue
		}
		if len(op.Q) > 1 {
			for _, qi := range op.Q {
				n := cloneCase(c)
				n.Ops[i].Q = []int{qi}
				out = append(out, n)
			}
		}
		if len(op.APIs) != 1 {
			for _, a := range allAPIs {
				n := cloneCase(c)
				n.Ops[i].APIs = []string{a}
				out = append(out, n)
			}
		}
	}
	// 2. drop queries nobody refers to (renumber)
	used := map[int]bool{}
	for _, op := range c.Ops {
		for _, qi := range op.Q {
			used[qi] = true
		}
	}
	if len(used) < len(c.Queries) && len(used) > 0 {
		n := cloneCase(c)
		remap := map[int]int{}
		n.Queries = nil
		for qi := range c.Queries {
			if used[qi] {
				remap[qi] = len(n.Queries)
				n.Queries = append(n.Queries, cloneCase(c).Queries[qi])
			}
		}
		for i := range n.Ops {
			for j, qi := range n.Ops[i].Q {
				n.Ops[i].Q[j] = remap[qi]
			}
		}
		out = append(out, n)
	}
	// 2b. drop one query (the implicit final check evaluates all of them)
	if len(c.Queries) > 1 {
		for drop := range c.Queries {
			n := cloneCase(c)
			n.Queries = append(n.Queries[:drop:drop], n.Queries[drop+1:]...)
			for i := range n.Ops {
				var q []int
				for _, qi := range n.Ops[i].Q {
					switch {
					case qi < drop:
						q = append(q, qi)
					case qi > drop:
						q = append(q, qi-1)
					}
				}
				n.Ops[i].Q = q
			}
			out = append(out, n)
		}
	}
	// 3. shrink predicate trees: a node is replaced by one of its children; parens dropped;
	//    a predicate is dropped altogether
	for qi, q := range c.Queries {
		if q.Pred == nil {
			continue
		}
		for _, alt := range shrinkPred(q.Pred) {
			n := cloneCase(c)
			n.Queries[qi].Pred = alt
			out = append(out, n)
		}
		if len(q.Keys) > 1 {
			for _, k := range q.Keys {
				n := cloneCase(c)
				n.Queries[qi].Keys = []string{k}
				out = append(out, n)
			}
		}
	}
	// 4. shrink the series set: halves of a batch, single series, single tags
	for i, op := range c.Ops {
		if op.Kind != "insert" {
			continue
		}
		if len(op.Series) > 1 {
			h := len(op.Series) / 2
			n := cloneCase(c)
			n.Ops[i].Series = n.Ops[i].Series[:h]
			out = append(out, n)
			n = cloneCase(c)
			n.Ops[i].Series = n.Ops[i].Series[h:]
			out = append(out, n)
			if len(op.Series) <= 10 {
				for j := range op.Series {
					n := cloneCase(c)
					n.Ops[i].Series = append(n.Ops[i].Series[:j:j], n.Ops[i].Series[j+1:]...)
					out = append(out, n)
				}
			}
		}
		if len(op.Series) <= 4 {
			for j, s := range op.Series {
				for t := range s.Tags {
					n := cloneCase(c)
					ts := n.Ops[i].Series[j].Tags
					n.Ops[i].Series[j].Tags = append(ts[:t:t], ts[t+1:]...)
					out = append(out, n)
				}
			}
		}
	}
	// 5. knobs back to defaults
	k := c.Knobs
	def := []func(*IKnobs) bool{
		func(k *IKnobs) bool { x := k.Bloom; k.Bloom = false; return x },
		func(k *IKnobs) bool { x := k.PerlRegex; k.PerlRegex = false; return x },
		func(k *IKnobs) bool { x := k.NoCompress; k.NoCompress = false; return x },
		func(k *IKnobs) bool { x := k.PersistCache; k.PersistCache = false; return x },
		func(k *IKnobs) bool { x := k.Bg; k.Bg = false; return x },
		func(k *IKnobs) bool { x := k.PruneThresh != 0; k.PruneThresh = 0; return x },
		func(k *IKnobs) bool { x := k.Clock0 != 1; k.Clock0 = 1; return x },
		func(k *IKnobs) bool { x := k.SeqBase != 0; k.SeqBase = 0; return x },
	}
	for _, f := range def {
		kk := k
		if f(&kk) {
			n := cloneCase(c)
			n.Knobs = kk
			out = append(out, n)
		}
	}
	return out
}

func shrinkPred(p *IPred) []*IPred {
	var out []*IPred
	if p == nil {
		return nil
	}
	cp := func(x *IPred) *IPred {
		if x == nil {
			return nil
		}
		b, _ := json.Marshal(x)
		var n IPred
		_ = json.Unmarshal(b, &n)
		return &n
	}
	if p.Op == "and" || p.Op == "or" {
		out = append(out, cp(p.L), cp(p.R))
		for _, l := range shrinkPred(p.L) {
			n := cp(p)
			n.L = l
			out = append(out, n)
		}
		for _, r := range shrinkPred(p.R) {
			n := cp(p)
			n.R = r
			out = append(out, n)
		}
	}
	if p.Paren {
		n := cp(p)
		n.Paren = false
		out = append(out, n)
	}
	return out
}

func (worldI) Neutralise(c ICase, name string) (ICase, bool) {
	switch name {
	case "no-reopen", "no-cacheclear", "no-flush":
		kind := name[3:]
		n := cloneCase(c)
		n.Ops = nil
		for _, op := range cloneCase(c).Ops {
			if op.Kind != kind {
				n.Ops = append(n.Ops, op)
			}
		}
		return n, true
	case "flush-before-cacheclear":
		n := cloneCase(c)
		n.Ops = nil
		for _, op := range cloneCase(c).Ops {
			if op.Kind == "cacheclear" {
				n.Ops = append(n.Ops, IOp{Kind: "flush"})
			}
			n.Ops = append(n.Ops, op)
		}
		return n, true
	}
	return c, false
}

func (s ISeries) String() string {
	x := fmt.Sprintf("%q", s.Mst)
	for _, t := range s.Tags {
		x += fmt.Sprintf(",%q=%q", t[0], t[1])
	}
	return x
}
