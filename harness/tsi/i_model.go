package tsi

// World I — reference model: the set of written series and a brute-force evaluator of
// predicate trees (Go regexp, unanchored MatchString; an absent tag is the empty string).

import (
	"fmt"
	"regexp"
	"regexp/syntax"
	"sort"
	"strings"

	"github.com/openGemini/openGemini/lib/util/lifted/influx/influxql"
	"github.com/openGemini/openGemini/lib/util/lifted/vm/protoparser/influx"
)

const mstVersionSuffix = "_0000"

type mSeries struct {
	mst            string            // measurement with version suffix, as the index sees it
	tags           []influx.Tag      // sorted, as produced by the real line-protocol parser
	tagMap         map[string]string // same
	ikey           string            // index key (the series key the index stores)
	id             uint64
	flushed        bool     // covered by an index flush / clean close since it was created
	ord            int      // creation order
	clearedPending bool     // the caches were dropped while the series was still un-flushed
	alias          []uint64 // further ids the index handed out for this series (only after a listed finding was stepped over)
}

func (s *mSeries) hasID(id uint64) bool {
	if s.id == id {
		return true
	}
	for _, a := range s.alias {
		if a == id {
			return true
		}
	}
	return false
}

func (s *mSeries) String() string {
	var sb strings.Builder
	fmt.Fprintf(&sb, "%q", s.mst)
	for _, t := range s.tags {
		fmt.Fprintf(&sb, ",%q=%q", t.Key, t.Value)
	}
	return sb.String()
}

// rendered is the text form the index returns from SearchSeries (influx.Parse2SeriesKey
// with '=' / ',' separators, no escaping).
func (s *mSeries) rendered() string {
	var sb strings.Builder
	sb.WriteString(s.mst)
	for _, t := range s.tags {
		sb.WriteByte(',')
		sb.WriteString(t.Key)
		sb.WriteByte('=')
		sb.WriteString(t.Value)
	}
	if len(s.tags) == 0 {
		// Parse2SeriesKey appends "," after the measurement and trims one byte at the end
		return s.mst
	}
	return sb.String()
}

type iModel struct {
	byKey map[string]*mSeries
	byID  map[uint64]*mSeries
	list  []*mSeries
}

func newModel() *iModel {
	return &iModel{byKey: map[string]*mSeries{}, byID: map[uint64]*mSeries{}}
}

func (m *iModel) ofMst(mst string) []*mSeries {
	var out []*mSeries
	for _, s := range m.list {
		if s.mst == mst {
			out = append(out, s)
		}
	}
	return out
}

func (m *iModel) pendingCount() int {
	n := 0
	for _, s := range m.list {
		if !s.flushed {
			n++
		}
	}
	return n
}

// ---- line protocol ----------------------------------------------------------------------

func lpEscape(s string) string {
	if !strings.ContainsAny(s, ",= \\") {
		return s
	}
	var sb strings.Builder
	for i := 0; i < len(s); i++ {
		switch s[i] {
		case ',', '=', ' ', '\\':
			sb.WriteByte('\\')
		}
		sb.WriteByte(s[i])
	}
	return sb.String()
}

func lpLine(s ISeries, n int) string {
	var sb strings.Builder
	sb.WriteString(lpEscape(s.Mst + mstVersionSuffix))
	for _, t := range s.Tags {
		sb.WriteByte(',')
		sb.WriteString(lpEscape(t[0]))
		sb.WriteByte('=')
		sb.WriteString(lpEscape(t[1]))
	}
	fmt.Fprintf(&sb, " f=%di %d", n, 1700000000000000000+int64(n))
	return sb.String()
}

// intended returns what the client meant to write (tags with empty key or value do not
// exist in line protocol; sorted by key).
func (s ISeries) intended() (string, []influx.Tag) {
	var tags []influx.Tag
	for _, t := range s.Tags {
		if t[0] == "" || t[1] == "" {
			continue
		}
		tags = append(tags, influx.Tag{Key: t[0], Value: t[1]})
	}
	sort.SliceStable(tags, func(i, j int) bool { return tags[i].Key < tags[j].Key })
	return s.Mst + mstVersionSuffix, tags
}

// ---- predicates ---------------------------------------------------------------------------

var reCache = map[string]*regexp.Regexp{}

func compileRe(p string) (*regexp.Regexp, error) {
	if re, ok := reCache[p]; ok {
		return re, nil
	}
	re, err := regexp.Compile(p)
	if err != nil {
		return nil, err
	}
	reCache[p] = re
	return re, nil
}

func (p *IPred) isLeaf() bool { return p.Op != "and" && p.Op != "or" }

func (p *IPred) String() string {
	var s string
	if p.isLeaf() {
		if p.Op == "=~" || p.Op == "!~" {
			s = fmt.Sprintf("%q %s /%s/", p.Key, p.Op, strings.ReplaceAll(fmt.Sprintf("%q", p.Val), "/", "\\/"))
		} else {
			s = fmt.Sprintf("%q %s %q", p.Key, p.Op, p.Val)
		}
	} else {
		s = p.L.String() + " " + strings.ToUpper(p.Op) + " " + p.R.String()
	}
	if p.Paren {
		return "(" + s + ")"
	}
	return s
}

func (p *IPred) leaves(dst []*IPred) []*IPred {
	if p == nil {
		return dst
	}
	if p.isLeaf() {
		return append(dst, p)
	}
	dst = p.L.leaves(dst)
	return p.R.leaves(dst)
}

// eval is the reference semantics of the property statement.
func (p *IPred) eval(tags map[string]string) bool {
	if p == nil {
		return true
	}
	switch p.Op {
	case "and":
		return p.L.eval(tags) && p.R.eval(tags)
	case "or":
		return p.L.eval(tags) || p.R.eval(tags)
	}
	v := tags[p.Key] // absent tag = empty string
	switch p.Op {
	case "=":
		return v == p.Val
	case "!=":
		return v != p.Val
	case "=~", "!~":
		re, err := compileRe(p.Val)
		if err != nil {
			panic("harness: uncompilable regex in case: " + p.Val)
		}
		m := re.MatchString(v)
		if p.Op == "=~" {
			return m
		}
		return !m
	}
	panic("harness: unknown predicate op " + p.Op)
}

// expr builds the AST the way the query layer hands it to the index: every variable
// reference is typed as a tag.
func (p *IPred) expr() influxql.Expr {
	if p == nil {
		return nil
	}
	var e influxql.Expr
	switch p.Op {
	case "and", "or":
		op := influxql.AND
		if p.Op == "or" {
			op = influxql.OR
		}
		e = &influxql.BinaryExpr{Op: influxql.Token(op), LHS: p.L.expr(), RHS: p.R.expr()}
	case "=", "!=":
		op := influxql.EQ
		if p.Op == "!=" {
			op = influxql.NEQ
		}
		e = &influxql.BinaryExpr{Op: influxql.Token(op), LHS: &influxql.VarRef{Val: p.Key, Type: influxql.Tag}, RHS: &influxql.StringLiteral{Val: p.Val}}
	case "=~", "!~":
		op := influxql.EQREGEX
		if p.Op == "!~" {
			op = influxql.NEQREGEX
		}
		re, err := compileRe(p.Val)
		if err != nil {
			panic("harness: uncompilable regex in case: " + p.Val)
		}
		e = &influxql.BinaryExpr{Op: influxql.Token(op), LHS: &influxql.VarRef{Val: p.Key, Type: influxql.Tag}, RHS: &influxql.RegexLiteral{Val: re}}
	default:
		panic("harness: unknown predicate op " + p.Op)
	}
	if p.Paren {
		return &influxql.ParenExpr{Expr: e}
	}
	return e
}

// regexClass names the syntactic shape of a pattern (matcher attribute).
func regexClass(pat string) string {
	sre, err := syntax.Parse(pat, syntax.Perl)
	if err != nil {
		return "invalid"
	}
	if sre.Op == syntax.OpLiteral {
		if sre.Flags&syntax.FoldCase != 0 {
			return "foldcase_literal"
		}
		return "literal"
	}
	if sre.Op == syntax.OpEmptyMatch {
		return "empty"
	}
	begin, end := false, false
	if sre.Op == syntax.OpBeginText {
		return "prefix_anchored"
	}
	if sre.Op == syntax.OpEndText {
		return "suffix_anchored"
	}
	subs := []*syntax.Regexp{sre}
	if sre.Op == syntax.OpConcat {
		subs = sre.Sub
	}
	for len(subs) > 0 && subs[0].Op == syntax.OpBeginText {
		begin, subs = true, subs[1:]
	}
	for len(subs) > 0 && subs[len(subs)-1].Op == syntax.OpEndText {
		end, subs = true, subs[:len(subs)-1]
	}
	has := map[syntax.Op]bool{}
	fold := false
	var walk func(r *syntax.Regexp)
	walk = func(r *syntax.Regexp) {
		has[r.Op] = true
		if r.Op == syntax.OpLiteral && r.Flags&syntax.FoldCase != 0 {
			fold = true
		}
		for _, s := range r.Sub {
			walk(s)
		}
	}
	for _, s := range subs {
		walk(s)
	}
	inner := "other"
	switch {
	case len(subs) == 0:
		inner = "empty"
	case len(subs) == 1 && subs[0].Op == syntax.OpLiteral && !fold:
		inner = "literal"
	case has[syntax.OpAlternate]:
		inner = "alternation"
	case has[syntax.OpCharClass]:
		inner = "charclass"
	case has[syntax.OpAnyChar] || has[syntax.OpAnyCharNotNL]:
		inner = "dot"
	case has[syntax.OpStar] || has[syntax.OpPlus] || has[syntax.OpQuest] || has[syntax.OpRepeat]:
		inner = "repeat"
	case fold:
		inner = "foldcase"
	case has[syntax.OpWordBoundary] || has[syntax.OpNoWordBoundary] || has[syntax.OpBeginLine] || has[syntax.OpEndLine] || has[syntax.OpBeginText] || has[syntax.OpEndText]:
		inner = "assertion"
	}
	switch {
	case begin && end:
		if inner == "literal" {
			return "anchored"
		}
		return "anchored_" + inner
	case begin:
		return "prefix_" + inner
	case end:
		return "suffix_" + inner
	}
	return inner
}

func hasSepBytes(s string) bool {
	return strings.ContainsAny(s, "\x00\x01\x02")
}
