package raftlog

// World R — the replication log store (lib/raftlog) on the simulated disk, run in
// lock-step with etcd's raft.MemoryStorage (property C17).  Nothing is stubbed.

import (
	"bytes"
	"errors"
	"fmt"
	"os"
	"path/filepath"
	"sort"
	"syscall"
	"testing"
	"time"

	"github.com/openGemini/openGemini/lib/config"
	"github.com/openGemini/openGemini/verifsim/core"
	"github.com/openGemini/openGemini/verifsim/simfs"
	"go.etcd.io/etcd/raft/v3"
	"go.etcd.io/etcd/raft/v3/raftpb"
)

type ROp struct {
	Kind  string   `json:"k"`               // save | snap | del | sync | reopen
	First uint64   `json:"first,omitempty"` // save: index of first entry
	Terms []uint64 `json:"terms,omitempty"` // save: term per entry
	Sizes []int    `json:"sizes,omitempty"` // save: payload size per entry
	HS    []uint64 `json:"hs,omitempty"`    // save: term, vote, commit (empty = none)
	Index uint64   `json:"idx,omitempty"`   // snap / del
	SnapN int      `json:"snapn,omitempty"` // snap: payload size
	EIO   int      `json:"eio,omitempty"`   // save: fail the n-th file write of this op with EIO (0 = none)
	Salt  uint64   `json:"salt,omitempty"`  // makes payloads unique per op
}

type RCase struct {
	Backend   int   `json:"backend"` // config.EntryFileRWType: 1 = file.go, 2 = file_v2.go
	SyncMs    int   `json:"sync_ms"`
	Ops       []ROp `json:"ops"`
	Crash     bool  `json:"crash"`      // enumerate crash points after the live run
	CrashSeed uint64 `json:"crash_seed"` // sampling of crash points when there are too many
	MaxCrash  int   `json:"max_crash"`
	// OnlyCrash, when >=0, restricts crash checking to this journal position of
	// incarnation OnlyInc with OnlyTorn (set by minimisation / replay files).
	OnlyInc   int `json:"only_inc"`
	OnlyCrash int `json:"only_crash"`
	OnlyTorn  int `json:"only_torn"`
}

type worldR struct{}

func (worldR) Name() string { return "R" }
func (worldR) Components() ([]string, []string) {
	return []string{"lib/raftlog (RaftDiskStorage, entryLog, logFile, metaFile, FileWrap v1+v2)", "lib/fileops (through simfs)", "go.etcd.io/etcd/raft/v3 MemoryStorage (reference)"}, []string{}
}

func payload(index, term, salt uint64, n int) []byte {
	if n == 0 {
		return nil
	}
	b := make([]byte, n)
	x := core.Mix(index*1000003+term, salt)
	for i := range b {
		if i%8 == 0 {
			x = core.Mix(x, uint64(i))
		}
		b[i] = byte(x >> (8 * uint(i%8)))
	}
	// make the first bytes readable: idx/term
	hdr := []byte(fmt.Sprintf("i%d.t%d.s%d|", index, term, salt%1000))
	copy(b, hdr)
	return b
}

// genPrefixDeletion: 12 MiB payloads roll the entry file every two entries (32 MiB per file); after three or four
// rolled files a DeleteBefore (with or without a snapshot first) removes at least two of them in one call; small
// appends, a sync and a reopen follow.  Every journal boundary of such a short history is a crash point.
func genPrefixDeletion(r *core.Rand, c RCase) RCase {
	c.Crash = true
	if c.MaxCrash < 120 {
		c.MaxCrash = 120
	}
	big := func() int { return r.Range(11<<20, 13<<20) }
	idx := uint64(1)
	term := uint64(1)
	nfiles := r.Range(3, 4)
	for f := 0; f < nfiles; f++ {
		op := ROp{Kind: "save", First: idx, Salt: r.Uint64() % 1000000, Terms: []uint64{term, term}, Sizes: []int{big(), big()}}
		if r.Bool(0.5) {
			op.HS = []uint64{term, 1, idx}
		}
		c.Ops = append(c.Ops, op)
		idx += 2
		if r.Intn(3) == 0 {
			term++
		}
	}
	last := idx - 1
	// one more entry so that the newest rolled file is not the current one
	c.Ops = append(c.Ops, ROp{Kind: "save", First: idx, Salt: r.Uint64() % 1000000, Terms: []uint64{term}, Sizes: []int{r.Range(1, 200)}})
	last = idx
	// delete up to an index in the third file or later: at least two files go in one call
	del := uint64(5) + uint64(r.Intn(int(last-5)+1))
	if r.Bool(0.5) {
		c.Ops = append(c.Ops, ROp{Kind: "snap", Index: del, SnapN: r.Range(0, 100)})
	}
	c.Ops = append(c.Ops, ROp{Kind: "del", Index: del})
	for i, n := 0, r.Range(1, 3); i < n; i++ {
		switch r.Intn(3) {
		case 0:
			c.Ops = append(c.Ops, ROp{Kind: "save", First: last + 1, Salt: r.Uint64() % 1000000, Terms: []uint64{term}, Sizes: []int{r.Range(0, 300)}})
			last++
		case 1:
			c.Ops = append(c.Ops, ROp{Kind: "sync"})
		case 2:
			c.Ops = append(c.Ops, ROp{Kind: "reopen"})
		}
	}
	return c
}

// Gen draws a history.  A small shadow model keeps the generated operations legal
// for the raft storage contract (no gaps, monotone terms, snapshot inside the log).
func (worldR) Gen(r *core.Rand, env *core.Env) RCase {
	c := RCase{Backend: 2, OnlyCrash: -1, OnlyTorn: -1}
	if r.Intn(4) == 0 {
		c.Backend = 1
	}
	if r.Bool(0.5) {
		c.SyncMs = 0
	} else {
		c.SyncMs = 5
	}
	thorough := env.Tier == "thorough"
	nops := r.Range(6, 30)
	rotCount := r.Intn(12) == 0 // rotation by slot count (30000 entries)
	rotBytes := !rotCount && r.Intn(10) == 0
	c.Crash = r.Bool(0.6)
	c.MaxCrash = 60
	if thorough {
		c.MaxCrash = 250
	}
	c.CrashSeed = r.Uint64()
	// one history in 14 (decided by a generator of its own, so that the other histories are what their seeds gave
	// before): several entry files + a prefix deletion that removes two or more of them in one call (seeded change
	// C17-d: the removals must leave a gap-free log wherever the process dies between them)
	if fr := core.NewRand(c.CrashSeed ^ 0x70726566); fr.Intn(14) == 0 {
		return genPrefixDeletion(fr, c)
	}
	var last, first, snapIdx uint64 // shadow
	first = 1
	terms := map[uint64]uint64{}
	curTerm := uint64(1)
	commit := uint64(0)
	for i := 0; i < nops; i++ {
		op := ROp{Salt: r.Uint64() % 1000000}
		w := []int{10, 2, 2, 2, 3}
		if last == 0 {
			w = []int{10, 0, 0, 1, 1}
		}
		switch r.Weighted(w) {
		case 0:
			op.Kind = "save"
			// where to start: append (60%), conflict (40%) inside (max(first,snap+1,commit+1) .. last]
			lo := first
			if snapIdx+1 > lo {
				lo = snapIdx + 1
			}
			op.First = last + 1
			if last >= lo && r.Bool(0.4) {
				op.First = lo + uint64(r.Int63n(int64(last-lo+1)))
			}
			n := r.Range(1, 6)
			if r.Intn(6) == 0 {
				n = r.Range(7, 40)
			}
			if rotCount && r.Intn(3) == 0 {
				n = r.Range(9000, 31000)
			}
			conflict := op.First <= last
			prevTerm := terms[op.First-1]
			if prevTerm > curTerm {
				curTerm = prevTerm
			}
			if conflict || r.Intn(4) == 0 {
				curTerm++ // a conflicting append carries a newer term
			}
			t := curTerm
			if conflict && r.Intn(5) == 0 && terms[op.First] >= prevTerm {
				// re-send of identical-term entries (not a real conflict)
				t = terms[op.First]
				if t < prevTerm {
					t = prevTerm
				}
			}
			for j := 0; j < n; j++ {
				if r.Intn(10) == 0 {
					t++
				}
				op.Terms = append(op.Terms, t)
				sz := 0
				switch r.Intn(8) {
				case 0:
					sz = 0
				case 1:
					sz = r.Range(1, 8)
				case 2:
					sz = r.Range(4000, 9000)
				default:
					sz = r.Range(8, 200)
				}
				if n > 1000 {
					sz = r.Range(0, 24)
				}
				if rotBytes && r.Intn(3) == 0 {
					sz = r.Range(7<<20, 9<<20)
				}
				op.Sizes = append(op.Sizes, sz)
			}
			if t > curTerm {
				curTerm = t
			}
			// shadow update
			for k := op.First; k <= last; k++ {
				delete(terms, k)
			}
			for j, tt := range op.Terms {
				terms[op.First+uint64(j)] = tt
			}
			last = op.First + uint64(n) - 1
			if commit > last {
				commit = last
			}
			if r.Bool(0.7) {
				if r.Bool(0.6) && last > commit {
					commit += uint64(r.Int63n(int64(last-commit) + 1))
				}
				op.HS = []uint64{curTerm, uint64(r.Range(0, 3)), commit}
			}
			// Injected write errors are not part of C17's quantifier (histories x crash
			// points); the EIO path stays in the harness but is not generated.
			_ = op.EIO
		case 1:
			op.Kind = "snap"
			lo := snapIdx + 1
			if first > lo {
				lo = first
			}
			if lo > last {
				op.Kind = "sync"
				break
			}
			op.Index = lo + uint64(r.Int63n(int64(last-lo+1)))
			op.SnapN = r.Range(0, 300)
			snapIdx = op.Index
		case 2:
			op.Kind = "del"
			// like the callers: delete up to the snapshot index (or anywhere inside the log)
			if snapIdx > 0 && r.Bool(0.7) {
				op.Index = snapIdx
			} else {
				op.Index = first + uint64(r.Int63n(int64(last-first+1)))
			}
		case 3:
			op.Kind = "sync"
		case 4:
			op.Kind = "reopen"
		}
		c.Ops = append(c.Ops, op)
	}
	return c
}

func (worldR) NumOps(c RCase) int { return len(c.Ops) }

// Subset keeps the chosen operations and repairs what dropping the others breaks:
// saves are re-based so that the log stays gap-free.
func (worldR) Subset(c RCase, keep []int) RCase {
	n := c
	n.Ops = nil
	var last uint64
	for _, i := range keep {
		op := c.Ops[i]
		op.Terms = append([]uint64(nil), op.Terms...)
		op.Sizes = append([]int(nil), op.Sizes...)
		if op.Kind == "save" {
			if op.First > last+1 {
				op.First = last + 1
			}
			if e := op.First + uint64(len(op.Terms)) - 1; true {
				last = e
			}
		}
		n.Ops = append(n.Ops, op)
	}
	n.OnlyCrash, n.OnlyTorn = -1, -1
	return n
}

func (worldR) Simplify(c RCase) []RCase {
	var out []RCase
	cp := func() RCase {
		n := c
		n.Ops = make([]ROp, len(c.Ops))
		for i, op := range c.Ops {
			op.Terms = append([]uint64(nil), op.Terms...)
			op.Sizes = append([]int(nil), op.Sizes...)
			n.Ops[i] = op
		}
		n.OnlyCrash, n.OnlyTorn = -1, -1
		return n
	}
	for i, op := range c.Ops {
		if op.Kind == "save" {
			if len(op.Terms) > 1 {
				// only the last save can be shortened without re-basing later ones
				lastSave := true
				for _, o2 := range c.Ops[i+1:] {
					if o2.Kind == "save" || o2.Kind == "snap" || o2.Kind == "del" {
						lastSave = false
					}
				}
				if lastSave {
					n := cp()
					h := len(op.Terms) / 2
					n.Ops[i].Terms = n.Ops[i].Terms[:h]
					n.Ops[i].Sizes = n.Ops[i].Sizes[:h]
					out = append(out, n)
				}
			}
			shr := false
			n := cp()
			for j, s := range op.Sizes {
				if s > 16 && s < 1<<20 {
					n.Ops[i].Sizes[j] = 8
					shr = true
				}
			}
			if shr {
				out = append(out, n)
			}
			if op.EIO != 0 {
				n := cp()
				n.Ops[i].EIO = 0
				out = append(out, n)
			}
			if len(op.HS) > 0 {
				n := cp()
				n.Ops[i].HS = nil
				out = append(out, n)
			}
		}
	}
	if c.SyncMs != 0 {
		n := cp()
		n.SyncMs = 0
		out = append(out, n)
	}
	return out
}

func (worldR) Neutralise(c RCase, name string) (RCase, bool) {
	switch name {
	case "no-reopen":
		n := c
		n.Ops = nil
		for _, op := range c.Ops {
			if op.Kind != "reopen" {
				n.Ops = append(n.Ops, op)
			}
		}
		n.Crash = false
		return n, true
	case "no-crash":
		n := c
		n.Crash = false
		n.OnlyCrash = -1
		return n, true
	}
	return c, false
}

// ---- model ----------------------------------------------------------------------

type rState struct {
	ents    []raftpb.Entry // ents[i] has index i+1
	hs      raftpb.HardState
	snap    raftpb.Snapshot
	anySave bool
}

func (s *rState) clone() *rState {
	n := &rState{hs: s.hs, snap: s.snap, anySave: s.anySave}
	n.ents = append([]raftpb.Entry(nil), s.ents...)
	return n
}
func (s *rState) last() uint64 { return uint64(len(s.ents)) }

func (s *rState) apply(ents []raftpb.Entry) {
	if len(ents) == 0 {
		return
	}
	f := ents[0].Index
	s.ents = append(s.ents[:f-1:f-1], ents...)
	s.anySave = true
}

type rRun struct {
	c       RCase
	env     *core.Env
	out     *core.Outcome
	fs      *simfs.FS
	disk    *simfs.Disk
	rds     *RaftDiskStorage
	inc     int
	model   *rState
	ms      *raft.MemoryStorage
	first   uint64 // last observed first index of the implementation
	delReq  uint64 // highest index ever passed to DeleteBefore / implied by Init
	states  []*rState // model after op i (index i+1; states[0] = initial)
	incInit []string  // per incarnation: copy of the directory when it was opened
	incDisk []*simfs.Disk
	incBase []int // per incarnation: index of first op executed in it
	r       *core.Rand
}

func viol(kind, detail string, attrs map[string]string) *core.Violation {
	return &core.Violation{Property: "C17", Kind: kind, Detail: detail, Attrs: attrs}
}

func (w worldR) Exec(c RCase, env *core.Env) *core.Outcome {
	out := core.NewOutcome()
	config.SetEntryFileRWType(c.Backend)
	fs := simfs.Install()
	run := &rRun{c: c, env: env, out: out, fs: fs, model: &rState{}, ms: raft.NewMemoryStorage(), r: core.NewRand(c.CrashSeed)}
	defer run.cleanup()
	if err := run.open(filepath.Join(env.Scratch, "inc0"), ""); err != nil {
		out.Violation = viol("open_failed", "initial Init failed: "+err.Error(), nil)
		return out
	}
	run.states = append(run.states, run.model.clone())
	hdig := []string{fmt.Sprintf("backend=%d sync=%d", c.Backend, c.SyncMs)}
	sawRe, sawConf, afterRe := false, false, false
	for i, op := range c.Ops {
		run.disk.SetTag(i)
		v := run.step(i, op)
		hdig = append(hdig, fmt.Sprintf("%s %d %d %v", op.Kind, op.First, len(op.Terms), op.Index))
		if op.Kind == "reopen" {
			sawRe = true
		}
		if op.Kind == "save" && sawRe {
			afterRe = true
		}
		if op.Kind == "save" && out.Stats["conflict_saves"] > 0 {
			sawConf = true
		}
		if v != nil {
			v.Attrs = mergeAttrs(v.Attrs, map[string]string{"op": op.Kind, "phase": "live", "backend": fmt.Sprint(c.Backend)})
			out.Violation = v
			return out
		}
		run.states = append(run.states, run.model.clone())
		out.Stats["ops"]++
	}
	out.Digest = core.DigestStrings(hdig)
	out.Nontrivial = (sawRe && afterRe) || sawConf || c.Crash
	// seam completeness: journal of the last incarnation replays to the live directory
	if err := run.checkComplete(); err != nil {
		out.Infra = err.Error()
		return out
	}
	if c.Crash {
		if v := run.crashEnum(); v != nil {
			out.Violation = v
			return out
		}
	}
	return out
}

func mergeAttrs(a, b map[string]string) map[string]string {
	if a == nil {
		a = map[string]string{}
	}
	for k, v := range b {
		if _, ok := a[k]; !ok {
			a[k] = v
		}
	}
	return a
}

func (run *rRun) cleanup() {
	if run.rds != nil {
		func() {
			defer func() { _ = recover() }()
			_ = run.rds.Close()
		}()
	}
	for _, d := range run.incDisk {
		d.Kill()
		run.fs.Forget(d)
	}
}

// open starts a new incarnation on a fresh path; from != "" copies that tree first.
func (run *rRun) open(dir, from string) error {
	if from != "" {
		if err := simfs.CopyTree(from, dir); err != nil {
			panic(core.InfraPanic("copy tree: " + err.Error()))
		}
	} else {
		_ = os.MkdirAll(dir, 0o755)
	}
	init := dir + ".init"
	if err := simfs.CopyTree(dir, init); err != nil {
		panic(core.InfraPanic("copy tree: " + err.Error()))
	}
	run.incInit = append(run.incInit, init)
	d := run.fs.NewDisk(dir)
	run.disk = d
	run.incDisk = append(run.incDisk, d)
	run.incBase = append(run.incBase, len(run.states))
	if len(run.states) > 0 {
		d.SetTag(len(run.states) - 1)
	}
	rds, err := Init(dir, msDur(run.c.SyncMs))
	if err != nil {
		return err
	}
	run.rds = rds
	run.inc++
	return nil
}

func (run *rRun) buildEntries(op ROp) []raftpb.Entry {
	ents := make([]raftpb.Entry, len(op.Terms))
	for j := range op.Terms {
		idx := op.First + uint64(j)
		typ := raftpb.EntryNormal
		if (idx+op.Salt)%17 == 0 {
			typ = raftpb.EntryConfChange
		}
		ents[j] = raftpb.Entry{Term: op.Terms[j], Index: idx, Type: typ, Data: payload(idx, op.Terms[j], op.Salt, op.Sizes[j])}
	}
	return ents
}

func (run *rRun) step(i int, op ROp) *core.Violation {
	out := run.out
	switch op.Kind {
	case "save":
		if op.First == 0 || op.First > run.model.last()+1 || len(op.Terms) == 0 {
			return nil // illegal after shrinking: skip
		}
		if op.First <= run.model.snap.Metadata.Index || (run.model.anySave && op.First < run.first) {
			return nil
		}
		ents := run.buildEntries(op)
		var hs *raftpb.HardState
		if len(op.HS) == 3 {
			hs = &raftpb.HardState{Term: op.HS[0], Vote: op.HS[1], Commit: op.HS[2]}
		}
		if op.First <= run.model.last() {
			out.Stats["conflict_saves"]++
			fidx, _ := run.rds.entryLog.slotGe(op.First)
			if fidx != -1 {
				out.Probes["conflict truncation into older file"]++
			}
		}
		nfilesBefore := len(run.rds.entryLog.files)
		if op.EIO > 0 {
			run.disk.Arm(&simfs.Fault{Kind: simfs.KWrite, Nth: op.EIO, Err: &os.PathError{Op: "write", Path: "injected", Err: syscall.EIO}})
		}
		pre := run.model.clone()
		err := run.rds.Save(hs, ents, nil)
		fired := 0
		if op.EIO > 0 {
			fired = run.disk.FiredFaults()
			run.disk.Disarm()
		}
		post := run.model.clone()
		post.apply(ents)
		if hs != nil && !raft.IsEmptyHardState(*hs) {
			post.hs = *hs
		}
		if len(run.rds.entryLog.files) > nfilesBefore {
			out.Probes["raft log rotated"]++
		}
		out.Log("op%d save first=%d n=%d err=%v", i, op.First, len(ents), err != nil)
		if fired > 0 {
			out.Faults["eio"]++
			// fail-stop: the store is reopened; state must be old or new per entry
			_ = run.rds.Close()
			run.rds = nil
			prev := run.disk
			prev.Kill()
			if err2 := run.open(filepath.Join(run.env.Scratch, fmt.Sprintf("inc%d", run.inc)), prev.Root); err2 != nil {
				return viol("open_failed_after_eio", fmt.Sprintf("Init after injected EIO in op %d failed: %v", i, err2), nil)
			}
			rec, v := run.checkRecovered(pre, post, "eio")
			if v != nil {
				return v
			}
			run.model = rec
			run.resyncMS()
			run.first, _ = run.rds.FirstIndex()
			return run.checkAll(i, "after-eio-reopen")
		}
		if err != nil {
			return viol("save_error", fmt.Sprintf("op %d: Save returned %v without an injected fault", i, err), nil)
		}
		run.model = post
		if err := run.ms.Append(ents); err != nil {
			panic(core.InfraPanic("model append: " + err.Error()))
		}
	case "snap":
		if op.Index == 0 || op.Index > run.model.last() || op.Index <= run.model.snap.Metadata.Index || op.Index < run.first {
			return nil
		}
		cs := &raftpb.ConfState{Voters: []uint64{1, 2, 3}}
		data := payload(op.Index, 0, op.Salt, op.SnapN)
		err := run.rds.CreateSnapshot(op.Index, cs, data)
		out.Log("op%d snap idx=%d err=%v", i, op.Index, err != nil)
		if err != nil {
			return viol("snapshot_error", fmt.Sprintf("op %d: CreateSnapshot(%d) = %v, log is [%d,%d]", i, op.Index, err, run.first, run.model.last()), nil)
		}
		run.model.snap = raftpb.Snapshot{Data: data, Metadata: raftpb.SnapshotMetadata{Index: op.Index, Term: run.model.ents[op.Index-1].Term, ConfState: *cs}}
		out.Stats["snapshots"]++
	case "del":
		if !run.model.anySave || op.Index < run.first || op.Index > run.model.last() {
			return nil
		}
		err := run.rds.DeleteBefore(op.Index)
		out.Log("op%d del idx=%d err=%v", i, op.Index, err != nil)
		if err != nil {
			return viol("delete_error", fmt.Sprintf("op %d: DeleteBefore(%d) = %v, log is [%d,%d]", i, op.Index, err, run.first, run.model.last()), nil)
		}
		if op.Index > run.delReq {
			run.delReq = op.Index
		}
		out.Stats["prefix_deletes"]++
	case "sync":
		if err := run.rds.TrySync(); err != nil {
			return viol("sync_error", fmt.Sprintf("op %d: TrySync = %v", i, err), nil)
		}
	case "reopen":
		if err := run.rds.Close(); err != nil {
			return viol("close_error", fmt.Sprintf("op %d: Close = %v", i, err), nil)
		}
		run.rds = nil
		prev := run.disk
		prev.Kill()
		if si := run.model.snap.Metadata.Index; si > run.delReq {
			run.delReq = si // Init re-applies the pending prefix deletion up to the snapshot
		}
		if err := run.open(filepath.Join(run.env.Scratch, fmt.Sprintf("inc%d", run.inc)), prev.Root); err != nil {
			return viol("open_failed", fmt.Sprintf("op %d: Init after clean close failed: %v", i, err), nil)
		}
		out.Faults["clean_restart"]++
		out.Log("op%d reopen", i)
	}
	return run.checkAll(i, op.Kind)
}

func (run *rRun) resyncMS() {
	run.ms = raft.NewMemoryStorage()
	if len(run.model.ents) > 0 {
		if err := run.ms.Append(run.model.ents); err != nil {
			panic(core.InfraPanic("model append: " + err.Error()))
		}
	}
}

func sameData(a, b []byte) bool { return (len(a) == 0 && len(b) == 0) || bytes.Equal(a, b) }

func entEq(a, b raftpb.Entry) bool {
	return a.Index == b.Index && a.Term == b.Term && a.Type == b.Type && sameData(a.Data, b.Data)
}

func entStr(e raftpb.Entry) string {
	d := e.Data
	if len(d) > 24 {
		d = d[:24]
	}
	return fmt.Sprintf("{i=%d t=%d ty=%d len=%d %q}", e.Index, e.Term, e.Type, len(e.Data), d)
}

// checkAll compares every query of the raft storage contract with the reference.
func (run *rRun) checkAll(i int, after string) *core.Violation {
	rds, m, out := run.rds, run.model, run.out
	at := map[string]string{"after": after}
	first, _ := rds.FirstIndex()
	last, _ := rds.LastIndex()
	out.Stats["checks"]++
	if !m.anySave {
		// the statement does not pin FirstIndex/LastIndex of a log that never held an entry
		return nil
	}
	if last != m.last() {
		return viol("last_index", fmt.Sprintf("after op %d (%s): LastIndex=%d, reference %d", i, after, last, m.last()), at)
	}
	// compaction point: constrained, not equated
	if first < 1 || first > last+1 {
		return viol("first_index", fmt.Sprintf("after op %d (%s): FirstIndex=%d outside [1,%d]", i, after, first, last+1), at)
	}
	if run.first == 0 {
		run.first = first // first observation on a non-empty log
	}
	if first < run.first {
		return viol("first_index", fmt.Sprintf("after op %d (%s): FirstIndex went back from %d to %d", i, after, run.first, first), at)
	}
	if first > run.first {
		if after != "del" && after != "reopen" && after != "after-eio-reopen" && after != "crash" {
			return viol("first_index", fmt.Sprintf("after op %d (%s): FirstIndex moved %d -> %d without a prefix deletion", i, after, run.first, first), at)
		}
		if first > run.delReq && first > 1 {
			return viol("first_index", fmt.Sprintf("after op %d (%s): FirstIndex=%d passed the highest deletion request %d", i, after, first, run.delReq), at)
		}
		out.Probes["compaction point moved"]++
	}
	run.first = first
	si, st := m.snap.Metadata.Index, m.snap.Metadata.Term

	// Term at boundary and sampled indexes
	idxs := []uint64{first, first + 1, last, last + 1, last + 2, si, si + 1}
	if first > 1 {
		idxs = append(idxs, first-1)
	}
	if last > 0 {
		idxs = append(idxs, last-1, (first+last)/2)
	}
	for k := 0; k < 4 && last > first; k++ {
		idxs = append(idxs, first+uint64(run.r.Int63n(int64(last-first+1))))
	}
	sort.Slice(idxs, func(a, b int) bool { return idxs[a] < idxs[b] })
	for _, idx := range idxs {
		if idx == 0 {
			continue
		}
		t, err := rds.Term(idx)
		out.Stats["term_queries"]++
		switch {
		case idx > last:
			if !errors.Is(err, raft.ErrUnavailable) {
				return viol("term", fmt.Sprintf("after op %d (%s): Term(%d) beyond last %d = (%d,%v), want ErrUnavailable", i, after, idx, last, t, err), at)
			}
		case idx >= first:
			if err != nil || t != m.ents[idx-1].Term {
				return viol("term", fmt.Sprintf("after op %d (%s): Term(%d) = (%d,%v), reference %d [first=%d last=%d]", i, after, idx, t, err, m.ents[idx-1].Term, first, last), at)
			}
		case idx == si:
			if err != nil || t != st {
				return viol("term", fmt.Sprintf("after op %d (%s): Term(snapshot index %d) = (%d,%v), want %d", i, after, idx, t, err, st), at)
			}
		default:
			if !errors.Is(err, raft.ErrCompacted) {
				return viol("term", fmt.Sprintf("after op %d (%s): Term(%d) below first %d = (%d,%v), want ErrCompacted", i, after, idx, first, t, err), at)
			}
		}
	}
	// Entries over boundary and sampled ranges
	type rg struct{ lo, hi, max uint64 }
	var rgs []rg
	rgs = append(rgs, rg{first, last + 1, 1 << 40}, rg{first, first, 100}, rg{last, last + 1, 0}, rg{first, last + 2, 100}, rg{last + 1, last + 1, 10})
	if first > 1 {
		rgs = append(rgs, rg{first - 1, last + 1, 1 << 40})
	}
	for k := 0; k < 5 && last >= first; k++ {
		lo := first + uint64(run.r.Int63n(int64(last-first+1)))
		hi := lo + uint64(run.r.Int63n(int64(last+1-lo)+1))
		mx := uint64(1 << 40)
		switch run.r.Intn(4) {
		case 0:
			mx = 0
		case 1:
			mx = uint64(run.r.Intn(600))
		case 2:
			mx = uint64(run.r.Intn(20000))
		}
		rgs = append(rgs, rg{lo, hi, mx})
	}
	if last-first > 2000 {
		// keep the full-range read, drop nothing else; large logs are rare
		out.Probes["large log"]++
	}
	for _, g := range rgs {
		got, err := rds.Entries(g.lo, g.hi, g.max)
		out.Stats["entries_queries"]++
		if g.lo < first {
			if !errors.Is(err, raft.ErrCompacted) {
				return viol("entries", fmt.Sprintf("after op %d (%s): Entries(%d,%d) with lo below first %d: err=%v, want ErrCompacted", i, after, g.lo, g.hi, first, err), at)
			}
			continue
		}
		if g.hi > last+1 {
			if !errors.Is(err, raft.ErrUnavailable) {
				return viol("entries", fmt.Sprintf("after op %d (%s): Entries(%d,%d) with hi beyond last+1=%d: err=%v, want ErrUnavailable", i, after, g.lo, g.hi, last+1, err), at)
			}
			continue
		}
		if err != nil {
			return viol("entries", fmt.Sprintf("after op %d (%s): Entries(%d,%d,%d) = %v [first=%d last=%d]", i, after, g.lo, g.hi, g.max, err, first, last), at)
		}
		var want []raftpb.Entry
		if g.lo < g.hi {
			want, err = run.ms.Entries(g.lo, g.hi, g.max)
			if err != nil {
				panic(core.InfraPanic(fmt.Sprintf("reference Entries(%d,%d): %v", g.lo, g.hi, err)))
			}
		}
		if len(got) != len(want) {
			return viol("entries", fmt.Sprintf("after op %d (%s): Entries(%d,%d,max=%d) returned %d entries, reference %d [first=%d last=%d]", i, after, g.lo, g.hi, g.max, len(got), len(want), first, last), at)
		}
		for k := range got {
			if !entEq(got[k], want[k]) {
				kind := "entries"
				if len(got[k].Data) == 0 && len(want[k].Data) != 0 && got[k].Index == want[k].Index && got[k].Term == want[k].Term {
					kind = "empty_payload"
				}
				return viol(kind, fmt.Sprintf("after op %d (%s): Entries(%d,%d)[%d] = %s, reference %s [first=%d last=%d]", i, after, g.lo, g.hi, k, entStr(got[k]), entStr(want[k]), first, last), at)
			}
		}
	}
	if n := rds.NumEntries(); uint64(n) != last-first+1 {
		return viol("num_entries", fmt.Sprintf("after op %d (%s): NumEntries=%d, want %d [first=%d last=%d]", i, after, n, last-first+1, first, last), at)
	}
	// hard state, snapshot
	hs, cs, err := rds.InitialState()
	if err != nil || hs.Term != m.hs.Term || hs.Vote != m.hs.Vote || hs.Commit != m.hs.Commit {
		return viol("hard_state", fmt.Sprintf("after op %d (%s): InitialState hs=%+v err=%v, saved %+v", i, after, hs, err, m.hs), at)
	}
	sn, err := rds.Snapshot()
	if err != nil || sn.Metadata.Index != si || sn.Metadata.Term != st || !sameData(sn.Data, m.snap.Data) || fmt.Sprint(sn.Metadata.ConfState.Voters) != fmt.Sprint(m.snap.Metadata.ConfState.Voters) {
		return viol("snapshot", fmt.Sprintf("after op %d (%s): Snapshot meta=%+v len=%d err=%v, saved meta=%+v len=%d", i, after, sn.Metadata, len(sn.Data), err, m.snap.Metadata, len(m.snap.Data)), at)
	}
	if fmt.Sprint(cs.Voters) != fmt.Sprint(m.snap.Metadata.ConfState.Voters) {
		return viol("snapshot", fmt.Sprintf("after op %d (%s): InitialState conf state %v, snapshot's %v", i, after, cs.Voters, m.snap.Metadata.ConfState.Voters), at)
	}
	return nil
}

// checkRecovered judges the state found after a crash (or a failed, fail-stopped
// operation) in the middle of the operation that leads from pre to post: every
// entry is the old or the new one, never a mixture; nothing acknowledged before
// is lost; hard state and snapshot are the old or the new ones.  It returns the
// state actually found (a legal one) for resynchronising the reference.
func (run *rRun) checkRecovered(pre, post *rState, how string) (*rState, *core.Violation) {
	rds := run.rds
	at := map[string]string{"phase": how}
	first, _ := rds.FirstIndex()
	last, _ := rds.LastIndex()
	rec := &rState{anySave: pre.anySave || post.anySave}
	if !rec.anySave {
		return rec, nil
	}
	if !pre.anySave && last == 0 {
		// crash before the very first entry became durable
		rec.anySave = false
		hs, _, _ := rds.InitialState()
		if hs != pre.hs && hs != post.hs {
			return nil, viol("crash_hard_state", fmt.Sprintf("%s: recovered hard state %+v is neither old %+v nor new %+v", how, hs, pre.hs, post.hs), at)
		}
		return rec, nil
	}
	// stable prefix: everything both states agree on must be there
	minLast := pre.last()
	if post.last() < minLast {
		minLast = post.last()
	}
	common := uint64(0)
	for common < minLast && entEq(pre.ents[common], post.ents[common]) {
		common++
	}
	if last < common {
		return nil, viol("crash_lost_entries", fmt.Sprintf("%s: recovered LastIndex=%d, but entries up to %d were acknowledged before the interrupted operation", how, last, common), at)
	}
	maxLast := pre.last()
	if post.last() > maxLast {
		maxLast = post.last()
	}
	if last > maxLast {
		return nil, viol("crash_invented_entries", fmt.Sprintf("%s: recovered LastIndex=%d beyond old %d and new %d", how, last, pre.last(), post.last()), at)
	}
	if first < 1 {
		first = 1
	}
	if first < run.first {
		return nil, viol("first_index", fmt.Sprintf("%s: FirstIndex went back from %d to %d", how, run.first, first), at)
	}
	var got []raftpb.Entry
	if last >= first {
		var err error
		got, err = rds.Entries(first, last+1, 1<<40)
		if err != nil {
			return nil, viol("crash_entries", fmt.Sprintf("%s: Entries(%d,%d) = %v", how, first, last+1, err), at)
		}
		if uint64(len(got)) != last-first+1 {
			return nil, viol("crash_entries", fmt.Sprintf("%s: Entries(%d,%d) returned %d entries, want %d", how, first, last+1, len(got), last-first+1), at)
		}
	}
	// rebuild the recovered state: below first we cannot read, take pre (== post there, as first <= common+1 must hold)
	rec.ents = make([]raftpb.Entry, last)
	for idx := uint64(1); idx <= last; idx++ {
		var e raftpb.Entry
		if idx >= first {
			e = got[idx-first]
			okOld := idx <= pre.last() && entEq(e, pre.ents[idx-1])
			okNew := idx <= post.last() && entEq(e, post.ents[idx-1])
			if !okOld && !okNew {
				kind := "crash_mixed_entry"
				hdrEq := func(a, b raftpb.Entry) bool { return a.Index == b.Index && a.Term == b.Term && a.Type == b.Type }
				if len(e.Data) == 0 && ((idx <= pre.last() && hdrEq(e, pre.ents[idx-1])) || (idx <= post.last() && hdrEq(e, post.ents[idx-1]))) {
					kind = "crash_empty_payload"
				}
				o, n := "<none>", "<none>"
				if idx <= pre.last() {
					o = entStr(pre.ents[idx-1])
				}
				if idx <= post.last() {
					n = entStr(post.ents[idx-1])
				}
				return nil, viol(kind, fmt.Sprintf("%s: recovered entry %s is neither the old %s nor the new %s", how, entStr(e), o, n), at)
			}
		} else if idx <= pre.last() {
			e = pre.ents[idx-1]
		} else {
			e = post.ents[idx-1]
		}
		rec.ents[idx-1] = e
	}
	// an old entry may not follow a new one that replaced it (prefix property of the append)
	seenNewOnly := false
	for idx := common + 1; idx <= last; idx++ {
		e := rec.ents[idx-1]
		isOld := idx <= pre.last() && entEq(e, pre.ents[idx-1])
		isNew := idx <= post.last() && entEq(e, post.ents[idx-1])
		if isNew && !isOld {
			seenNewOnly = true
		}
		if isOld && !isNew && seenNewOnly {
			return nil, viol("crash_old_after_new", fmt.Sprintf("%s: old entry %s survives after a newer entry replaced its predecessor", how, entStr(e)), at)
		}
	}
	hs, _, err := rds.InitialState()
	if err != nil || (hs != pre.hs && hs != post.hs) {
		return nil, viol("crash_hard_state", fmt.Sprintf("%s: recovered hard state %+v (err %v) is neither old %+v nor new %+v", how, hs, err, pre.hs, post.hs), at)
	}
	rec.hs = hs
	sn, err := rds.Snapshot()
	snapEq := func(a, b raftpb.Snapshot) bool {
		return a.Metadata.Index == b.Metadata.Index && a.Metadata.Term == b.Metadata.Term && sameData(a.Data, b.Data)
	}
	if err != nil || (!snapEq(sn, pre.snap) && !snapEq(sn, post.snap)) {
		return nil, viol("crash_snapshot", fmt.Sprintf("%s: recovered snapshot meta=%+v len=%d err=%v is neither old %+v nor new %+v", how, sn.Metadata, len(sn.Data), err, pre.snap.Metadata, post.snap.Metadata), at)
	}
	rec.snap = sn
	return rec, nil
}

func msDur(ms int) time.Duration { return time.Duration(ms) * time.Millisecond }

func (run *rRun) checkComplete() error {
	if run.disk == nil {
		return nil
	}
	// caches may hold dirty data only until Close; compare after a sync
	return run.disk.CheckComplete(filepath.Join(run.env.Scratch, "complete-check"), run.incInit[len(run.incInit)-1], nil)
}

// crashEnum: for every incarnation, crash at journal boundaries (all of them when
// few, a seeded sample otherwise; page-granular torn variants of large writes),
// reopen the image on a fresh path and judge the recovered state.
func (run *rRun) crashEnum() *core.Violation {
	out := run.out
	c := run.c
	budget := c.MaxCrash
	type pt struct{ inc, k, torn int }
	var pts []pt
	for inc, d := range run.incDisk {
		j := d.Journal()
		for k := 0; k <= len(j); k++ {
			pts = append(pts, pt{inc, k, -1})
			if k < len(j) && j[k].Kind == simfs.KWrite && len(j[k].Data) > 4096 {
				// SIGKILL tears a write only between pages
				e := j[k]
				firstPage := int(4096 - e.Off%4096)
				n := 0
				for t := firstPage; t < len(e.Data) && n < 3; t += 4096 * (1 + run.r.Intn(1+len(e.Data)/4096/3)) {
					pts = append(pts, pt{inc, k, t})
					n++
				}
			}
		}
	}
	if c.OnlyCrash >= 0 {
		pts = []pt{{c.OnlyInc, c.OnlyCrash, c.OnlyTorn}}
	} else if len(pts) > budget {
		sel := run.r.Sample(len(pts), budget)
		np := make([]pt, 0, budget)
		for _, s := range sel {
			np = append(np, pts[s])
		}
		pts = np
	} else {
		out.Probes["all crash points of the history enumerated"]++
	}
	imagers := map[int]*simfs.Imager{}
	for n, p := range pts {
		d := run.incDisk[p.inc]
		j := d.Journal()
		if p.k > len(j) {
			continue
		}
		im := imagers[p.inc]
		if im == nil {
			base := filepath.Join(run.env.Scratch, fmt.Sprintf("base%d", p.inc))
			if err := simfs.CopyTree(run.incInit[p.inc], base); err != nil {
				panic(core.InfraPanic("copy: " + err.Error()))
			}
			im = simfs.NewImager(j, base)
			imagers[p.inc] = im
		}
		dst := filepath.Join(run.env.Scratch, fmt.Sprintf("crash-%d-%d-%d", p.inc, p.k, n))
		if err := im.Snapshot(p.k, p.torn, dst); err != nil {
			panic(core.InfraPanic("image: " + err.Error()))
		}
		// which operation was in flight?
		opi := -1
		if p.k < len(j) {
			opi = j[p.k].Tag
		} else if len(j) > 0 {
			opi = j[len(j)-1].Tag + 1
		}
		// state before / after the in-flight op
		var pre, post *rState
		if opi < 0 {
			opi = run.incBase[p.inc] - 1
		}
		if opi+1 >= len(run.states) {
			pre = run.states[len(run.states)-1]
			post = pre
		} else {
			pre, post = run.states[opi], run.states[opi+1]
		}
		// entries written during Init of this incarnation (before its first op) carry
		// the tag of the previous op; both states are then equal to states[incBase]
		if opi < run.incBase[p.inc]-1 {
			pre = run.states[run.incBase[p.inc]-1]
			post = pre
		}
		cd := run.fs.NewDisk(dst)
		rds, err := Init(dst, msDur(c.SyncMs))
		out.Stats["crash_states"]++
		if p.torn >= 0 {
			out.Faults["torn_write"]++
		} else {
			out.Faults["crash"]++
		}
		desc := "end"
		if p.k < len(j) {
			desc = j[p.k].String()
		}
		at := map[string]string{"phase": "crash", "backend": fmt.Sprint(c.Backend)}
		if p.k < len(j) {
			at["inflight"] = j[p.k].Desc()
			at["inflight_area"] = area(j[p.k])
		}
		if p.k > 0 && p.k <= len(j) {
			at["prev"] = j[p.k-1].Desc()
			at["prev_area"] = area(j[p.k-1])
		}
		if opi >= 0 && opi < len(c.Ops) {
			at["op"] = c.Ops[opi].Kind
			// conflict: the in-flight Save starts at an index the log already holds (it replaces entries in place)
			if c.Ops[opi].Kind == "save" && len(c.Ops[opi].Terms) > 0 {
				at["conflict"] = fmt.Sprint(c.Ops[opi].First <= uint64(len(pre.ents)))
			}
		}
		fail := func(v *core.Violation) *core.Violation {
			v.Attrs = mergeAttrs(v.Attrs, at)
			v.Attrs["torn"] = fmt.Sprint(p.torn >= 0)
			v.Detail = fmt.Sprintf("crash in incarnation %d before journal entry %d (%s), torn=%d, in-flight op %d: %s", p.inc, p.k, desc, p.torn, opi, v.Detail)
			run.c.OnlyInc, run.c.OnlyCrash, run.c.OnlyTorn = p.inc, p.k, p.torn
			return v
		}
		if err != nil {
			cd.Kill()
			run.fs.Forget(cd)
			_ = os.RemoveAll(dst)
			v := fail(viol("crash_open_failed", "Init on the crash image failed: "+err.Error(), nil))
			if run.env.KnownID(v, out) != "" && c.OnlyCrash < 0 {
				continue
			}
			return v
		}
		sub := &rRun{c: c, env: run.env, out: out, fs: run.fs, disk: cd, rds: rds, r: run.r, first: 0}
		// the compaction point may legally sit anywhere up to the highest request
		rec, v := sub.checkRecovered(pre, post, "crash")
		if v == nil {
			// continue on the recovered store: append two entries and read everything back
			sub.model = rec
			sub.resyncMS()
			sub.first, _ = rds.FirstIndex()
			sub.delReq = run.delReqMax()
			if rec.last() == 0 {
				rec.anySave = false // FirstIndex/Term of a log holding no entry are not pinned by the statement
			}
			if rec.anySave {
				v = sub.checkAll(opi, "crash")
			}
			if v == nil {
				nf := rec.last() + 1
				t := uint64(1)
				if rec.last() > 0 {
					t = rec.ents[rec.last()-1].Term + 1
				}
				if rec.snap.Metadata.Index < nf {
					ents := []raftpb.Entry{{Index: nf, Term: t, Data: payload(nf, t, 77, 40)}, {Index: nf + 1, Term: t, Data: payload(nf+1, t, 77, 0)}}
					nhs := raftpb.HardState{Term: t, Vote: 1, Commit: rec.hs.Commit}
					if err := rds.Save(&nhs, ents, nil); err != nil {
						v = viol("crash_save_error", "Save after recovery failed: "+err.Error(), nil)
					} else {
						sub.model.apply(ents)
						sub.model.hs = nhs
						_ = sub.ms.Append(ents)
						if sub.first == 0 || !rec.anySave {
							sub.first, _ = rds.FirstIndex()
						}
						v = sub.checkAll(opi, "crash")
						out.Stats["post_recovery_ops"]++
					}
				}
			}
		}
		func() {
			defer func() { _ = recover() }()
			_ = rds.Close()
		}()
		cd.Kill()
		run.fs.Forget(cd)
		_ = os.RemoveAll(dst)
		if v != nil {
			v = fail(v)
			if run.env.KnownID(v, out) != "" && c.OnlyCrash < 0 {
				continue
			}
			return v
		}
	}
	return nil
}

// area names the region of a raftlog file a journal entry touches.
func area(e *simfs.Entry) string {
	if e.Kind != simfs.KWrite {
		return e.Kind.String()
	}
	if filepath.Base(e.Path) == metaName {
		switch {
		case e.Off < hardStateOffset:
			return "meta.ids"
		case e.Off < snapshotIndex:
			return "meta.hardstate"
		case e.Off < snapshotOffset:
			return "meta.snapindex"
		default:
			return "meta.snapshot"
		}
	}
	if e.Off < logFileOffset {
		return "entry.slots"
	}
	return "entry.data"
}

func (run *rRun) delReqMax() uint64 {
	m := run.delReq
	for _, s := range run.states {
		if s.snap.Metadata.Index > m {
			m = s.snap.Metadata.Index
		}
	}
	return m
}

func TestVerifWorldR(t *testing.T) {
	core.RunWorker[RCase](worldR{})
}
