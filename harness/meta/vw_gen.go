package meta

// World M — case generator.  A light shadow model biases the draw towards commands that
// are valid at that point of the log; invalid ones (unknown names, duplicates, deletes
// of absent objects, stale identifiers) are drawn on purpose with lower weight.

import (
	"fmt"

	"github.com/openGemini/openGemini/verifsim/core"
)

const (
	vwHour = int64(3600) * 1000000000
	vwBase = int64(1609459200) * 1000000000 // 2021-01-01T00:00:00Z
	vwMinT = int64(-9223372036854775806)    // models.MinNanoTime
	vwMaxT = int64(9223372036854775806)     // models.MaxNanoTime
)

type vwShRP struct {
	name  string
	sgDur int64
	typ   int64 // preferred shard key type of the policy: 1 hash, 2 range
	msts  []string
	nsg   int
	subs  []string
}

type vwShDB struct {
	name string
	repN int64
	rps  []*vwShRP
	cqs  []string
}

type vwShadow struct {
	r       *core.Rand
	dbs     []*vwShDB
	nodes   int
	sql     int
	metas   int
	users   []string
	streams []string
	events  []string
	ha      int
}

var vwDBNames = []string{"db0", "db1", "db2"}
var vwRPNames = []string{"autogen", "rp0", "rp1", "rp2"}
var vwMstNames = []string{"m0", "m1", "m2", "m3"}
var vwUserNames = []string{"u0", "u1", "u2"}

func (s *vwShadow) db(name string) *vwShDB {
	for _, d := range s.dbs {
		if d.name == name {
			return d
		}
	}
	return nil
}

func (d *vwShDB) rp(name string) *vwShRP {
	for _, r := range d.rps {
		if r.name == name {
			return r
		}
	}
	return nil
}

// pickDB returns a database name: an existing one mostly, sometimes unknown / empty.
func (s *vwShadow) pickDB() string {
	r := s.r
	if len(s.dbs) > 0 && !r.Bool(0.08) {
		return core.Pick(r, s.dbs).name
	}
	switch r.Intn(5) {
	case 0:
		return "nodb"
	case 1:
		return ""
	}
	return core.Pick(r, vwDBNames)
}

func (s *vwShadow) pickRP(db string) string {
	r := s.r
	if d := s.db(db); d != nil && len(d.rps) > 0 && !r.Bool(0.08) {
		return core.Pick(r, d.rps).name
	}
	switch r.Intn(6) {
	case 0:
		return "norp"
	case 1:
		return "" // "" means the default policy
	}
	return core.Pick(r, vwRPNames)
}

func (s *vwShadow) pickMst(db, rp string) string {
	r := s.r
	if d := s.db(db); d != nil {
		if p := d.rp(rp); p != nil && len(p.msts) > 0 && !r.Bool(0.1) {
			return core.Pick(r, p.msts)
		}
	}
	if r.Intn(8) == 0 {
		return "nomst"
	}
	return core.Pick(r, vwMstNames)
}

func (s *vwShadow) sgDuration() int64 {
	r := s.r
	switch r.Weighted([]int{30, 12, 6, 6, 14, 6, 6, 3, 3, 2}) {
	case 0:
		return vwHour
	case 1:
		return 2 * vwHour
	case 2:
		return 3 * vwHour
	case 3:
		return 12 * vwHour
	case 4:
		return 24 * vwHour
	case 5:
		return 168 * vwHour
	case 6:
		return 0 // default from the policy duration
	case 7:
		return vwHour / 2 // below the minimum: normalised
	case 8:
		return 90 * vwHour / 60 // 1.5h
	}
	return 5 * vwHour
}

// rpSpec draws [dur, sgdur, hot, warm, indexcold, indexgroupdur, shardmerge, replicaN].
func (s *vwShadow) rpSpec(repN int64) []int64 {
	r := s.r
	dur := int64(0)
	switch r.Weighted([]int{12, 4, 2, 1, 1}) {
	case 1:
		dur = 720 * vwHour
	case 2:
		dur = 48 * vwHour
	case 3:
		dur = vwHour
	case 4:
		dur = vwHour / 2
	}
	sg := s.sgDuration()
	hot, warm, icold, igd, merge := int64(0), int64(0), int64(0), int64(0), int64(0)
	if r.Intn(8) == 0 {
		hot = core.Pick(r, []int64{vwHour, 24 * vwHour, 2 * vwHour, vwHour / 2})
	}
	if r.Intn(8) == 0 {
		warm = core.Pick(r, []int64{24 * vwHour, 48 * vwHour, 3 * vwHour})
	}
	if r.Intn(10) == 0 {
		icold = core.Pick(r, []int64{24 * vwHour, 168 * vwHour, vwHour})
	}
	if r.Intn(5) == 0 {
		igd = core.Pick(r, []int64{24 * vwHour, 168 * vwHour, 2 * vwHour, 5 * vwHour})
	}
	if r.Intn(12) == 0 {
		merge = core.Pick(r, []int64{24 * vwHour, 2 * vwHour, 168 * vwHour})
	}
	rn := repN
	if r.Intn(12) == 0 {
		rn = int64(r.Range(0, 3))
	}
	return []int64{dur, sg, hot, warm, icold, igd, merge, rn}
}

func (s *vwShadow) timestamp(p *vwShRP) int64 {
	r := s.r
	if r.Intn(14) == 0 {
		return core.Pick(r, []int64{0, 1, -1, vwMinT, vwMinT + 1, vwMaxT, vwMaxT - 1, vwMaxT - vwHour, vwBase + 200*365*24*vwHour, -vwBase})
	}
	unit := vwHour
	if p != nil && p.sgDur >= 24*vwHour && r.Bool(0.5) {
		unit = 24 * vwHour
	}
	t := vwBase + int64(r.Range(-6, 40))*unit
	switch r.Intn(6) {
	case 0:
		t++
	case 1:
		t--
	case 2:
		t += unit / 2
	}
	return t
}

func vwAddr(kind string, i int) string { return fmt.Sprintf("127.0.0.%d:%s", i+1, kind) }

func (worldM) Gen(r *core.Rand, env *core.Env) VWCase {
	c := VWCase{}
	k := &c.Knobs
	k.HaPolicy = r.Weighted([]int{5, 2, 3})
	k.PtPerNode = r.Weighted([]int{0, 5, 3, 1})
	k.NumOfShards = r.Weighted([]int{6, 2, 1})
	k.IncSync = r.Bool(0.5)
	k.SchemaClean = r.Bool(0.6)
	k.ExpandShards = r.Bool(0.3)
	k.RetAutoCreate = r.Bool(0.8)
	plan := func() []int {
		if r.Bool(0.4) {
			return []int{1}
		}
		n := r.Range(1, 6)
		p := make([]int, n)
		for i := range p {
			p[i] = r.Weighted([]int{1, 6, 2, 1, 1, 1}) // 0 = ApplyBatch of one entry
		}
		return p
	}
	c.BatchB, c.BatchC = plan(), plan()
	nops := r.Range(25, 110)
	if env != nil && env.Tier == "thorough" {
		nops = r.Range(30, 220)
	}
	s := &vwShadow{r: r, ha: k.HaPolicy}
	add := func(op VWOp) { c.Ops = append(c.Ops, op) }
	// usual bootstrap: meta node(s), data nodes, sometimes a sql node
	if r.Bool(0.85) {
		if r.Bool(0.6) {
			add(s.gen("create_meta_node"))
		}
		for i, n := 0, r.Range(1, 3); i < n; i++ {
			add(s.gen("create_node"))
		}
		if r.Bool(0.4) {
			add(s.gen("create_sql_node"))
		}
		add(s.gen("create_db"))
		add(s.gen("create_mst"))
	}
	kinds := []string{
		"create_db", "mark_db_delete", "drop_db", "create_ptview",
		"create_rp", "update_rp", "set_default_rp", "mark_rp_delete", "drop_rp",
		"create_mst", "alter_shard_key", "update_schema", "mark_mst_delete", "drop_mst", "update_mst",
		"create_sg", "delete_sg", "prune_sg", "prune", "delete_ig", "shard_tier", "index_tier", "shard_ds",
		"create_node", "create_sql_node", "create_meta_node", "set_meta_node", "delete_meta_node", "delete_data_node",
		"node_status", "sql_node_status", "meta_node_status", "remove_node", "segregate", "verify_node", "node_tmp_index",
		"update_pt_info", "update_pt_ver", "create_event", "update_event", "remove_event",
		"create_user", "drop_user", "update_user", "set_priv", "set_admin_priv",
		"create_sub", "drop_sub", "create_stream", "drop_stream",
		"create_cq", "drop_cq", "cq_report", "notify_cq_lease",
		"create_ds", "drop_ds", "update_replication", "mark_takeover", "mark_balancer", "expand_groups",
		"register_qid", "insert_files", "resharding", "replace_merge_shards",
		"@snapB", "@snapC", "@crashC",
	}
	weights := []int{
		50, 8, 8, 4,
		45, 60, 15, 8, 8,
		80, 18, 55, 15, 10, 8,
		170, 35, 25, 15, 8, 15, 15, 8,
		22, 8, 8, 2, 4, 2,
		35, 8, 8, 5, 8, 2, 8,
		25, 8, 18, 12, 8,
		16, 8, 8, 16, 4,
		18, 14, 12, 8,
		16, 8, 8, 4,
		12, 8, 8, 4, 4, 6,
		8, 2, 6, 10,
		45, 18, 18,
	}
	if len(kinds) != len(weights) {
		panic(core.InfraPanic("generator table mismatch"))
	}
	// a case may concentrate on a few areas (focus) so that interactions get deep
	focus := r.Intn(4)
	for len(c.Ops) < nops {
		i := r.Weighted(weights)
		kd := kinds[i]
		if focus == 1 && r.Bool(0.5) {
			kd = core.Pick(r, []string{"create_sg", "update_rp", "delete_sg", "prune_sg", "create_mst", "create_rp", "create_sg"})
		}
		if focus == 2 && r.Bool(0.4) {
			kd = core.Pick(r, []string{"create_mst", "update_schema", "alter_shard_key", "mark_mst_delete", "drop_mst", "create_sg", "create_stream"})
		}
		add(s.gen(kd))
	}
	return c
}

// gen draws one op of the given kind and updates the shadow.
func (s *vwShadow) gen(kind string) VWOp {
	r := s.r
	op := VWOp{K: kind}
	switch kind {
	case "@snapB", "@snapC":
		d := int64(0)
		if r.Bool(0.35) {
			d = int64(r.Range(1, 6))
		}
		op.N = []int64{d}
	case "@crashC":
	case "create_db":
		op.DB = core.Pick(r, vwDBNames)
		if len(s.dbs) > 0 && r.Bool(0.1) {
			op.DB = core.Pick(r, s.dbs).name // duplicate
		}
		if r.Intn(40) == 0 {
			op.DB = ""
		}
		repN := int64(1)
		if s.ha == 2 && r.Bool(0.5) || r.Intn(15) == 0 {
			repN = int64(r.Range(0, 3))
		}
		withRP := r.Bool(0.45)
		op.RP = core.Pick(r, vwRPNames)
		spec := s.rpSpec(repN)
		op.N = append(spec, repN, 0)
		if r.Intn(6) == 0 {
			op.N[9] = int64(r.Range(1, 2))
			op.S = []string{"tag0"}
		}
		op.B = []bool{withRP, r.Intn(8) == 0, r.Intn(10) == 0}
		if s.db(op.DB) == nil && op.DB != "" && s.nodes > 0 {
			d := &vwShDB{name: op.DB, repN: repN}
			if repN == 0 {
				d.repN = 1
			}
			if withRP {
				d.rps = append(d.rps, &vwShRP{name: op.RP, sgDur: spec[1], typ: 1})
			} else {
				d.rps = append(d.rps, &vwShRP{name: "autogen", sgDur: 168 * vwHour, typ: 1})
			}
			if r.Bool(0.15) {
				d.rps[0].typ = 2
			}
			s.dbs = append(s.dbs, d)
		}
	case "create_ptview":
		op.DB = s.pickDB()
		op.N = []int64{int64(r.Range(0, 3))}
	case "mark_db_delete":
		op.DB = s.pickDB()
	case "drop_db":
		op.DB = s.pickDB()
		if d := s.db(op.DB); d != nil {
			for i := range s.dbs {
				if s.dbs[i] == d {
					s.dbs = append(s.dbs[:i:i], s.dbs[i+1:]...)
					break
				}
			}
		}
	case "create_rp":
		op.DB = s.pickDB()
		op.RP = core.Pick(r, vwRPNames)
		repN := int64(1)
		d := s.db(op.DB)
		if d != nil {
			repN = d.repN
		}
		op.N = s.rpSpec(repN)
		op.B = []bool{r.Bool(0.3)}
		if d != nil && d.rp(op.RP) == nil {
			typ := int64(1)
			if r.Bool(0.15) {
				typ = 2
			}
			d.rps = append(d.rps, &vwShRP{name: op.RP, sgDur: op.N[1], typ: typ})
		}
	case "mark_rp_delete", "drop_rp", "set_default_rp":
		op.DB = s.pickDB()
		op.RP = s.pickRP(op.DB)
		if kind == "drop_rp" {
			if d := s.db(op.DB); d != nil {
				for i := range d.rps {
					if d.rps[i].name == op.RP {
						d.rps = append(d.rps[:i:i], d.rps[i+1:]...)
						break
					}
				}
			}
		}
	case "update_rp":
		op.DB = s.pickDB()
		op.RP = s.pickRP(op.DB)
		mask := int64(0)
		if r.Bool(0.7) {
			mask |= 2 // shard group duration
		}
		for b := int64(1); b <= 64; b <<= 1 {
			if b != 2 && r.Intn(7) == 0 {
				mask |= b
			}
		}
		spec := s.rpSpec(1)
		op.N = []int64{mask, spec[0], spec[1], spec[2], spec[3], spec[5], spec[4], spec[7]}
		if op.N[2] == 0 {
			op.N[2] = vwHour * int64(r.Range(1, 30))
		}
		op.B = []bool{r.Intn(6) == 0}
		if r.Intn(9) == 0 {
			op.Nm = core.Pick(r, vwRPNames) // rename
		}
		if d := s.db(op.DB); d != nil {
			if p := d.rp(op.RP); p != nil {
				if mask&2 != 0 {
					p.sgDur = op.N[2]
				}
				if op.Nm != "" && d.rp(op.Nm) == nil {
					p.name = op.Nm
				}
			}
		}
	case "create_mst":
		op.DB = s.pickDB()
		op.RP = s.pickRP(op.DB)
		op.Nm = core.Pick(r, vwMstNames)
		typ := int64(1)
		var p *vwShRP
		if d := s.db(op.DB); d != nil {
			p = d.rp(op.RP)
		}
		if p != nil {
			typ = p.typ
		}
		switch r.Intn(40) {
		case 0:
			typ = 3 - typ // the other sharding type
		case 1:
			typ = 0 // no shard key
		case 2:
			typ = 3 // bogus type
		}
		keys := [][]string{{"tag0"}, {"tag0", "tag1"}, {}, {"tag1"}}[r.Weighted([]int{6, 2, 2, 1})]
		init := core.Pick(r, []int64{0, 0, 0, 0, -1, 1, 2, 100})
		engine := int64(0)
		if r.Intn(8) == 0 {
			engine = 1
		}
		ttl, col, ir := int64(0), int64(0), int64(0)
		if r.Intn(8) == 0 {
			ttl = core.Pick(r, []int64{1, 7, 24 * vwHour})
		}
		if engine == 1 && r.Bool(0.6) {
			col = 1
		}
		if r.Intn(8) == 0 {
			ir = 1
		}
		op.N = []int64{typ, init, engine, ttl, col, ir}
		op.S = append(append([]string(nil), keys...), "|")
		for i, n := 0, r.Weighted([]int{5, 2, 2, 1}); i < n; i++ {
			f, t := s.field()
			op.S = append(op.S, f)
			op.N = append(op.N, t)
		}
		op.B = []bool{r.Bool(0.3)}
		if p != nil {
			found := false
			for _, m := range p.msts {
				found = found || m == op.Nm
			}
			if !found {
				p.msts = append(p.msts, op.Nm)
			}
		}
	case "alter_shard_key":
		op.DB = s.pickDB()
		op.RP = s.pickRP(op.DB)
		op.Nm = s.pickMst(op.DB, op.RP)
		typ := int64(1)
		if d := s.db(op.DB); d != nil {
			if p := d.rp(op.RP); p != nil {
				typ = p.typ
			}
		}
		if r.Intn(10) == 0 {
			typ = int64(r.Range(0, 3))
		}
		op.N = []int64{typ}
		op.S = [][]string{{"tag0"}, {"tag0", "tag1"}, {"tag1"}, {"tag2"}, {}}[r.Intn(5)]
	case "update_schema":
		op.DB = s.pickDB()
		op.RP = s.pickRP(op.DB)
		op.Nm = s.pickMst(op.DB, op.RP)
		for i, n := 0, r.Range(1, 3); i < n; i++ {
			f, t := s.field()
			et := int64(0)
			if r.Bool(0.4) {
				et = int64(r.Range(1, 400000))
			}
			op.S = append(op.S, f)
			op.N = append(op.N, t, et)
		}
	case "mark_mst_delete", "update_mst":
		op.DB = s.pickDB()
		op.RP = s.pickRP(op.DB)
		op.Nm = s.pickMst(op.DB, op.RP)
		if kind == "update_mst" {
			op.N = []int64{core.Pick(r, []int64{0, 1, 7, 30, 24 * vwHour, 48 * vwHour})}
		}
	case "drop_mst":
		op.DB = s.pickDB()
		op.RP = s.pickRP(op.DB)
		op.Nm = s.pickMst(op.DB, op.RP)
		op.N = []int64{int64(r.Intn(3))}
		op.B = []bool{r.Intn(6) == 0}
	case "create_sg":
		op.DB = s.pickDB()
		op.RP = s.pickRP(op.DB)
		var p *vwShRP
		if d := s.db(op.DB); d != nil {
			p = d.rp(op.RP)
		}
		engine := int64(0)
		if r.Intn(7) == 0 {
			engine = 1
		}
		op.N = []int64{s.timestamp(p), int64(r.Weighted([]int{1, 6, 2, 1})), engine, int64(r.Weighted([]int{8, 1}))}
		if p != nil {
			p.nsg++
		}
	case "delete_sg":
		op.DB = s.pickDB()
		op.RP = s.pickRP(op.DB)
		op.Sel = s.sel()
		at, typ := int64(0), int64(0)
		if r.Intn(4) == 0 {
			at = vwBase + int64(r.Intn(1000))
		}
		if r.Intn(5) == 0 {
			typ = 1 // cancel delete
		}
		op.N = []int64{at, typ}
	case "prune_sg":
		op.DB = s.pickDB()
		op.RP = s.pickRP(op.DB)
		op.Sel = s.sel()
		op.B = []bool{r.Intn(5) == 0} // also groups that are not deleted
	case "prune":
		op.Sel = s.sel()
		op.B = []bool{r.Bool(0.5), r.Bool(0.6)}
	case "delete_ig":
		op.DB = s.pickDB()
		op.RP = s.pickRP(op.DB)
		op.Sel = s.sel()
	case "shard_tier", "index_tier":
		op.DB = s.pickDB()
		op.RP = s.pickRP(op.DB)
		op.Sel = s.sel()
		op.N = []int64{int64(r.Range(0, 5))}
	case "shard_ds":
		op.DB = s.pickDB()
		op.RP = s.pickRP(op.DB)
		op.Sel = s.sel()
		op.N = []int64{int64(r.Range(0, 3)), int64(r.Range(0, 3))}
		op.B = []bool{r.Bool(0.5)}
	case "create_node":
		i := r.Intn(4)
		if s.nodes < 4 && r.Bool(0.6) {
			i = s.nodes
		}
		role := core.Pick(r, []string{"", "", "", "writer", "reader"})
		op.S = []string{vwAddr("8400", i), vwAddr("8401", i), role, core.Pick(r, []string{"", "az1", "az2"})}
		if i >= s.nodes {
			s.nodes = i + 1
		}
	case "create_sql_node":
		i := r.Intn(3)
		op.S = []string{vwAddr("8086", i), vwAddr("8011", i)}
		s.sql++
	case "create_meta_node", "set_meta_node":
		i := r.Intn(3)
		tcp := vwAddr("8088", i)
		if r.Intn(6) == 0 {
			tcp = vwAddr("8401", i) // same TCP address as a data node: shares its id
		}
		op.S = []string{vwAddr("8091", i), vwAddr("8092", i), tcp}
		op.N = []int64{int64(r.Range(1, 1000))}
		s.metas++
	case "delete_meta_node", "delete_data_node", "remove_node", "verify_node":
		op.Sel = s.sel()
	case "node_status", "sql_node_status", "meta_node_status":
		op.Sel = s.sel()
		op.N = []int64{int64(r.Weighted([]int{1, 6, 1, 1, 3})), int64(r.Range(0, 12))}
		op.S = []string{core.Pick(r, []string{"8010", "8011", ""})}
	case "segregate":
		op.Sel = s.sel()
		for i, n := 0, r.Range(1, 2); i < n; i++ {
			op.N = append(op.N, int64(r.Range(0, 2)))
		}
	case "node_tmp_index":
		op.Sel = s.sel()
		op.N = []int64{int64(r.Range(0, 2)), int64(r.Range(0, 300))}
	case "update_pt_info":
		op.DB = s.pickDB()
		op.N = []int64{int64(r.Range(0, 5)), int64(r.Weighted([]int{5, 1, 1, 3, 1, 1, 1})), 0, int64(r.Range(0, 4)), int64(r.Range(0, 6))}
		if r.Intn(3) == 0 {
			op.N[2] = int64(r.Range(1, 4))
		}
		op.B = []bool{r.Bool(0.8)}
	case "update_pt_ver":
		op.DB = s.pickDB()
		op.N = []int64{int64(r.Range(0, 6))}
	case "create_event", "update_event":
		op.DB = s.pickDB()
		cur := int64(r.Range(0, 5))
		pre := cur
		if r.Bool(0.6) {
			pre = int64(r.Range(0, 5))
		}
		op.N = []int64{int64(r.Range(0, 3)), int64(r.Range(0, 2)), cur, pre, int64(r.Range(1, 4)), int64(r.Range(1, 4)), int64(r.Range(0, 9)), 0}
		if r.Intn(5) == 0 {
			op.N[7] = int64(r.Range(-1, 2))
		}
		op.B = []bool{r.Bool(0.5)}
	case "remove_event":
		op.DB = s.pickDB()
		op.N = []int64{int64(r.Range(0, 3))}
	case "create_user":
		op.Nm = core.Pick(r, vwUserNames)
		if r.Intn(30) == 0 {
			op.Nm = ""
		}
		op.S = []string{fmt.Sprintf("h%d", r.Intn(3))}
		op.B = []bool{r.Bool(0.3), r.Bool(0.2)}
		s.users = append(s.users, op.Nm)
	case "drop_user", "update_user", "set_admin_priv":
		op.Nm = core.Pick(r, append([]string{"nouser"}, vwUserNames...))
		op.S = []string{fmt.Sprintf("h%d", r.Intn(3))}
		op.B = []bool{r.Bool(0.5)}
	case "set_priv":
		op.Nm = core.Pick(r, append([]string{"nouser"}, vwUserNames...))
		op.DB = s.pickDB()
		op.N = []int64{int64(r.Range(0, 3))}
	case "create_sub":
		op.DB = s.pickDB()
		op.RP = s.pickRP(op.DB)
		op.Nm = fmt.Sprintf("sub%d", r.Intn(3))
		op.S = []string{core.Pick(r, []string{"ALL", "ANY"}), "http://h1:9000"}
		if r.Bool(0.3) {
			op.S = append(op.S, "http://h2:9000")
		}
	case "drop_sub":
		op.DB = s.pickDB()
		op.RP = s.pickRP(op.DB)
		op.Nm = fmt.Sprintf("sub%d", r.Intn(3))
		switch r.Intn(8) {
		case 0:
			op.Nm = "" // all subscriptions of the database
		case 1:
			op.RP = "" // search the policies
		case 2:
			op.DB, op.RP, op.Nm = "", "", ""
		case 3:
			op.RP = ""
		}
	case "create_stream":
		op.Nm = fmt.Sprintf("s%d", r.Intn(3))
		db := s.pickDB()
		rp := s.pickRP(db)
		op.S = []string{db, rp, s.pickMst(db, rp), db, rp, core.Pick(r, vwMstNames), "", "tag0"}
		if r.Intn(3) == 0 {
			op.S[3] = s.pickDB()
		}
		if r.Intn(4) == 0 {
			op.S = op.S[:7]
		}
		op.N = []int64{core.Pick(r, []int64{60e9, 300e9}), core.Pick(r, []int64{0, 10e9}), int64(r.Range(0, 2))}
		op.B = []bool{r.Intn(5) == 0}
	case "drop_stream":
		op.Nm = fmt.Sprintf("s%d", r.Intn(4))
	case "create_cq":
		op.DB = s.pickDB()
		op.Nm = fmt.Sprintf("cq%d", r.Intn(4))
		op.S = []string{fmt.Sprintf("CREATE CONTINUOUS QUERY %s ON %s BEGIN SELECT max(f0) INTO t%d FROM m0 GROUP BY time(10m) END", op.Nm, op.DB, r.Intn(2))}
		if r.Intn(6) == 0 {
			op.S[0] = "create continuous query " + op.S[0][24:]
		}
	case "drop_cq":
		op.DB = s.pickDB()
		op.Nm = fmt.Sprintf("cq%d", r.Intn(4))
	case "cq_report":
		for i, n := 0, r.Range(1, 3); i < n; i++ {
			op.S = append(op.S, fmt.Sprintf("cq%d", r.Intn(4)))
			op.N = append(op.N, vwBase+int64(r.Intn(100000))*1e9)
		}
	case "notify_cq_lease", "expand_groups", "insert_files":
	case "create_ds":
		op.DB = s.pickDB()
		op.RP = s.pickRP(op.DB)
		np, nc := int64(r.Weighted([]int{1, 5, 3})), int64(r.Weighted([]int{1, 5, 2}))
		op.N = []int64{core.Pick(r, []int64{720 * vwHour, 24 * vwHour, 0}), np, nc}
		for i := int64(0); i < np; i++ {
			op.N = append(op.N, (i+1)*24*vwHour, (i+1)*vwHour/60, vwHour)
		}
	case "drop_ds":
		op.DB = s.pickDB()
		op.RP = s.pickRP(op.DB)
		op.B = []bool{r.Bool(0.4)}
	case "update_replication":
		op.DB = s.pickDB()
		// the master partition id stays inside the smallest possible partition view: a wild
		// id would crash the TransferLeadership goroutine (outside Apply) and with it the worker
		op.N = []int64{int64(r.Weighted([]int{6, 2, 1, 1})), 0}
		for i, n := 0, r.Range(0, 2); i < n; i++ {
			op.N = append(op.N, int64(r.Range(0, 3)))
		}
	case "mark_takeover", "mark_balancer":
		op.B = []bool{r.Bool(0.5)}
	case "register_qid":
		op.S = []string{vwAddr("8086", r.Intn(3))}
	case "resharding":
		op.DB = s.pickDB()
		op.RP = s.pickRP(op.DB)
		op.Sel = s.sel()
		op.N = []int64{s.timestamp(nil)}
		op.S = [][]string{{"m"}, {"g", "p"}, {}}[r.Intn(3)]
	case "replace_merge_shards":
		op.DB = s.pickDB()
		op.RP = s.pickRP(op.DB)
		op.Sel = s.sel()
		op.N = []int64{int64(r.Range(0, 2)), int64(r.Range(1, 3))}
		op.B = []bool{r.Intn(5) == 0}
	default:
		panic(core.InfraPanic("generator: unknown kind " + kind))
	}
	return op
}

// sel draws a selector: mostly "the n-th existing object", sometimes a literal id that is
// unlikely to exist.
func (s *vwShadow) sel() int {
	if s.r.Intn(9) == 0 {
		return -s.r.Range(1, 60)
	}
	return s.r.Intn(64)
}

// field draws a field name with its usual type; sometimes a conflicting type.
func (s *vwShadow) field() (string, int64) {
	r := s.r
	names := []string{"f0", "f1", "f2", "tag0", "tag1", "f3"}
	types := []int64{1, 3, 4, 6, 6, 5}
	i := r.Intn(len(names))
	t := types[i]
	if r.Intn(8) == 0 {
		t = core.Pick(r, []int64{1, 3, 4, 5, 6})
	}
	return names[i], t
}
