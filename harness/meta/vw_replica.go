package meta

// World M — replica wrapper: one real Store/storeFSM over real meta.Data, fed raft.Log
// entries by the harness (the consensus layer is the stub: one agreed log).

import (
	"bytes"
	"fmt"
	"io"
	"os"
	"runtime/debug"
	"strings"

	"github.com/hashicorp/raft"
	"github.com/openGemini/openGemini/lib/config"
	"github.com/openGemini/openGemini/lib/errno"
	"github.com/openGemini/openGemini/lib/logger"
	meta2 "github.com/openGemini/openGemini/lib/util/lifted/influx/meta"
	"github.com/openGemini/openGemini/verifsim/core"
	"go.uber.org/zap"
)

// VWKnobs are the configuration knobs of one case (process-global settings of the
// meta service included; Exec sets them before anything runs).
type VWKnobs struct {
	HaPolicy      int  `json:"ha"`        // 0 write-available-first, 1 shared-storage, 2 replication
	PtPerNode     int  `json:"pt"`        // config.Meta.PtNumPerNode
	NumOfShards   int  `json:"nshards"`   // config.Meta.NumOfShards
	IncSync       bool `json:"incsync"`   // config.Meta.UseIncSyncData (default of the product: true)
	SchemaClean   bool `json:"schemaclean"`
	ExpandShards  bool `json:"expand"`
	RetAutoCreate bool `json:"autorp"`
}

type vwReplica struct {
	name string
	s    *Store
	fsm  *storeFSM
	buf  []*raft.Log // entries delivered but not applied yet (batching)
	pos  uint64      // index of the last applied entry
	plan []int
	pi   int
	want int
	// last canonical dump (for "failed command left the state unchanged")
	last *vwDump
	// id tracking for C16
	prevIDs map[string]map[uint64]bool
	probKeys map[string]bool
	replayFrom uint64
	iso        []string // containers of a restored image that carry effects of later entries
	isoText    string
	// incarnation counter (C)
	inc int
}

func vwNewReplica(name string, k VWKnobs, plan []int) *vwReplica {
	c := config.NewMeta()
	c.PtNumPerNode = uint32(k.PtPerNode)
	c.NumOfShards = int32(k.NumOfShards)
	c.UseIncSyncData = k.IncSync
	c.SchemaCleanEn = k.SchemaClean
	c.ExpandShardsEnable = k.ExpandShards
	c.RetentionAutoCreate = k.RetAutoCreate
	s := NewStore(c, "", "", "")
	s.Logger = logger.NewLogger(errno.ModuleUnknown).SetZapLogger(zap.NewNop())
	s.NetStore = NewMockNetStorage()
	if len(plan) == 0 {
		plan = []int{1}
	}
	return &vwReplica{name: name, s: s, fsm: (*storeFSM)(s), pos: 1, plan: plan, prevIDs: map[string]map[uint64]bool{}}
}

func (r *vwReplica) data() *meta2.Data { return r.s.data }

// nextRaw draws the next batch size of the replica's plan (0 = ApplyBatch of one entry).
func (r *vwReplica) nextRaw() int {
	n := r.plan[r.pi%len(r.plan)]
	r.pi++
	if n < 0 {
		n = 1
	}
	return n
}

func vwNopZap() *zap.Logger { return zap.NewNop() }

// vwResult is the canonical form of one Apply return value.
func vwResult(v interface{}) string {
	if v == nil {
		return "<nil>"
	}
	if e, ok := v.(error); ok {
		if e == nil {
			return "<nil>"
		}
		return "error: " + e.Error()
	}
	return fmt.Sprintf("value: %v", v)
}

func vwIsFailure(res string) bool { return res != "<nil>" }

// vwPanicSite extracts the innermost openGemini frame (function name) of a panic stack.
func vwPanicSite(stack string) string {
	lines := strings.Split(stack, "\n")
	seenPanic := false
	for _, l := range lines {
		if strings.HasPrefix(l, "panic(") || strings.HasPrefix(l, "runtime.panic") || strings.HasPrefix(l, "runtime.goPanic") || strings.HasPrefix(l, "runtime.sigpanic") {
			seenPanic = true
			continue
		}
		if !seenPanic || strings.HasPrefix(l, "\t") {
			continue
		}
		if strings.Contains(l, "openGemini/openGemini/") && !strings.Contains(l, "vwReplica") && !strings.Contains(l, "verifsim") {
			f := l
			if i := strings.LastIndex(f, "("); i > 0 {
				f = f[:i]
			}
			if i := strings.LastIndex(f, "/"); i >= 0 {
				f = f[i+1:]
			}
			return f
		}
	}
	return "unknown"
}

// applyOne applies one entry through Apply (panics are caught and become a result).
func (r *vwReplica) applyOne(l *raft.Log) (res string, site string) {
	defer func() {
		if p := recover(); p != nil {
			if ip, ok := p.(core.InfraPanic); ok {
				panic(ip)
			}
			st := string(debug.Stack())
			site = vwPanicSite(st)
			if os.Getenv("VW_DEBUG") != "" {
				fmt.Fprintf(os.Stderr, "VW_DEBUG panic in Apply on %s: %v\n%s\n", r.name, p, st)
			}
			msg := fmt.Sprint(p)
			if len(msg) > 160 {
				msg = msg[:160]
			}
			res = "panic: " + msg
			// Apply sets Term/Index after executeCmd; a crashed node would not have done so.
		}
		r.pos = l.Index
	}()
	if os.Getenv("VW_DEBUG") != "" {
		fmt.Fprintf(os.Stderr, "VW_DEBUG %s Apply idx=%d\n", r.name, l.Index)
	}
	return vwResult(r.fsm.Apply(l)), ""
}

// applyBatch applies several entries through ApplyBatch.
func (r *vwReplica) applyBatch(ls []*raft.Log) (res []string, site string, panicked bool) {
	defer func() {
		if p := recover(); p != nil {
			if ip, ok := p.(core.InfraPanic); ok {
				panic(ip)
			}
			site = vwPanicSite(string(debug.Stack()))
			msg := fmt.Sprint(p)
			if len(msg) > 160 {
				msg = msg[:160]
			}
			res = []string{"panic: " + msg}
			panicked = true
		}
		r.pos = ls[len(ls)-1].Index
	}()
	if os.Getenv("VW_DEBUG") != "" {
		fmt.Fprintf(os.Stderr, "VW_DEBUG %s ApplyBatch idx=%d..%d\n", r.name, ls[0].Index, ls[len(ls)-1].Index)
	}
	out := r.fsm.ApplyBatch(ls)
	res = make([]string, len(out))
	for i := range out {
		res[i] = vwResult(out[i])
	}
	return res, "", false
}

// ---- snapshot sink (in-memory) -------------------------------------------------------

type vwSink struct {
	bytes.Buffer
	closed, cancelled bool
}

func (s *vwSink) Close() error  { s.closed = true; return nil }
func (s *vwSink) ID() string    { return "vw-mem" }
func (s *vwSink) Cancel() error { s.cancelled = true; return nil }

func (r *vwReplica) snapshot() raft.FSMSnapshot {
	sn, err := r.fsm.Snapshot()
	if err != nil {
		panic(core.InfraPanic("Snapshot() failed: " + err.Error()))
	}
	return sn
}

// persist runs Persist into the in-memory sink; a panic inside Persist is returned.
func vwPersist(sn raft.FSMSnapshot) (b []byte, perr string, site string) {
	defer func() {
		if p := recover(); p != nil {
			site = vwPanicSite(string(debug.Stack()))
			perr = "panic: " + fmt.Sprint(p)
		}
	}()
	sink := &vwSink{}
	if err := sn.Persist(sink); err != nil {
		return nil, "error: " + err.Error(), ""
	}
	sn.Release()
	return append([]byte(nil), sink.Bytes()...), "", ""
}

func (r *vwReplica) restore(b []byte) (rerr string, site string) {
	defer func() {
		if p := recover(); p != nil {
			site = vwPanicSite(string(debug.Stack()))
			rerr = "panic: " + fmt.Sprint(p)
		}
	}()
	if err := r.fsm.Restore(io.NopCloser(bytes.NewReader(b))); err != nil {
		return "error: " + err.Error(), ""
	}
	return "", ""
}

