package meta

// World M — the meta-service catalogue replicas (properties C15 and C16).
//
// Three real storeFSM instances over real meta.Data are fed ONE agreed command log
// (hashicorp/raft, the consensus layer, is the stub: "one agreed log" is the contract it
// gives an FSM; its snapshot store is an in-memory sink).
//   A  applies every entry with Apply, is never restored: the reference.
//   B  applies in batches (Apply / ApplyBatch) and is snapshotted + restored
//      (Snapshot -> Persist -> bytes -> Restore) at the '@snapB' ops; Persist may run
//      'delay' ops after Snapshot, as raft runs it concurrently with Apply.
//   C  applies in batches, takes snapshots at '@snapC' and is discarded at '@crashC' and
//      rebuilt from its latest persisted snapshot + the log suffix.

import (
	"fmt"
	"os"
	"sort"
	"strings"
	"testing"
	"time"

	"github.com/hashicorp/raft"
	"github.com/openGemini/openGemini/lib/config"
	meta2 "github.com/openGemini/openGemini/lib/util/lifted/influx/meta"
	proto2 "github.com/openGemini/openGemini/lib/util/lifted/influx/meta/proto"
	"github.com/openGemini/openGemini/lib/util/lifted/protobuf/proto"
	"github.com/openGemini/openGemini/lib/util/lifted/vm/protoparser/influx"
	"github.com/openGemini/openGemini/verifsim/core"
)

type VWCase struct {
	Knobs  VWKnobs `json:"knobs"`
	Ops    []VWOp  `json:"ops"`
	BatchB []int   `json:"batch_b"` // batch sizes of replica B, cycled; 1 = Apply, 0 = ApplyBatch of one entry
	BatchC []int   `json:"batch_c"`
}

type worldM struct{}

func (worldM) Name() string { return "M" }
func (worldM) Components() ([]string, []string) {
	return []string{"app/ts-meta/meta storeFSM (Apply, ApplyBatch, Snapshot, Persist, Restore, every apply* handler)",
			"lib/util/lifted/influx/meta Data (catalogue, Clone, MarshalBinary/UnmarshalBinary)", "protobuf command encoding"},
		[]string{"hashicorp/raft consensus (replaced by one agreed log fed to 3 FSMs)", "raft snapshot store (in-memory sink)",
			"NetStorage (mock: TransferLeadership is a no-op)", "cluster manager / balancer / sql-lease side machinery (not started)"}
}

func (worldM) NumOps(c VWCase) int { return len(c.Ops) }

func vwCopyOp(o VWOp) VWOp {
	o.S = append([]string(nil), o.S...)
	o.N = append([]int64(nil), o.N...)
	o.B = append([]bool(nil), o.B...)
	return o
}

func vwCopyCase(c VWCase) VWCase {
	n := c
	n.Ops = make([]VWOp, len(c.Ops))
	for i := range c.Ops {
		n.Ops[i] = vwCopyOp(c.Ops[i])
	}
	n.BatchB = append([]int(nil), c.BatchB...)
	n.BatchC = append([]int(nil), c.BatchC...)
	return n
}

// Subset: selectors are resolved against the catalogue at execution time, so any
// sub-sequence stays executable (commands that lost their prerequisites become invalid
// commands, which are part of the input space).
func (worldM) Subset(c VWCase, keep []int) VWCase {
	n := c
	n.Ops = nil
	for _, i := range keep {
		n.Ops = append(n.Ops, vwCopyOp(c.Ops[i]))
	}
	n.BatchB = append([]int(nil), c.BatchB...)
	n.BatchC = append([]int(nil), c.BatchC...)
	return n
}

func (worldM) Simplify(c VWCase) []VWCase {
	var out []VWCase
	if len(c.BatchB) != 1 || c.BatchB[0] != 1 || len(c.BatchC) != 1 || c.BatchC[0] != 1 {
		n := vwCopyCase(c)
		n.BatchB, n.BatchC = []int{1}, []int{1}
		out = append(out, n)
	}
	k := c.Knobs
	for _, alt := range []VWKnobs{
		{k.HaPolicy, k.PtPerNode, k.NumOfShards, false, k.SchemaClean, k.ExpandShards, k.RetAutoCreate},
		{k.HaPolicy, k.PtPerNode, k.NumOfShards, k.IncSync, false, k.ExpandShards, k.RetAutoCreate},
		{k.HaPolicy, k.PtPerNode, k.NumOfShards, k.IncSync, k.SchemaClean, false, k.RetAutoCreate},
		{0, k.PtPerNode, k.NumOfShards, k.IncSync, k.SchemaClean, k.ExpandShards, k.RetAutoCreate},
		{k.HaPolicy, 1, k.NumOfShards, k.IncSync, k.SchemaClean, k.ExpandShards, k.RetAutoCreate},
		{k.HaPolicy, k.PtPerNode, 0, k.IncSync, k.SchemaClean, k.ExpandShards, k.RetAutoCreate},
	} {
		if alt != k {
			n := vwCopyCase(c)
			n.Knobs = alt
			out = append(out, n)
		}
	}
	for i, op := range c.Ops {
		switch {
		case (op.K == "@snapB" || op.K == "@snapC") && op.n(0) != 0:
			n := vwCopyCase(c)
			n.Ops[i].N = []int64{0}
			out = append(out, n)
		case op.K == "create_mst" && len(op.S) > 0 && op.S[len(op.S)-1] != "|":
			// drop the declared fields
			keys, fields := vwSplit(op.S)
			if len(fields) > 0 {
				n := vwCopyCase(c)
				n.Ops[i].S = append(append([]string(nil), keys...), "|")
				out = append(out, n)
			}
		case op.K == "create_mst" && (op.n(3) != 0 || op.n(4) != 0 || op.n(5) != 0):
			n := vwCopyCase(c)
			for _, j := range []int{3, 4, 5} {
				if j < len(n.Ops[i].N) {
					n.Ops[i].N[j] = 0
				}
			}
			out = append(out, n)
		}
	}
	return out
}

func (worldM) Neutralise(c VWCase, name string) (VWCase, bool) {
	n := vwCopyCase(c)
	switch name {
	case "no-snapshot": // no snapshot / restore / crash: plain replication of the log
		n.Ops = nil
		for _, op := range c.Ops {
			if op.K[0] != '@' {
				n.Ops = append(n.Ops, vwCopyOp(op))
			}
		}
		return n, true
	case "no-duration-change": // retention policy updates do not touch the shard group duration
		for i, op := range n.Ops {
			if op.K == "update_rp" && len(op.N) > 0 {
				n.Ops[i].N[0] &^= 2
			}
		}
		return n, true
	case "no-batching":
		n.BatchB, n.BatchC = []int{1}, []int{1}
		return n, true
	case "no-delayed-persist":
		for i, op := range n.Ops {
			if op.K == "@snapB" || op.K == "@snapC" {
				n.Ops[i].N = []int64{0}
			}
		}
		return n, true
	}
	return c, false
}

// ---- execution -----------------------------------------------------------------------

type vwRun struct {
	c       VWCase
	env     *core.Env
	out     *core.Outcome
	A, B, C *vwReplica
	log     []*raft.Log // log[k].Index == k+2
	names   []string    // command type per entry
	opOf    []int       // op index per entry
	results []string    // reference result per entry
	ever    map[string]map[uint64]uint64
	bSnap    *vwSnap // B's snapshot waiting for its Persist
	cPend    *vwSnap // C's snapshot waiting for its Persist
	cImage   *vwSnap // C's latest persisted snapshot
	cBytes   []byte
	cImageAt uint64
	opsDone int
	stop    bool
	fault   bool
	hdig    []string
	everProb map[string]bool
	// mixEver: policies ("db\x00rp", map keys) whose measurements have (had) different sharding
	// types on the reference: "versions" = two versions of one measurement name differ (re-created
	// after mark-delete, the route the unchanged tree admits), "names" = only different names differ.
	mixEver map[string]string
}

func (run *vwRun) judge(p string) bool { return run.env.Property == "" || run.env.Property == p }

// report hands a violation to the verdict.  It returns true if the run goes on (the
// violation belongs to the other property of this world, or matches a listed finding).
func (run *vwRun) report(v *core.Violation) bool {
	if !run.judge(v.Property) {
		run.out.Stats["other_property_"+v.Kind]++
		return true
	}
	// triage aid: VW_STOP_AT="<kind> <attr>=<value> ..." turns the matching class into the
	// verdict even if it is listed (or VERIF_COLLECT is set), so that it gets minimised.
	stopAt := os.Getenv("VW_STOP_AT")
	if stopAt == "" || !vwMatchStop(stopAt, v) {
		if id := run.env.KnownID(v, run.out); id != "" {
			return true
		}
		if stopAt != "" {
			return true
		}
	}
	if run.out.Violation == nil {
		run.out.Violation = v
	}
	run.stop = true
	return false
}

func (run *vwRun) idx() uint64 { return uint64(len(run.log)) + 1 } // index of the last entry

func (run *vwRun) entriesAfter(p uint64) []*raft.Log {
	if p < 1 {
		p = 1
	}
	if int(p-1) >= len(run.log) {
		return nil
	}
	return run.log[p-1:]
}

func vwSetGlobals(k VWKnobs) {
	pol := []string{config.WAFPolicy, config.SSPolicy, config.RepPolicy}
	if err := config.SetHaPolicy(pol[k.HaPolicy%3]); err != nil {
		panic(core.InfraPanic("SetHaPolicy: " + err.Error()))
	}
	meta2.SetRepDisPolicy(0)
	meta2.InitSchemaCleanEn(k.SchemaClean)
}

func (w worldM) Exec(c VWCase, env *core.Env) *core.Outcome {
	out := core.NewOutcome()
	if meta2.DataLogger == nil {
		meta2.DataLogger = vwNopZap()
	}
	if c.Knobs.PtPerNode < 1 {
		c.Knobs.PtPerNode = 1
	}
	vwSetGlobals(c.Knobs)
	run := &vwRun{c: c, env: env, out: out, ever: map[string]map[uint64]uint64{}}
	run.A = vwNewReplica("A", c.Knobs, []int{1})
	run.B = vwNewReplica("B", c.Knobs, c.BatchB)
	run.C = vwNewReplica("C", c.Knobs, c.BatchC)
	run.A.last = vwDumpData(run.A.data())
	run.B.last, run.C.last = run.A.last, run.A.last
	run.hdig = []string{fmt.Sprintf("%+v b=%v c=%v", c.Knobs, c.BatchB, c.BatchC)}
	for oi, op := range c.Ops {
		run.due(false)
		if run.stop {
			break
		}
		run.hdig = append(run.hdig, op.String())
		if op.K == "" {
			continue
		}
		if op.K[0] == '@' {
			run.control(oi, op)
			if run.stop {
				break
			}
			continue
		}
		cmds := vwBuild(op, run.A.data())
		for _, cmd := range cmds {
			if !run.entry(oi, op, cmd) || run.stop {
				break
			}
		}
		run.opsDone++
		if run.stop {
			break
		}
	}
	if !run.stop {
		run.due(true)
	}
	if !run.stop {
		run.flush(run.B, false)
	}
	if !run.stop {
		run.flush(run.C, false)
	}
	out.Digest = core.DigestStrings(run.hdig)
	out.Nontrivial = out.Stats["changes_after_fault"] > 0
	d := run.A.data()
	nrp, nsg, nm := 0, 0, 0
	for _, db := range d.Databases {
		nrp += len(db.RetentionPolicies)
		for _, rp := range db.RetentionPolicies {
			nsg += len(rp.ShardGroups)
			nm += len(rp.Measurements)
		}
	}
	out.AddLayout(fmt.Sprintf("db%d rp%d m%d sg%d n%d u%d s%d ev%d", len(d.Databases), nrp, nm, nsg, len(d.DataNodes), len(d.Users), len(d.Streams), len(d.MigrateEvents)))
	return out
}

// entry appends one command to the agreed log and delivers it to the replicas.  It
// returns false when the issuing handler would not have continued with the op's next
// command (createDatabase stops when CreateDbPtView fails).
func (run *vwRun) entry(oi int, op VWOp, cmd *proto2.Command) bool {
	out := run.out
	data, err := proto.Marshal(cmd)
	if err != nil {
		panic(core.InfraPanic(fmt.Sprintf("cannot marshal command of op %d (%s): %v", oi, op, err)))
	}
	name := vwCmdName(cmd)
	l := &raft.Log{Index: run.idx() + 1, Term: 1 + uint64(len(run.log)/40), Type: raft.LogCommand, Data: data}
	run.log = append(run.log, l)
	run.names = append(run.names, name)
	run.opOf = append(run.opOf, oi)
	A := run.A
	pre := A.last
	preData := vwCloneData(A.data()) // to roll a panicking command back
	preCQ := append([]string(nil), A.s.cqNames...)
	res, site := A.applyOne(l)
	run.results = append(run.results, res)
	dA := vwDumpData(A.data())
	if site != "" {
		// The apply function panicked: in the product the node is dead (and dies again on
		// every replay of the entry).  C16 reports it; the run goes on from the state before
		// the command, so that what a half-executed command leaves behind does not turn
		// into secondary findings.
		A.s.mu.Lock()
		A.s.data = preData
		A.s.cqNames = preCQ
		A.s.mu.Unlock()
		dA = pre
	}
	A.last = dA
	run.noteMixed()
	out.Stats["entries"]++
	out.Stats["cmd_"+name]++
	changed := len(vwDiffAll(pre, dA, "Term", "Index")) > 0
	switch {
	case site != "":
		out.Stats["apply_panics"]++
	case vwIsFailure(res):
		out.Stats["failed_cmds"]++
	default:
		out.Stats["ok_cmds"]++
		if changed {
			out.Stats["state_changes"]++
			if run.fault {
				out.Stats["changes_after_fault"]++
			}
		}
	}
	out.Log("e%d op%d %s -> %s | %s", l.Index, oi, name, res, dA.hash())
	if os.Getenv("VW_DEBUG") != "" {
		fmt.Fprintf(os.Stderr, "VW_DEBUG e%d op%d %s -> %s\n", l.Index, oi, name, res)
	}
	where := fmt.Sprintf("entry %d (op %d: %s => %s) on replica A", l.Index, oi, op, name)

	// ---- C16 on the reference
	if site != "" {
		v := &core.Violation{Property: "C16", Kind: "apply_panic", Attrs: map[string]string{"cmd": name, "at": site},
			Detail: fmt.Sprintf("%s: the apply function panicked in %s: %s (in the product this kills the meta node, and every node that replays the entry)", where, site, res)}
		if !run.report(v) {
			return false
		}
	} else if run.judge("C16") {
		run.checkC16(A, name, res, site, pre, dA, l.Index-1, l.Index, where, false)
		if run.stop {
			return false
		}
		if name == "CreateShardGroupCommand" && !vwIsFailure(res) {
			run.checkAlignment(name, where)
			if run.stop {
				return false
			}
		}
	}

	// ---- C15: marshal round trip of the reference catalogue
	if run.judge("C15") && site == "" {
		run.roundTrip(name, where, dA)
		if run.stop {
			return false
		}
	}

	// ---- deliver to B and C
	for _, R := range []*vwReplica{run.B, run.C} {
		if site != "" && len(R.buf) > 0 {
			// the reference panicked on this entry: a real node dies here, so the entry is not
			// hidden inside a batch (ApplyBatch would lose the results of its predecessors)
			run.flushRef(R, false, pre)
			if run.stop {
				return false
			}
			if R.pos >= l.Index {
				continue // re-synchronised to the reference, which has this entry already
			}
		}
		if len(R.buf) == 0 {
			R.want = R.nextRaw()
			if site != "" && R.want > 1 {
				R.want = 1
			}
		}
		R.buf = append(R.buf, l)
		if len(R.buf) >= R.want {
			run.flush(R, false)
			if run.stop {
				return false
			}
		}
	}
	if name == "CreateDbPtViewCommand" && op.K == "create_db" && vwIsFailure(res) {
		return false
	}
	return true
}

// flush applies the buffered entries of R (as one batch) and compares R with the
// reference, which is at the same log position.
func (run *vwRun) flush(R *vwReplica, afterRestore bool) { run.flushRef(R, afterRestore, run.A.last) }

// flushRef: ref is the reference dump at the log position of R's last buffered entry.
func (run *vwRun) flushRef(R *vwReplica, afterRestore bool, ref *vwDump) {
	if len(R.buf) == 0 {
		return
	}
	out := run.out
	buf := R.buf
	R.buf = nil
	from := buf[0].Index - 1
	to := buf[len(buf)-1].Index
	want := R.want
	var res []string
	site := ""
	panicked := false
	pre := R.last
	if len(buf) == 1 && want != 0 {
		r, s := R.applyOne(buf[0])
		res, site = []string{r}, s
		out.Stats["replica_apply"]++
	} else {
		res, site, panicked = R.applyBatch(buf)
		out.Stats["replica_apply_batch"]++
		if len(buf) > 1 {
			out.Probes["ApplyBatch with several entries"]++
		}
	}
	first := int(buf[0].Index) - 2
	names := run.names[first : first+len(buf)]
	where := fmt.Sprintf("entries %d..%d on replica %s#%d (last: op %d => %s)", buf[0].Index, to, R.name, R.inc, run.opOf[first+len(buf)-1], names[len(names)-1])
	kindSuffix := ""
	if afterRestore {
		kindSuffix = " while replaying the log suffix after a restore"
	}
	stepped := false
	// a replica replaying after it restored an image that was polluted by later entries
	isoKind := func(v *core.Violation) *core.Violation {
		if afterRestore && len(R.iso) > 0 {
			v.Kind = "snapshot_not_isolated"
			v.Attrs = map[string]string{"field": R.iso[0]}
			v.Detail = "Persist ran after later entries had been applied and wrote an image that contains their effects (Snapshot() shares " +
				strings.Join(R.iso, ", ") + " with the live catalogue); restore + replay of the log suffix does not end in the reference catalogue: " + v.Detail + R.isoText
		}
		return v
	}
	if panicked {
		// ApplyBatch panicked although the reference returned a result for every entry
		refPanic := false
		for i := range buf {
			if vwIsPanic(run.results[first+i]) {
				refPanic = true
			}
		}
		if !refPanic {
			v := &core.Violation{Property: "C15", Kind: "apply_result_divergence",
				Detail: fmt.Sprintf("%s%s: ApplyBatch %s at %s, the reference replica returned %v for these entries", where, kindSuffix, res[0], site, run.results[first:first+len(buf)]),
				Attrs:  map[string]string{"how": "panic", "at": site}}
			if !run.report(isoKind(v)) {
				return
			}
		}
		stepped = true
	} else {
		for i := range buf {
			if res[i] != run.results[first+i] && !(vwIsPanic(res[i]) && vwIsPanic(run.results[first+i])) {
				v := &core.Violation{Property: "C15", Kind: "apply_result_divergence",
					Detail: fmt.Sprintf("entry %d (%s) on replica %s#%d%s returned %q, on the reference replica %q", buf[i].Index, names[i], R.name, R.inc, kindSuffix, res[i], run.results[first+i]),
					Attrs:  map[string]string{"cmd": names[i]}}
				if vwIsPanic(res[i]) && site != "" {
					// only the replica panicked: where (the single Apply path knows the site)
					v.Attrs["how"], v.Attrs["at"] = "panic", site
					v.Detail += " (panic site: " + site + ")"
				}
				if !run.report(isoKind(v)) {
					return
				}
				stepped = true
				break
			}
		}
	}
	if stepped {
		// results diverged (reported above): the state comparison would only repeat it
		run.resync(R)
		return
	}
	if len(buf) == 1 && vwIsPanic(run.results[first]) {
		// every replica panicked on this entry: in the product the nodes are dead; what a
		// half-executed command leaves behind is not compared (C16 reports the panic)
		run.out.Stats["post_panic_resyncs"]++
		run.resync(R)
		return
	}
	dR := vwDumpData(R.data())
	R.last = dR
	kind := "replica_divergence"
	if afterRestore {
		kind = "snapshot_restore_divergence"
	}
	diffs := vwDiffAll(ref, dR)
	if !afterRestore && len(diffs) > 1 {
		diffs = diffs[:1] // one incident, one report: the first differing field in walk order
	}
	batch := ""
	for i := range buf {
		ri := "?"
		if i < len(res) {
			ri = res[i]
		}
		batch += fmt.Sprintf("\n  entry %d %s: reference %q, replica %q", buf[i].Index, run.c.Ops[run.opOf[first+i]].String(), run.results[first+i], ri)
	}
	for _, df := range diffs {
		at := map[string]string{"field": df.general}
		if !afterRestore {
			at["cmd"] = names[len(names)-1]
			if len(names) > 1 {
				at["cmd"] = "batch" // which entry of the batch did it is not observable
			}
		} else {
			at["phase"] = "replay"
		}
		if mx := run.mixedAt(df.path); mx != "" {
			at["mixed"] = mx
		}
		v := &core.Violation{Property: "C15", Kind: kind, Attrs: at,
			Detail: fmt.Sprintf("after %s%s the catalogue differs from the reference replica at %s: reference=%s replica=%s; diff:%s",
				where, kindSuffix, df.path, df.a, df.b, vwDiffText(ref, dR, "A", R.name, 8)+batch)}
		if !run.report(isoKind(v)) {
			return
		}
		stepped = true
		if afterRestore && len(R.iso) > 0 {
			break
		}
	}
	if afterRestore && len(R.iso) > 0 {
		if !stepped {
			run.out.Probes["polluted snapshot image converged after replay"]++
		}
		R.iso, R.isoText = nil, ""
	}
	if run.judge("C16") && !stepped {
		r0, s0 := "", ""
		if len(buf) == 1 && !panicked {
			r0, s0 = res[0], site
		}
		if afterRestore {
			// the replica replayed (replayFrom, to] since its restore: ids born and problems
			// that appeared anywhere in that range are not news of the last batch
			from = R.replayFrom
			R.probKeys = run.everProb
		}
		run.checkC16(R, names[len(names)-1], r0, s0, pre, dR, from, to, where, len(buf) != 1 || panicked)
		if run.stop {
			return
		}
	}
	if stepped {
		run.resync(R)
	}
}

// resync replaces R's state by an exact copy of the reference state (after a violation
// that was stepped over) so that later defects stay visible.
func (run *vwRun) resync(R *vwReplica) {
	A := run.A
	R.s.mu.Lock()
	R.s.data = vwCloneData(A.data())
	R.s.cqNames = append([]string(nil), A.s.cqNames...)
	R.s.mu.Unlock()
	R.last = A.last
	R.buf = nil
	R.pos = A.pos
	R.iso, R.isoText = nil, ""
	R.probKeys = map[string]bool{}
	for k := range A.probKeys {
		R.probKeys[k] = true
	}
	R.prevIDs = map[string]map[uint64]bool{}
	for k, m := range A.prevIDs {
		n := make(map[uint64]bool, len(m))
		for id := range m {
			n[id] = true
		}
		R.prevIDs[k] = n
	}
	run.out.Stats["resyncs"]++
}

// roundTrip: MarshalBinary -> UnmarshalBinary of the reference catalogue must give the
// same canonical dump (this is what every snapshot goes through).
func (run *vwRun) roundTrip(name, where string, dA *vwDump) {
	var b []byte
	var err error
	perr := ""
	func() {
		defer func() {
			if p := recover(); p != nil {
				perr = fmt.Sprint(p)
			}
		}()
		b, err = run.A.data().MarshalBinary()
	}()
	if perr != "" || err != nil {
		v := &core.Violation{Property: "C15", Kind: "snapshot_persist_failed", Attrs: map[string]string{"cmd": name},
			Detail: fmt.Sprintf("after %s the catalogue cannot be marshalled (no snapshot possible): panic=%q err=%v", where, perr, err)}
		run.report(v)
		return
	}
	n := &meta2.Data{}
	func() {
		defer func() {
			if p := recover(); p != nil {
				perr = fmt.Sprint(p)
			}
		}()
		err = n.UnmarshalBinary(b)
	}()
	if perr != "" || err != nil {
		v := &core.Violation{Property: "C15", Kind: "snapshot_restore_failed", Attrs: map[string]string{"cmd": name},
			Detail: fmt.Sprintf("after %s the marshalled catalogue cannot be unmarshalled: panic=%q err=%v", where, perr, err)}
		run.report(v)
		return
	}
	dN := vwDumpData(n)
	for _, df := range vwDiffAll(dA, dN) {
		v := &core.Violation{Property: "C15", Kind: "snapshot_restore_divergence", Attrs: map[string]string{"field": df.general},
			Detail: fmt.Sprintf("after %s MarshalBinary->UnmarshalBinary of the catalogue changes %s: live=%s restored=%s; diff:%s",
				where, df.path, df.a, df.b, vwDiffText(dA, dN, "live", "restored", 8))}
		if !run.report(v) {
			return
		}
	}
	run.out.Stats["roundtrips"]++
}

func (run *vwRun) trackIDs(R *vwReplica, from, to uint64, restored bool) []vwProblem {
	ids, dups := vwIDs(R.data())
	var probs []vwProblem
	probs = append(probs, dups...)
	kinds := make([]string, 0, len(ids))
	for k := range ids {
		kinds = append(kinds, k)
	}
	sort.Strings(kinds)
	cur := map[string]map[uint64]bool{}
	for _, k := range kinds {
		cur[k] = map[uint64]bool{}
		if run.ever[k] == nil {
			run.ever[k] = map[uint64]uint64{}
		}
		list := make([]uint64, 0, len(ids[k]))
		for id := range ids[k] {
			list = append(list, id)
		}
		sort.Slice(list, func(a, b int) bool { return list[a] < list[b] })
		for _, id := range list {
			cur[k][id] = true
			if R.prevIDs[k][id] {
				continue
			}
			born, ok := run.ever[k][id]
			if !ok {
				run.ever[k][id] = to
				continue
			}
			if !restored && born <= from {
				probs = append(probs, vwProblem{"id_reused", map[string]string{"idkind": k},
					fmt.Sprintf("%s id %d appears as a new object at %s, but that id was first handed out at entry %d and had disappeared since", k, id, ids[k][id], born), fmt.Sprintf("reuse|%s|%d|%d", k, id, to)})
			}
		}
	}
	R.prevIDs = cur
	return probs
}

// checkC16 evaluates the C16 clauses on replica R after it applied entries (from,to].
func (run *vwRun) checkC16(R *vwReplica, name, res, site string, pre, post *vwDump, from, to uint64, where string, multi bool) {
	extra := map[string]string{"cmd": name}
	if R == run.A && !multi && site == "" && vwIsFailure(res) && pre != nil {
		if diffs := vwDiffAll(pre, post, "Term", "Index"); len(diffs) > 0 {
			v := &core.Violation{Property: "C16", Kind: "failed_command_mutated_state", Attrs: map[string]string{"cmd": name, "field": diffs[0].general},
				Detail: fmt.Sprintf("%s returned %q but changed the catalogue:%s", where, res, vwDiffText(pre, post, "before", "after", 8, "Term", "Index"))}
			if !run.report(v) {
				return
			}
		}
	}
	probs := run.trackIDs(R, from, to, false)
	probs = append(probs, vwWellFormed(R.data())...)
	run.reportNew(R, probs, extra, "after "+where+": ", R.probKeys)
}

// reportNew reports the problems that are not in prev (a problem is reported when it
// appears, with the command that introduced it, not at every later step).
func (run *vwRun) reportNew(R *vwReplica, probs []vwProblem, extra map[string]string, prefix string, prev map[string]bool) {
	cur := make(map[string]bool, len(probs))
	for _, p := range probs {
		cur[p.key] = true
	}
	R.probKeys = cur
	run.out.Stats["wellformed_checks"]++
	for _, p := range probs {
		if prev[p.key] || (R != run.A && run.everProb[p.key]) {
			continue // persisting, or reported on the reference with the command that introduced it
		}
		if run.everProb == nil {
			run.everProb = map[string]bool{}
		}
		run.everProb[p.key] = true
		if !run.report(vwViolation("C16", p, extra, prefix)) {
			return
		}
	}
}

// checkRestored: C16 structural clauses on a freshly restored replica.
func (run *vwRun) checkRestored(R *vwReplica, where string) {
	if !run.judge("C16") {
		return
	}
	probs := run.trackIDs(R, 0, R.pos, true)
	probs = append(probs, vwWellFormed(R.data())...)
	// problems the reference has (had) as well were reported there; new ones come from the restore
	run.reportNew(R, probs, map[string]string{"cmd": "restore"}, "right after "+where+": ", run.everProb)
}

func (run *vwRun) checkAlignment(name, where string) {
	d := run.A.data()
	idx := run.idx()
	for _, dbn := range vwSortedDBs(d) {
		db := d.Databases[dbn]
		for _, rpk := range vwSortedRPs(db) {
			rp := db.RetentionPolicies[rpk]
			for i := range rp.ShardGroups {
				sg := &rp.ShardGroups[i]
				if run.ever["shardgroup"][sg.ID] != idx+0 {
					continue
				}
				run.out.Stats["shard_groups_created"]++
				if !vwAlignedAtCreation(sg, rp.ShardGroupDuration) {
					v := &core.Violation{Property: "C16", Kind: "misaligned_shard_group", Attrs: map[string]string{"cmd": name},
						Detail: fmt.Sprintf("after %s: new shard group %s of %s.%s is not aligned to the policy's shard group duration %s", where, vwSGString(sg), dbn, rpk, rp.ShardGroupDuration)}
					if !run.report(v) {
						return
					}
				}
			}
		}
	}
}

// ---- replica events ------------------------------------------------------------------

// vwSnap is a snapshot in flight: taken at entry 'at' (the reference dump of that log
// position is 'ref'), persisted now or some ops later.
type vwSnap struct {
	sn  raft.FSMSnapshot
	at  uint64
	ref *vwDump
	imm *vwDump // dump of the image an immediate Persist produced (only for delayed ones)
	due int
}

func (run *vwRun) takeSnap(R *vwReplica, delay int) *vwSnap {
	sp := &vwSnap{sn: R.snapshot(), at: R.pos, ref: run.A.last, due: run.opsDone + delay}
	run.out.Stats["snapshots"]++
	if delay > 0 {
		run.out.Faults["delayed_persist"]++
		// what would an immediate Persist have written?  (a second snapshot object)
		if b, perr, _ := vwPersist(R.snapshot()); perr == "" {
			n := &meta2.Data{}
			func() {
				defer func() { _ = recover() }()
				if n.UnmarshalBinary(b) == nil {
					sp.imm = vwDumpData(n)
				}
			}()
		}
	}
	return sp
}

func (run *vwRun) control(oi int, op VWOp) {
	out := run.out
	switch op.K {
	case "@snapB":
		B := run.B
		run.flush(B, false)
		if run.stop {
			return
		}
		if run.bSnap != nil {
			run.persistRestoreB()
			if run.stop {
				return
			}
		}
		run.bSnap = run.takeSnap(B, int(op.n(0)))
		if op.n(0) <= 0 {
			run.persistRestoreB()
		}
	case "@snapC":
		C := run.C
		run.flush(C, false)
		if run.stop {
			return
		}
		if run.cPend != nil {
			run.persistC()
			if run.stop {
				return
			}
		}
		run.cPend = run.takeSnap(C, int(op.n(0)))
		if op.n(0) <= 0 {
			run.persistC()
		}
	case "@crashC":
		old := run.C
		C := vwNewReplica("C", run.c.Knobs, run.c.BatchC)
		C.inc = old.inc + 1
		C.pi = old.pi
		run.C = C
		run.cPend = nil // a snapshot that was not persisted yet is lost with the process
		out.Faults["crash_rebuild"]++
		run.fault = true
		where := fmt.Sprintf("op %d: replica C discarded and rebuilt from scratch", oi)
		if run.cImage != nil {
			where = fmt.Sprintf("op %d: replica C discarded and rebuilt from its snapshot (Snapshot at entry %d, Persist at entry %d)", oi, run.cImage.at, run.cImageAt)
			out.Probes["replica rebuilt from snapshot + log suffix"]++
			if !run.restoreFrom(C, run.cImage, run.cBytes, run.cImageAt != run.cImage.at, where) {
				return
			}
		} else {
			out.Probes["replica rebuilt from the whole log"]++
			C.last = nil
		}
		run.replay(C, where)
	default:
		panic(core.InfraPanic("unknown control op " + op.K))
	}
}

// due runs delayed Persist calls whose time has come (all of them when force).
func (run *vwRun) due(force bool) {
	if run.bSnap != nil && (force || run.opsDone >= run.bSnap.due) {
		run.flush(run.B, false)
		if run.stop {
			return
		}
		run.persistRestoreB()
		if run.stop {
			return
		}
	}
	if run.cPend != nil && (force || run.opsDone >= run.cPend.due) {
		run.persistC()
	}
}

func (run *vwRun) persistC() {
	sp := run.cPend
	run.cPend = nil
	b, perr, site := vwPersist(sp.sn)
	if perr != "" {
		v := &core.Violation{Property: "C15", Kind: "snapshot_persist_failed", Attrs: map[string]string{"at": site},
			Detail: fmt.Sprintf("Persist of replica C's snapshot taken at entry %d failed: %s", sp.at, perr)}
		run.report(v)
		return
	}
	if run.C.pos != sp.at {
		run.out.Probes["Persist ran after later entries were applied"]++
	}
	run.cImage, run.cBytes, run.cImageAt = sp, b, run.C.pos
}

// persistRestoreB: Persist the pending snapshot of B, Restore B from the bytes and replay
// the log suffix (what a node does that installs the snapshot).
func (run *vwRun) persistRestoreB() {
	B := run.B
	sp := run.bSnap
	run.bSnap = nil
	delayed := B.pos != sp.at
	where := fmt.Sprintf("replica B: Snapshot at entry %d, Persist at entry %d, Restore", sp.at, B.pos)
	b, perr, site := vwPersist(sp.sn)
	if perr != "" {
		v := &core.Violation{Property: "C15", Kind: "snapshot_persist_failed", Attrs: map[string]string{"at": site},
			Detail: fmt.Sprintf("%s: Persist failed: %s", where, perr)}
		run.report(v)
		return
	}
	if delayed {
		run.out.Probes["Persist ran after later entries were applied"]++
	}
	run.out.Faults["snapshot_restore"]++
	run.fault = true
	if !run.restoreFrom(B, sp, b, delayed, where) {
		return
	}
	run.replay(B, where)
}

// restoreFrom restores R from a persisted image and compares the restored catalogue with
// the reference catalogue of the snapshot's log position.  It returns true if R is now
// at that position and in step with the reference (the log suffix can be replayed).
func (run *vwRun) restoreFrom(R *vwReplica, sp *vwSnap, b []byte, delayed bool, where string) bool {
	if rerr, rsite := R.restore(b); rerr != "" {
		v := &core.Violation{Property: "C15", Kind: "snapshot_restore_failed", Attrs: map[string]string{"at": rsite},
			Detail: fmt.Sprintf("%s: Restore failed: %s", where, rerr)}
		if run.report(v) {
			run.resync(R)
		}
		return false
	}
	if len(R.data().Databases) > 0 {
		run.out.Probes["restore of a non-empty catalogue"]++
	}
	R.pos = sp.at
	R.buf = nil
	dR := vwDumpData(R.data())
	R.last = dR
	run.checkRestored(R, where)
	if run.stop {
		return false
	}
	diffs := vwDiffAll(sp.ref, dR)
	if len(diffs) == 0 {
		return true
	}
	immBad := map[string]bool{}
	if delayed && sp.imm != nil {
		for _, df := range vwDiffAll(sp.ref, sp.imm) {
			immBad[df.general] = true
		}
	}
	// Differences an immediate Persist would not have had come from entries applied between
	// Snapshot() and the delayed Persist (the snapshot object shares memory with the live
	// catalogue).  The statement speaks about the end result, so they are judged after the
	// replay of the log suffix, not here.
	var iso []string
	isoText := ""
	lost := 0
	for _, df := range diffs {
		if delayed && sp.imm != nil && !immBad[df.general] {
			field := df.general
			if i := strings.LastIndex(field, "."); i > 0 {
				field = field[:i] // the container Snapshot() shares with the live catalogue
			}
			dup := false
			for _, f := range iso {
				dup = dup || f == field
			}
			if !dup {
				iso = append(iso, field)
				isoText += fmt.Sprintf("\n  image vs catalogue of entry %d: %s: catalogue=%s image=%s", sp.at, df.path, df.a, df.b)
			}
			continue
		}
		lost++
		v := &core.Violation{Property: "C15", Kind: "snapshot_restore_divergence", Attrs: map[string]string{"field": df.general},
			Detail: fmt.Sprintf("%s: the restored catalogue differs from the reference catalogue of the snapshot's log position (entry %d) at %s: reference=%s restored=%s; diff:%s",
				where, sp.at, df.path, df.a, df.b, vwDiffText(sp.ref, dR, "A", R.name, 8))}
		if !run.report(v) {
			return false
		}
	}
	if lost > 0 {
		run.resync(R)
		return false
	}
	R.iso, R.isoText = iso, isoText
	run.out.Probes["snapshot image contains effects of entries applied after Snapshot()"]++
	return true
}

// replay brings a restored replica to the reference's log position and compares.
func (run *vwRun) replay(R *vwReplica, where string) {
	suffix := run.entriesAfter(R.pos)
	if len(suffix) == 0 {
		return
	}
	run.out.Stats["replayed_entries"] += int64(len(suffix))
	R.replayFrom = R.pos
	// replay in the replica's own batching
	i := 0
	for i < len(suffix) && !run.stop {
		R.want = R.nextRaw()
		want := R.want
		if want < 1 {
			want = 1
		}
		j := i + want
		if j > len(suffix) {
			j = len(suffix)
		}
		// an entry on which the reference panicked is applied on its own (see entry())
		isPanic := func(k int) bool { return vwIsPanic(run.results[int(suffix[k].Index)-2]) }
		if isPanic(i) {
			j = i + 1
			if R.want > 1 {
				R.want = 1
			}
		} else {
			for k := i + 1; k < j; k++ {
				if isPanic(k) {
					j = k
					break
				}
			}
		}
		// intermediate batches cannot be compared with the reference (it is ahead): apply and
		// compare results only; the dump comparison happens at the end.
		R.buf = append([]*raft.Log(nil), suffix[i:j]...)
		if j == len(suffix) {
			run.flush(R, true)
		} else {
			run.applyOnly(R)
			if R.pos >= run.A.pos {
				return // re-synchronised after a stepped-over violation: the replay is over
			}
		}
		i = j
	}
}

// vwPolicyMix: "" if all measurements of the policy (mark-deleted ones included: they stay
// in the map until DropMeasurement) have one sharding type, "versions" if two versions of one
// measurement name differ, "names" if only measurements of different names differ.
func vwPolicyMix(rp *meta2.RetentionPolicyInfo) string {
	all := map[string]bool{}
	byName := map[string]map[string]bool{}
	for _, m := range rp.Measurements {
		if m == nil {
			continue
		}
		t := ""
		if len(m.ShardKeys) > 0 {
			t = m.ShardKeys[0].Type
		}
		o := influx.GetOriginMstName(m.Name)
		if byName[o] == nil {
			byName[o] = map[string]bool{}
		}
		byName[o][t] = true
		all[t] = true
	}
	if len(all) < 2 {
		return ""
	}
	for _, ts := range byName {
		if len(ts) > 1 {
			return "versions"
		}
	}
	return "names"
}

// noteMixed records which policies of the reference catalogue mix sharding types now.
func (run *vwRun) noteMixed() {
	d := run.A.data()
	for dbn, db := range d.Databases {
		if db == nil {
			continue
		}
		for rpk, rp := range db.RetentionPolicies {
			if rp == nil || len(rp.Measurements) < 2 {
				continue
			}
			mx := vwPolicyMix(rp)
			if mx == "" {
				continue
			}
			if run.mixEver == nil {
				run.mixEver = map[string]string{}
			}
			k := dbn + "\x00" + rpk
			if run.mixEver[k] != "versions" {
				run.mixEver[k] = mx
			}
		}
	}
}

// mixedAt: the mix class of the policy a dump path lies in ("" if none / never mixed).
func (run *vwRun) mixedAt(path string) string {
	const p1, p2 = "Databases[", "].RetentionPolicies["
	if !strings.HasPrefix(path, p1) {
		return ""
	}
	rest := path[len(p1):]
	i := strings.Index(rest, p2)
	if i < 0 {
		return ""
	}
	dbn := rest[:i]
	rest = rest[i+len(p2):]
	j := strings.Index(rest, "]")
	if j < 0 {
		return ""
	}
	return run.mixEver[dbn+"\x00"+rest[:j]]
}

func vwIsPanic(res string) bool { return len(res) > 6 && res[:6] == "panic:" }

// applyOnly applies R.buf and compares the results (not the state) with the reference.
func (run *vwRun) applyOnly(R *vwReplica) {
	buf := R.buf
	R.buf = nil
	first := int(buf[0].Index) - 2
	var res []string
	site1 := ""
	if len(buf) == 1 {
		r, s1 := R.applyOne(buf[0])
		res, site1 = []string{r}, s1
	} else {
		var panicked bool
		var site string
		res, site, panicked = R.applyBatch(buf)
		if panicked {
			refPanic := false
			for i := range buf {
				refPanic = refPanic || vwIsPanic(run.results[first+i])
			}
			if !refPanic {
				v := &core.Violation{Property: "C15", Kind: "apply_result_divergence", Attrs: map[string]string{"how": "panic", "at": site},
					Detail: fmt.Sprintf("entries %d..%d on replica %s#%d while replaying the log suffix after a restore: ApplyBatch %s at %s, the reference replica returned %v for these entries",
						buf[0].Index, buf[len(buf)-1].Index, R.name, R.inc, res[0], site, run.results[first:first+len(buf)])}
				if len(R.iso) > 0 {
					v.Kind, v.Attrs = "snapshot_not_isolated", map[string]string{"field": R.iso[0]}
					v.Detail += R.isoText
				}
				if !run.report(v) {
					return
				}
			}
			run.resync(R)
			return
		}
	}
	for i := range buf {
		if res[i] != run.results[first+i] && !(vwIsPanic(res[i]) && vwIsPanic(run.results[first+i])) {
			v := &core.Violation{Property: "C15", Kind: "apply_result_divergence", Attrs: map[string]string{"cmd": run.names[first+i]},
				Detail: fmt.Sprintf("entry %d (%s) on replica %s#%d while replaying the log suffix after a restore returned %q, on the reference replica %q", buf[i].Index, run.names[first+i], R.name, R.inc, res[i], run.results[first+i])}
			if vwIsPanic(res[i]) && site1 != "" {
				v.Attrs["how"], v.Attrs["at"] = "panic", site1
				v.Detail += " (panic site: " + site1 + ")"
			}
			if len(R.iso) > 0 {
				v.Kind = "snapshot_not_isolated"
				v.Attrs = map[string]string{"field": R.iso[0]}
				v.Detail = "Persist ran after later entries had been applied and wrote an image that contains their effects (Snapshot() shares " +
					strings.Join(R.iso, ", ") + " with the live catalogue); replaying the log suffix on the restored image: " + v.Detail + R.isoText
				R.iso, R.isoText = nil, ""
			}
			if run.report(v) {
				// bring it to the reference state of the END of the log; the replay is over
				run.resync(R)
			}
			return
		}
	}
	R.last = nil
	if len(buf) == 1 && vwIsPanic(run.results[first]) {
		// all replicas panicked here; what the half-executed command left behind is not
		// compared: the replay ends with the reference state
		run.out.Stats["post_panic_resyncs"]++
		run.resync(R)
	}
}

func TestVerifWorldM(t *testing.T) {
	core.RunWorker[VWCase](worldM{})
}

var _ = time.Now

func vwMatchStop(spec string, v *core.Violation) bool {
	parts := strings.Fields(spec)
	if len(parts) == 0 || parts[0] != v.Kind {
		return false
	}
	for _, p := range parts[1:] {
		kv := strings.SplitN(p, "=", 2)
		if len(kv) != 2 || v.Attrs[kv[0]] != kv[1] {
			return false
		}
	}
	return true
}
