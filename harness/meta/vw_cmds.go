package meta

// World M — op descriptors (JSON-serialisable) and their deterministic translation into
// protobuf commands.  Identifier-bearing commands (shard group / shard / index / node
// ids ...) carry a selector that is resolved against the reference replica's catalogue
// at the moment the command is issued — exactly what a client of the meta service does.

import (
	"fmt"
	"sort"
	"strings"

	meta2 "github.com/openGemini/openGemini/lib/util/lifted/influx/meta"
	proto2 "github.com/openGemini/openGemini/lib/util/lifted/influx/meta/proto"
	"github.com/openGemini/openGemini/lib/util/lifted/protobuf/proto"
	"github.com/openGemini/openGemini/lib/util/lifted/vm/protoparser/influx"
	"github.com/openGemini/openGemini/verifsim/core"
)

// VWOp is one operation of a case.  Kinds starting with '@' are replica events
// (snapshot / restore / crash), everything else is a catalogue command.
type VWOp struct {
	K   string   `json:"k"`
	DB  string   `json:"db,omitempty"`
	RP  string   `json:"rp,omitempty"`
	Nm  string   `json:"nm,omitempty"`
	S   []string `json:"s,omitempty"`
	N   []int64  `json:"n,omitempty"`
	B   []bool   `json:"b,omitempty"`
	Sel int      `json:"sel,omitempty"`
}

func (o VWOp) String() string {
	var sb strings.Builder
	sb.WriteString(o.K)
	if o.DB != "" {
		sb.WriteString(" db=" + o.DB)
	}
	if o.RP != "" {
		sb.WriteString(" rp=" + o.RP)
	}
	if o.Nm != "" {
		sb.WriteString(" nm=" + o.Nm)
	}
	if len(o.S) > 0 {
		fmt.Fprintf(&sb, " s=%q", o.S)
	}
	if len(o.N) > 0 {
		fmt.Fprintf(&sb, " n=%v", o.N)
	}
	if len(o.B) > 0 {
		fmt.Fprintf(&sb, " b=%v", o.B)
	}
	if o.Sel != 0 {
		fmt.Fprintf(&sb, " sel=%d", o.Sel)
	}
	return sb.String()
}

func (o VWOp) n(i int) int64 {
	if i < len(o.N) {
		return o.N[i]
	}
	return 0
}
func (o VWOp) s(i int) string {
	if i < len(o.S) {
		return o.S[i]
	}
	return ""
}
func (o VWOp) b(i int) bool {
	if i < len(o.B) {
		return o.B[i]
	}
	return false
}

func vwCmd(t proto2.Command_Type, desc *proto.ExtensionDesc, v interface{}) *proto2.Command {
	cmd := &proto2.Command{Type: &t}
	if err := proto.SetExtension(cmd, desc, v); err != nil {
		panic(core.InfraPanic("SetExtension: " + err.Error()))
	}
	return cmd
}

func vwRPInfo(name string, n []int64) *proto2.RetentionPolicyInfo {
	g := func(i int) int64 {
		if i < len(n) {
			return n[i]
		}
		return 0
	}
	rn := uint32(g(7))
	return &proto2.RetentionPolicyInfo{
		Name: proto.String(name), Duration: proto.Int64(g(0)), ShardGroupDuration: proto.Int64(g(1)),
		HotDuration: proto.Int64(g(2)), WarmDuration: proto.Int64(g(3)), IndexColdDuration: proto.Int64(g(4)),
		IndexGroupDuration: proto.Int64(g(5)), ShardMergeDuration: proto.Int64(g(6)), ReplicaN: proto.Uint32(rn),
	}
}

func vwSki(typ int64, keys []string) *proto2.ShardKeyInfo {
	switch typ {
	case 1:
		return &proto2.ShardKeyInfo{ShardKey: keys, Type: proto.String(meta2.HASH)}
	case 2:
		return &proto2.ShardKeyInfo{ShardKey: keys, Type: proto.String(meta2.RANGE)}
	case 3:
		return &proto2.ShardKeyInfo{ShardKey: keys, Type: proto.String("bogus")}
	}
	return nil
}

// ---- selectors -----------------------------------------------------------------------

func vwPick(cands []uint64, sel int) uint64 {
	if sel < 0 {
		return uint64(-sel)
	}
	if len(cands) == 0 {
		return uint64(sel)
	}
	return cands[sel%len(cands)]
}

func vwRP(d *meta2.Data, db, rp string) *meta2.RetentionPolicyInfo {
	dbi := d.Databases[db]
	if dbi == nil {
		return nil
	}
	if rp == "" {
		rp = dbi.DefaultRetentionPolicy
	}
	return dbi.RetentionPolicies[rp]
}

func vwSGIDs(d *meta2.Data, db, rp string, deletedOnly bool) []uint64 {
	r := vwRP(d, db, rp)
	if r == nil {
		return nil
	}
	var out []uint64
	for i := range r.ShardGroups {
		if deletedOnly && !r.ShardGroups[i].Deleted() {
			continue
		}
		out = append(out, r.ShardGroups[i].ID)
	}
	sort.Slice(out, func(a, b int) bool { return out[a] < out[b] })
	return out
}

func vwShardIDs(d *meta2.Data, db, rp string) []uint64 {
	r := vwRP(d, db, rp)
	if r == nil {
		return nil
	}
	var out []uint64
	for i := range r.ShardGroups {
		for j := range r.ShardGroups[i].Shards {
			out = append(out, r.ShardGroups[i].Shards[j].ID)
		}
	}
	sort.Slice(out, func(a, b int) bool { return out[a] < out[b] })
	return out
}

func vwIGIDs(d *meta2.Data, db, rp string) []uint64 {
	r := vwRP(d, db, rp)
	if r == nil {
		return nil
	}
	var out []uint64
	for i := range r.IndexGroups {
		out = append(out, r.IndexGroups[i].ID)
	}
	sort.Slice(out, func(a, b int) bool { return out[a] < out[b] })
	return out
}

func vwIndexIDs(d *meta2.Data, db, rp string) []uint64 {
	r := vwRP(d, db, rp)
	if r == nil {
		return nil
	}
	var out []uint64
	for i := range r.IndexGroups {
		for j := range r.IndexGroups[i].Indexes {
			out = append(out, r.IndexGroups[i].Indexes[j].ID)
		}
	}
	sort.Slice(out, func(a, b int) bool { return out[a] < out[b] })
	return out
}

func vwAllShardIDs(d *meta2.Data, deletedGroupsOnly bool) []uint64 {
	var out []uint64
	for _, dbn := range vwSortedDBs(d) {
		db := d.Databases[dbn]
		for _, rpk := range vwSortedRPs(db) {
			r := db.RetentionPolicies[rpk]
			for i := range r.ShardGroups {
				if deletedGroupsOnly && !r.ShardGroups[i].Deleted() {
					continue
				}
				for j := range r.ShardGroups[i].Shards {
					out = append(out, r.ShardGroups[i].Shards[j].ID)
				}
			}
		}
	}
	sort.Slice(out, func(a, b int) bool { return out[a] < out[b] })
	return out
}

func vwAllIndexIDs(d *meta2.Data, deletedGroupsOnly bool) []uint64 {
	var out []uint64
	for _, dbn := range vwSortedDBs(d) {
		db := d.Databases[dbn]
		for _, rpk := range vwSortedRPs(db) {
			r := db.RetentionPolicies[rpk]
			for i := range r.IndexGroups {
				if deletedGroupsOnly && !r.IndexGroups[i].Deleted() {
					continue
				}
				for j := range r.IndexGroups[i].Indexes {
					out = append(out, r.IndexGroups[i].Indexes[j].ID)
				}
			}
		}
	}
	sort.Slice(out, func(a, b int) bool { return out[a] < out[b] })
	return out
}

func vwNodeIDs(ns []meta2.DataNode) []uint64 {
	var out []uint64
	for i := range ns {
		out = append(out, ns[i].ID)
	}
	sort.Slice(out, func(a, b int) bool { return out[a] < out[b] })
	return out
}

func vwMetaNodeIDs(d *meta2.Data) []uint64 {
	var out []uint64
	for i := range d.MetaNodes {
		out = append(out, d.MetaNodes[i].ID)
	}
	sort.Slice(out, func(a, b int) bool { return out[a] < out[b] })
	return out
}

// vwBuild translates one op into the protobuf commands it stands for.
func vwBuild(o VWOp, d *meta2.Data) []*proto2.Command {
	one := func(c *proto2.Command) []*proto2.Command { return []*proto2.Command{c} }
	switch o.K {
	case "create_db":
		// the meta handler first proposes CreateDbPtView, then CreateDatabase (handlers_process.go:createDatabase)
		rn := uint32(o.n(8))
		pv := vwCmd(proto2.Command_CreateDbPtViewCommand, proto2.E_CreateDbPtViewCommand_Command,
			&proto2.CreateDbPtViewCommand{DbName: proto.String(o.DB), ReplicaNum: proto.Uint32(rn)})
		c := &proto2.CreateDatabaseCommand{Name: proto.String(o.DB), ReplicaNum: proto.Uint32(rn), EnableTagArray: proto.Bool(o.b(1))}
		if o.b(0) {
			c.RetentionPolicy = vwRPInfo(o.RP, o.N)
		}
		if o.n(9) != 0 {
			c.Ski = vwSki(o.n(9), o.S)
		}
		if o.b(2) {
			c.Options = &proto2.ObsOptions{Enabled: proto.Bool(true), BucketName: proto.String("bk-" + o.DB), Endpoint: proto.String("ep"), BasePath: proto.String("/b")}
		}
		return []*proto2.Command{pv, vwCmd(proto2.Command_CreateDatabaseCommand, proto2.E_CreateDatabaseCommand_Command, c)}
	case "create_ptview":
		return one(vwCmd(proto2.Command_CreateDbPtViewCommand, proto2.E_CreateDbPtViewCommand_Command,
			&proto2.CreateDbPtViewCommand{DbName: proto.String(o.DB), ReplicaNum: proto.Uint32(uint32(o.n(0)))}))
	case "mark_db_delete":
		return one(vwCmd(proto2.Command_MarkDatabaseDeleteCommand, proto2.E_MarkDatabaseDeleteCommand_Command, &proto2.MarkDatabaseDeleteCommand{Name: proto.String(o.DB)}))
	case "drop_db":
		return one(vwCmd(proto2.Command_DropDatabaseCommand, proto2.E_DropDatabaseCommand_Command, &proto2.DropDatabaseCommand{Name: proto.String(o.DB)}))
	case "create_rp":
		return one(vwCmd(proto2.Command_CreateRetentionPolicyCommand, proto2.E_CreateRetentionPolicyCommand_Command,
			&proto2.CreateRetentionPolicyCommand{Database: proto.String(o.DB), RetentionPolicy: vwRPInfo(o.RP, o.N), DefaultRP: proto.Bool(o.b(0))}))
	case "mark_rp_delete":
		return one(vwCmd(proto2.Command_MarkRetentionPolicyDeleteCommand, proto2.E_MarkRetentionPolicyDeleteCommand_Command,
			&proto2.MarkRetentionPolicyDeleteCommand{Database: proto.String(o.DB), Name: proto.String(o.RP)}))
	case "drop_rp":
		return one(vwCmd(proto2.Command_DropRetentionPolicyCommand, proto2.E_DropRetentionPolicyCommand_Command,
			&proto2.DropRetentionPolicyCommand{Database: proto.String(o.DB), Name: proto.String(o.RP)}))
	case "set_default_rp":
		return one(vwCmd(proto2.Command_SetDefaultRetentionPolicyCommand, proto2.E_SetDefaultRetentionPolicyCommand_Command,
			&proto2.SetDefaultRetentionPolicyCommand{Database: proto.String(o.DB), Name: proto.String(o.RP)}))
	case "update_rp":
		// N[0] is a bit mask of the optional fields that are present
		c := &proto2.UpdateRetentionPolicyCommand{Database: proto.String(o.DB), Name: proto.String(o.RP), MakeDefault: proto.Bool(o.b(0))}
		m := o.n(0)
		if o.Nm != "" {
			c.NewName = proto.String(o.Nm)
		}
		if m&1 != 0 {
			c.Duration = proto.Int64(o.n(1))
		}
		if m&2 != 0 {
			c.ShardGroupDuration = proto.Int64(o.n(2))
		}
		if m&4 != 0 {
			c.HotDuration = proto.Int64(o.n(3))
		}
		if m&8 != 0 {
			c.WarmDuration = proto.Int64(o.n(4))
		}
		if m&16 != 0 {
			c.IndexGroupDuration = proto.Int64(o.n(5))
		}
		if m&32 != 0 {
			c.IndexColdDuration = proto.Int64(o.n(6))
		}
		if m&64 != 0 {
			c.ReplicaN = proto.Uint32(uint32(o.n(7)))
		}
		return one(vwCmd(proto2.Command_UpdateRetentionPolicyCommand, proto2.E_UpdateRetentionPolicyCommand_Command, c))
	case "create_mst":
		// N: [skiType, initShards, engineType, ttl, colstore(0/1), indexRel(0/1), fieldTypes...]; S: shard keys up to "|", then field names
		keys, fields := vwSplit(o.S)
		c := &proto2.CreateMeasurementCommand{DBName: proto.String(o.DB), RpName: proto.String(o.RP), Name: proto.String(o.Nm),
			EngineType: proto.Uint32(uint32(o.n(2))), InitNumOfShards: proto.Int32(int32(o.n(1)))}
		c.Ski = vwSki(o.n(0), keys)
		for i, f := range fields {
			fs := &proto2.FieldSchema{FieldName: proto.String(f), FieldType: proto.Int32(int32(o.n(6 + i)))}
			if o.b(0) {
				fs.EndTime = proto.Int32(int32(1 + i))
			}
			c.SchemaInfo = append(c.SchemaInfo, fs)
		}
		if o.n(3) != 0 {
			c.Options = &proto2.Options{Ttl: proto.Int64(o.n(3)), SplitChar: proto.String(","), TagsSplit: proto.String(";")}
		}
		if o.n(4) != 0 {
			c.ColStoreInfo = &proto2.ColStoreInfo{PrimaryKey: []string{"f0"}, SortKey: []string{"f0"}, TimeClusterDuration: proto.Int64(0), CompactionType: proto.Int32(1)}
		}
		if o.n(5) != 0 {
			c.IR = &proto2.IndexRelation{Rid: proto.Uint32(0), Oid: []uint32{4}, IndexName: []string{"field"},
				IndexLists: []*proto2.IndexList{{IList: []string{"f0"}}}, IndexOptions: []*proto2.IndexOptions{{Infos: []*proto2.IndexOption{{Tokens: proto.String(" "), Tokenizers: proto.String("std"), TimeClusterDuration: proto.Int64(0)}}}}}
		}
		return one(vwCmd(proto2.Command_CreateMeasurementCommand, proto2.E_CreateMeasurementCommand_Command, c))
	case "alter_shard_key":
		return one(vwCmd(proto2.Command_AlterShardKeyCmd, proto2.E_AlterShardKeyCmd_Command,
			&proto2.AlterShardKeyCmd{DBName: proto.String(o.DB), RpName: proto.String(o.RP), Name: proto.String(o.Nm), Ski: vwSki(o.n(0), o.S)}))
	case "update_schema":
		c := &proto2.UpdateSchemaCommand{Database: proto.String(o.DB), RpName: proto.String(o.RP), Measurement: proto.String(o.Nm)}
		for i, f := range o.S {
			fs := &proto2.FieldSchema{FieldName: proto.String(f), FieldType: proto.Int32(int32(o.n(2 * i)))}
			if et := o.n(2*i + 1); et != 0 {
				fs.EndTime = proto.Int32(int32(et))
			}
			c.FieldToCreate = append(c.FieldToCreate, fs)
		}
		return one(vwCmd(proto2.Command_UpdateSchemaCommand, proto2.E_UpdateSchemaCommand_Command, c))
	case "mark_mst_delete":
		return one(vwCmd(proto2.Command_MarkMeasurementDeleteCommand, proto2.E_MarkMeasurementDeleteCommand_Command,
			&proto2.MarkMeasurementDeleteCommand{Database: proto.String(o.DB), Policy: proto.String(o.RP), Measurement: proto.String(o.Nm)}))
	case "drop_mst":
		// the deleter passes the versioned name; resolve the current version (or use version N[0])
		nv := influx.GetNameWithVersion(o.Nm, uint32(o.n(0)))
		if r := vwRP(d, o.DB, o.RP); r != nil && !o.b(0) {
			if v, ok := r.MstVersions[o.Nm]; ok {
				nv = v.NameWithVersion
			}
		}
		return one(vwCmd(proto2.Command_DropMeasurementCommand, proto2.E_DropMeasurementCommand_Command,
			&proto2.DropMeasurementCommand{Database: proto.String(o.DB), Policy: proto.String(o.RP), Measurement: proto.String(nv)}))
	case "update_mst":
		return one(vwCmd(proto2.Command_UpdateMeasurementCommand, proto2.E_UpdateMeasurementCommand_Command,
			&proto2.UpdateMeasurementCommand{Db: proto.String(o.DB), Rp: proto.String(o.RP), Mst: proto.String(o.Nm),
				Options: &proto2.Options{Ttl: proto.Int64(o.n(0)), SplitChar: proto.String("|")}}))
	case "create_sg":
		return one(vwCmd(proto2.Command_CreateShardGroupCommand, proto2.E_CreateShardGroupCommand_Command,
			&proto2.CreateShardGroupCommand{Database: proto.String(o.DB), Policy: proto.String(o.RP), Timestamp: proto.Int64(o.n(0)),
				ShardTier: proto.Uint64(uint64(o.n(1))), EngineType: proto.Uint32(uint32(o.n(2))), Version: proto.Uint32(uint32(o.n(3)))}))
	case "delete_sg":
		id := vwPick(vwSGIDs(d, o.DB, o.RP, false), o.Sel)
		c := &proto2.DeleteShardGroupCommand{Database: proto.String(o.DB), Policy: proto.String(o.RP), ShardGroupID: proto.Uint64(id)}
		if o.n(0) != 0 {
			c.DeletedAt = proto.Int64(o.n(0))
		}
		if o.n(1) != 0 {
			c.DeleteType = proto.Int32(int32(o.n(1)))
		}
		return one(vwCmd(proto2.Command_DeleteShardGroupCommand, proto2.E_DeleteShardGroupCommand_Command, c))
	case "prune_sg":
		// the retention service prunes every shard of a deleted shard group, one command per shard
		var out []*proto2.Command
		if r := vwRP(d, o.DB, o.RP); r != nil {
			id := vwPick(vwSGIDs(d, o.DB, o.RP, !o.b(0)), o.Sel)
			for i := range r.ShardGroups {
				if r.ShardGroups[i].ID != id {
					continue
				}
				for j := range r.ShardGroups[i].Shards {
					out = append(out, vwCmd(proto2.Command_PruneGroupsCommand, proto2.E_PruneGroupsCommand_Command,
						&proto2.PruneGroupsCommand{ShardGroup: proto.Bool(true), ID: proto.Uint64(r.ShardGroups[i].Shards[j].ID)}))
				}
			}
		}
		if len(out) == 0 {
			out = one(vwCmd(proto2.Command_PruneGroupsCommand, proto2.E_PruneGroupsCommand_Command,
				&proto2.PruneGroupsCommand{ShardGroup: proto.Bool(true), ID: proto.Uint64(uint64(o.Sel&0xffff) + 1)}))
		}
		return out
	case "prune":
		var id uint64
		if o.b(0) {
			id = vwPick(vwAllShardIDs(d, o.b(1)), o.Sel)
		} else {
			id = vwPick(vwAllIndexIDs(d, o.b(1)), o.Sel)
		}
		return one(vwCmd(proto2.Command_PruneGroupsCommand, proto2.E_PruneGroupsCommand_Command,
			&proto2.PruneGroupsCommand{ShardGroup: proto.Bool(o.b(0)), ID: proto.Uint64(id)}))
	case "delete_ig":
		return one(vwCmd(proto2.Command_DeleteIndexGroupCommand, proto2.E_DeleteIndexGroupCommand_Command,
			&proto2.DeleteIndexGroupCommand{Database: proto.String(o.DB), Policy: proto.String(o.RP), IndexGroupID: proto.Uint64(vwPick(vwIGIDs(d, o.DB, o.RP), o.Sel))}))
	case "shard_tier":
		return one(vwCmd(proto2.Command_UpdateShardInfoTierCommand, proto2.E_UpdateShardInfoTierCommand_Command,
			&proto2.UpdateShardInfoTierCommand{ShardID: proto.Uint64(vwPick(vwShardIDs(d, o.DB, o.RP), o.Sel)), Tier: proto.Uint64(uint64(o.n(0))),
				DbName: proto.String(o.DB), RpName: proto.String(o.RP)}))
	case "index_tier":
		return one(vwCmd(proto2.Command_UpdateIndexInfoTierCommand, proto2.E_UpdateIndexInfoTierCommand_Command,
			&proto2.UpdateIndexInfoTierCommand{IndexID: proto.Uint64(vwPick(vwIndexIDs(d, o.DB, o.RP), o.Sel)), Tier: proto.Uint64(uint64(o.n(0))),
				DbName: proto.String(o.DB), RpName: proto.String(o.RP)}))
	case "shard_ds":
		r := vwRP(d, o.DB, o.RP)
		sid := vwPick(vwShardIDs(d, o.DB, o.RP), o.Sel)
		var sgid uint64
		if r != nil {
			for i := range r.ShardGroups {
				if r.ShardGroups[i].Shard(sid) != nil {
					sgid = r.ShardGroups[i].ID
				}
			}
		}
		return one(vwCmd(proto2.Command_UpdateShardDownSampleInfoCommand, proto2.E_UpdateShardDownSampleInfoCommand_Command,
			&proto2.UpdateShardDownSampleInfoCommand{Ident: &proto2.ShardIdentifier{ShardID: proto.Uint64(sid), ShardGroupID: proto.Uint64(sgid),
				OwnerDb: proto.String(o.DB), OwnerPt: proto.Uint32(0), Policy: proto.String(o.RP), ShardType: proto.String("hash"),
				DownSampleLevel: proto.Int64(o.n(0)), DownSampleID: proto.Uint64(uint64(o.n(1))), ReadOnly: proto.Bool(o.b(0))}}))
	case "create_node":
		return one(vwCmd(proto2.Command_CreateDataNodeCommand, proto2.E_CreateDataNodeCommand_Command,
			&proto2.CreateDataNodeCommand{HTTPAddr: proto.String(o.s(0)), TCPAddr: proto.String(o.s(1)), Role: proto.String(o.s(2)), Az: proto.String(o.s(3))}))
	case "create_sql_node":
		return one(vwCmd(proto2.Command_CreateSqlNodeCommand, proto2.E_CreateSqlNodeCommand_Command,
			&proto2.CreateSqlNodeCommand{HTTPAddr: proto.String(o.s(0)), GossipAddr: proto.String(o.s(1))}))
	case "create_meta_node":
		return one(vwCmd(proto2.Command_CreateMetaNodeCommand, proto2.E_CreateMetaNodeCommand_Command,
			&proto2.CreateMetaNodeCommand{HTTPAddr: proto.String(o.s(0)), RPCAddr: proto.String(o.s(1)), TCPAddr: proto.String(o.s(2)), Rand: proto.Uint64(uint64(o.n(0)))}))
	case "set_meta_node":
		return one(vwCmd(proto2.Command_SetMetaNodeCommand, proto2.E_SetMetaNodeCommand_Command,
			&proto2.SetMetaNodeCommand{HTTPAddr: proto.String(o.s(0)), RPCAddr: proto.String(o.s(1)), TCPAddr: proto.String(o.s(2)), Rand: proto.Uint64(uint64(o.n(0)))}))
	case "delete_meta_node":
		return one(vwCmd(proto2.Command_DeleteMetaNodeCommand, proto2.E_DeleteMetaNodeCommand_Command,
			&proto2.DeleteMetaNodeCommand{ID: proto.Uint64(vwPick(vwMetaNodeIDs(d), o.Sel))}))
	case "delete_data_node":
		return one(vwCmd(proto2.Command_DeleteDataNodeCommand, proto2.E_DeleteDataNodeCommand_Command,
			&proto2.DeleteDataNodeCommand{ID: proto.Uint64(vwPick(vwNodeIDs(d.DataNodes), o.Sel))}))
	case "node_status":
		return one(vwCmd(proto2.Command_UpdateNodeStatusCommand, proto2.E_UpdateNodeStatusCommand_Command,
			&proto2.UpdateNodeStatusCommand{ID: proto.Uint64(vwPick(vwNodeIDs(d.DataNodes), o.Sel)), Status: proto.Int32(int32(o.n(0))),
				Ltime: proto.Uint64(uint64(o.n(1))), GossipAddr: proto.String(o.s(0))}))
	case "sql_node_status":
		return one(vwCmd(proto2.Command_UpdateSqlNodeStatusCommand, proto2.E_UpdateSqlNodeStatusCommand_Command,
			&proto2.UpdateSqlNodeStatusCommand{ID: proto.Uint64(vwPick(vwNodeIDs(d.SqlNodes), o.Sel)), Status: proto.Int32(int32(o.n(0))),
				Ltime: proto.Uint64(uint64(o.n(1))), GossipAddr: proto.String(o.s(0))}))
	case "meta_node_status":
		return one(vwCmd(proto2.Command_UpdateMetaNodeStatusCommand, proto2.E_UpdateMetaNodeStatusCommand_Command,
			&proto2.UpdateMetaNodeStatusCommand{ID: proto.Uint64(vwPick(vwMetaNodeIDs(d), o.Sel)), Status: proto.Int32(int32(o.n(0))),
				Ltime: proto.Uint64(uint64(o.n(1))), GossipAddr: proto.String(o.s(0))}))
	case "remove_node":
		return one(vwCmd(proto2.Command_RemoveNodeCommand, proto2.E_RemoveNodeCommand_Command,
			&proto2.RemoveNodeCommand{NodeIds: []uint64{vwPick(vwNodeIDs(d.DataNodes), o.Sel)}}))
	case "segregate":
		ids := vwNodeIDs(d.DataNodes)
		c := &proto2.SetNodeSegregateStatusCommand{}
		for i, st := range o.N {
			c.NodeIds = append(c.NodeIds, vwPick(ids, o.Sel+i))
			c.Status = append(c.Status, uint64(st))
		}
		return one(vwCmd(proto2.Command_SetNodeSegregateStatusCommand, proto2.E_SetNodeSegregateStatusCommand_Command, c))
	case "verify_node":
		return one(vwCmd(proto2.Command_VerifyDataNodeCommand, proto2.E_VerifyDataNodeCommand_Command,
			&proto2.VerifyDataNodeCommand{NodeID: proto.Uint64(vwPick(vwNodeIDs(d.DataNodes), o.Sel))}))
	case "node_tmp_index":
		ids := vwNodeIDs(d.DataNodes)
		if o.n(0) == 0 {
			ids = vwNodeIDs(d.SqlNodes)
		}
		return one(vwCmd(proto2.Command_UpdateNodeTmpIndexCommand, proto2.E_UpdateNodeTmpIndexCommand_Command,
			&proto2.UpdateNodeTmpIndexCommand{Role: proto.Int32(int32(o.n(0))), Index: proto.Uint64(uint64(o.n(1))), NodeId: proto.Uint64(vwPick(ids, o.Sel))}))
	case "update_pt_info":
		// N: [pt, newStatus, ownerSel, staleOwner, staleStatus]; B[0]: claim the current owner/status (valid) or stale values
		pt := uint32(o.n(0))
		curOwner, curStatus := uint64(o.n(3)), uint32(o.n(4))
		if pv := d.PtView[o.DB]; o.b(0) && int(pt) < len(pv) {
			curOwner, curStatus = pv[pt].Owner.NodeID, uint32(pv[pt].Status)
		}
		owner := curOwner
		if o.n(2) != 0 {
			owner = vwPick(vwNodeIDs(d.DataNodes), int(o.n(2)))
		}
		return one(vwCmd(proto2.Command_UpdatePtInfoCommand, proto2.E_UpdatePtInfoCommand_Command,
			&proto2.UpdatePtInfoCommand{Db: proto.String(o.DB), Pt: &proto2.PtInfo{Owner: &proto2.PtOwner{NodeID: proto.Uint64(curOwner)},
				Status: proto.Uint32(curStatus), PtId: proto.Uint32(pt), Ver: proto.Uint64(1), RGID: proto.Uint32(0)},
				OwnerNode: proto.Uint64(owner), Status: proto.Uint32(uint32(o.n(1)))}))
	case "update_pt_ver":
		return one(vwCmd(proto2.Command_UpdatePtVersionCommand, proto2.E_UpdatePtVersionCommand_Command,
			&proto2.UpdatePtVersionCommand{Db: proto.String(o.DB), Pt: proto.Uint32(uint32(o.n(0)))}))
	case "create_event", "update_event":
		// N: [pt, eventType, currState, preState, src, dest, aliveConnId, opIdDelta]
		pt := uint32(o.n(0))
		eid := fmt.Sprintf("%s$%d", o.DB, pt)
		e := &proto2.MigrateEventInfo{EventId: proto.String(eid), EventType: proto.Int32(int32(o.n(1))), CurrState: proto.Int32(int32(o.n(2))),
			PreState: proto.Int32(int32(o.n(3))), Src: proto.Uint64(uint64(o.n(4))), Dest: proto.Uint64(uint64(o.n(5))),
			AliveConnId: proto.Uint64(uint64(o.n(6))), CheckConflict: proto.Bool(o.b(0)), OpId: proto.Uint64(0)}
		pi := &proto2.PtInfo{Owner: &proto2.PtOwner{NodeID: proto.Uint64(uint64(o.n(4)))}, Status: proto.Uint32(3), PtId: proto.Uint32(pt), Ver: proto.Uint64(1), RGID: proto.Uint32(0)}
		if pv := d.PtView[o.DB]; int(pt) < len(pv) {
			pi = pv[pt].Marshal()
		}
		e.Pti = &proto2.DbPt{Db: proto.String(o.DB), Pt: pi, DBBriefInfo: &proto2.DatabaseBriefInfo{Name: proto.String(o.DB), EnableTagArray: proto.Bool(false), Replicas: proto.Int32(1)}}
		if o.K == "update_event" {
			if ev := d.MigrateEvents[eid]; ev != nil {
				e.OpId = proto.Uint64(uint64(int64(ev.GetOpId()) + o.n(7)))
			} else {
				e.OpId = proto.Uint64(uint64(o.n(7)))
			}
			return one(vwCmd(proto2.Command_UpdateEventCommand, proto2.E_UpdateEventCommand_Command, &proto2.UpdateEventCommand{EventInfo: e}))
		}
		return one(vwCmd(proto2.Command_CreateEventCommand, proto2.E_CreateEventCommand_Command, &proto2.CreateEventCommand{EventInfo: e}))
	case "remove_event":
		return one(vwCmd(proto2.Command_RemoveEventCommand, proto2.E_RemoveEventCommand_Command,
			&proto2.RemoveEventCommand{EventId: proto.String(fmt.Sprintf("%s$%d", o.DB, o.n(0)))}))
	case "create_user":
		return one(vwCmd(proto2.Command_CreateUserCommand, proto2.E_CreateUserCommand_Command,
			&proto2.CreateUserCommand{Name: proto.String(o.Nm), Hash: proto.String(o.s(0)), Admin: proto.Bool(o.b(0)), RwUser: proto.Bool(o.b(1))}))
	case "drop_user":
		return one(vwCmd(proto2.Command_DropUserCommand, proto2.E_DropUserCommand_Command, &proto2.DropUserCommand{Name: proto.String(o.Nm)}))
	case "update_user":
		return one(vwCmd(proto2.Command_UpdateUserCommand, proto2.E_UpdateUserCommand_Command, &proto2.UpdateUserCommand{Name: proto.String(o.Nm), Hash: proto.String(o.s(0))}))
	case "set_priv":
		return one(vwCmd(proto2.Command_SetPrivilegeCommand, proto2.E_SetPrivilegeCommand_Command,
			&proto2.SetPrivilegeCommand{Username: proto.String(o.Nm), Database: proto.String(o.DB), Privilege: proto.Int32(int32(o.n(0)))}))
	case "set_admin_priv":
		return one(vwCmd(proto2.Command_SetAdminPrivilegeCommand, proto2.E_SetAdminPrivilegeCommand_Command,
			&proto2.SetAdminPrivilegeCommand{Username: proto.String(o.Nm), Admin: proto.Bool(o.b(0))}))
	case "create_sub":
		return one(vwCmd(proto2.Command_CreateSubscriptionCommand, proto2.E_CreateSubscriptionCommand_Command,
			&proto2.CreateSubscriptionCommand{Name: proto.String(o.Nm), Database: proto.String(o.DB), RetentionPolicy: proto.String(o.RP),
				Mode: proto.String(o.s(0)), Destinations: o.S[1:]}))
	case "drop_sub":
		return one(vwCmd(proto2.Command_DropSubscriptionCommand, proto2.E_DropSubscriptionCommand_Command,
			&proto2.DropSubscriptionCommand{Name: proto.String(o.Nm), Database: proto.String(o.DB), RetentionPolicy: proto.String(o.RP)}))
	case "create_stream":
		// S: [srcdb, srcrp, srcmst, desdb, desrp, desmst, cond, dims...]; N: [interval, delay, ncalls]
		si := &proto2.StreamInfo{Name: proto.String(o.Nm), ID: proto.Uint64(0), Interval: proto.Int64(o.n(0)), Delay: proto.Int64(o.n(1)),
			SrcMst:  &proto2.StreamMeasurementInfo{Database: proto.String(o.s(0)), RetentionPolicy: proto.String(o.s(1)), Name: proto.String(o.s(2))},
			DesMst:  &proto2.StreamMeasurementInfo{Database: proto.String(o.s(3)), RetentionPolicy: proto.String(o.s(4)), Name: proto.String(o.s(5))},
			Cond:    proto.String(o.s(6)), IsSelectAll: proto.Bool(o.b(0))}
		if len(o.S) > 7 {
			si.Dims = o.S[7:]
		}
		for i := 0; i < int(o.n(2)); i++ {
			si.Calls = append(si.Calls, &proto2.StreamCall{Call: proto.String("sum"), Field: proto.String(fmt.Sprintf("f%d", i)), Alias: proto.String(fmt.Sprintf("sum_f%d", i))})
		}
		return one(vwCmd(proto2.Command_CreateStreamCommand, proto2.E_CreateStreamCommand_Command, &proto2.CreateStreamCommand{StreamInfo: si}))
	case "drop_stream":
		return one(vwCmd(proto2.Command_DropStreamCommand, proto2.E_DropStreamCommand_Command, &proto2.DropStreamCommand{Name: proto.String(o.Nm)}))
	case "create_cq":
		return one(vwCmd(proto2.Command_CreateContinuousQueryCommand, proto2.E_CreateContinuousQueryCommand_Command,
			&proto2.CreateContinuousQueryCommand{Database: proto.String(o.DB), Name: proto.String(o.Nm), Query: proto.String(o.s(0))}))
	case "drop_cq":
		return one(vwCmd(proto2.Command_DropContinuousQueryCommand, proto2.E_DropContinuousQueryCommand_Command,
			&proto2.DropContinuousQueryCommand{Database: proto.String(o.DB), Name: proto.String(o.Nm)}))
	case "cq_report":
		c := &proto2.ContinuousQueryReportCommand{}
		for i, n := range o.S {
			c.CQStates = append(c.CQStates, &proto2.CQState{Name: proto.String(n), LastRunTime: proto.Int64(o.n(i))})
		}
		return one(vwCmd(proto2.Command_ContinuousQueryReportCommand, proto2.E_ContinuousQueryReportCommand_Command, c))
	case "notify_cq_lease":
		return one(vwCmd(proto2.Command_NotifyCQLeaseChangedCommand, proto2.E_NotifyCQLeaseChangedCommand_Command, &proto2.NotifyCQLeaseChangedCommand{}))
	case "create_ds":
		// N: [duration, nPolicies, nCalls, sample0, time0, wm0, sample1, ...]
		info := &proto2.DownSamplePolicyInfo{Duration: proto.Int64(o.n(0)), TaskID: proto.Uint64(0)}
		for i := 0; i < int(o.n(1)); i++ {
			info.DownSamplePolicies = append(info.DownSamplePolicies, &proto2.DownSamplePolicy{SampleInterval: proto.Int64(o.n(3 + 3*i)),
				TimeInterval: proto.Int64(o.n(4 + 3*i)), WaterMark: proto.Int64(o.n(5 + 3*i))})
		}
		for i := 0; i < int(o.n(2)); i++ {
			info.Calls = append(info.Calls, &proto2.DownSampleOperators{AggOps: []string{"sum", "max"}, DataType: proto.Int64(int64(1 + i))})
		}
		return one(vwCmd(proto2.Command_CreateDownSamplePolicyCommand, proto2.E_CreateDownSamplePolicyCommand_Command,
			&proto2.CreateDownSamplePolicyCommand{DownSamplePolicyInfo: info, Database: proto.String(o.DB), Name: proto.String(o.RP)}))
	case "drop_ds":
		return one(vwCmd(proto2.Command_DropDownSamplePolicyCommand, proto2.E_DropDownSamplePolicyCommand_Command,
			&proto2.DropDownSamplePolicyCommand{Database: proto.String(o.DB), RpName: proto.String(o.RP), DropAll: proto.Bool(o.b(0))}))
	case "update_replication":
		// N: [rgId, masterPt, peerPt...]
		c := &proto2.UpdateReplicationCommand{Database: proto.String(o.DB), RepGroupId: proto.Uint32(uint32(o.n(0))), MasterId: proto.Uint32(uint32(o.n(1)))}
		for i := 2; i < len(o.N); i++ {
			c.Peers = append(c.Peers, &proto2.Peer{ID: proto.Uint32(uint32(o.N[i])), Role: proto.Uint32(1)})
		}
		return one(vwCmd(proto2.Command_UpdateReplicationCommand, proto2.E_UpdateReplicationCommand_Command, c))
	case "mark_takeover":
		return one(vwCmd(proto2.Command_MarkTakeoverCommand, proto2.E_MarkTakeoverCommand_Command, &proto2.MarkTakeoverCommand{Enable: proto.Bool(o.b(0))}))
	case "mark_balancer":
		return one(vwCmd(proto2.Command_MarkBalancerCommand, proto2.E_MarkBalancerCommand_Command, &proto2.MarkBalancerCommand{Enable: proto.Bool(o.b(0))}))
	case "expand_groups":
		return one(vwCmd(proto2.Command_ExpandGroupsCommand, proto2.E_ExpandGroupsCommand_Command, &proto2.ExpandGroupsCommand{}))
	case "register_qid":
		return one(vwCmd(proto2.Command_RegisterQueryIDOffsetCommand, proto2.E_RegisterQueryIDOffsetCommand_Command,
			&proto2.RegisterQueryIDOffsetCommand{Host: proto.String(o.s(0))}))
	case "insert_files":
		return one(vwCmd(proto2.Command_InsertFilesCommand, proto2.E_InsertFilesCommand_Command,
			&proto2.InsertFilesCommand{FileInfos: []*proto2.FileInfo{{Sequence: proto.Uint64(1), MstID: proto.Uint64(0), ShardID: proto.Uint64(1)}}}))
	case "resharding":
		// split the newest shard group of a policy (range sharding)
		ids := vwSGIDs(d, o.DB, o.RP, false)
		var id uint64
		if r := vwRP(d, o.DB, o.RP); r != nil && len(r.ShardGroups) > 0 && o.Sel >= 0 && o.Sel%4 != 3 {
			id = r.ShardGroups[len(r.ShardGroups)-1].ID
		} else {
			id = vwPick(ids, o.Sel)
		}
		return one(vwCmd(proto2.Command_ReShardingCommand, proto2.E_ReShardingCommand_Command,
			&proto2.ReShardingCommand{Database: proto.String(o.DB), RpName: proto.String(o.RP), ShardGroupID: proto.Uint64(id), SplitTime: proto.Int64(o.n(0)), ShardBounds: o.S}))
	case "replace_merge_shards":
		// N: [pt, nGroups]: the shards of partition pt in nGroups consecutive shard groups starting at the selected one
		pt := uint32(o.n(0))
		var sids []uint64
		if r := vwRP(d, o.DB, o.RP); r != nil && len(r.ShardGroups) > 0 && o.Sel >= 0 {
			start := o.Sel % len(r.ShardGroups)
			for g := start; g < len(r.ShardGroups) && g < start+int(o.n(1)); g++ {
				for j := range r.ShardGroups[g].Shards {
					sh := &r.ShardGroups[g].Shards[j]
					if len(sh.Owners) > 0 && sh.Owners[0] == pt {
						sids = append(sids, sh.ID)
					}
				}
			}
			if o.b(0) && len(sids) > 1 { // not increasing: invalid
				sids[0], sids[len(sids)-1] = sids[len(sids)-1], sids[0]
			}
		} else {
			sids = []uint64{uint64(-o.Sel), uint64(-o.Sel) + 1}
		}
		return one(vwCmd(proto2.Command_ReplaceMergeShardsCommand, proto2.E_ReplaceMergeShardsCommand_Command,
			&proto2.ReplaceMergeShardsCommand{Db: proto.String(o.DB), Rp: proto.String(o.RP), PtId: proto.Uint32(pt), ShardId: sids}))
	}
	panic(core.InfraPanic("unknown op kind " + o.K))
}

func vwSplit(s []string) (a, b []string) {
	for i, x := range s {
		if x == "|" {
			return s[:i], s[i+1:]
		}
	}
	return s, nil
}

func vwCmdName(c *proto2.Command) string { return c.GetType().String() }
