package meta

// Canonical dump of meta.Data (deterministic walk of all exported state, sorted map
// keys, empty == nil for containers, wall-clock deletion stamps reduced to set/unset),
// diffing of two dumps, and an exact deep copy used for re-synchronising replicas.

import (
	"crypto/sha256"
	"encoding/hex"
	"fmt"
	"reflect"
	"regexp"
	"sort"
	"strconv"
	"strings"
	"time"
	"unsafe"

	meta2 "github.com/openGemini/openGemini/lib/util/lifted/influx/meta"
)

type vwLine struct{ p, v string }

type vwDump struct{ lines []vwLine }

// fields that are deliberately outside the replicated catalogue (see cfg assumptions):
// incremental-sync soft state that Restore carries over from the old in-memory data
// (SetOps) or re-derives (Unmarshal), and config mirrors that are "not persistence".
var vwSkip = map[string]bool{
	"Data.OpsMap": true, "Data.OpsMapMinIndex": true, "Data.OpsMapMaxIndex": true, "Data.OpsToMarshalIndex": true,
	"Data.UpdateNodeTmpIndexCommandStart": true, "Data.SQLite": true, "Data.ExpandShardsEnable": true,
	"DataNode.Index": true,
}

var vwTimeType = reflect.TypeOf(time.Time{})
var vwMigType = reflect.TypeOf(&meta2.MigrateEventInfo{})

func vwDumpData(d *meta2.Data) *vwDump {
	w := &vwDump{lines: make([]vwLine, 0, 512)}
	w.walk("", reflect.ValueOf(d).Elem(), "")
	return w
}

func (w *vwDump) emit(p, v string) { w.lines = append(w.lines, vwLine{p, v}) }

func vwJoin(p, f string) string {
	if p == "" {
		return f
	}
	return p + "." + f
}

func (w *vwDump) walk(path string, v reflect.Value, field string) {
	switch v.Kind() {
	case reflect.Ptr:
		if v.IsNil() {
			w.emit(path, "<nil>")
			return
		}
		if v.Type() == vwMigType {
			m := v.Interface().(*meta2.MigrateEventInfo)
			w.emit(path, "&")
			w.emit(path+".eventType", strconv.Itoa(m.GetEventType()))
			w.emit(path+".opId", strconv.FormatUint(m.GetOpId(), 10))
			w.emit(path+".currState", strconv.Itoa(m.GetCurrentState()))
			w.emit(path+".preState", strconv.Itoa(m.GetPreState()))
			w.emit(path+".src", strconv.FormatUint(m.GetSrc(), 10))
			w.emit(path+".dest", strconv.FormatUint(m.GetDst(), 10))
			w.emit(path+".aliveConnId", strconv.FormatUint(m.GetAliveConnId(), 10))
			w.walk(path+".pt", reflect.ValueOf(m.GetPtInfo()), "pt")
			return
		}
		w.emit(path, "&")
		w.walk(path, v.Elem(), field)
	case reflect.Struct:
		t := v.Type()
		if t == vwTimeType {
			tm := v.Interface().(time.Time)
			switch {
			case field == "DeletedAt":
				if tm.IsZero() {
					w.emit(path, "unset")
				} else {
					w.emit(path, "set")
				}
			case tm.IsZero():
				w.emit(path, "zero-time")
			default:
				// seconds + nanoseconds: UnixNano() wraps for instants outside the int64 range
				w.emit(path, fmt.Sprintf("%d.%09d", tm.Unix(), tm.Nanosecond()))
			}
			return
		}
		if t.PkgPath() == "sync" {
			return
		}
		for i := 0; i < t.NumField(); i++ {
			f := t.Field(i)
			if f.PkgPath != "" { // unexported
				continue
			}
			if vwSkip[t.Name()+"."+f.Name] {
				continue
			}
			p := path
			if !f.Anonymous {
				p = vwJoin(path, f.Name)
			}
			w.walk(p, v.Field(i), f.Name)
		}
	case reflect.Slice, reflect.Array:
		n := v.Len()
		if n == 0 {
			return
		}
		w.emit(path+".#len", strconv.Itoa(n))
		for i := 0; i < n; i++ {
			w.walk(path+"["+strconv.Itoa(i)+"]", v.Index(i), field)
		}
	case reflect.Map:
		if v.Len() == 0 {
			return
		}
		keys := v.MapKeys()
		ks := make([]string, len(keys))
		numeric := true
		for i, k := range keys {
			switch k.Kind() {
			case reflect.String:
				ks[i] = k.String()
				numeric = false
			case reflect.Uint, reflect.Uint8, reflect.Uint16, reflect.Uint32, reflect.Uint64:
				ks[i] = fmt.Sprintf("%020d", k.Uint())
			case reflect.Int, reflect.Int8, reflect.Int16, reflect.Int32, reflect.Int64:
				ks[i] = fmt.Sprintf("%+021d", k.Int())
			default:
				ks[i] = fmt.Sprint(k.Interface())
				numeric = false
			}
		}
		idx := make([]int, len(keys))
		for i := range idx {
			idx[i] = i
		}
		sort.Slice(idx, func(a, b int) bool { return ks[idx[a]] < ks[idx[b]] })
		names := make([]string, len(keys))
		for j, i := range idx {
			if numeric {
				names[j] = strings.TrimLeft(ks[i], "0+")
				if names[j] == "" {
					names[j] = "0"
				}
			} else {
				names[j] = ks[i]
			}
		}
		w.emit(path+".#keys", strings.Join(names, ","))
		for j, i := range idx {
			w.walk(path+"["+names[j]+"]", v.MapIndex(keys[i]), field)
		}
	case reflect.Interface:
		if v.IsNil() {
			w.emit(path, "<nil>")
			return
		}
		w.walk(path, v.Elem(), field)
	case reflect.String:
		w.emit(path, strconv.Quote(v.String()))
	case reflect.Bool:
		w.emit(path, strconv.FormatBool(v.Bool()))
	case reflect.Int, reflect.Int8, reflect.Int16, reflect.Int32, reflect.Int64:
		w.emit(path, strconv.FormatInt(v.Int(), 10))
	case reflect.Uint, reflect.Uint8, reflect.Uint16, reflect.Uint32, reflect.Uint64:
		w.emit(path, strconv.FormatUint(v.Uint(), 10))
	case reflect.Float32, reflect.Float64:
		w.emit(path, strconv.FormatFloat(v.Float(), 'g', -1, 64))
	default:
		w.emit(path, fmt.Sprintf("<%s>", v.Kind()))
	}
}

func (w *vwDump) hash() string {
	h := sha256.New()
	for _, l := range w.lines {
		h.Write([]byte(l.p))
		h.Write([]byte{'='})
		h.Write([]byte(l.v))
		h.Write([]byte{'\n'})
	}
	return hex.EncodeToString(h.Sum(nil))[:12]
}

var vwBracket = regexp.MustCompile(`\[[^\]]*\]`)

// vwGeneral strips keys and indexes from a dump path: the stable class name of a field.
func vwGeneral(p string) string { return vwBracket.ReplaceAllString(p, "") }

func vwIgnoredPath(p string, ignore []string) bool {
	for _, g := range ignore {
		if p == g {
			return true
		}
	}
	return false
}

// vwFieldDiff is one differing field class between two dumps.
type vwFieldDiff struct {
	general string // path with keys / indexes stripped: the stable class of the field
	path    string // first concrete path of this class
	a, b    string
}

// vwMerge walks two dumps in walk order and calls f for every path whose value differs
// (absent on one side = "<absent>").
func vwMerge(a, b *vwDump, f func(p, av, bv string)) {
	ma := make(map[string]string, len(a.lines))
	posb := make(map[string]int, len(b.lines))
	for _, l := range a.lines {
		ma[l.p] = l.v
	}
	for i, l := range b.lines {
		posb[l.p] = i
	}
	j := 0
	flushB := func(upto int) {
		for ; j < upto; j++ {
			if _, ok := ma[b.lines[j].p]; !ok {
				f(b.lines[j].p, "<absent>", b.lines[j].v)
			}
		}
	}
	for _, l := range a.lines {
		if pb, ok := posb[l.p]; ok {
			flushB(pb)
			if b.lines[pb].v != l.v {
				f(l.p, l.v, b.lines[pb].v)
			}
		} else {
			f(l.p, l.v, "<absent>")
		}
	}
	flushB(len(b.lines))
}

// vwDiffAll compares two dumps and returns one entry per differing field class, in walk
// order.  Where a container differs structurally (#keys / #len, nil vs non-nil pointer)
// everything below it is suppressed: it is the same difference.
func vwDiffAll(a, b *vwDump, ignore ...string) []vwFieldDiff {
	var out []vwFieldDiff
	seen := map[string]bool{}
	var cut []string // concrete path prefixes below which differences are suppressed
	suppressed := func(p string) bool {
		for _, c := range cut {
			if strings.HasPrefix(p, c) && (len(p) == len(c) || p[len(c)] == '.' || p[len(c)] == '[') {
				return true
			}
		}
		return false
	}
	vwMerge(a, b, func(p, av, bv string) {
		if vwIgnoredPath(p, ignore) || suppressed(p) {
			return
		}
		if strings.HasSuffix(p, ".#keys") || strings.HasSuffix(p, ".#len") {
			cut = append(cut, p[:strings.LastIndex(p, ".#")])
		} else if av == "<nil>" || bv == "<nil>" || av == "<absent>" || bv == "<absent>" {
			cut = append(cut, p)
		}
		g := vwGeneral(p)
		if seen[g] {
			return
		}
		seen[g] = true
		out = append(out, vwFieldDiff{g, p, av, bv})
	})
	return out
}

// vwDiffText renders up to max differing lines of two dumps.
func vwDiffText(a, b *vwDump, an, bn string, max int, ignore ...string) string {
	var sb strings.Builder
	n := 0
	vwMerge(a, b, func(p, av, bv string) {
		if n >= max || vwIgnoredPath(p, ignore) {
			return
		}
		fmt.Fprintf(&sb, "\n  %s: %s=%s %s=%s", p, an, av, bn, bv)
		n++
	})
	return sb.String()
}

// ---- exact deep copy (including unexported fields) -----------------------------------

func vwCloneData(d *meta2.Data) *meta2.Data {
	n := &meta2.Data{}
	vwCopyInto(reflect.ValueOf(n).Elem(), reflect.ValueOf(d).Elem())
	return n
}

func vwRW(v reflect.Value) reflect.Value {
	return reflect.NewAt(v.Type(), unsafe.Pointer(v.UnsafeAddr())).Elem()
}

// vwCopyInto copies src into dst; both must be addressable.
func vwCopyInto(dst, src reflect.Value) {
	switch src.Kind() {
	case reflect.Ptr:
		if src.IsNil() {
			return
		}
		if strings.HasSuffix(src.Type().Elem().PkgPath(), "/proto") {
			dst.Set(src) // immutable protobuf messages (cached commands) are shared
			return
		}
		n := reflect.New(src.Type().Elem())
		vwCopyInto(n.Elem(), src.Elem())
		dst.Set(n)
	case reflect.Struct:
		t := src.Type()
		if t == vwTimeType {
			dst.Set(src)
			return
		}
		if t.PkgPath() == "sync" || t.PkgPath() == "sync/atomic" {
			return
		}
		for i := 0; i < t.NumField(); i++ {
			vwCopyInto(vwRW(dst.Field(i)), vwRW(src.Field(i)))
		}
	case reflect.Slice:
		if src.IsNil() {
			return
		}
		n := reflect.MakeSlice(src.Type(), src.Len(), src.Len())
		for i := 0; i < src.Len(); i++ {
			vwCopyInto(n.Index(i), src.Index(i))
		}
		dst.Set(n)
	case reflect.Array:
		for i := 0; i < src.Len(); i++ {
			vwCopyInto(dst.Index(i), src.Index(i))
		}
	case reflect.Map:
		if src.IsNil() {
			return
		}
		n := reflect.MakeMapWithSize(src.Type(), src.Len())
		it := src.MapRange()
		for it.Next() {
			sv := reflect.New(src.Type().Elem()).Elem()
			sv.Set(it.Value())
			dv := reflect.New(src.Type().Elem()).Elem()
			vwCopyInto(dv, sv)
			n.SetMapIndex(it.Key(), dv)
		}
		dst.Set(n)
	case reflect.Interface:
		if src.IsNil() {
			return
		}
		e := src.Elem()
		sv := reflect.New(e.Type()).Elem()
		sv.Set(e)
		dv := reflect.New(e.Type()).Elem()
		vwCopyInto(dv, sv)
		dst.Set(dv)
	default:
		dst.Set(src)
	}
}
