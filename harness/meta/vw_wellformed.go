package meta

// C16 — catalogue well-formedness, checked on the live meta.Data of a replica.

import (
	"fmt"
	"sort"
	"time"

	"github.com/influxdata/influxdb/models"
	meta2 "github.com/openGemini/openGemini/lib/util/lifted/influx/meta"
	"github.com/openGemini/openGemini/verifsim/core"
)

type vwProblem struct {
	kind   string
	attrs  map[string]string
	detail string
	key    string // identity of the problem: it is reported when it appears, not while it persists
}

func vwSortedDBs(d *meta2.Data) []string {
	ks := make([]string, 0, len(d.Databases))
	for k := range d.Databases {
		ks = append(ks, k)
	}
	sort.Strings(ks)
	return ks
}

func vwSortedRPs(db *meta2.DatabaseInfo) []string {
	ks := make([]string, 0, len(db.RetentionPolicies))
	for k := range db.RetentionPolicies {
		ks = append(ks, k)
	}
	sort.Strings(ks)
	return ks
}

func vwSortedMsts(rp *meta2.RetentionPolicyInfo) []string {
	ks := make([]string, 0, len(rp.Measurements))
	for k := range rp.Measurements {
		ks = append(ks, k)
	}
	sort.Strings(ks)
	return ks
}

// vwIDs collects every numeric identifier of the catalogue per kind, with a location
// string; the second result lists identifiers that occur more than once.
func vwIDs(d *meta2.Data) (map[string]map[uint64]string, []vwProblem) {
	ids := map[string]map[uint64]string{"measurement": {}, "shardgroup": {}, "shard": {}, "indexgroup": {}, "index": {}}
	var dups []vwProblem
	add := func(kind string, id uint64, where string) {
		if prev, ok := ids[kind][id]; ok {
			dups = append(dups, vwProblem{"duplicate_id", map[string]string{"idkind": kind},
				fmt.Sprintf("%s id %d occurs twice in one catalogue: at %s and at %s", kind, id, prev, where), fmt.Sprintf("dup|%s|%d", kind, id)})
			return
		}
		ids[kind][id] = where
	}
	for _, dbn := range vwSortedDBs(d) {
		db := d.Databases[dbn]
		if db == nil {
			continue
		}
		names := map[string]string{}
		for _, rpk := range vwSortedRPs(db) {
			rp := db.RetentionPolicies[rpk]
			if rp == nil {
				continue
			}
			loc := dbn + "." + rpk
			if prev, ok := names[rp.Name]; ok {
				dups = append(dups, vwProblem{"duplicate_id", map[string]string{"idkind": "policy"},
					fmt.Sprintf("database %s holds two retention policies named %q (map keys %q and %q)", dbn, rp.Name, prev, rpk), "duprp|" + dbn + "|" + rp.Name})
			}
			names[rp.Name] = rpk
			mnames := map[string]string{}
			for _, mk := range vwSortedMsts(rp) {
				m := rp.Measurements[mk]
				if m == nil {
					continue
				}
				add("measurement", m.ID, loc+"."+mk)
				if prev, ok := mnames[m.Name]; ok {
					dups = append(dups, vwProblem{"duplicate_id", map[string]string{"idkind": "measurement_name"},
						fmt.Sprintf("policy %s holds two measurements named %q (map keys %q and %q)", loc, m.Name, prev, mk), "dupmst|" + loc + "|" + m.Name})
				}
				mnames[m.Name] = mk
			}
			for i := range rp.ShardGroups {
				sg := &rp.ShardGroups[i]
				add("shardgroup", sg.ID, loc)
				for j := range sg.Shards {
					add("shard", sg.Shards[j].ID, fmt.Sprintf("%s sg%d", loc, sg.ID))
				}
			}
			for i := range rp.IndexGroups {
				ig := &rp.IndexGroups[i]
				add("indexgroup", ig.ID, loc)
				for j := range ig.Indexes {
					add("index", ig.Indexes[j].ID, fmt.Sprintf("%s ig%d", loc, ig.ID))
				}
			}
		}
	}
	return ids, dups
}

func vwSGString(sg *meta2.ShardGroupInfo) string {
	del := ""
	if sg.Deleted() {
		del = " deleted"
	}
	return fmt.Sprintf("{id=%d engine=%d [%s,%s)%s}", sg.ID, sg.EngineType, sg.StartTime.UTC().Format(time.RFC3339Nano), sg.EndTime.UTC().Format(time.RFC3339Nano), del)
}

// vwWellFormed checks the structural clauses of C16 on one catalogue.
func vwWellFormed(d *meta2.Data) []vwProblem {
	var out []vwProblem
	for _, dbn := range vwSortedDBs(d) {
		db := d.Databases[dbn]
		if db == nil {
			out = append(out, vwProblem{"dangling_reference", map[string]string{"ref": "database_nil"}, "Databases[" + dbn + "] is nil", "dbnil|" + dbn})
			continue
		}
		// default policy exists
		if db.DefaultRetentionPolicy != "" {
			if _, ok := db.RetentionPolicies[db.DefaultRetentionPolicy]; !ok {
				out = append(out, vwProblem{"dangling_reference", map[string]string{"ref": "default_policy"},
					fmt.Sprintf("database %s: default retention policy %q does not exist (policies: %v)", dbn, db.DefaultRetentionPolicy, vwSortedRPs(db)), "defrp|" + dbn + "|" + db.DefaultRetentionPolicy})
			}
		}
		pts := d.PtView[dbn]
		for _, rpk := range vwSortedRPs(db) {
			rp := db.RetentionPolicies[rpk]
			if rp == nil {
				continue
			}
			loc := dbn + "." + rpk
			// sorted
			sgs := meta2.ShardGroupInfos(rp.ShardGroups)
			for i := 0; i+1 < len(sgs); i++ {
				if sgs.Less(i+1, i) {
					out = append(out, vwProblem{"unsorted_shard_groups", nil,
						fmt.Sprintf("%s: shard groups are not sorted: position %d %s comes before position %d %s", loc, i, vwSGString(&sgs[i]), i+1, vwSGString(&sgs[i+1])), fmt.Sprintf("unsorted|%d|%d", sgs[i].ID, sgs[i+1].ID)})
					break
				}
			}
			// live groups of one engine kind pairwise disjoint
			for i := range rp.ShardGroups {
				a := &rp.ShardGroups[i]
				if a.Deleted() {
					continue
				}
				for j := i + 1; j < len(rp.ShardGroups); j++ {
					b := &rp.ShardGroups[j]
					if b.Deleted() || b.EngineType != a.EngineType {
						continue
					}
					if a.StartTime.Before(b.EndTime) && b.StartTime.Before(a.EndTime) {
						out = append(out, vwProblem{"overlapping_shard_groups", nil,
							fmt.Sprintf("%s (ShardGroupDuration now %s): live shard groups overlap: %s and %s", loc, rp.ShardGroupDuration, vwSGString(a), vwSGString(b)),
							fmt.Sprintf("overlap|%d|%d", a.ID, b.ID)})
					}
				}
			}
			// references: shard -> index, shard -> owner partitions
			idx := map[uint64]bool{}
			for i := range rp.IndexGroups {
				for j := range rp.IndexGroups[i].Indexes {
					idx[rp.IndexGroups[i].Indexes[j].ID] = true
				}
			}
			for i := range rp.ShardGroups {
				badIdx, badPt := false, false
				sg := &rp.ShardGroups[i]
				state := "live"
				if sg.Deleted() {
					state = "deleted"
				}
				for j := range sg.Shards {
					sh := &sg.Shards[j]
					if !idx[sh.IndexID] && !badIdx {
						badIdx = true
						out = append(out, vwProblem{"dangling_reference", map[string]string{"ref": "shard_index", "sg_state": state},
							fmt.Sprintf("%s: shard %d of %s shard group %d refers to index %d which is in no index group of the policy", loc, sh.ID, state, sg.ID, sh.IndexID),
							fmt.Sprintf("shidx|%d", sg.ID)})
					}
					for _, pt := range sh.Owners {
						if (int(pt) >= len(pts) || pts[pt].PtId != pt) && !badPt {
							badPt = true
							out = append(out, vwProblem{"dangling_reference", map[string]string{"ref": "shard_owner_pt", "sg_state": state},
								fmt.Sprintf("%s: shard %d of %s shard group %d is owned by partition %d, PtView[%s] has %d partitions", loc, sh.ID, state, sg.ID, pt, dbn, len(pts)),
								fmt.Sprintf("shpt|%d", sg.ID)})
						}
					}
				}
			}
		}
	}
	return out
}

// vwAlignedAtCreation checks a shard group created by CreateShardGroupCommand against the
// policy's group duration at that moment.
func vwAlignedAtCreation(sg *meta2.ShardGroupInfo, dur time.Duration) bool {
	if dur <= 0 {
		return true
	}
	if lo := time.Unix(0, models.MinNanoTime); sg.StartTime.Equal(lo) {
		// lower edge of the representable range: like the upper edge, the span is cut there
		// (the aligned start would lie before the smallest expressible instant)
		alignedStart := sg.EndTime.Add(-dur)
		return sg.EndTime.Truncate(dur).Equal(sg.EndTime) && !alignedStart.After(lo)
	}
	if !sg.StartTime.Truncate(dur).Equal(sg.StartTime) {
		return false
	}
	end := sg.StartTime.Add(dur)
	if end.After(time.Unix(0, models.MaxNanoTime)) {
		return sg.EndTime.Equal(time.Unix(0, models.MaxNanoTime+1))
	}
	return sg.EndTime.Equal(end)
}

func vwViolation(prop string, p vwProblem, extra map[string]string, prefix string) *core.Violation {
	at := map[string]string{}
	for k, v := range p.attrs {
		at[k] = v
	}
	for k, v := range extra {
		if _, ok := at[k]; !ok {
			at[k] = v
		}
	}
	return &core.Violation{Property: prop, Kind: p.kind, Detail: prefix + p.detail, Attrs: at}
}
