package engine

// C09: aggregates served by the engine's push-down path (per-segment statistics
// where the shortcut applies, cursor-level aggregation otherwise) must equal the
// function applied to the rows the plain select returns.

import (
	"fmt"
	"math"
	"sort"
	"strings"

	"github.com/openGemini/openGemini/engine/immutable"
	"github.com/openGemini/openGemini/lib/util/lifted/influx/influxql"
	"github.com/openGemini/openGemini/verifsim/core"
)

var sAggFuncs = map[string][]string{
	"fi": {"count", "sum", "min", "max", "first", "last"},
	"ff": {"count", "sum", "min", "max", "first", "last"},
	"fs": {"count", "first", "last"},
	"fb": {"count", "first", "last"},
}

type sAggKey struct {
	group  string
	bucket int64
}

// refAggregate applies fn to the rows of a plain select (grouped by series and,
// with interval > 0, by epoch-aligned bucket).
// alternatives: other acceptable answers (ties on the extreme timestamp / value).
var sAggAlt map[sAggKey][]sVal

func refAggregate(rows map[string][]sDumpRow, field, fn string, interval int64) map[sAggKey]sVal {
	sAggAlt = map[sAggKey][]sVal{}
	type acc struct {
		n           int64
		si          int64
		sf          float64
		min, max    sVal
		first, last sVal
		ft, lt      int64
		has         bool
		firsts      []sVal // all values at the earliest timestamp (several series of one group may tie)
		lasts       []sVal
	}
	accs := map[sAggKey]*acc{}
	for g, rs := range rows {
		for _, r := range rs {
			v, ok := r.Fields[field]
			if !ok {
				continue
			}
			k := sAggKey{group: g}
			if interval > 0 {
				k.bucket = r.Time - ((r.Time%interval)+interval)%interval
			}
			a := accs[k]
			if a == nil {
				a = &acc{}
				accs[k] = a
			}
			a.n++
			switch v.Typ {
			case influxql.Integer:
				a.si += v.I
				if !a.has || v.I < a.min.I {
					a.min = v
				}
				if !a.has || v.I > a.max.I {
					a.max = v
				}
			case influxql.Float:
				a.sf += v.F
				if !a.has || v.F < a.min.F {
					a.min = v
				}
				if !a.has || v.F > a.max.F {
					a.max = v
				}
			}
			if !a.has || r.Time < a.ft {
				a.first, a.ft = v, r.Time
				a.firsts = a.firsts[:0]
			}
			if r.Time == a.ft {
				a.firsts = append(a.firsts, v)
			}
			if !a.has || r.Time > a.lt {
				a.last, a.lt = v, r.Time
				a.lasts = a.lasts[:0]
			}
			if r.Time == a.lt {
				a.lasts = append(a.lasts, v)
			}
			a.has = true
		}
	}
	out := map[sAggKey]sVal{}
	for k, a := range accs {
		switch fn {
		case "count":
			out[k] = sVal{Typ: influxql.Integer, I: a.n}
		case "sum":
			if a.min.Typ == influxql.Integer {
				out[k] = sVal{Typ: influxql.Integer, I: a.si}
			} else {
				out[k] = sVal{Typ: influxql.Float, F: a.sf}
			}
		case "min":
			out[k] = a.min
		case "max":
			out[k] = a.max
		case "first":
			out[k] = a.first
			sAggAlt[k] = a.firsts
		case "last":
			out[k] = a.last
			sAggAlt[k] = a.lasts
		}
	}
	return out
}

func aggValEq(a, b sVal) bool {
	if a.Typ == influxql.Float && b.Typ == influxql.Float {
		if a.F == b.F {
			return true
		}
		d := math.Abs(a.F - b.F)
		return d <= 1e-9*math.Max(math.Abs(a.F), math.Abs(b.F))
	}
	return a.equal(b)
}

// aggChecks issues seeded (aggregate, plain select) pairs and compares them.
func aggChecks(env *core.Env, sh *shard, model *sModel, c SCase, r *core.Rand, out *core.Outcome, prop string, i int, after string, n int, multiGen func(m int, tmin, tmax int64) bool) *core.Violation {
	for k := 0; k < n; k++ {
		m := r.Intn(c.NMst)
		field := core.Pick(r, sFieldNames)
		fn := core.Pick(r, sAggFuncs[field])
		_ = core.Pick(r, []int{1, 3, 1024})
		_ = core.Pick(r, []int{1, 4})
		q := &sQuery{Mst: m, Call: fn, CallField: field, ChunkSize: 1024, Parallel: 1}
		full := int64(1) << 62
		q.TMin, q.TMax = -full, full
		if r.Bool(0.7) {
			a, b := r.Intn(sNumTimes+4)-2, r.Intn(sNumTimes+4)-2
			if a > b {
				a, b = b, a
			}
			q.TMin, q.TMax = sTime(a), sTime(b)
		}
		if r.Bool(0.35) {
			// two calls in one statement (sparse fields make their statistics differ)
			f2 := core.Pick(r, sFieldNames)
			fn2 := core.Pick(r, sAggFuncs[f2])
			if !(f2 == field && fn2 == fn) {
				q.Call2, q.CallField2 = fn2, f2
			}
		}
		form := "bare"
		switch r.Intn(4) {
		case 1:
			q.Exact = true
			form = "exact"
		case 2:
			q.Interval = int64(core.Pick(r, []int{2, 5, 7, 24})) * sStep
			form = "interval"
		case 3:
			// a field filter that keeps everything the model can hold for that field,
			// so that the plain select with the same filter is directly comparable
			q.Where = "fi > -9000000000000000"
			form = "filter"
		}
		// one third of the pairs group by host only: a tag set then holds several series and the store-level
		// AggTagSetCursor merges their partial results (seeded change C09-c lived there); drawn from a generator of
		// its own so that the other draws of the check are what they were
		if core.NewRand(uint64(q.TMin)*31+uint64(q.TMax)*17+uint64(i)*7+uint64(k)).Intn(3) == 0 && c.NSeries > 1 {
			q.GroupTags = []string{"host"}
		}
		// otherwise grouping is by all tags: one group = one series, so that no cross-series
		// merge operator of the query layer (not assembled in this world) is needed
		// ORDER BY time DESC is not combined with calls here: at the store level it makes
		// first/last answer from the other end, and whether the query layer compensates is
		// outside this world (recorded in the cfg as not covered)
		if v := checkAggPair(sh, q, form, out, prop, i, after, multiGen); v != nil {
			v.Attrs["phase"] = "live"
			// listed findings are stepped over in replays and minimisation candidates too (the core takes the finding a
			// replay file is about out of the list): otherwise a new class that follows a listed one in the same history
			// never replays and is dropped as "unconfirmed" (the first() variant of C09-*-multi-series-tagset-chunk-time was)
			if env != nil && env.KnownID(v, out) != "" {
				continue // a listed finding: counted, stepped over
			}
			return v
		}
	}
	return nil
}

func checkAggPair(sh *shard, q *sQuery, form string, out *core.Outcome, prop string, i int, after string, multiGen func(m int, tmin, tmax int64) bool) *core.Violation {
	at := map[string]string{"after": after, "form": form, "fn": q.Call, "ftype": q.CallField}
	if q.Call2 != "" {
		at["calls"] = "2"
	}
	if len(q.GroupTags) == 1 && q.GroupTags[0] == "host" {
		at["group"] = "host" // a tag set may hold several series (absent for the all-tags grouping: one series per group)
	}
	// plain select over the same filter, range and grouping
	fields := []string{q.CallField}
	addField := func(f string) {
		for _, x := range fields {
			if x == f {
				return
			}
		}
		fields = append(fields, f)
	}
	if q.Call2 != "" {
		addField(q.CallField2)
	}
	if q.Where != "" {
		addField("fi")
	}
	pq := &sQuery{Mst: q.Mst, Fields: fields, TMin: q.TMin, TMax: q.TMax, Where: q.Where, GroupTags: q.GroupTags, ChunkSize: 1024, Parallel: 1}
	plain, _, err := selectRows(sh, pq)
	out.Stats["reads"]++
	if err != nil {
		return sviol(prop, "read_error", fmt.Sprintf("after op %d (%s): %v", i, after, err), at)
	}
	if form == "bare" && multiGen != nil && multiGen(q.Mst, q.TMin, q.TMax) {
		// the statement excludes the bare form for histories that wrote a (series, timestamp)
		// in more than one flush generation (documented double counting)
		out.Stats["agg_pairs_skipped_multi_generation"]++
		return nil
	}
	rows, err := runQuery(sh, q)
	out.Stats["agg_pairs"]++
	out.Stats["agg_"+form]++
	if q.Call2 != "" {
		out.Stats["agg_two_calls"]++
	}
	if err != nil {
		return sviol(prop, "agg_read_error", fmt.Sprintf("after op %d (%s): %v", i, after, err), at)
	}
	type callT struct{ fn, field string }
	calls := []callT{{q.Call, q.CallField}}
	if q.Call2 != "" {
		calls = append(calls, callT{q.Call2, q.CallField2})
	}
	for ci, cl := range calls {
		want := refAggregate(plain, cl.field, cl.fn, q.Interval)
		alts := sAggAlt
		at["fn"], at["ftype"] = cl.fn, cl.field
		got := map[sAggKey]sVal{}
		gotTime := map[sAggKey]int64{}
		for _, r := range rows {
			if len(r.Vals) <= ci || r.Vals[ci] == nil {
				continue
			}
			k := sAggKey{group: r.Group}
			if q.Interval > 0 {
				k.bucket = r.Time - ((r.Time%q.Interval)+q.Interval)%q.Interval
			}
			if _, dup := got[k]; dup {
				return sviol(prop, "agg_duplicate_group", fmt.Sprintf("after op %d (%s): %s returned two rows for group %s bucket %d", i, after, q.text(), k.group, k.bucket), at)
			}
			got[k] = *r.Vals[ci]
			gotTime[k] = r.Time
		}
		var keys []sAggKey
		seen := map[sAggKey]bool{}
		for k := range want {
			keys = append(keys, k)
			seen[k] = true
		}
		for k := range got {
			if !seen[k] {
				keys = append(keys, k)
			}
		}
		sort.Slice(keys, func(a, b int) bool {
			if keys[a].group != keys[b].group {
				return keys[a].group < keys[b].group
			}
			return keys[a].bucket < keys[b].bucket
		})
		for _, k := range keys {
			w, wok := want[k]
			g, gok := got[k]
			desc := fmt.Sprintf("%s [t%d..t%d] column %d = %s(%s) group %s", q.text(), (q.TMin-sBaseTime)/sStep, (q.TMax-sBaseTime)/sStep, ci, cl.fn, cl.field, k.group)
			if q.Interval > 0 {
				desc += fmt.Sprintf(" bucket t%d", (k.bucket-sBaseTime)/sStep)
			}
			switch {
			case wok && !gok:
				n := 0
				for _, r := range plain[k.group] {
					if _, ok := r.Fields[cl.field]; ok {
						n++
					}
				}
				return sviol(prop, "agg_missing_group", fmt.Sprintf("after op %d (%s): %s: no aggregate value, but the plain select has %d matching rows (expected %s)\n  files: %s", i, after, desc, n, w, fileLayout(sh, q.Mst)), at)
			case !wok && gok:
				if cl.fn == "count" && g.I == 0 {
					continue
				}
				return sviol(prop, "agg_extra_group", fmt.Sprintf("after op %d (%s): %s: aggregate value %s, but the plain select returns no value for the field\n  files: %s", i, after, desc, g, fileLayout(sh, q.Mst)), at)
			case !aggValEq(g, w):
				tie := false
				for _, alt := range alts[k] {
					if aggValEq(g, alt) {
						tie = true
					}
				}
				if tie {
					out.Stats["agg_ties_accepted"]++
					continue
				}
				at["ooo_ahead"] = fmt.Sprint(oooAhead(sh, q.Mst))
				if at["group"] == "host" {
					at["series_in_group"] = seriesInGroup(sh, pq, k.group, cl.field)
				}
				if (cl.fn == "first" || cl.fn == "last") && q.Call2 == "" && q.Interval == 0 {
					at["sel_time"] = selTimeAttr(plain[k.group], cl.field, g, gotTime[k], q.TMin, q.TMax)
				}
				return sviol(prop, "agg_mismatch", fmt.Sprintf("after op %d (%s): %s: aggregate = %s, function over the plain select's rows = %s\n  files: %s", i, after, desc, g, w, fileLayout(sh, q.Mst)), at)
			}
		}
	}
	return nil
}

// seriesInGroup (matcher attribute of a mismatch under GROUP BY host): "1" or ">1" series of the group have a value of
// the field in the time range, found by the same plain select grouped by all tags.
func seriesInGroup(sh *shard, pq *sQuery, group, field string) string {
	aq := *pq
	aq.GroupTags = nil
	all, _, err := selectRows(sh, &aq)
	if err != nil {
		return "?"
	}
	n := 0
	for key, rs := range all {
		if !strings.HasPrefix(key, group) {
			continue
		}
		for _, r := range rs {
			if _, ok := r.Fields[field]; ok {
				n++
				break
			}
		}
	}
	if n > 1 {
		return ">1"
	}
	return fmt.Sprint(n)
}

// selTimeAttr (matcher attribute of a first/last mismatch in a single-call statement without time bucket, where the
// row's time is the selected point's time): does the plain select hold the returned value at the returned time?
// "value_time": yes (a real point, just not the extreme one); "other_time_in_range" / "other_time_outside_range": the
// value is returned with a time at which the group has no such value.
func selTimeAttr(rows []sDumpRow, field string, got sVal, t, tmin, tmax int64) string {
	for _, r := range rows {
		if v, ok := r.Fields[field]; ok && r.Time == t && aggValEq(v, got) {
			return "value_time"
		}
	}
	if t < tmin || t > tmax {
		return "other_time_outside_range"
	}
	return "other_time_in_range"
}

func countRows(plain map[string][]sDumpRow, k sAggKey, q *sQuery) int {
	n := 0
	for _, r := range plain[k.group] {
		if _, ok := r.Fields[q.CallField]; ok {
			n++
		}
	}
	return n
}

// oooAhead reports whether an out-of-order file of the measurement holds times
// beyond every ordered file (the layout left by a flush that ran while the
// per-series flush times were not loaded: everything goes to an out-of-order file).
func oooAhead(sh *shard, m int) bool {
	name := sMstName(m)
	maxOrdered, maxOOO := int64(math.MinInt64), int64(math.MinInt64)
	for _, order := range []bool{true, false} {
		files, ok := sh.immTables.GetTSSPFiles(name, order)
		if !ok || files == nil {
			continue
		}
		for _, f := range files.Files() {
			_, mx, _ := f.MinMaxTime()
			if order && mx > maxOrdered {
				maxOrdered = mx
			}
			if !order && mx > maxOOO {
				maxOOO = mx
			}
		}
		immutable.UnrefFilesReader(files.Files()...)
		immutable.UnrefFiles(files.Files()...)
	}
	return maxOOO > maxOrdered && maxOOO != math.MinInt64
}
