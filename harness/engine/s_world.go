package engine

// World S — one storage shard (WAL, memtable, immutable files, index) on the
// simulated disk, driven sequentially, compared with a last-write-wins model.
// Serves C01 (crash durability), C02 (layout independence), C03 (reorganisation
// is invisible and crash-atomic), C07 (storage-path codec clauses), C09, C13.

import (
	"context"
	"fmt"
	"os"
	"path/filepath"
	"sort"
	"strings"
	"sync/atomic"
	"testing"

	"github.com/openGemini/openGemini/engine/immutable"
	"github.com/openGemini/openGemini/lib/statisticsPusher/statistics"
	"github.com/openGemini/openGemini/lib/util/lifted/vm/protoparser/influx"
	"github.com/openGemini/openGemini/verifsim/core"
	"github.com/openGemini/openGemini/verifsim/simfs"
)

type SOp struct {
	K     string `json:"k"`               // w | flush | compact | fullcompact | merge | reopen | dropm
	ID    int    `json:"id,omitempty"`    // w: write id (unique, increasing)
	Rows  []SRow `json:"rows,omitempty"`  // w
	Level int    `json:"level,omitempty"` // compact
	Force bool   `json:"force,omitempty"` // merge
	M     int    `json:"m,omitempty"`     // dropm
	// flush: the flush runs while the per-series flush times count as "loading" - the state a shard is in between the
	// first write after a restart (or after its idle sequencer was freed) and the end of the asynchronous reload.  The
	// product then writes every row of the flush out of order.  In this sequential world the reload itself runs to
	// completion at open, so the state is set for the duration of the flush only (Sequencer.SetStat is the product's own setter)
	Loading bool `json:"loading,omitempty"`
}

type SCase struct {
	Prop      string `json:"prop"`
	Knobs     SKnobs `json:"knobs"`
	NMst      int    `json:"nmst"`
	NSeries   int    `json:"nseries"`
	Ops       []SOp  `json:"ops"`
	Crash     bool   `json:"crash"`      // enumerate crash points after the live run
	CrashOps  string `json:"crash_ops"`  // "" = every op; "reorg" = only compaction/merge ops (C03); "drop" (C13)
	PerClass  int    `json:"per_class"`  // crash points per (op, path class, kind) class; 0 = all
	Nested    int    `json:"nested"`     // nested crash points sampled per recovery
	ReadSeed  uint64 `json:"read_seed"`  // seeds the sampled reads and crash sampling
	ReadEvery bool   `json:"read_every"` // read checks after every op (C02) or only at the end
	OnlyInc   int    `json:"only_inc"`
	OnlyK     int    `json:"only_k"`    // >=0: check only this crash point (minimised replay)
	OnlyTorn  int    `json:"only_torn"`
	OnlyK2    int    `json:"only_k2"` // >=0: nested crash point in the recovery journal
	OnlyTorn2 int    `json:"only_torn2"`
	ValMode   int    `json:"val_mode,omitempty"`  // 0 unique attributable values, 1 codec-boundary values (C07)
	ValSeed   uint64 `json:"val_seed,omitempty"`
	TimeMode  int    `json:"time_mode,omitempty"` // val_mode 2: how the 24 time slots map to timestamps (s_codec.go)
	NSlots    int    `json:"nslots,omitempty"`    // val_mode 2: time slots that dense writes use (0 = sNumTimes)
	NoNegZero bool   `json:"no_negzero,omitempty"` // val_mode 2: no -0.0 among the float values (set with the MLF float compressor: finding C07-mlf-negative-zero)
	MaxWalRec int    `json:"max_wal_rec,omitempty"`  // CrashOps "wal": at most this many log records are torn (0 = all)
	TornPer   int    `json:"torn_per,omitempty"`     // CrashOps "wal": prefixes tried per record (0 = every prefix)
	// val_mode 0: which integer/float cell values are negative (0 none - as in older replay files; 1 series with an odd
	// number; 2 all; 3 every third time slot).  Aggregate reducers start from zero-valued slots: all-negative groups
	// and buckets are their corner (seeded change C09-c)
	NegMode int `json:"neg,omitempty"`
}

type worldS struct{}

func (worldS) Name() string { return "S" }
func (worldS) Components() ([]string, []string) {
	return []string{"engine shard (WriteRows, ForceFlush, WAL, memtable, replay)", "engine/immutable (flush, TSSP files, sequencer, compaction, merge, replace protocol, recovery)", "engine/index/tsi + mergeset", "lib/record, lib/encoding, lib/compress", "read path: CreateCursor, cursors, ChunkReader, StreamAggregateTransform", "lib/fileops through simfs"},
		[]string{"meta service (none needed at shard level)", "SQL layer (statements parsed by the real parser, planned by hand-written reader ops)", "network"}
}

// ---- generation ------------------------------------------------------------------

func (worldS) Gen(r *core.Rand, env *core.Env) SCase {
	c := SCase{Prop: env.Property, Knobs: genKnobs(r), OnlyK: -1, OnlyTorn: -1, OnlyK2: -1, OnlyTorn2: -1}
	c.NMst = r.Range(1, 3)
	c.NSeries = r.Range(1, 5)
	c.ReadSeed = r.Uint64()
	thorough := env.Tier == "thorough"
	nops := r.Range(6, 26)
	switch env.Property {
	case "C01":
		c.Crash = true
		c.PerClass = 2
		c.Nested = 1
		if thorough {
			c.PerClass = 4
			c.Nested = 4
		}
	case "C03":
		c.Crash = true
		c.CrashOps = "reorg"
		c.PerClass = 2
		c.Nested = 3
		if thorough {
			c.PerClass = 0
			c.Nested = 10
		}
		c.ReadEvery = true
		if c.Knobs.MinGroupFiles > 3 {
			c.Knobs.MinGroupFiles = 2
		}
	case "C09":
		c.ReadEvery = false
		c.Knobs.Partitions = 1
	case "C07":
		genCodecCase(r, &c)
		c.Knobs.Partitions = 1 // the WAL partition order defect (C01) must not mask codec defects
		c.ReadEvery = true
		if r.Bool(0.5) {
			// clause (a): every prefix of log records
			c.Crash = true
			c.CrashOps = "wal"
			c.MaxWalRec, c.TornPer = 3, 24
			if thorough {
				c.MaxWalRec, c.TornPer = 0, 0
			}
			c.ReadEvery = false
			nops = r.Range(3, 10)
		}
	default: // C02
		c.ReadEvery = true
	}
	wid := 0
	flushes := 0
	dropped := map[int]bool{}
	liveMst := func() []int {
		var l []int
		for m := 0; m < c.NMst; m++ {
			if !dropped[m] {
				l = append(l, m)
			}
		}
		return l
	}
	bigAt := -1
	if (env.Property == "C01" || env.Property == "C02" || env.Property == "C07") && r.Intn(20) == 0 {
		bigAt = r.Intn(nops) // one write whose log record exceeds 2 MiB compressed
	}
	// An ordered chunk above 512 KiB (the block size of the byte-for-byte copy that an
	// out-of-order merge uses for series without late data) next to a series that does get
	// late data, then the merge: seeded change C03-b garbled the copied chunk.
	if (env.Property == "C03" && r.Intn(12) == 0) || (env.Property == "C02" && r.Intn(25) == 0) {
		if c.NSeries < 2 {
			c.NSeries = 2
		}
		m := r.Intn(c.NMst)
		wid++
		op := SOp{K: "w", ID: wid}
		pad := r.Range(30, 60)
		for t := 0; t < sNumTimes; t++ {
			op.Rows = append(op.Rows, SRow{M: m, S: 0, T: t, F: 8 | r.Intn(16), P: pad})
		}
		hi := r.Range(sNumTimes/2, sNumTimes-1)
		op.Rows = append(op.Rows, SRow{M: m, S: 1, T: hi, F: 15})
		c.Ops = append(c.Ops, op, SOp{K: "flush"})
		wid++
		c.Ops = append(c.Ops, SOp{K: "w", ID: wid, Rows: []SRow{{M: m, S: 1, T: r.Intn(hi), F: 15}}}, SOp{K: "flush"}, SOp{K: "merge", Force: true})
		flushes += 2
	}
	// Late rows NEWER than every ordered file (a flush that ran while the flush times were loading writes them out of
	// order), two ordered files of the same series before them, then the merge: seeded change C03-e sent such rows to the
	// oldest ordered file.  One history in ten of C03 / C02, decided by a generator of its own.
	if env.Property == "C03" || env.Property == "C02" {
		if fr := core.NewRand(c.ReadSeed ^ 0x6e657765); fr.Intn(10) == 0 {
			m := fr.Intn(c.NMst)
			nf := fr.Range(2, 3)
			t := 0
			for f := 0; f < nf; f++ {
				wid++
				op := SOp{K: "w", ID: wid}
				for s := 0; s < c.NSeries && s < 2; s++ {
					for j, n := 0, fr.Range(1, 3); j < n && t+j < sNumTimes-4; j++ {
						op.Rows = append(op.Rows, SRow{M: m, S: s, T: t + j, F: 1 + fr.Intn(15)})
					}
				}
				t += 3
				c.Ops = append(c.Ops, op, SOp{K: "flush"})
				flushes++
			}
			wid++
			late := SOp{K: "w", ID: wid}
			for s := 0; s < c.NSeries && s < 2; s++ {
				late.Rows = append(late.Rows, SRow{M: m, S: s, T: fr.Range(t, sNumTimes-1), F: 1 + fr.Intn(15)})
			}
			c.Ops = append(c.Ops, late, SOp{K: "flush", Loading: true}, SOp{K: "merge", Force: fr.Bool(0.7)})
			flushes++
		}
	}
	if c.ValMode == 2 && !c.Crash && codecLongRunsDraw(r) {
		// long-run flavour (s_codec.go): a segment size of 65528 rows and one float column with a run of 36000 rows
		c.Knobs.RowsPerSegment = codecLongSeg
		wid++
		c.Ops = append(c.Ops, SOp{K: "w", ID: wid, Rows: genCodecLongRuns(r, &c, r.Intn(c.NMst))}, SOp{K: "flush"})
		flushes++
		nops = min(nops, 6)
	}
	if c.ValMode == 2 && r.Bool(map[bool]float64{false: 0.7, true: 0.3}[c.Crash]) {
		// every column of one measurement filled over all time slots (one row in eight lacks a field), then flushed:
		// each column pattern of the case meets blocks of every length the segment size allows, with and without nulls
		m := r.Intn(c.NMst)
		for s := 0; s < c.NSeries; s++ {
			wid++
			c.Ops = append(c.Ops, SOp{K: "w", ID: wid, Rows: genCodecColumnFill(r, &c, m, s)})
		}
		c.Ops = append(c.Ops, SOp{K: "flush"})
		flushes++
	}
	for i := 0; i < nops; i++ {
		if i == bigAt {
			wid++
			op := SOp{K: "w", ID: wid}
			n := r.Range(130, 220)
			for j := 0; j < n; j++ {
				op.Rows = append(op.Rows, SRow{M: core.Pick(r, liveMst()), S: r.Intn(c.NSeries), T: r.Intn(sNumTimes), F: 8 | r.Intn(16), P: r.Range(16, 24)})
			}
			c.Ops = append(c.Ops, op)
			continue
		}
		w := []int{10, 4, 2, 1, 2, 1}
		if env.Property == "C03" {
			w = []int{8, 5, 4, 2, 4, 1}
		}
		if env.Property == "C01" {
			w = []int{12, 4, 1, 0, 1, 1}
		}
		if env.Property == "C07" {
			w = []int{10, 4, 3, 2, 3, 2}
			if c.Crash {
				w = []int{10, 2, 0, 0, 0, 1}
			}
		}
		// DROP MEASUREMENT (C01: "never brings back a dropped measurement"; the generator
		// does not write to a dropped measurement again: in the product a re-created
		// measurement gets a new versioned name)
		if (env.Property == "C01" || env.Property == "C02") && c.NMst > 1 && len(liveMst()) > 1 && r.Intn(30) == 0 {
			m := core.Pick(r, liveMst())
			dropped[m] = true
			c.Ops = append(c.Ops, SOp{K: "dropm", M: m})
			continue
		}
		switch r.Weighted(w) {
		case 0:
			wid++
			op := SOp{K: "w", ID: wid}
			n := r.Range(1, 6)
			if r.Intn(5) == 0 || (env.Property == "C07" && r.Bool(0.5)) {
				n = r.Range(6, 30)
			}
			if c.ValMode == 2 && r.Bool(0.5) {
				op.Rows = genCodecDenseWrite(r, &c, core.Pick(r, liveMst()))
				c.Ops = append(c.Ops, op)
				continue
			}
			// late data: older than what is already flushed, with some probability
			for j := 0; j < n; j++ {
				row := SRow{M: core.Pick(r, liveMst()), S: r.Intn(c.NSeries), T: r.Intn(sNumTimes)}
				row.F = 1 + r.Intn(15)
				if r.Bool(0.4) {
					row.F = 15
				}
				if j > 0 && r.Intn(6) == 0 { // repeated timestamp inside one batch
					prev := op.Rows[r.Intn(len(op.Rows))]
					row.M, row.S, row.T = prev.M, prev.S, prev.T
				}
				op.Rows = append(op.Rows, row)
			}
			c.Ops = append(c.Ops, op)
		case 1:
			c.Ops = append(c.Ops, SOp{K: "flush"})
			flushes++
		case 2:
			c.Ops = append(c.Ops, SOp{K: "compact", Level: r.Intn(3)})
		case 3:
			c.Ops = append(c.Ops, SOp{K: "fullcompact"})
		case 4:
			force := r.Bool(0.7)
			if c.ValMode == 2 && c.Knobs.RowsPerSegment%8 != 0 && !codecNoSidestep("merge") {
				// finding C07-merge-panics-segment-rows-not-multiple-of-8: the out-of-order merge panics on a background
				// goroutine (the store process dies) when max-rows-per-segment is not a multiple of 8; such cases reorganise
				// through compaction only, so that the defect does not kill the workers of every C07 run
				c.Ops = append(c.Ops, SOp{K: "compact", Level: 0})
				continue
			}
			c.Ops = append(c.Ops, SOp{K: "merge", Force: force})
		case 5:
			c.Ops = append(c.Ops, SOp{K: "reopen"})
		}
	}
	if c.ValMode == 0 {
		c.NegMode = core.Pick(r, []int{0, 0, 1, 2, 3}) // drawn last: everything else is what the seed produced before
	}
	if env.Property == "C02" || env.Property == "C03" || env.Property == "C01" {
		// one history in four: some of its flushes run in the "flush times loading" state (seeded change C03-e needed
		// out-of-order rows newer than every ordered file); decided by a generator of its own
		if fr := core.NewRand(c.ReadSeed ^ 0x6c6f6164); fr.Intn(4) == 0 {
			for i := range c.Ops {
				if c.Ops[i].K == "flush" && fr.Intn(2) == 0 {
					c.Ops[i].Loading = true
				}
			}
		}
	}
	return c
}

func (c SCase) nslots() int {
	if c.NSlots > 0 {
		return c.NSlots
	}
	return sNumTimes
}

func (worldS) NumOps(c SCase) int { return len(c.Ops) }

func (worldS) Subset(c SCase, keep []int) SCase {
	n := c
	n.Ops = nil
	for _, i := range keep {
		op := c.Ops[i]
		op.Rows = append([]SRow(nil), op.Rows...)
		n.Ops = append(n.Ops, op)
	}
	n.OnlyK, n.OnlyTorn, n.OnlyK2, n.OnlyTorn2 = -1, -1, -1, -1
	return n
}

func cloneSCase(c SCase) SCase {
	n := c
	n.Ops = make([]SOp, len(c.Ops))
	for i, op := range c.Ops {
		op.Rows = append([]SRow(nil), op.Rows...)
		n.Ops[i] = op
	}
	n.OnlyK, n.OnlyTorn, n.OnlyK2, n.OnlyTorn2 = -1, -1, -1, -1
	return n
}

func (worldS) Simplify(c SCase) []SCase {
	var out []SCase
	// drop single rows from write batches
	for i, op := range c.Ops {
		if op.K == "w" && len(op.Rows) > 1 {
			n := cloneSCase(c)
			n.Ops[i].Rows = n.Ops[i].Rows[:len(op.Rows)/2]
			out = append(out, n)
			n2 := cloneSCase(c)
			n2.Ops[i].Rows = n2.Ops[i].Rows[len(op.Rows)/2:]
			out = append(out, n2)
		}
	}
	// fewer fields per row
	for i, op := range c.Ops {
		if op.K != "w" {
			continue
		}
		for j, row := range op.Rows {
			if row.F&(row.F-1) != 0 { // more than one bit
				n := cloneSCase(c)
				n.Ops[i].Rows[j].F = row.F & (row.F - 1)
				out = append(out, n)
				break
			}
		}
	}
	if c.Knobs.Partitions > 2 {
		n := cloneSCase(c)
		n.Knobs.Partitions = 2
		out = append(out, n)
	}
	if c.Knobs.RowsPerSegment != 1000 {
		n := cloneSCase(c)
		n.Knobs.RowsPerSegment = 1000
		out = append(out, n)
	}
	if c.Knobs.MutableLimit < 1<<20 {
		n := cloneSCase(c)
		n.Knobs.MutableLimit = 30 << 20
		out = append(out, n)
	}
	if c.Knobs.ChunkSize != 1024 {
		n := cloneSCase(c)
		n.Knobs.ChunkSize = 1024
		out = append(out, n)
	}
	// C07 encoder settings back to their defaults, regular timestamps
	if c.Knobs.StrAlgo != 0 {
		n := cloneSCase(c)
		n.Knobs.StrAlgo = 0
		out = append(out, n)
	}
	if c.Knobs.FloatMLF {
		n := cloneSCase(c)
		n.Knobs.FloatMLF = false
		out = append(out, n)
	}
	if c.Knobs.ChunkMetaMode != 0 {
		n := cloneSCase(c)
		n.Knobs.ChunkMetaMode = 0
		out = append(out, n)
	}
	if c.TimeMode != 0 {
		n := cloneSCase(c)
		n.TimeMode = 0
		out = append(out, n)
	}
	if c.NSeries > 1 || c.NMst > 1 {
		// map everything to series 0 / measurement 0 if the failure survives
		n := cloneSCase(c)
		for i := range n.Ops {
			for j := range n.Ops[i].Rows {
				n.Ops[i].Rows[j].M = 0
			}
		}
		n.NMst = 1
		out = append(out, n)
		n2 := cloneSCase(c)
		for i := range n2.Ops {
			for j := range n2.Ops[i].Rows {
				n2.Ops[i].Rows[j].S = 0
			}
		}
		n2.NSeries = 1
		out = append(out, n2)
	}
	return out
}

// Pin restricts the case to the crash point recorded in the violation.
func (worldS) Pin(c SCase, v *core.Violation) (SCase, bool) {
	var inc, k, torn, k2, torn2 int
	if n, _ := fmt.Sscanf(v.Attrs["pin"], "%d,%d,%d,%d,%d", &inc, &k, &torn, &k2, &torn2); n != 5 {
		return c, false
	}
	n := cloneSCase(c)
	n.OnlyInc, n.OnlyK, n.OnlyTorn, n.OnlyK2, n.OnlyTorn2 = inc, k, torn, k2, torn2
	return n, true
}

func (worldS) Neutralise(c SCase, name string) (SCase, bool) {
	switch name {
	case "one-wal-partition":
		if c.Knobs.Partitions == 1 {
			return c, false
		}
		n := cloneSCase(c)
		n.Knobs.Partitions = 1
		return n, true
	}
	return c, false
}

// ---- execution -------------------------------------------------------------------

type sRun struct {
	c      SCase
	env    *core.Env
	out    *core.Outcome
	fs     *simfs.FS
	node   *sNode
	disk   *simfs.Disk
	inc    int
	model  *sModel
	states []*sModel // states[i] = model before op i; states[len(ops)] = final
	r      *core.Rand
	incDisk []*simfs.Disk
	incInit []string
	incBase []int
	prop   string
	flushGen int
	ackPos map[[2]int]int // (incarnation, op) -> journal length when the op returned
	seen   map[[2]int]bool // (measurement, series) already written
	cellGens map[cellKey]map[int64]bool // flush generations in which a (series, timestamp) was written
	encSeen map[string]bool // C07: data files whose blocks were already classified (encoder-mode reach probe)
}

func sviol(prop, kind, detail string, attrs map[string]string) *core.Violation {
	return &core.Violation{Property: prop, Kind: kind, Detail: detail, Attrs: attrs}
}

func (w worldS) Exec(c SCase, env *core.Env) *core.Outcome {
	out := core.NewOutcome()
	prop := env.Property
	if prop == "" {
		prop = c.Prop
	}
	sValMode, sValSeed = c.ValMode, c.ValSeed
	sNegMode = c.NegMode
	defer func() { sNegMode = 0 }()
	if c.ValMode == 2 {
		sTimeTab = codecTimeTable(c.TimeMode, c.ValSeed, c.nslots())
		sNoNegZero = c.NoNegZero
		sFloatMLF = c.Knobs.FloatMLF
	}
	defer func() { sValMode, sValSeed, sTimeTab, sNoNegZero, sFloatMLF = 0, 0, nil, false, false }()
	fs := simfs.Install()
	run := &sRun{c: c, env: env, out: out, fs: fs, model: newSModel(), r: core.NewRand(c.ReadSeed), prop: prop, ackPos: map[[2]int]int{}, seen: map[[2]int]bool{}}
	defer run.cleanup()
	if err := run.open(filepath.Join(env.Scratch, "inc0"), ""); err != nil {
		out.Violation = sviol(prop, "open_failed", "opening an empty shard failed: "+err.Error(), nil)
		return out
	}
	hd := []string{fmt.Sprintf("knobs=%+v nm=%d ns=%d", c.Knobs, c.NMst, c.NSeries)}
	reorgSeen, writeAfterReorg := false, false
	for i, op := range c.Ops {
		run.states = append(run.states, run.model.clone())
		run.disk.SetTag(i)
		v := run.step(i, op)
		run.ackPos[[2]int{len(run.incDisk) - 1, i}] = run.disk.Len()
		hd = append(hd, opDigest(op))
		if op.K != "w" {
			reorgSeen = true
		} else if reorgSeen {
			writeAfterReorg = true
		}
		if v != nil {
			v.Attrs = mergeAttrsS(v.Attrs, map[string]string{"op": op.K, "phase": "live"})
			out.Violation = v
			return out
		}
		out.Stats["ops"]++
		if run.prop == "C07" && op.K != "reopen" && op.K != "dropm" {
			run.encProbe()
		}
		if run.prop == "C09" {
			if v := aggChecks(run.env, run.node.sh, run.model, c, run.r, out, run.prop, i, op.K, 6, run.multiGen); v != nil {
				v.Attrs = mergeAttrsS(v.Attrs, map[string]string{"op": op.K, "phase": "live"})
				out.Violation = v
				return out
			}
		}
		if c.ReadEvery {
			if v := run.readChecks(i, op.K, 3); v != nil {
				v.Attrs = mergeAttrsS(v.Attrs, map[string]string{"op": op.K, "phase": "live"})
				out.Violation = v
				return out
			}
		}
	}
	run.states = append(run.states, run.model.clone())
	out.Digest = core.DigestStrings(hd)
	out.Nontrivial = reorgSeen && writeAfterReorg
	if v := run.readChecks(len(c.Ops), "end", 6); v != nil {
		v.Attrs = mergeAttrsS(v.Attrs, map[string]string{"op": "end", "phase": "live"})
		out.Violation = v
		return out
	}
	run.layoutProbe()
	// clean close, then the journal must replay to the live directory
	if err := run.node.close(); err != nil {
		out.Violation = sviol(prop, "close_error", "closing the shard failed: "+err.Error(), nil)
		return out
	}
	run.node = nil
	if err := run.disk.CheckComplete(filepath.Join(env.Scratch, "complete-check"), run.incInit[len(run.incInit)-1], sSeamIgnore); err != nil {
		out.Infra = err.Error()
		return out
	}
	if c.Crash {
		if v := run.crashEnum(); v != nil {
			out.Violation = v
			return out
		}
	}
	return out
}

// sSeamIgnore: the index persists its three lookup caches (fastcache files) with
// plain os calls when it is closed cleanly; they never take part in a verdict
// and a crash image simply carries the copies of the last clean close, as a real
// disk would.
func sSeamIgnore(rel string) bool {
	return strings.Contains(rel, "/seriesKey_tsid") || strings.Contains(rel, "/tsid_seriesKey") || strings.Contains(rel, "/tagKey_tagValue")
}

func opDigest(op SOp) string {
	var b strings.Builder
	fmt.Fprintf(&b, "%s %d %d %v %d:", op.K, op.ID, op.Level, op.Force, op.M)
	for _, r := range op.Rows {
		fmt.Fprintf(&b, "%d.%d.%d.%d,", r.M, r.S, r.T, r.F)
	}
	return b.String()
}

func mergeAttrsS(a, b map[string]string) map[string]string {
	if a == nil {
		a = map[string]string{}
	}
	for k, v := range b {
		if _, ok := a[k]; !ok {
			a[k] = v
		}
	}
	return a
}

func (run *sRun) cleanup() {
	if run.node != nil {
		func() {
			defer func() { _ = recover() }()
			_ = run.node.close()
		}()
	}
	for _, d := range run.incDisk {
		d.Kill()
		run.fs.Forget(d)
	}
}

func (run *sRun) open(dir, from string) error {
	if from != "" {
		if err := simfs.CopyTree(from, dir); err != nil {
			panic(core.InfraPanic("copy tree: " + err.Error()))
		}
		if err := simfs.RelocateTxn(dir, run.env.Scratch, dir); err != nil {
			panic(core.InfraPanic("relocate: " + err.Error()))
		}
	} else {
		_ = os.MkdirAll(dir, 0o755)
	}
	init := dir + ".init"
	if err := simfs.CopyTree(dir, init); err != nil {
		panic(core.InfraPanic("copy tree: " + err.Error()))
	}
	run.incInit = append(run.incInit, init)
	d := run.fs.NewDisk(dir)
	run.disk = d
	run.incDisk = append(run.incDisk, d)
	run.incBase = append(run.incBase, len(run.states))
	if n := len(run.states); n > 0 {
		d.SetTag(n - 1)
	}
	node, err := openShard(dir, run.c.Knobs, uint64(run.inc+1))
	if err != nil {
		return err
	}
	run.node = node
	run.inc++
	return nil
}

// roots lists the root directories of all incarnations so far.
func (run *sRun) roots() []string {
	var rs []string
	for _, d := range run.incDisk {
		rs = append(rs, d.Root)
	}
	return rs
}

func (run *sRun) step(i int, op SOp) *core.Violation {
	out := run.out
	sh := run.node.sh
	switch op.K {
	case "w":
		rows := sBuildRows(op.ID, op.Rows)
		if len(rows) == 0 {
			return nil
		}
		// the store receives the batch in its wire form and decodes it again
		bin, err := influx.FastMarshalMultiRows(nil, rows)
		if err != nil {
			panic(core.InfraPanic("marshal rows: " + err.Error()))
		}
		dec, _, _, _, _, err := influx.FastUnmarshalMultiRows(bin, nil, nil, nil, nil, nil)
		if err != nil {
			return sviol(run.prop, "wire_decode_error", fmt.Sprintf("op %d: the marshalled batch does not decode: %v", i, err), nil)
		}
		if run.prop == "C07" {
			wireProbe(out, rows)
		}
		before := run.flushCount()
		err = sh.WriteRows(dec, bin)
		out.Log("op%d w id=%d rows=%d err=%v", i, op.ID, len(rows), err != nil)
		if err != nil {
			return sviol(run.prop, "write_error", fmt.Sprintf("op %d: WriteRows failed: %v", i, err), nil)
		}
		run.model.applyWrite(op.ID, op.Rows)
		if run.cellGens == nil {
			run.cellGens = map[cellKey]map[int64]bool{}
		}
		for _, r := range op.Rows {
			if len(rowFields(r)) == 0 {
				continue
			}
			k := cellKey{r.M, r.S, r.T}
			if run.cellGens[k] == nil {
				run.cellGens[k] = map[int64]bool{}
			}
			run.cellGens[k][before] = true // generation = number of flushes completed before the write
		}
		// A series becomes visible to queries once the index's in-memory items are
		// flushed (the engine does that on a one-second timer, which the statements
		// allow for: "once their series is visible in the index").  The simulator
		// issues that flush right after a write that created a series.
		newSeries := false
		for _, r := range op.Rows {
			if rowFields(r) != nil && !run.seen[[2]int{r.M, r.S}] {
				run.seen[[2]int{r.M, r.S}] = true
				newSeries = true
			}
		}
		if newSeries {
			run.node.ib.Flush()
			out.Stats["index_flushes"]++
		}
		out.Stats["writes"]++
		out.Stats["rows_written"] += int64(len(rows))
		// the first write after a restart starts the asynchronous reload of the
		// per-series flush times; in the sequential regime an operation includes the
		// background work it started (interleavings with it belong to world C / C04)
		run.waitSequencer()
		// a size-triggered flush runs on the shard's own goroutine; let it finish so
		// that the next operation starts from a settled state
		if run.c.Knobs.MutableLimit < 1<<20 {
			run.settle()
			if run.flushCount() != before {
				out.Probes["size-triggered flush"]++
				out.Log("op%d auto-flush", i)
			}
		}
	case "flush":
		if op.Loading {
			seq := sh.immTables.Sequencer()
			seq.SetStat(false, true)
			sh.ForceFlush()
			seq.SetStat(false, false)
			seq.UnRef()
			out.Probes["flush while the flush times were loading"]++
		} else {
			sh.ForceFlush()
		}
		run.flushGen++
		out.Log("op%d flush", i)
		out.Stats["flushes"]++
	case "compact":
		sh.immTables.CompactionEnable()
		err := sh.immTables.LevelCompact(uint16(op.Level), 1)
		run.node.waitStore()
		sh.immTables.CompactionDisable()
		out.Log("op%d compact level=%d err=%v", i, op.Level, err != nil)
		if err != nil {
			return sviol(run.prop, "compact_error", fmt.Sprintf("op %d: LevelCompact(%d) = %v", i, op.Level, err), nil)
		}
		out.Stats["compactions"]++
	case "fullcompact":
		sh.immTables.CompactionEnable()
		err := sh.immTables.FullCompact(1)
		run.node.waitStore()
		sh.immTables.CompactionDisable()
		out.Log("op%d fullcompact err=%v", i, err != nil)
		if err != nil {
			return sviol(run.prop, "compact_error", fmt.Sprintf("op %d: FullCompact = %v", i, err), nil)
		}
		out.Stats["full_compactions"]++
	case "merge":
		sh.immTables.MergeEnable()
		err := sh.immTables.MergeOutOfOrder(1, false, op.Force)
		run.node.waitStore()
		sh.immTables.MergeDisable()
		out.Log("op%d merge force=%v err=%v", i, op.Force, err != nil)
		if err != nil {
			return sviol(run.prop, "merge_error", fmt.Sprintf("op %d: MergeOutOfOrder = %v", i, err), nil)
		}
		out.Stats["merges"]++
	case "reopen":
		if err := run.node.close(); err != nil {
			return sviol(run.prop, "close_error", fmt.Sprintf("op %d: clean close failed: %v", i, err), nil)
		}
		run.node = nil
		prev := run.disk
		prev.Kill()
		if err := run.open(filepath.Join(run.env.Scratch, fmt.Sprintf("inc%d", run.inc)), prev.Root); err != nil {
			return sviol(run.prop, "open_failed", fmt.Sprintf("op %d: reopening after a clean close failed: %v", i, err), nil)
		}
		out.Faults["clean_restart"]++
		out.Log("op%d reopen", i)
	case "dropm":
		err := sh.DropMeasurement(context.Background(), sMstName(op.M))
		out.Log("op%d dropm %d err=%v", i, op.M, err != nil)
		if err != nil {
			return sviol(run.prop, "drop_error", fmt.Sprintf("op %d: DropMeasurement = %v", i, err), nil)
		}
		run.model.dropMeasurement(op.M)
		out.Stats["measurement_drops"]++
	}
	return nil
}

// multiGen reports whether some (series, timestamp) of measurement m inside the
// time range was written in more than one flush generation.
func (run *sRun) multiGen(m int, tmin, tmax int64) bool {
	for k, gens := range run.cellGens {
		if k.M != m {
			continue
		}
		if t := sTime(k.T); t < tmin || t > tmax {
			continue
		}
		if len(gens) > 1 {
			return true
		}
	}
	return false
}

func (run *sRun) waitSequencer() {
	seq := run.node.sh.immTables.Sequencer()
	defer seq.UnRef()
	for k := 0; k < 5000 && seq.IsLoading(); k++ {
		sleepMs(1)
	}
}

func (run *sRun) flushCount() int64 {
	return atomic.LoadInt64(&statistics.PerfStat.FlushSnapshotCount)
}

// settle: when the write made the memtable exceed its size limit the shard's own
// snapshot goroutine (100 ms poll) flushes it; wait for that flush to finish so
// that the next operation starts from a settled state.
func (run *sRun) settle() {
	sh := run.node.sh
	before := run.flushCount()
	sh.snapshotLock.RLock()
	need := sh.activeTbl != nil && sh.activeTbl.NeedFlush()
	sh.snapshotLock.RUnlock()
	if !need {
		return
	}
	for k := 0; k < 300 && run.flushCount() == before; k++ {
		sleepMs(10)
	}
	sh.waitSnapshot()
}

// ---- read checks -------------------------------------------------------------------

// readChecks compares a full dump of every measurement with the model, plus n
// seeded variants (time ranges cutting through stored data, field subsets,
// descending order, chunk sizes).
func (run *sRun) readChecks(i int, after string, n int) *core.Violation {
	return readChecksOn(run.node.sh, run.model, run.c, run.r, run.out, run.prop, i, after, n, nil)
}

// relax: cells for which either of two values is acceptable (in-flight op).
type sRelax struct {
	pre, post *sModel
	// anyVersion: the in-flight operation is a measurement drop that was not acknowledged.  The shard deletes
	// the measurement's files one by one, so the image may hold any subset of them and a cell may show an
	// older acknowledged version (the newer file is gone, the older one not yet).  In the product the drop is
	// preceded by the catalogue's MarkMeasurementDelete, which hides the measurement from queries until the
	// store has finished; the shard-level world has no catalogue, so the partial state is accepted here.
	anyVersion bool
}

func readChecksOn(sh *shard, model *sModel, c SCase, r *core.Rand, out *core.Outcome, prop string, i int, after string, n int, relax *sRelax) *core.Violation {
	full := int64(1) << 62
	for m := 0; m < c.NMst; m++ {
		q := &sQuery{Mst: m, Fields: sFieldNames, TMin: -full, TMax: full, ChunkSize: c.Knobs.ChunkSize, Parallel: c.Knobs.MaxParallel}
		if v := checkSelect(sh, model, q, out, prop, i, after, relax); v != nil {
			return v
		}
		for k := 0; k < n; k++ {
			q := &sQuery{Mst: m, ChunkSize: core.Pick(r, []int{1, 2, 5, 1024}), Parallel: core.Pick(r, []int{1, 4})}
			// field subset
			mask := 1 + r.Intn(15)
			for fi, f := range sFieldNames {
				if mask&(1<<uint(fi)) != 0 {
					q.Fields = append(q.Fields, f)
				}
			}
			// range with ends inside / on the edge of / outside the data
			nt := c.nslots() // (sNumTimes except for C07 cases with long columns)
			a, b := r.Intn(nt+4)-2, r.Intn(nt+4)-2
			if a > b {
				a, b = b, a
			}
			q.TMin, q.TMax = sTime(a), sTime(b)
			if r.Intn(3) == 0 {
				q.TMin -= 1
			}
			if r.Intn(3) == 0 {
				q.TMax += 1
			}
			q.Desc = r.Bool(0.4)
			if v := checkSelect(sh, model, q, out, prop, i, after, relax); v != nil {
				return v
			}
		}
	}
	return nil
}

func checkSelect(sh *shard, model *sModel, q *sQuery, out *core.Outcome, prop string, i int, after string, relax *sRelax) *core.Violation {
	got, _, err := selectRows(sh, q)
	out.Stats["reads"]++
	shape := "plain"
	if q.Desc {
		shape = "plain_desc"
	}
	if len(q.Fields) < len(sFieldNames) {
		shape += "_subset"
	}
	at := map[string]string{"after": after, "shape": shape}
	if err != nil {
		return sviol(prop, "read_error", fmt.Sprintf("after op %d (%s): %v", i, after, err), at)
	}
	want := model.expected(q.Mst, q.TMin, q.TMax, q.Fields)
	if relax != nil {
		got, want = applyRelax(got, want, relax, q)
	}
	kind, detail, xa := compareDumpX(got, want, q.Desc, model, q.Mst)
	if kind != "" {
		for k, v := range xa {
			at[k] = v
		}
		if sValMode == 2 && sFloatMLF {
			at["float_algo"] = "mlf"
		}
		// diagnostic only: does the same query on the same state answer the same again?
		got2, _, err2 := selectRows(sh, q)
		if err2 == nil {
			k2, _ := compareDump(got2, want, q.Desc, model, q.Mst)
			detail += fmt.Sprintf("\n  same query repeated at once: %q", k2)
			at["repeat"] = k2
		}
		detail += "\n  files: " + fileLayout(sh, q.Mst)
		return sviol(prop, kind, fmt.Sprintf("after op %d (%s): %s\n  query: %s [t%d..t%d]", i, after, detail, q.text(), sSlot(q.TMin), sSlot(q.TMax)), at)
	}
	return nil
}

// applyRelax: for cells whose value differs between pre and post (the cells of
// the in-flight operation) either value is acceptable; the expectation is
// rewritten cell by cell to whichever of the two the engine returned.
func applyRelax(got, want map[string][]sDumpRow, relax *sRelax, q *sQuery) (map[string][]sDumpRow, map[string][]sDumpRow) {
	pre := relax.pre.expected(q.Mst, q.TMin, q.TMax, q.Fields)
	post := relax.post.expected(q.Mst, q.TMin, q.TMax, q.Fields)
	idx := func(m map[string][]sDumpRow) map[string]map[int64]map[string]sVal {
		o := map[string]map[int64]map[string]sVal{}
		for s, rows := range m {
			o[s] = map[int64]map[string]sVal{}
			for _, r := range rows {
				o[s][r.Time] = r.Fields
			}
		}
		return o
	}
	pi, po, gi := idx(pre), idx(post), idx(got)
	// build the accepted expectation
	acc := map[string]map[int64]map[string]sVal{}
	seriesSet := map[string]bool{}
	for s := range pi {
		seriesSet[s] = true
	}
	for s := range po {
		seriesSet[s] = true
	}
	for s := range seriesSet {
		times := map[int64]bool{}
		for t := range pi[s] {
			times[t] = true
		}
		for t := range po[s] {
			times[t] = true
		}
		for t := range times {
			fa, fb := pi[s][t], po[s][t]
			g := gi[s][t]
			row := map[string]sVal{}
			for _, f := range q.Fields {
				va, oka := fa[f]
				vb, okb := fb[f]
				switch {
				case oka && okb && va.equal(vb):
					row[f] = va
				case oka || okb:
					// differs between pre and post: accept what was read if it is one of them
					if gv, ok := g[f]; ok {
						if (oka && gv.equal(va)) || (okb && gv.equal(vb)) {
							row[f] = gv
						} else if relax.anyVersion && relax.pre.classifyM(q.Mst, s, t, f, gv) == "stale_value" {
							row[f] = gv
						} else if okb && !(oka && negZeroLost(va, gv)) {
							row[f] = vb
						} else {
							// (neither value was read: the violation names the older one if the value read is its -0.0 without the sign)
							row[f] = va
						}
					} else if oka && okb {
						row[f] = vb // must be present with one of the two values
					}
					// present in only one of the states and not returned: acceptable (absent)
				}
			}
			if len(row) > 0 {
				if acc[s] == nil {
					acc[s] = map[int64]map[string]sVal{}
				}
				acc[s][t] = row
			}
		}
	}
	nw := map[string][]sDumpRow{}
	for s, tm := range acc {
		for t, f := range tm {
			nw[s] = append(nw[s], sDumpRow{Series: s, Time: t, Fields: f})
		}
		rs := nw[s]
		sort.Slice(rs, func(a, b int) bool { return rs[a].Time < rs[b].Time })
	}
	return got, nw
}

// layoutProbe records the file layout reached (distinct layouts measure) and the
// rare-branch probes about it.
func (run *sRun) layoutProbe() {
	sh := run.node.sh
	var parts []string
	for m := 0; m < run.c.NMst; m++ {
		name := sMstName(m)
		for _, order := range []bool{true, false} {
			files, ok := sh.immTables.GetTSSPFiles(name, order)
			if !ok || files == nil {
				continue
			}
			var lv []string
			for _, f := range files.Files() {
				l, _ := f.LevelAndSequence()
				lv = append(lv, fmt.Sprint(l))
			}
			immutable.UnrefFilesReader(files.Files()...)
			immutable.UnrefFiles(files.Files()...)
			if len(lv) > 0 {
				if order {
					parts = append(parts, "o:"+strings.Join(lv, ""))
					for _, l := range lv {
						if l != "0" {
							run.out.Probes["compacted file (level>0) present"]++
							break
						}
					}
				} else {
					parts = append(parts, "u:"+strings.Join(lv, ""))
					run.out.Probes["out-of-order file present"]++
				}
			}
		}
	}
	run.out.AddLayout(strings.Join(parts, "|"))
}

// fileLayout lists the data files of a measurement with level, sequence and time
// range (diagnostics in violation details).
func fileLayout(sh *shard, m int) string {
	var b strings.Builder
	name := sMstName(m)
	for _, order := range []bool{true, false} {
		files, ok := sh.immTables.GetTSSPFiles(name, order)
		if !ok || files == nil {
			continue
		}
		for _, f := range files.Files() {
			l, sq := f.LevelAndSequence()
			mn, mx, _ := f.MinMaxTime()
			fmt.Fprintf(&b, "[%s %s L%d seq%d t%d..t%d] ", map[bool]string{true: "ordered", false: "unordered"}[order], filepath.Base(f.Path()), l, sq, sSlot(mn), sSlot(mx))
		}
		immutable.UnrefFilesReader(files.Files()...)
		immutable.UnrefFiles(files.Files()...)
	}
	return b.String()
}

func TestVerifWorldS(t *testing.T) {
	core.RunWorker[SCase](worldS{})
}
