package engine

// Crash-point enumeration for world S: every explored history's journal is cut at
// its mutation boundaries (stratified by operation, path class and kind), the
// image is recovered by the real start-up path on a fresh directory and compared
// with the model; recovery itself is journalled and crashed again (nested).

import (
	"fmt"
	"os"
	"path/filepath"
	"sort"
	"strings"
	"time"

	"github.com/openGemini/openGemini/verifsim/core"
	"github.com/openGemini/openGemini/verifsim/simfs"
)

func sleepMs(n int) { time.Sleep(time.Duration(n) * time.Millisecond) }

type sCrashPt struct {
	inc, k, torn int
}

func isReorg(k string) bool { return k == "compact" || k == "fullcompact" || k == "merge" }

// tornVariants: prefixes of an in-flight write that a killed process can leave.
// Log records are small and the property (C07) quantifies over every prefix, so
// WAL writes get byte-granular cuts; other files only page-granular ones.
func tornVariants(e *simfs.Entry, r *core.Rand, all bool) []int {
	if e.Kind != simfs.KWrite && e.Kind != simfs.KWriteFile {
		return nil
	}
	n := len(e.Data)
	if n < 2 {
		return nil
	}
	if strings.HasPrefix(e.Path, "wal/") {
		if all {
			out := make([]int, 0, n)
			if n <= 512 {
				for i := 1; i < n; i++ {
					out = append(out, i)
				}
				return out
			}
			out = append(out, 1, 4, 5, 6, n/2, n-1)
			for i := 0; i < 64; i++ {
				out = append(out, 1+r.Intn(n-1))
			}
			return out
		}
		cand := []int{1, 5, 6, n / 2, n - 1}
		var out []int
		seen := map[int]bool{}
		for _, c := range cand {
			if c > 0 && c < n && !seen[c] {
				seen[c] = true
				out = append(out, c)
			}
		}
		return out
	}
	var out []int
	first := int(4096 - e.Off%4096)
	for t := first; t < n && len(out) < 2; t += 4096 * (1 + r.Intn(4)) {
		out = append(out, t)
	}
	return out
}

func (run *sRun) crashPoints() []sCrashPt {
	c := run.c
	if c.OnlyK >= 0 && run.env.Extra["unpin"] != "all" {
		return []sCrashPt{{c.OnlyInc, c.OnlyK, c.OnlyTorn}}
	}
	var pts []sCrashPt
	for inc, d := range run.incDisk {
		j := d.Journal()
		classes := map[string][]int{}
		var order []string
		for k := 0; k <= len(j); k++ {
			var key string
			if k < len(j) {
				e := j[k]
				if c.CrashOps == "reorg" && (e.Tag >= len(c.Ops) || !isReorg(c.Ops[e.Tag].K)) {
					continue
				}
				if c.CrashOps == "drop" && (e.Tag >= len(c.Ops) || c.Ops[e.Tag].K != "dropm") {
					continue
				}
				if c.CrashOps == "wal" && !(e.Kind == simfs.KWrite && strings.HasPrefix(e.Path, "wal/")) {
					continue
				}
				key = fmt.Sprintf("%d|%d|%s", e.Tag, e.Kind, simfs.PathClass(e.Path))
				if c.CrashOps == "wal" {
					key = fmt.Sprintf("rec%d", k) // every log record is its own class
				}
			} else {
				if c.CrashOps != "" {
					continue
				}
				key = "end"
			}
			if _, ok := classes[key]; !ok {
				order = append(order, key)
			}
			classes[key] = append(classes[key], k)
		}
		if c.CrashOps == "wal" && c.MaxWalRec > 0 && len(order) > c.MaxWalRec {
			sel := run.r.Sample(len(order), c.MaxWalRec)
			no := make([]string, 0, len(sel))
			for _, i := range sel {
				no = append(no, order[i])
			}
			order = no
		}
		for _, key := range order {
			ks := classes[key]
			sel := ks
			if c.PerClass > 0 && len(ks) > c.PerClass {
				sel = nil
				// always the first boundary of the class, then seeded others (a class
				// with several instances, e.g. the removals of the log files of all
				// partitions, is cut in the middle too)
				sel = append(sel, ks[0])
				for _, x := range run.r.Sample(len(ks)-1, c.PerClass-1) {
					sel = append(sel, ks[x+1])
				}
			} else if c.PerClass == 0 {
				run.out.Probes["every crash point of a class enumerated"]++
			}
			for _, k := range sel {
				pts = append(pts, sCrashPt{inc, k, -1})
				if k < len(j) {
					tv := tornVariants(j[k], run.r, c.CrashOps == "wal")
					if c.CrashOps == "wal" {
						if c.TornPer > 0 && len(tv) > c.TornPer {
							// header boundaries always, the rest seeded
							keep := map[int]bool{1: true, 4: true, 5: true, 6: true, len(j[k].Data) - 1: true}
							for _, x := range run.r.Sample(len(tv), c.TornPer) {
								keep[tv[x]] = true
							}
							ntv := tv[:0:0]
							for _, t := range tv {
								if keep[t] {
									ntv = append(ntv, t)
								}
							}
							tv = ntv
						} else if c.TornPer == 0 {
							run.out.Probes["every prefix of a log record tried"]++
						}
					} else if c.PerClass > 0 && len(tv) > 2 {
						// keep two seeded variants per selected write
						a := run.r.Intn(len(tv))
						b := run.r.Intn(len(tv))
						tv = []int{tv[a], tv[b]}
					}
					for _, t := range tv {
						pts = append(pts, sCrashPt{inc, k, t})
					}
				}
			}
		}
	}
	return pts
}

// statesFor returns the model before and after the operation that was in flight
// at journal position k of incarnation inc (equal if nothing was in flight).
func (run *sRun) statesFor(inc, k int, j []*simfs.Entry) (pre, post *sModel, opi int) {
	final := run.states[len(run.states)-1]
	if k >= len(j) {
		// after the last mutation of this incarnation: everything it executed is acknowledged
		if inc+1 < len(run.incBase) {
			s := run.states[run.incBase[inc+1]-1]
			return s, s, run.incBase[inc+1] - 1
		}
		return final, final, len(run.c.Ops)
	}
	opi = j[k].Tag
	if opi+1 >= len(run.states) {
		return final, final, opi
	}
	if ack, ok := run.ackPos[[2]int{inc, opi}]; ok && k >= ack {
		// the operation had already returned; this is background work
		return run.states[opi+1], run.states[opi+1], opi
	}
	return run.states[opi], run.states[opi+1], opi
}

func (run *sRun) crashEnum() *core.Violation {
	out, c := run.out, run.c
	pts := run.crashPoints()
	imagers := map[int]*simfs.Imager{}
	sort.SliceStable(pts, func(a, b int) bool {
		if pts[a].inc != pts[b].inc {
			return pts[a].inc < pts[b].inc
		}
		return pts[a].k < pts[b].k
	})
	for n, p := range pts {
		if !run.env.Deadline.IsZero() && time.Now().After(run.env.Deadline) && !run.env.Replay {
			out.Stats["crash_enum_cut_by_budget"]++
			break
		}
		j := run.incDisk[p.inc].Journal()
		if p.k > len(j) {
			continue
		}
		im := imagers[p.inc]
		if im == nil {
			base := filepath.Join(run.env.Scratch, fmt.Sprintf("base%d", p.inc))
			if err := simfs.CopyTree(run.incInit[p.inc], base); err != nil {
				panic(core.InfraPanic("copy: " + err.Error()))
			}
			im = simfs.NewImager(j, base)
			imagers[p.inc] = im
		}
		pre, post, opi := run.statesFor(p.inc, p.k, j)
		desc, inflight := "end of journal", "end"
		if p.k < len(j) {
			desc = j[p.k].String()
			inflight = fmt.Sprintf("%s %s", j[p.k].Kind, simfs.PathClass(j[p.k].Path))
		}
		opk := "end"
		if opi >= 0 && opi < len(c.Ops) {
			opk = c.Ops[opi].K
		}
		at := map[string]string{"phase": "crash", "op": opk, "inflight": inflight, "torn": fmt.Sprint(p.torn >= 0), "nested": "false"}
		where := fmt.Sprintf("crash in incarnation %d before journal entry %d/%d (%s), torn=%d, in-flight op %d (%s)", p.inc, p.k, len(j), desc, p.torn, opi, opk)

		dst := filepath.Join(run.env.Scratch, fmt.Sprintf("crash-%d-%d-%d", p.inc, p.k, n))
		if err := im.Snapshot(p.k, p.torn, dst); err != nil {
			panic(core.InfraPanic("image: " + err.Error()))
		}
		if p.torn >= 0 {
			out.Faults["torn_write"]++
		} else {
			out.Faults["crash"]++
		}
		out.Stats["crash_states"]++
		pinned := c.OnlyK >= 0 && run.env.Extra["unpin"] == ""
		outerPinned := c.OnlyK >= 0 && run.env.Extra["unpin"] == "inner"
		at["pin"] = fmt.Sprintf("%d,%d,%d,-1,-1", p.inc, p.k, p.torn)
		v, recJournal := run.recoverAndCheck(dst, pre, post, opi, where, at, true, n)
		if v == nil && c.Nested > 0 && len(recJournal) > 0 {
			// crash again during recovery
			nestedPts := run.r.Sample(len(recJournal), c.Nested)
			if pinned {
				nestedPts = nil
				if c.OnlyK2 >= 0 && c.OnlyK2 < len(recJournal) {
					nestedPts = []int{c.OnlyK2}
				}
			} else if outerPinned && c.OnlyK2 >= 0 {
				// the recovery journal may be permuted between executions: try every position
				nestedPts = nestedPts[:0]
				for i := range recJournal {
					nestedPts = append(nestedPts, i)
				}
			}
			for _, k2 := range nestedPts {
				dst2 := filepath.Join(run.env.Scratch, fmt.Sprintf("crash2-%d-%d-%d", p.inc, p.k, k2))
				if err := im.Snapshot(p.k, p.torn, dst2); err != nil {
					panic(core.InfraPanic("image: " + err.Error()))
				}
				torn2 := -1
				if pinned {
					torn2 = c.OnlyTorn2
				} else if e := recJournal[k2]; e.Kind == simfs.KWrite && len(e.Data) > 8 && run.r.Bool(0.3) {
					tv := tornVariants(e, run.r, false)
					if len(tv) > 0 {
						torn2 = tv[run.r.Intn(len(tv))]
					}
				}
				ok := true
				for i := 0; i < k2 && ok; i++ {
					if err := simfs.Apply(dst2, recJournal[i], -1); err != nil {
						ok = false // recovery journal refers to state we cannot rebuild: skip
					}
				}
				if ok && torn2 >= 0 {
					_ = simfs.Apply(dst2, recJournal[k2], torn2)
				}
				if !ok {
					_ = os.RemoveAll(dst2)
					continue
				}
				out.Faults["nested_crash"]++
				out.Stats["crash_states"]++
				at2 := map[string]string{"phase": "crash", "op": opk, "inflight": inflight, "torn": fmt.Sprint(p.torn >= 0), "nested": "true",
					"pin": fmt.Sprintf("%d,%d,%d,%d,%d", p.inc, p.k, p.torn, k2, torn2),
					"inflight2": fmt.Sprintf("%s %s", recJournal[k2].Kind, simfs.PathClass(recJournal[k2].Path))}
				where2 := where + fmt.Sprintf("; second crash during recovery before its journal entry %d/%d (%s), torn=%d", k2, len(recJournal), recJournal[k2].String(), torn2)
				v2, _ := run.recoverAndCheck(dst2, pre, post, opi, where2, at2, false, n)
				if v2 != nil {
					v = v2
					break
				}
			}
		}
		if v != nil {
			if run.env.KnownID(v, out) != "" && !pinned {
				continue
			}
			return v
		}
	}
	return nil
}

// recoverAndCheck opens the shard on an image (fresh path), compares every read
// with the model (cells of the in-flight operation may be old or new), then keeps
// using the recovered shard: an overwrite of the in-flight rows plus fresh rows,
// a flush, and the reads again.  It returns the journal of the recovery run.
func (run *sRun) recoverAndCheck(dir string, pre, post *sModel, opi int, where string, at map[string]string, suffix bool, n int) (*core.Violation, []*simfs.Entry) {
	out, c := run.out, run.c
	if err := simfs.RelocateTxn(dir, run.env.Scratch, dir); err != nil {
		panic(core.InfraPanic("relocate: " + err.Error()))
	}
	cd := run.fs.NewDisk(dir)
	defer func() {
		cd.Kill()
		run.fs.Forget(cd)
		_ = os.RemoveAll(dir)
	}()
	fail := func(kind, detail string, a map[string]string) *core.Violation {
		return sviol(run.prop, kind, where+": "+detail, mergeAttrsS(a, at))
	}
	// probes: did the image hold a reorganisation intent log, and which way did start-up resolve it
	hadLog := false
	if ents, e := os.ReadDir(filepath.Join(dir, "data", "compact_log")); e == nil && len(ents) > 0 {
		hadLog = true
		out.Probes["crash image holds a compaction intent log"]++
	}
	node, err := openShard(dir, c.Knobs, uint64(len(run.incDisk)+2+n))
	if err != nil {
		return fail("crash_open_failed", "start-up on the crash image failed: "+err.Error(), nil), nil
	}
	recJournal := cd.Journal()
	if hadLog {
		fw, bw := false, false
		for _, e := range recJournal {
			if e.Kind == simfs.KRename && strings.HasSuffix(e.Path, ".tssp.init") {
				if strings.HasSuffix(e.Path2, ".tssp") {
					// new files carry .init until committed; old files get .init appended when still in use
					fw = true
				}
			}
			if e.Kind == simfs.KRemove && strings.HasSuffix(e.Path, ".tssp") {
				bw = true
			}
		}
		if fw {
			out.Probes["compaction log recovered: files renamed into place at start-up"]++
		}
		if bw {
			out.Probes["compaction log recovered: files removed at start-up"]++
		}
	}
	defer func() {
		defer func() { _ = recover() }()
		_ = node.close()
	}()
	var relax *sRelax
	if pre != post {
		relax = &sRelax{pre: pre, post: post, anyVersion: opi >= 0 && opi < len(c.Ops) && c.Ops[opi].K == "dropm"}
	}
	if v := readChecksOn(node.sh, post, c, run.r, out, run.prop, opi, "crash", 1, relax); v != nil {
		v.Kind = "crash_" + v.Kind
		v.Detail = where + ": " + v.Detail
		v.Attrs = mergeAttrsS(v.Attrs, at)
		return v, recJournal
	}
	if !suffix || (c.PerClass > 0 && n%3 != 0 && c.OnlyK < 0) {
		return nil, recJournal
	}
	// keep using the recovered shard
	m2 := post.clone()
	var rows []SRow
	if opi >= 0 && opi < len(c.Ops) && c.Ops[opi].K == "w" {
		for _, r := range c.Ops[opi].Rows {
			r.F = 15
			rows = append(rows, r)
		}
	}
	droppedM := map[int]bool{}
	for i, op := range c.Ops {
		if op.K == "dropm" && i <= opi {
			droppedM[op.M] = true
		}
	}
	for k := 0; k < 3; k++ {
		row := SRow{M: run.r.Intn(c.NMst), S: run.r.Intn(c.NSeries), T: run.r.Intn(sNumTimes), F: 1 + run.r.Intn(15)}
		if !droppedM[row.M] {
			rows = append(rows, row)
		}
	}
	if len(rows) == 0 {
		return nil, recJournal
	}
	wid := 900000 + n
	sub := &sRun{c: c, env: run.env, out: core.NewOutcome(), fs: run.fs, node: node, model: m2, r: run.r, prop: run.prop, disk: cd, seen: map[[2]int]bool{}, ackPos: map[[2]int]int{}}
	if v := sub.step(opi, SOp{K: "w", ID: wid, Rows: rows}); v != nil {
		return fail("crash_"+v.Kind, "write after recovery: "+v.Detail, v.Attrs), recJournal
	}
	// an in-flight drop stays undecided per row after recovery (an un-acknowledged drop may have removed any
	// subset of what it names): both models take the further write, and the relaxation stays in force
	var relax2 *sRelax
	if relax != nil && opi >= 0 && opi < len(c.Ops) && c.Ops[opi].K == "dropm" {
		p2 := pre.clone()
		p2.applyWrite(wid, rows)
		relax2 = &sRelax{pre: p2, post: m2, anyVersion: true}
	}
	if v := readChecksOn(node.sh, m2, c, run.r, out, run.prop, opi, "crash+write", 1, relax2); v != nil {
		v.Kind = "crash_" + v.Kind
		v.Detail = where + ": after one more write on the recovered shard: " + v.Detail
		v.Attrs = mergeAttrsS(v.Attrs, at)
		return v, recJournal
	}
	node.sh.ForceFlush()
	if v := readChecksOn(node.sh, m2, c, run.r, out, run.prop, opi, "crash+write+flush", 1, relax2); v != nil {
		v.Kind = "crash_" + v.Kind
		v.Detail = where + ": after a write and a flush on the recovered shard: " + v.Detail
		v.Attrs = mergeAttrsS(v.Attrs, at)
		return v, recJournal
	}
	out.Stats["post_recovery_ops"]++
	return nil, recJournal
}
