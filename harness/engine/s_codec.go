package engine

// C07 (storage-path clauses): the second-generation codec-boundary generator
// (val_mode 2), the per-case timestamp table, and the probes that MEASURE which
// encoder modes / block forms / wire shapes a history reached.  Nothing in this
// file is used by a case with val_mode 0 or 1 (other properties, old replay files).

import (
	"fmt"
	"math"
	"os"
	"path/filepath"
	"strings"

	"github.com/openGemini/openGemini/engine/immutable"
	"github.com/openGemini/openGemini/lib/util/lifted/influx/influxql"
	"github.com/openGemini/openGemini/lib/util/lifted/vm/protoparser/influx"
	"github.com/openGemini/openGemini/verifsim/core"
)

// ---- timestamps --------------------------------------------------------------------

// sTimeTab: timestamps of the sNumTimes slots of the case being executed; nil = the
// regular one-second grid (every case except C07 cases with a time mode).
var sTimeTab []int64

// sNoNegZero: the case keeps -0.0 out of its float values (see SCase.NoNegZero).
var sNoNegZero bool

// sFloatMLF: the case runs with float-compress-algorithm = mlf (matcher attribute of float violations).
var sFloatMLF bool

const (
	sTimeRegular  = 0 // base + k*1s: constant delta when slots are contiguous, else simple8b with scale 1e9
	sTimeJitter   = 1 // base + k*1s + [0,1s) ns: irregular deltas, simple8b with scale 1
	sTimeScaled   = 2 // irregular multiples of 10^e ns (e = 1..12): simple8b with every scale, scale reduction
	sTimeGapPack  = 3 // two regions >= 2^60 ns apart, steps that are multiples of 2^24: not simple8b -> snappy
	sTimeGapNoise = 4 // two regions >= 2^60 ns apart, noisy low bits: snappy does not pay -> uncompressed (>= 3 rows)
	sTimeModes    = 5
)

// codecTimeTable: strictly increasing, inside the shard's time range (1970-01-01T01:00 .. 2099).
func codecTimeTable(mode int, seed uint64, nt int) []int64 {
	if mode == sTimeRegular {
		return nil
	}
	tab := make([]int64, nt)
	h := mix64(seed, 0x7157)
	switch mode {
	case sTimeJitter:
		for k := range tab {
			tab[k] = sBaseTime + int64(k)*sStep + int64(mix64(h, uint64(k))%uint64(sStep))
		}
	case sTimeScaled:
		unit := int64(1)
		for e := 0; e < 1+int(h%12); e++ {
			unit *= 10
		}
		mul := int64(1 + (h>>8)%9) // the deltas are multiples of unit, sometimes of 10*unit
		for k := range tab {
			tab[k] = sBaseTime + (int64(k)*3+int64(mix64(h, uint64(k))%3))*mul*unit
		}
	case sTimeGapPack, sTimeGapNoise:
		// four regions (1970, 2006, 2043, 2079), each 2^60 ns + a multiple of 2^24 after the one before:
		// every segment that holds a region boundary has a delta that simple8b cannot take
		lo := int64(2*3600*1e9) &^ (1<<24 - 1) // 1970-01-01T02:00
		step := int64(1+(h>>16)%100) << 24
		per := (nt + 3) / 4
		for k := range tab {
			base, i := lo+int64(k/per)*((int64(1)<<60)+(int64(1)<<40)), k%per
			if mode == sTimeGapPack {
				tab[k] = base + int64(i)*step
			} else {
				tab[k] = base + int64(i)*sStep + int64(mix64(h, uint64(k))%uint64(sStep))
			}
		}
	default:
		return nil
	}
	return tab
}

func sTimeOfTab(k int) int64 {
	switch {
	case k < 0:
		return sTimeTab[0] + int64(k)*sStep
	case k >= len(sTimeTab):
		return sTimeTab[len(sTimeTab)-1] + int64(k-len(sTimeTab)+1)*sStep
	}
	return sTimeTab[k]
}

// sSlot: the slot number a timestamp belongs to (diagnostics); timestamps off the
// table are printed as they are.
func sSlot(t int64) int64 {
	if sTimeTab == nil {
		return (t - sBaseTime) / sStep
	}
	for k, v := range sTimeTab {
		if v == t {
			return int64(k)
		}
	}
	return t
}

// ---- values ------------------------------------------------------------------------

// wide: a 53-bit signed value shifted left by 9 - up to +-2^62, exactly representable
// in the float64 carrier of the row codec (C06's digit loss stays out), incompressible.
func codecWide(h uint64) int64 { return (int64(h>>11) - (int64(1) << 52)) << 9 }

var codecIntExtremes = []int64{maxSafeInt, -maxSafeInt, 0, 1, -1, 1 << 31, -(1 << 31), 1 << 32, (1 << 32) + 1, maxSafeInt - 1,
	math.MinInt64, math.MaxInt64 - 1023, 1 << 62, -(1 << 62), (1 << 60) + (1 << 11), 1700000000000000000}

var codecFloatSpecials = []float64{math.Inf(1), math.Inf(-1), math.NaN(), math.Float64frombits(0x7ff8000000000abc), math.Float64frombits(0xfff0000000000001),
	math.Copysign(0, -1), 0, math.SmallestNonzeroFloat64, -math.SmallestNonzeroFloat64, math.MaxFloat64, -math.MaxFloat64, 1, -1.5}

func codecBytes(h uint64, n int, lo, span uint64) []byte {
	b := make([]byte, n)
	x := h
	for i := range b {
		if i%8 == 0 {
			x = mix64(x, uint64(i))
		}
		b[i] = byte(lo + (x>>(8*uint(i%8)))%span)
	}
	return b
}

// codecValue2: a function of (seed, cell, field) - the write id plays no part, an
// overwrite stores the same value - whose per-column pattern selects one encoder mode:
//
//	int    constant | constant delta | small deltas | extremes | 53-bit noise | two alternating extremes (zstd pays) |
//	       epoch-ns with zeros (huge first/inner delta) | 2^40 steps | wide noise (zstd does not pay -> uncompressed)
//	float  constant (same) | <= 5 runs (RLE) | integer ramp (gorilla) | cycling decimals (snappy) | specials (snappy) |
//	       random bits (raw) | random decimals (snappy/gorilla do not pay -> raw) | mostly constant
//	string "" | short constant | long repetitive | random printable | short + rare 20 KB | unicode/odd |
//	       part noise part filler around the 0.85 compression-ratio threshold | binary noise | rare >= 64 KiB
//	bool   true | false | alternating | noise
func codecValue2(w int, r SRow, f string) sVal {
	col := mix64(sValSeed, uint64(r.M)*7919+uint64(r.S)*104729+uint64(f[1]))
	cellH := mix64(col, uint64(r.T)*1000003)
	T := int64(r.T)
	switch f {
	case "fi":
		base := int64(col>>20) % 1000000
		var v int64
		switch col % 10 {
		case 0:
			v = base
		case 1:
			v = base + T*(int64(col>>8)%2001-1000)
		case 2:
			v = base + T*10 + int64(cellH%7)
		case 3:
			// two or four of the extremes per column: repetitive enough for zstd to pay from 8-12 values on
			v = codecIntExtremes[(col>>16+cellH%(2+col>>24%2*2))%uint64(len(codecIntExtremes))]
		case 4:
			v = int64(cellH>>11) - (int64(1) << 52)
		case 5, 9:
			// (0, 2^62, 0, ...: the deltas do not wrap around to something small)
			v = 0
			if (T+int64(col>>9))%2 == 0 {
				v = []int64{1 << 62, -(1 << 62), (1 << 60) + (1 << 11)}[col>>12%3]
			}
		case 6:
			v = 1700000000000000000 + T*1000000000
			if (T+int64(col>>8))%7 == 0 {
				v = 0
			}
		case 7:
			v = base + T*(int64(1)<<40)
		default:
			v = codecWide(cellH)
		}
		return sVal{Typ: influxql.Integer, I: v, W: w}
	case "ff":
		var v float64
		if k := r.X & 3; k != 0 {
			return sVal{Typ: influxql.Float, F: []float64{0, math.NaN(), math.Inf(1), math.Inf(-1)}[k], W: w}
		}
		if r.X>>6&1 != 0 {
			// long runs: the same bits for codecLongRun slots in a row
			return sVal{Typ: influxql.Float, F: float64(col>>8%1000)/4 + float64(T/codecLongRun), W: w}
		}
		if z := r.X >> 4 & 3; z != 0 {
			// blocks of zeros: all -0.0, or -0.0 and +0.0 in turn (finding C07-float-zero-block-loses-negative-zero)
			v = math.Copysign(0, -1)
			if z == 2 && r.T%2 == 1 {
				v = 0
			}
			return sVal{Typ: influxql.Float, F: v, W: w}
		}
		if ov := r.X >> 2 & 3; ov != 0 {
			// strictly increasing with the slot: every value is a run of its own
			n := T*13 + int64(cellH%11) + 1
			switch ov {
			case 1:
				v = float64(int64(col>>8%100000) + n)
			case 2:
				v = float64(int64(col>>8%1000)*1000+n) / 1000
			default:
				v = float64(int64(col>>8%1000)) + float64(n)/1e6
			}
			return sVal{Typ: influxql.Float, F: v, W: w}
		}
		switch col % 8 {
		case 0:
			v = float64(col>>8%1000) / 4
		case 1:
			v = float64(int64(col>>8%1000)+T/5) / 2
		case 2:
			v = float64(int64(col>>8%100000) + T*3)
		case 3:
			v = []float64{0.5, 12.25, 3.125, 100.75}[(T+int64(col>>8))%int64(2+col>>12%3)]
		case 4:
			// (stepping through the list with the slot: a block never consists of zeros only, see the zero-block finding)
			v = codecFloatSpecials[(uint64(r.T)*5+cellH%3)%uint64(len(codecFloatSpecials))]
			if sNoNegZero && v == 0 && math.Signbit(v) {
				v = math.Float64frombits(0x7ff4000000000001) // a signalling-NaN payload instead
			}
		case 5:
			v = math.Float64frombits(cellH)
			if math.IsNaN(v) || math.IsInf(v, 0) {
				v = float64(cellH % 1000)
			}
		case 6:
			v = float64(int64(cellH%10000000)+1) / 100
		default:
			if col>>16%2 == 0 {
				// binary fractions that change a little from row to row (more than three decimals, not integers): gorilla
				v = float64(col>>8%1000) + float64(T)/512 + float64(cellH%3)/4096
			} else {
				v = float64(col >> 8 % 97)
				if cellH%5 == 0 {
					v += float64(cellH % 3)
				}
			}
		}
		return sVal{Typ: influxql.Float, F: v, W: w}
	case "fs":
		var v string
		switch col % 9 {
		case 0:
			v = ""
		case 1:
			v = "const-" + fmt.Sprint(col>>8%10)
		case 2:
			v = strings.Repeat("ab", int(cellH%2500))
		case 3:
			v = string(codecBytes(cellH, int(cellH%200), 33, 90))
		case 4:
			if cellH%16 == 0 {
				v = string(codecBytes(cellH, 20000+int(cellH%5000), 32, 95))
			} else {
				v = fmt.Sprintf("v%d", cellH%1000)
			}
		case 5:
			us := []string{"", "é", "日本語", "a,b=c d", "\"quoted\"", "tab\there", "nul\x00byte", "😀😀", "x", "exactly15bytes!", "sixteen bytes..."}
			v = us[cellH%uint64(len(us))]
		case 6:
			// noise share 60..99 %: the packed block lands on either side of the 0.85 threshold
			n := 20 + int(cellH%300)
			noise := n * (60 + int(col>>8%40)) / 100
			v = string(codecBytes(cellH, noise, 1, 255)) + strings.Repeat("=", n-noise)
		case 7:
			v = string(codecBytes(cellH, int(cellH%120), 1, 255))
		default:
			if r.T == int(col>>8%uint64(sNumTimes)) {
				v = string(codecBytes(cellH, 65536+int(cellH%4096), 32, 95))
			} else {
				v = fmt.Sprintf("k%d", cellH%7)
			}
		}
		return sVal{Typ: influxql.String, S: v, W: w}
	case "fb":
		var v bool
		switch col % 4 {
		case 0:
			v = true
		case 1:
			v = false
		case 2:
			v = r.T%2 == 0
		default:
			v = cellH%2 == 0
		}
		return sVal{Typ: influxql.Boolean, B: v, W: w}
	}
	panic("unknown field " + f)
}

// ---- generation --------------------------------------------------------------------

// The long-run flavour (one C07 case in 30 without crash images): max-rows-per-segment = 65528 - the setting has no
// upper bound in the product - and one series that gets codecLongRows rows of the float field alone in ONE write, the
// value changing after codecLongRun rows: one block of two runs, the first longer than any 15-bit (and 14-bit) run counter.
// Segments stay below 65536 rows: above that an out-of-order merge loses rows on the unchanged tree (lead L6 in
// notes/leads.md, seen with 100000 rows, not triaged) - VERIF_C07_LONGRUN=big selects that size for triage runs,
// VERIF_C07_LONGRUN=all draws the flavour for every case without crash images (development aid).
const codecLongRun = 36000

var codecLongRows, codecLongSeg = 60000, 65528

func init() {
	if os.Getenv("VERIF_C07_LONGRUN") == "big" {
		codecLongRows, codecLongSeg = 100000, 131072
	}
}

// codecLongRunsDraw: one PRNG draw per C07 case without crash images.
func codecLongRunsDraw(r *core.Rand) bool {
	hit := r.Intn(30) == 0
	return hit || os.Getenv("VERIF_C07_LONGRUN") != ""
}

func genCodecLongRuns(r *core.Rand, c *SCase, m int) []SRow {
	s := r.Intn(c.NSeries)
	rows := make([]SRow, 0, codecLongRows)
	for t := 0; t < codecLongRows; t++ {
		rows = append(rows, SRow{M: m, S: s, T: t, F: 2, X: 1 << 6})
	}
	return rows
}

// genCodecCase sets the C07-only parts of a case: value mode 2, the time mode and the
// encoder settings a deployment can choose in the store's configuration file
// (string-compress-algo, float-compress-algorithm, chunk-meta-compress-mode,
// max-rows-per-segment: any positive value is accepted, multiples of 8 are not required).
func genCodecCase(r *core.Rand, c *SCase) {
	c.ValMode = 2
	c.ValSeed = r.Uint64()
	c.TimeMode = core.Pick(r, []int{sTimeRegular, sTimeRegular, sTimeJitter, sTimeScaled, sTimeGapPack, sTimeGapPack, sTimeGapNoise})
	c.Knobs.StrAlgo = r.Intn(3)
	c.Knobs.FloatMLF = r.Intn(3) == 0
	// finding C07-mlf-negative-zero (the MLF float compressor stores -0.0 as +0.0): listed, and kept out of the
	// MLF cases so that it does not end each of them at its first -0.0
	c.NoNegZero = c.Knobs.FloatMLF && !codecNoSidestep("negzero")
	c.Knobs.ChunkMetaMode = r.Intn(4)
	c.Knobs.RowsPerSegment = core.Pick(r, []int{3, 5, 8, 12, 12, 16, 20, 20, 100, 1000, 1000})
	if r.Intn(4) == 0 {
		c.NSlots = 160 // long columns: blocks above the sampling thresholds of the float encoder, tens of segments
		c.Knobs.RowsPerSegment = core.Pick(r, []int{12, 20, 100, 100, 1000})
	}
}

// codecNoSidestep: VERIF_C07_ALL=1 (or a list: merge,negzero) makes the generator stop avoiding the listed C07
// findings - for trying a candidate fix, or once the findings are entries of known_findings.json.  It only
// influences which cases are generated; a case, once generated, is replayed from its file as usual.
func codecNoSidestep(what string) bool {
	// the three findings the generator used to avoid (out-of-order merge with a segment size that is not a multiple
	// of 8; -0.0 under MLF; all-zero float blocks with a -0.0) are fixed in /repo (4ae86aa, da7684f, 0e4dc04) and
	// listed as fixed: nothing is avoided any more unless VERIF_C07_SIDESTEP names it (triage aid for older trees)
	v := os.Getenv("VERIF_C07_SIDESTEP")
	return !(v == "1" || strings.Contains(v, what))
}

// genCodecDenseWrite: one series, a contiguous run of slots (1 row, a few rows,
// exactly / one more than a segment, several segments), with a null pattern chosen
// per write: none, alternating, leading, trailing (whole segments without a field ->
// all-null blocks; splits of columns with nulls -> bitmap offsets), random, one field,
// sparse (one row in eight lacks a field), or the single-special-float write.
func genCodecDenseWrite(r *core.Rand, c *SCase, m int) []SRow {
	s := r.Intn(c.NSeries)
	nt := c.nslots()
	L := core.Pick(r, []int{1, 2, 3, 4, 5, 6, 8, 9, 10, 12, 13, 16, 17, 24, 24})
	if nt > sNumTimes && r.Bool(0.6) {
		L = core.Pick(r, []int{40, 100, 101, 119, 121, 130, nt, nt})
	}
	a := r.Intn(nt - L + 1)
	np := r.Intn(11)
	if np >= 9 {
		// exactly one NaN / +Inf / -Inf, at the first, the last or an inner row, in a float column whose other
		// values are ordinary and all different (> 8 runs from 10 rows on): the encoder must notice the one value
		if L < 10 {
			L = core.Pick(r, []int{10, 11, 19, 24})
			if nt > sNumTimes && r.Bool(0.5) {
				L = core.Pick(r, []int{100, 119, 121, 150})
			}
			a = r.Intn(nt - L + 1)
		}
		if np == 10 && codecNoSidestep("negzero") && r.Bool(0.5) {
			// a float column of zeros, all or half of them negative
			x := r.Range(1, 2) << 4
			rows := make([]SRow, 0, L)
			for i := 0; i < L; i++ {
				rows = append(rows, SRow{M: m, S: s, T: a + i, F: 2 | r.Intn(16), X: x})
			}
			return rows
		}
		at := core.Pick(r, []int{0, 0, L - 1, L / 2, r.Intn(L)})
		x := r.Range(1, 3) << 2
		f := 2 | core.Pick(r, []int{0, 13, r.Intn(16)})
		rows := make([]SRow, 0, L)
		for i := 0; i < L; i++ {
			row := SRow{M: m, S: s, T: a + i, F: f, X: x}
			if i == at {
				row.X |= r.Range(1, 3)
			}
			rows = append(rows, row)
		}
		return rows
	}
	j := r.Intn(4)  // the field that has (or, np 2/3/5: the only field without) nulls
	k := r.Range(1, L) // rows of the leading / trailing part
	rows := make([]SRow, 0, L)
	for i := 0; i < L; i++ {
		f := 15
		switch np {
		case 1:
			if i%2 == 1 {
				f = 15 &^ (1 << uint(j))
			}
		case 2:
			if i < k {
				f = 1 << uint(j)
			}
		case 3:
			if i >= L-k {
				f = 1 << uint(j)
			}
		case 4:
			f = 1 + r.Intn(15)
		case 5:
			f = 1 << uint(j)
		case 6, 7, 8:
			// sparse nulls: blocks with a null bitmap that still hold most of their values
			if r.Intn(8) == 0 {
				f = 15 &^ (1 << uint(r.Intn(4)))
			}
		}
		rows = append(rows, SRow{M: m, S: s, T: a + i, F: f})
	}
	return rows
}

// genCodecColumnFill: series s of measurement m over all time slots, sparse nulls.
func genCodecColumnFill(r *core.Rand, c *SCase, m, s int) []SRow {
	nt := c.nslots()
	rows := make([]SRow, 0, nt)
	// The integer and the timestamp coder compare the size of the zstd / snappy output INCLUDING everything that is already in the
	// chunk buffer with the raw size of the block, so those modes are only chosen for a block near the start of a chunk.  A fill that
	// carries the integer field and (rarely, for the nulls) the boolean field alone keeps the chunk small enough for that.
	intOnly := r.Intn(3) == 0
	// a hole: one field is absent over a stretch of at least two segments (or a third of the column) -> all-null blocks of that
	// field, and blocks with leading / trailing nulls next to them
	holeF, holeA, holeN := r.Intn(4), 0, 0
	if !intOnly && r.Bool(0.5) {
		holeN = 2 * c.Knobs.RowsPerSegment
		if holeN > nt/2 {
			holeN = nt / 3
		}
		holeA = r.Intn(nt - holeN + 1)
	}
	for t := 0; t < nt; t++ {
		f := 15
		if intOnly {
			f = 4
			if r.Intn(6) == 0 {
				f = 1
			}
		} else if r.Intn(8) == 0 {
			f = 15 &^ (1 << uint(r.Intn(4)))
		}
		if t >= holeA && t < holeA+holeN {
			f &^= 1 << uint(holeF)
			if f == 0 {
				f = 1 << uint((holeF+1)%4)
			}
		}
		rows = append(rows, SRow{M: m, S: s, T: t, F: f})
	}
	return rows
}

// negZeroLost: want is the float -0.0 and got is +0.0.
func negZeroLost(want, got sVal) bool {
	return want.Typ == influxql.Float && got.Typ == influxql.Float && want.F == 0 && got.F == 0 && math.Signbit(want.F) && !math.Signbit(got.F)
}

// ---- probes ------------------------------------------------------------------------

// encProbe classifies every block of every data file that this run has not looked at
// yet: Probes["enc <type>/<form>/<mode>"] counts blocks.  A string block whose
// compressor is not the configured one (and not the uncompressed fall-back) would mean
// that a pooled coder of an earlier case survived the knob change: harness trouble.
func (run *sRun) encProbe() {
	if run.node == nil || run.node.sh == nil {
		return
	}
	if run.encSeen == nil {
		run.encSeen = map[string]bool{}
	}
	sh := run.node.sh
	want := []string{"snappy", "lz4", "zstd"}[run.c.Knobs.StrAlgo%3]
	for m := 0; m < run.c.NMst; m++ {
		name := sMstName(m)
		for _, order := range []bool{true, false} {
			files, ok := sh.immTables.GetTSSPFiles(name, order)
			if !ok || files == nil {
				continue
			}
			for _, f := range files.Files() {
				key := fmt.Sprintf("%d/%d/%v/%s", run.inc, m, order, filepath.Base(f.Path()))
				if run.encSeen[key] {
					continue
				}
				run.encSeen[key] = true
				err := immutable.VerifBlockModes(f, func(k string) {
					run.out.Probes["enc "+k]++
					if strings.HasPrefix(k, "string/") && !strings.HasSuffix(k, "/"+want) && !strings.HasSuffix(k, "/uncompressed") && !strings.HasSuffix(k, "/raw") {
						run.out.Infra = "string block " + k + " although string-compress-algo is " + want + " (stale pooled coder)"
					}
					if run.c.ValMode != 2 {
						return
					}
					if strings.HasSuffix(k, "/mlf") && !run.c.Knobs.FloatMLF {
						run.out.Infra = "MLF float block although float-compress-algorithm is not mlf"
					}
				})
				if err != nil {
					run.out.Infra = "block mode probe: " + err.Error()
				}
				run.out.Stats["enc_files_probed"]++
			}
			immutable.UnrefFilesReader(files.Files()...)
			immutable.UnrefFiles(files.Files()...)
		}
	}
}

// wireProbe: shapes of the row batch that went through FastMarshalMultiRows /
// FastUnmarshalMultiRows and into a WAL record.
func wireProbe(out *core.Outcome, rows []influx.Row) {
	p := func(k string) { out.Probes["wire "+k]++ }
	if len(rows) == 1 {
		p("batch of 1 row")
	}
	if len(rows) >= 24 {
		p("batch >= 24 rows")
	}
	seen := map[string]bool{}
	once := func(k string) {
		if !seen[k] {
			seen[k] = true
			p(k)
		}
	}
	for i := range rows {
		row := &rows[i]
		if len(row.Tags) == 1 {
			once("row with 1 tag")
		}
		if len(row.Fields) == 1 {
			once("row with 1 field")
		}
		if len(row.Fields) == len(sFieldNames) {
			once("row with all 4 field types")
		}
		for j := range row.Fields {
			fl := &row.Fields[j]
			switch fl.Type {
			case influx.Field_Type_String:
				switch n := len(fl.StrValue); {
				case n == 0:
					once("string len 0")
				case n >= 65536:
					once("string >= 64 KiB")
				case n >= 16384:
					once("string >= 16 KiB")
				}
			case influx.Field_Type_Float:
				if math.IsNaN(fl.NumValue) {
					once("float NaN")
				}
				if math.IsInf(fl.NumValue, 0) {
					once("float +-Inf")
				}
				if fl.NumValue == 0 && math.Signbit(fl.NumValue) {
					once("float -0.0")
				}
			case influx.Field_Type_Int:
				if math.Abs(fl.NumValue) > float64(maxSafeInt) {
					once("int beyond 2^53 (float64-exact)")
				}
				if fl.NumValue < 0 {
					once("int negative")
				}
			}
		}
	}
}
