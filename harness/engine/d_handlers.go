package engine_test

// World D: the store node's DDL surface, served by the REAL ts-store message handlers
// (handler.NewHandler(type) -> SetMessage -> SetStore -> Process) on a storage.Storage
// bound to the world's engine.  Requests are built field by field the way
// lib/netstorage builds them and pass a MarshalBinary/UnmarshalBinary round trip, as
// they would on the wire.  Stubbed: the transport (spdy) and the requester.

import (
	"fmt"

	"github.com/openGemini/openGemini/app/ts-store/storage"
	"github.com/openGemini/openGemini/app/ts-store/transport/handler"
	"github.com/openGemini/openGemini/engine"
	"github.com/openGemini/openGemini/lib/codec"
	"github.com/openGemini/openGemini/lib/metaclient"
	"github.com/openGemini/openGemini/lib/msgservice"
	"github.com/openGemini/openGemini/lib/util/lifted/influx/influxql"
	"github.com/openGemini/openGemini/lib/util/lifted/influx/meta"
	"github.com/openGemini/openGemini/lib/util/lifted/protobuf/proto"
)

func init() { engine.DwStore = &dwHandlers{} }

type dwHandlers struct {
	store *storage.Storage
}

func (d *dwHandlers) Bind(e engine.Engine, data *meta.Data) {
	s := &storage.Storage{}
	s.SetEngine(e)
	mc := &metaclient.Client{}
	mc.SetCacheData(data)
	s.SetMetaClient(mc)
	d.store = s
}

type dwWire interface {
	codec.BinaryCodec
	MarshalBinary() ([]byte, error)
	UnmarshalBinary([]byte) error
}

// call: what DDLProcessor.Handle does with a DDL message.
func (d *dwHandlers) call(typ uint8, req dwWire, fresh dwWire) (codec.BinaryCodec, error) {
	b, err := req.MarshalBinary()
	if err != nil {
		return nil, fmt.Errorf("marshal request: %w", err)
	}
	if err := fresh.UnmarshalBinary(b); err != nil {
		return nil, fmt.Errorf("unmarshal request: %w", err)
	}
	h := handler.NewHandler(typ)
	if h == nil {
		return nil, fmt.Errorf("unsupported message type: %d", typ)
	}
	if err := h.SetMessage(fresh); err != nil {
		return nil, err
	}
	h.SetStore(d.store)
	return h.Process()
}

func condPtr(cond string) *string {
	if cond == "" {
		return nil
	}
	// the SQL node sends Expr.String() of the parsed condition
	expr, err := influxql.ParseExpr(cond)
	if err != nil {
		panic("verif: unparsable condition " + cond + ": " + err.Error())
	}
	return proto.String(expr.String())
}

func (d *dwHandlers) DropSeries(db string, pts []uint32, names []string, cond string) error {
	req := &msgservice.DropSeriesRequest{}
	req.Db = proto.String(db)
	req.PtIDs = pts
	req.Measurements = names
	req.Condition = condPtr(cond)
	rsp, err := d.call(msgservice.DropSeriesRequestMessage, req, &msgservice.DropSeriesRequest{})
	if err != nil {
		return err
	}
	r, ok := rsp.(*msgservice.DropSeriesResponse)
	if !ok {
		return fmt.Errorf("unexpected response %T", rsp)
	}
	return r.Error()
}

func (d *dwHandlers) del(req *msgservice.DeleteRequest) error {
	rsp, err := d.call(msgservice.DeleteRequestMessage, req, &msgservice.DeleteRequest{})
	if err != nil {
		return err
	}
	r, ok := rsp.(*msgservice.DeleteResponse)
	if !ok {
		return fmt.Errorf("unexpected response %T", rsp)
	}
	return r.Err
}

func (d *dwHandlers) DeleteMeasurement(db, rp, name string, shardIds []uint64) error {
	return d.del(&msgservice.DeleteRequest{Type: msgservice.MeasurementDelete, Database: db, ShardIds: shardIds, Rp: rp, Measurement: name})
}

func (d *dwHandlers) DeleteRetentionPolicy(db, rp string, pt uint32) error {
	return d.del(&msgservice.DeleteRequest{Type: msgservice.RetentionPolicyDelete, Database: db, Rp: rp, PtId: pt})
}

func (d *dwHandlers) DeleteDatabase(db string, pt uint32) error {
	return d.del(&msgservice.DeleteRequest{Type: msgservice.DatabaseDelete, Database: db, PtId: pt})
}

func (d *dwHandlers) keysReq(db string, pts []uint32, names []string, cond string, exact bool) msgservice.SeriesKeysRequest {
	req := msgservice.SeriesKeysRequest{}
	req.Db = proto.String(db)
	req.PtIDs = pts
	req.Exact = &exact
	req.Measurements = names
	req.Condition = condPtr(cond)
	return req
}

func (d *dwHandlers) SeriesKeys(db string, pts []uint32, names []string, cond string, exact bool) ([]string, error) {
	req := d.keysReq(db, pts, names, cond, exact)
	rsp, err := d.call(msgservice.SeriesKeysRequestMessage, &req, &msgservice.SeriesKeysRequest{})
	if err != nil {
		return nil, err
	}
	r, ok := rsp.(*msgservice.SeriesKeysResponse)
	if !ok {
		return nil, fmt.Errorf("unexpected response %T", rsp)
	}
	return r.Series, r.Error()
}

func (d *dwHandlers) TagKeys(db string, pts []uint32, names []string, cond string) ([]string, error) {
	req := &msgservice.ShowTagKeysRequest{}
	req.Db = proto.String(db)
	req.PtIDs = pts
	req.Measurements = names
	req.Condition = condPtr(cond)
	rsp, err := d.call(msgservice.ShowTagKeysRequestMessage, req, &msgservice.ShowTagKeysRequest{})
	if err != nil {
		return nil, err
	}
	r, ok := rsp.(*msgservice.ShowTagKeysResponse)
	if !ok {
		return nil, fmt.Errorf("unexpected response %T", rsp)
	}
	return r.TagKeys, r.Error()
}

func (d *dwHandlers) TagValues(db string, pts []uint32, tagKeys map[string]map[string]struct{}, cond string, exact bool) (influxql.TablesTagSets, error) {
	req := &msgservice.ShowTagValuesRequest{}
	req.Db = proto.String(db)
	req.PtIDs = pts
	req.Exact = &exact
	req.Condition = condPtr(cond)
	req.SetTagKeys(tagKeys)
	req.Limit = proto.Int(0)
	rsp, err := d.call(msgservice.ShowTagValuesRequestMessage, req, &msgservice.ShowTagValuesRequest{})
	if err != nil {
		return nil, err
	}
	r, ok := rsp.(*msgservice.ShowTagValuesResponse)
	if !ok {
		return nil, fmt.Errorf("unexpected response %T", rsp)
	}
	return r.GetTagValuesSlice(), r.Error()
}

func (d *dwHandlers) SeriesCardinality(db string, pts []uint32, names []string, cond string) ([]meta.MeasurementCardinalityInfo, error) {
	req := &msgservice.SeriesCardinalityRequest{SeriesKeysRequest: d.keysReq(db, pts, names, cond, false)}
	req.Exact = nil
	rsp, err := d.call(msgservice.SeriesCardinalityRequestMessage, req, &msgservice.SeriesCardinalityRequest{})
	if err != nil {
		return nil, err
	}
	r, ok := rsp.(*msgservice.SeriesCardinalityResponse)
	if !ok {
		return nil, fmt.Errorf("unexpected response %T", rsp)
	}
	return r.CardinalityInfos, r.Err
}

func (d *dwHandlers) SeriesExactCardinality(db string, pts []uint32, names []string, cond string) (map[string]uint64, error) {
	req := &msgservice.SeriesExactCardinalityRequest{SeriesKeysRequest: d.keysReq(db, pts, names, cond, false)}
	req.Exact = nil
	rsp, err := d.call(msgservice.SeriesExactCardinalityRequestMessage, req, &msgservice.SeriesExactCardinalityRequest{})
	if err != nil {
		return nil, err
	}
	r, ok := rsp.(*msgservice.SeriesExactCardinalityResponse)
	if !ok {
		return nil, fmt.Errorf("unexpected response %T", rsp)
	}
	return r.Cardinality, r.Error()
}
