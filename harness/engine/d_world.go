package engine

// World D - one store node (a real EngineImpl: partitions, shards, indexes, WAL,
// immutable files, read path) on the simulated disk, the real ts-store DDL message
// handlers in front of it, and a catalogue made of a real meta.Data; driven
// sequentially by one client.  Property C13: dropping removes exactly what was named,
// for every kind of read, for good.

import (
	"fmt"
	"github.com/openGemini/openGemini/lib/syscontrol"
	"os"
	"path/filepath"
	"sort"
	"strings"
	"sync"
	"sync/atomic"
	"testing"
	"time"

	"github.com/openGemini/openGemini/engine/immutable"
	"github.com/openGemini/openGemini/lib/config"
	"github.com/openGemini/openGemini/lib/errno"
	"github.com/openGemini/openGemini/lib/logger"
	"github.com/openGemini/openGemini/lib/metaclient"
	"github.com/openGemini/openGemini/lib/statisticsPusher/statistics"
	"github.com/openGemini/openGemini/lib/util/lifted/influx/influxql"
	"github.com/openGemini/openGemini/lib/util/lifted/influx/meta"
	"github.com/openGemini/openGemini/lib/util/lifted/vm/protoparser/influx"
	"github.com/openGemini/openGemini/verifsim/core"
	"github.com/openGemini/openGemini/verifsim/simfs"
	"go.uber.org/zap"
)

// DOp is one client operation.
//
//	w        write Rows into (DB, RP) through the coordinator stub (creates database / policy /
//	         measurement / shard group in the catalogue when missing, as CREATE statements would)
//	flush    ForceFlush of every shard          compact / fullcompact / merge: on every shard
//	idxflush the index's one-second flusher fires (every index builder, the deleted-id index too)
//	purge    the store's hourly drop-series service run (EngineImpl.DropSeries)
//	restart  clean stop, start on a fresh-path copy of the disk
//	drops    DROP SERIES FROM [RP.]M WHERE Cond      (RP < 0: unqualified)
//	dropm    DROP MEASUREMENT M (of DB.RP)           droprp: DROP RETENTION POLICY   dropdb: DROP DATABASE
type DOp struct {
	K     string `json:"k"`
	ID    int    `json:"id,omitempty"`
	DB    int    `json:"db,omitempty"`
	RP    int    `json:"rp,omitempty"`
	Rows  []SRow `json:"rows,omitempty"`
	Level int    `json:"level,omitempty"`
	Force bool   `json:"force,omitempty"`
	M     int    `json:"m,omitempty"`
	Cond  string `json:"cond,omitempty"`
}

type DCase struct {
	Prop        string `json:"prop"`
	Knobs       SKnobs `json:"knobs"`
	NDB         int    `json:"ndb"`
	NRP         int    `json:"nrp"`
	NMst        int    `json:"nmst"`
	NSeries     int    `json:"nseries"`
	NPT         int    `json:"npt"`
	NGroups     int    `json:"ngroups"`       // shard groups the time slots fall into
	IdxPerGroup bool   `json:"idx_per_group"` // one index group per shard group (else one for all)
	DistinctSeq bool   `json:"distinct_seq"`  // partitions draw series ids from distinct ranges (in the product the range starts at the unix second the partition object was made: usually the same for all partitions of a node)
	Desc        bool   `json:"desc"`          // order in which the SQL node lists matched measurements (map order in the product)
	Ops         []DOp  `json:"ops"`
	Crash       bool   `json:"crash"`
	PerClass    int    `json:"per_class"`
	CrashWindow int    `json:"crash_window"` // operations after a drop whose journal entries are crash points too
	ReadSeed    uint64 `json:"read_seed"`
	OnlyInc     int    `json:"only_inc"`
	OnlyK       int    `json:"only_k"` // >=0: check only this crash point
	OnlyTorn    int    `json:"only_torn"`
	// lazy-load-shard-enable of the store configuration (product default: true): after a restart a shard is opened by the
	// first write or read that needs it.  Absent in older replay files = false (what the first version of this world ran)
	Lazy bool `json:"lazy,omitempty"`
}

type worldD struct{}

func (worldD) Name() string { return "D" }

func (worldD) Components() ([]string, []string) {
	return []string{
			"engine.EngineImpl (Assign, CreateShard, WriteRows, DropMeasurement, DropRetentionPolicy, DeleteDatabase, DropSeries purge task, SeriesKeys, TagKeys, TagValues, SeriesCardinality, SeriesExactCardinality, Close)",
			"ts-store DDL message handlers (handler.NewHandler(type).Process on a storage.Storage: DropSeries, Delete, SeriesKeys rough/exact, ShowTagKeys, ShowTagValues rough/exact, SeriesCardinality, SeriesExactCardinality)",
			"engine shard, WAL, memtable, immutable store (flush, compaction, merge, DropMeasurement), tsi index + mergeset (deleted series ids), read path (CreateCursor, cursors, ChunkReader, StreamAggregateTransform)",
			"meta.Data catalogue methods (CreateDatabase, CreateDBPtView, CreateRetentionPolicy, CreateMeasurement versions, CreateShardGroup, MatchMeasurements, Mark*Delete, Drop*)",
			"lib/fileops through simfs (journal, crash images)",
		}, []string{
			"meta service: consensus, RPC and the checkDelete loops (mark -> store delete -> catalogue drop is executed inline, in the order app/ts-meta/meta/store.go does it; after a crash the pending marks are driven again)",
			"SQL node: statements become catalogue commands / store requests by a small coordinator stub (measurement resolution with RetentionPolicyInfo.MatchMeasurements, point routing by series % partitions); per-shard results are not merged across shards",
			"SQL layer above the store reader (statements parsed by the real parser, plans built by the real plan builder / heuristic planner as in world S)",
			"transport (requests pass MarshalBinary/UnmarshalBinary, no spdy)",
		}
}

// ---- time slots ----------------------------------------------------------------------------

const dSgdH = 1

func (c *DCase) timeOf(t int) int64 {
	if c.NGroups > 1 && t >= sNumTimes/2 {
		return sBaseTime + int64(dSgdH)*int64(time.Hour) + int64(t-sNumTimes/2)*sStep
	}
	return sBaseTime + int64(t)*sStep
}

func (c *DCase) slotOf(ts int64) (int, bool) {
	for t := 0; t < sNumTimes; t++ {
		if c.timeOf(t) == ts {
			return t, true
		}
	}
	return 0, false
}

func (c *DCase) ptOf(s int) uint32 { return uint32(s % c.NPT) }

// ---- generation ----------------------------------------------------------------------------

var dAtoms = []string{"host = 'h0'", "host = 'h1'", "host != 'h0'", "host =~ /h1/", "host !~ /h1/", "region = 'r0'", "region != 'r0'",
	"region =~ /r/", "region !~ /r0/", "region = 'r4'", "host = 'zz'", "region =~ /zz/"}

func dGenCond(r *core.Rand) string {
	switch r.Weighted([]int{10, 50, 20, 20}) {
	case 0:
		return ""
	case 1:
		return core.Pick(r, dAtoms)
	case 2:
		return core.Pick(r, dAtoms) + " AND " + core.Pick(r, dAtoms)
	}
	return core.Pick(r, dAtoms) + " OR " + core.Pick(r, dAtoms)
}

func (worldD) Gen(r *core.Rand, env *core.Env) DCase {
	c := DCase{Prop: env.Property, Knobs: genKnobs(r), OnlyK: -1, OnlyTorn: -1}
	c.Knobs.Partitions = 1 // the WAL partition order defect (C01) is kept out
	c.Knobs.ReplayParallel = false
	c.NDB = core.Pick(r, []int{1, 1, 1, 2})
	c.NRP = core.Pick(r, []int{1, 1, 2})
	c.NMst = core.Pick(r, []int{1, 2})
	c.NSeries = r.Range(2, 6)
	c.NPT = core.Pick(r, []int{1, 1, 2})
	c.NGroups = core.Pick(r, []int{1, 1, 2})
	c.IdxPerGroup = r.Bool(0.5)
	c.Desc = r.Bool(0.5)
	c.DistinctSeq = r.Bool(0.5)
	c.ReadSeed = r.Uint64()
	thorough := env.Tier == "thorough"
	if r.Bool(0.4) {
		c.Crash = true
		c.PerClass = 1
		c.CrashWindow = 2
		if thorough {
			c.PerClass = 2
			c.CrashWindow = 3
		}
	}
	wid := 0
	// what the generator believes exists (aiming only; the oracle has its own model)
	type sk struct{ db, rp, m, s int }
	written := map[sk][]int{}
	droppedSeries := []sk{}
	pickTarget := func() (int, int) { return r.Intn(c.NDB), r.Intn(c.NRP) }
	write := func(db, rp int, aimed bool) {
		wid++
		op := DOp{K: "w", ID: wid, DB: db, RP: rp}
		n := r.Range(1, 6)
		if r.Intn(5) == 0 {
			n = r.Range(6, 24)
		}
		for j := 0; j < n; j++ {
			row := SRow{M: r.Intn(c.NMst), S: r.Intn(c.NSeries), T: r.Intn(sNumTimes)}
			if aimed && len(droppedSeries) > 0 && r.Bool(0.7) {
				d := core.Pick(r, droppedSeries)
				if d.db == db && d.rp == rp {
					row.M, row.S = d.m, d.s
					if ts := written[d]; len(ts) > 0 && r.Bool(0.5) {
						row.T = core.Pick(r, ts) // the very timestamp a dropped row had
					}
				}
			}
			// every row carries fi (aggregates are taken over fi; a column that is null for whole
			// segments is C09's subject); the other fields come and go
			row.F = 4 | r.Intn(16)
			if r.Bool(0.3) {
				row.F = 15
			}
			op.Rows = append(op.Rows, row)
			k := sk{db, rp, row.M, row.S}
			written[k] = append(written[k], row.T)
		}
		c.Ops = append(c.Ops, op)
	}
	reorg := func() {
		switch r.Weighted([]int{5, 2, 1, 2, 1}) {
		case 0:
			c.Ops = append(c.Ops, DOp{K: "flush"})
		case 1:
			c.Ops = append(c.Ops, DOp{K: "compact", Level: r.Intn(3)})
		case 2:
			c.Ops = append(c.Ops, DOp{K: "fullcompact"})
		case 3:
			c.Ops = append(c.Ops, DOp{K: "merge", Force: r.Bool(0.7)})
		case 4:
			c.Ops = append(c.Ops, DOp{K: "restart"})
		}
	}
	drop := func() {
		db, rp := pickTarget()
		kinds := []int{55, 25, 0, 0}
		if c.NRP > 1 {
			kinds[2] = 10
		}
		kinds[3] = 10
		switch r.Weighted(kinds) {
		case 0:
			op := DOp{K: "drops", DB: db, RP: rp, M: r.Intn(c.NMst), Cond: dGenCond(r)}
			if c.NRP > 1 && r.Bool(0.4) {
				op.RP = -1
			}
			c.Ops = append(c.Ops, op)
			if r.Bool(0.5) {
				c.Ops = append(c.Ops, DOp{K: "idxflush"}) // the deleted-id index's one-second flusher fires before anything else happens
			}
			if sel, err := dPredSeries(op.Cond, c.NSeries); err == nil {
				for s := range sel {
					for q := 0; q < c.NRP; q++ {
						if op.RP < 0 || op.RP == q {
							droppedSeries = append(droppedSeries, sk{db, q, op.M, s})
						}
					}
				}
				sort.Slice(droppedSeries, func(i, j int) bool {
					a, b := droppedSeries[i], droppedSeries[j]
					return a.db*1000+a.rp*100+a.m*10+a.s < b.db*1000+b.rp*100+b.m*10+b.s
				})
			}
		case 1:
			m := r.Intn(c.NMst)
			c.Ops = append(c.Ops, DOp{K: "dropm", DB: db, RP: rp, M: m})
			for s := 0; s < c.NSeries; s++ {
				droppedSeries = append(droppedSeries, sk{db, rp, m, s})
			}
		case 2:
			c.Ops = append(c.Ops, DOp{K: "droprp", DB: db, RP: 1}) // never the default policy (C16-drop-default-rp)
			for m := 0; m < c.NMst; m++ {
				for s := 0; s < c.NSeries; s++ {
					droppedSeries = append(droppedSeries, sk{db, 1, m, s})
				}
			}
		case 3:
			c.Ops = append(c.Ops, DOp{K: "dropdb", DB: db})
			for q := 0; q < c.NRP; q++ {
				for m := 0; m < c.NMst; m++ {
					for s := 0; s < c.NSeries; s++ {
						droppedSeries = append(droppedSeries, sk{db, q, m, s})
					}
				}
			}
		}
	}
	// phase 1: build a layout (memtable / ordered / out-of-order / compacted)
	if r.Intn(3) == 0 {
		// enough flushed files of one level for a level compaction, then late data for an out-of-order file
		c.Knobs.MinGroupFiles = 2
		db, rp := pickTarget()
		for i := 0; i < 3; i++ {
			write(db, rp, false)
			c.Ops = append(c.Ops, DOp{K: "flush"})
		}
		c.Ops = append(c.Ops, DOp{K: "compact", Level: 0})
		if r.Bool(0.5) {
			write(db, rp, false)
			c.Ops = append(c.Ops, DOp{K: "flush"})
		}
	}
	n1 := r.Range(3, 10)
	for i := 0; i < n1; i++ {
		if r.Weighted([]int{6, 4}) == 0 {
			db, rp := pickTarget()
			write(db, rp, false)
		} else {
			reorg()
		}
	}
	// phase 2..: drop, then life goes on
	rounds := core.Pick(r, []int{1, 1, 1, 2, 2, 3})
	for k := 0; k < rounds; k++ {
		drop()
		n2 := r.Range(2, 8)
		for i := 0; i < n2; i++ {
			purgeW := 0
			if k == 0 && r.Intn(4) == 0 {
				purgeW = 8 // the purge task rewrites the index destructively (known finding): kept to a minority of the histories
			}
			switch r.Weighted([]int{45, 35, 12, purgeW}) {
			case 0:
				db, rp := pickTarget()
				if len(droppedSeries) > 0 && r.Bool(0.6) {
					d := core.Pick(r, droppedSeries)
					db, rp = d.db, d.rp
				}
				write(db, rp, true)
			case 1:
				reorg()
			case 2:
				c.Ops = append(c.Ops, DOp{K: "idxflush"})
			case 3:
				c.Ops = append(c.Ops, DOp{K: "purge"})
			}
		}
	}
	c.Lazy = r.Intn(10) < 7 // drawn last: the rest of the case is what the seed gave before this knob existed
	return c
}

func (worldD) NumOps(c DCase) int { return len(c.Ops) }

func cloneDCase(c DCase) DCase {
	n := c
	n.Ops = make([]DOp, len(c.Ops))
	for i, op := range c.Ops {
		op.Rows = append([]SRow(nil), op.Rows...)
		n.Ops[i] = op
	}
	n.OnlyInc, n.OnlyK, n.OnlyTorn = 0, -1, -1
	return n
}

func (worldD) Subset(c DCase, keep []int) DCase {
	n := c
	n.Ops = nil
	for _, i := range keep {
		op := c.Ops[i]
		op.Rows = append([]SRow(nil), op.Rows...)
		n.Ops = append(n.Ops, op)
	}
	n.OnlyInc, n.OnlyK, n.OnlyTorn = 0, -1, -1
	return n
}

func (worldD) Simplify(c DCase) []DCase {
	var out []DCase
	for i, op := range c.Ops {
		if op.K == "w" && len(op.Rows) > 1 {
			n := cloneDCase(c)
			n.Ops[i].Rows = n.Ops[i].Rows[:len(op.Rows)/2]
			out = append(out, n)
			n2 := cloneDCase(c)
			n2.Ops[i].Rows = n2.Ops[i].Rows[len(op.Rows)/2:]
			out = append(out, n2)
		}
	}
	for i, op := range c.Ops {
		if op.K != "w" {
			continue
		}
		for j, row := range op.Rows {
			if row.F != 4 {
				n := cloneDCase(c)
				n.Ops[i].Rows[j].F = 4
				out = append(out, n)
				break
			}
		}
	}
	for i, op := range c.Ops {
		if op.K == "drops" {
			if strings.Contains(op.Cond, " AND ") || strings.Contains(op.Cond, " OR ") {
				sep := " AND "
				if !strings.Contains(op.Cond, sep) {
					sep = " OR "
				}
				parts := strings.SplitN(op.Cond, sep, 2)
				for _, p := range parts {
					n := cloneDCase(c)
					n.Ops[i].Cond = p
					out = append(out, n)
				}
			}
			if op.RP < 0 {
				n := cloneDCase(c)
				n.Ops[i].RP = 0
				out = append(out, n)
			}
		}
	}
	if c.Crash && c.OnlyK < 0 {
		n := cloneDCase(c)
		n.Crash = false
		out = append(out, n)
	}
	if c.Knobs.RowsPerSegment != 1000 {
		n := cloneDCase(c)
		n.Knobs.RowsPerSegment = 1000
		out = append(out, n)
	}
	if c.Knobs.MutableLimit < 1<<20 {
		n := cloneDCase(c)
		n.Knobs.MutableLimit = 30 << 20
		out = append(out, n)
	}
	if c.NPT > 1 {
		n := cloneDCase(c)
		n.NPT = 1
		out = append(out, n)
	}
	if c.NGroups > 1 {
		n := cloneDCase(c)
		n.NGroups = 1
		out = append(out, n)
	}
	if c.IdxPerGroup {
		n := cloneDCase(c)
		n.IdxPerGroup = false
		out = append(out, n)
	}
	if c.NDB > 1 {
		n := cloneDCase(c)
		for i := range n.Ops {
			n.Ops[i].DB = 0
		}
		n.NDB = 1
		out = append(out, n)
	}
	if c.NRP > 1 {
		ok := true
		for _, op := range c.Ops {
			if op.K == "droprp" {
				ok = false
			}
		}
		if ok {
			n := cloneDCase(c)
			for i := range n.Ops {
				n.Ops[i].RP = 0
			}
			n.NRP = 1
			out = append(out, n)
		}
	}
	if c.NMst > 1 {
		n := cloneDCase(c)
		for i := range n.Ops {
			n.Ops[i].M = 0
			for j := range n.Ops[i].Rows {
				n.Ops[i].Rows[j].M = 0
			}
		}
		n.NMst = 1
		out = append(out, n)
	}
	return out
}

// Pin restricts the case to the crash point recorded in the violation.
func (worldD) Pin(c DCase, v *core.Violation) (DCase, bool) {
	var inc, k, torn int
	if n, _ := fmt.Sscanf(v.Attrs["pin"], "%d,%d,%d", &inc, &k, &torn); n != 3 {
		return c, false
	}
	n := cloneDCase(c)
	n.OnlyInc, n.OnlyK, n.OnlyTorn = inc, k, torn
	return n, true
}

func (worldD) Neutralise(c DCase, name string) (DCase, bool) {
	dropKinds := func(pred func(op DOp) bool) (DCase, bool) {
		n := cloneDCase(c)
		n.Ops = nil
		changed := false
		for _, op := range cloneDCase(c).Ops {
			if pred(op) {
				changed = true
				continue
			}
			n.Ops = append(n.Ops, op)
		}
		return n, changed
	}
	switch name {
	case "no-drop-series":
		return dropKinds(func(op DOp) bool { return op.K == "drops" })
	case "no-purge":
		return dropKinds(func(op DOp) bool { return op.K == "purge" })
	case "no-restart":
		return dropKinds(func(op DOp) bool { return op.K == "restart" })
	case "one-policy":
		if c.NRP == 1 {
			return c, false
		}
		n := cloneDCase(c)
		for i := range n.Ops {
			if n.Ops[i].K == "droprp" {
				return c, false
			}
			n.Ops[i].RP = 0
		}
		n.NRP = 1
		return n, true
	}
	return c, false
}

// ---- process-wide setup --------------------------------------------------------------------

var dSetupOnce sync.Once

func dSetup() {
	sSetup()
	dSetupOnce.Do(func() {
		reportLoadFrequency = 1000000 * time.Hour // per-partition load reporting is not part of any path under test
		if os.Getenv("DW_LOG") == "" {
			logger.SetLogger(zap.NewNop())
		}
		meta.DataLogger = zap.NewNop() // the meta service sets it at start-up
		// ts-store's start-up applies the configuration default IndexReadCachePersistent=false (app/ts-store/run/server.go);
		// the package default is true, which would keep the key->id cache across clean restarts and hide cold lookups
		syscontrol.SetIndexReadCachePersistent(false)
	})
}

// ---- one incarnation of the store -----------------------------------------------------------

type dNode struct {
	distinctSeq bool
	root        string
	eng         *EngineImpl
	mc          *dMeta
	inc         int
}

func (run *dRun) engineOptions() EngineOptions {
	o := sEngineOptions(run.c.Knobs)
	o.OpenShardLimit = 8
	o.LazyLoadShardEnable = run.c.Lazy || os.Getenv("VERIF_D_LAZY") == "1"
	o.MaxRowsPerSegment = run.c.Knobs.RowsPerSegment
	// The compaction section of the options as ts-store fills it (app/ts-store/storage/storage.go, NewStorage) from the
	// corrected configuration (app/ts-store/run/server.go: conf.Data.Corrector -> Store.CorrectorThroughput).  NewEngine
	// applies every one of these values to process-wide limiters; with the zero values of NewEngineOptions()
	// fileops.SetBackgroundReadLimiter(0) gives the background-read limiter burst 0, every low-priority read of a
	// compaction fails ("rate: Wait(n=..) exceeds limiter's burst 0"), NewFileIterators returns "no enough files to do
	// compact" and the task ends without doing anything (logged only); SetCompactLimit(0, 0) would make LimitWriter.Write
	// spin for ever.  n = max(1, cpus/4) = 1: the files of a case are far below one second of any of these rates.
	sc := config.NewStore()
	sc.CorrectorThroughput(4)
	o.CompactThroughput = int64(sc.Compact.CompactThroughput)
	o.CompactThroughputBurst = int64(sc.Compact.CompactThroughputBurst)
	o.CompactRecovery = sc.Compact.CompactRecovery
	o.SnapshotThroughput = int64(sc.Compact.SnapshotThroughput)
	o.SnapshotThroughputBurst = int64(sc.Compact.SnapshotThroughputBurst)
	o.BackgroundReadThroughput = int(sc.Compact.BackGroundReadThroughput)
	o.MaxConcurrentCompactions = sc.Compact.MaxConcurrentCompactions
	o.MaxFullCompactions = sc.Compact.MaxFullCompactions
	o.FullCompactColdDuration = time.Duration(sc.Compact.CompactFullWriteColdDuration)
	return o
}

// openNode starts a store process on root: engine, partitions assigned from the catalogue
// (databases that are marked deleted get no partitions: meta.Data.GetFailedPtInfos).
func (run *dRun) openNode(root string, cat *dCatalogue, inc int) (*dNode, error) {
	applyKnobs(run.c.Knobs)
	lc := &metaclient.LoadCtx{LoadCh: make(chan *metaclient.DBPTCtx)}
	e, err := NewEngine(root, root, run.engineOptions(), lc)
	if err != nil {
		return nil, fmt.Errorf("NewEngine: %w", err)
	}
	applyKnobs(run.c.Knobs) // NewEngine re-applies option values; the knobs win
	n := &dNode{root: root, eng: e.(*EngineImpl), mc: &dMeta{cat: cat}, inc: inc, distinctSeq: run.c.DistinctSeq}
	n.eng.SetMetaClient(n.mc)           // OpenStorage does this right after creating the engine
	metaclient.LogicClock = uint64(inc) // what LoadLogicalClock does at every process start
	for db := 0; db < run.c.NDB; db++ {
		dbi := cat.data.Database(dDBName(db))
		if dbi == nil || dbi.MarkDeleted {
			continue
		}
		if err := n.assignDB(cat, db); err != nil {
			_ = n.eng.Close()
			return nil, err
		}
	}
	if DwStore == nil {
		panic(core.InfraPanic("world D: the handler adapter (d_handlers.go, package engine_test) is not linked in"))
	}
	DwStore.Bind(n.eng, cat.data)
	n.tame()
	return n, nil
}

func (n *dNode) assignDB(cat *dCatalogue, db int) error {
	name := dDBName(db)
	brief := &meta.DatabaseBriefInfo{Name: name, Replicas: 1}
	for _, pt := range cat.pts(db) {
		durs := cat.data.GetShardDurationsByDbPtForRetention(name, pt)
		if err := n.eng.Assign(uint64(n.inc), cat.nid, name, pt, 0, durs, brief, n.mc, nil); err != nil {
			return fmt.Errorf("Assign(%s, pt %d): %w", name, pt, err)
		}
	}
	return nil
}

// shardList: every shard object the engine holds, in (db, pt, id) order.
type dEngShard struct {
	db string
	pt uint32
	id uint64
	sh *shard
}

func (n *dNode) shardList() []dEngShard {
	var out []dEngShard
	n.eng.mu.RLock()
	for db, pts := range n.eng.DBPartitions {
		for pt, p := range pts {
			p.mu.RLock()
			for id, s := range p.shards {
				if sh, ok := s.(*shard); ok && sh != nil {
					out = append(out, dEngShard{db, pt, id, sh})
				}
			}
			p.mu.RUnlock()
		}
	}
	n.eng.mu.RUnlock()
	sort.Slice(out, func(i, j int) bool {
		if out[i].db != out[j].db {
			return out[i].db < out[j].db
		}
		if out[i].pt != out[j].pt {
			return out[i].pt < out[j].pt
		}
		return out[i].id < out[j].id
	})
	return out
}

// tame: reorganisation only happens as a scheduled operation; the asynchronous reload of
// the per-series flush times is run to completion (as world S does in openShard); series
// ids must not depend on the wall clock.
func (n *dNode) tame() {
	n.eng.mu.RLock()
	for dbName, pts := range n.eng.DBPartitions {
		for pt, p := range pts {
			want := uint64(1700000000) + uint64(n.inc)*1000000
			if n.distinctSeq {
				dbi := 0
				fmt.Sscanf(dbName, "db%d", &dbi)
				want += uint64(dbi*4+int(pt)) * 100000
			}
			if atomic.LoadUint64(&p.sequenceID) > want+90000 || atomic.LoadUint64(&p.sequenceID) < want {
				atomic.StoreUint64(&p.sequenceID, want)
			}
		}
	}
	n.eng.mu.RUnlock()
	for _, es := range n.shardList() {
		n.tameShard(es.sh)
	}
}

func (n *dNode) tameShard(sh *shard) {
	if sh.immTables == nil {
		return
	}
	sh.immTables.CompactionDisable()
	sh.immTables.MergeDisable()
	sh.immTables.LoadSequencer()
	seq := sh.immTables.Sequencer()
	for k := 0; k < 5000 && seq.IsLoading(); k++ {
		time.Sleep(time.Millisecond)
	}
	seq.UnRef()
}

func (n *dNode) shard(db string, pt uint32, id uint64) *shard {
	s, err := n.eng.getShard(db, pt, id)
	if err != nil || s == nil {
		return nil
	}
	sh, _ := s.(*shard)
	return sh
}

func (n *dNode) flushIndexes() {
	n.eng.mu.RLock()
	defer n.eng.mu.RUnlock()
	for _, pts := range n.eng.DBPartitions {
		for _, p := range pts {
			p.mu.RLock()
			for _, ib := range p.indexBuilder {
				ib.Flush()
			}
			for _, ib := range p.delIndexBuilderMap {
				ib.Flush()
			}
			p.mu.RUnlock()
		}
	}
}

func (n *dNode) close() error {
	if n == nil || n.eng == nil {
		return nil
	}
	err := n.eng.Close()
	n.eng = nil
	return err
}

// ---- execution -----------------------------------------------------------------------------

type dRun struct {
	c     DCase
	env   *core.Env
	out   *core.Outcome
	prop  string
	fs    *simfs.FS
	cat   *dCatalogue
	node  *dNode
	disk  *simfs.Disk
	inc   int
	model *dModel
	r     *core.Rand

	states  []*dModel // states[i] = model before op i; states[len(ops)] = final
	incDisk []*simfs.Disk
	incInit []string
	incBase []int
	ackPos  map[[2]int]int  // (incarnation, op) -> journal length when the op returned
	seen    map[string]bool // series (db/rp/name/s) whose creation has been followed by an index flush
	// immediate: per (target, shape) - did the shape return data of drop generation g when it was
	// first checked after that drop?  (a leak that shows only later has "reappeared")
	leaked    map[string]bool
	checked   map[string]bool
	mstEver   map[[3]int]bool // (db, rp, m) ever created
	physOld   map[string]int  // "db/rp/m/name" of measurements whose drop was completed -> by which operation
	crashing  bool
	unflushed map[dCell]bool             // cells written since the last flush (probe: drop of data in memtable)
	cellGens  map[dCell]map[int64]bool   // flush generations in which a (series, timestamp) was written
	idxNames  map[string]map[string]bool // "db/rp/pt/indexID" -> versioned measurement names with series in that index
	physEver  map[string]bool            // "db/rp/name": the versioned name was in use in that policy at some time
	idxBorn   map[string]int             // "db/rp/pt/indexID" -> operation that first wrote into that index
	delIdxAt  map[string]int             // "db/rp/pt" -> operation since which the partition holds a deleted-id index builder for the policy
}

// multiGen: some (series, timestamp) of the target's measurement was written in more than one
// flush generation (the statement of C09 excludes the bare aggregate form for such histories).
func (run *dRun) multiGen(db, rp, m int) bool {
	for c, g := range run.cellGens {
		if c.DB == db && c.RP == rp && c.M == m && len(g) > 1 {
			return true
		}
	}
	return false
}

func (run *dRun) logf(format string, a ...interface{}) {
	if !run.crashing {
		run.out.Log(format, a...)
	}
}

func (run *dRun) noteFlushed() {
	if !run.crashing {
		run.unflushed = map[dCell]bool{}
	}
}

func (w worldD) Exec(c DCase, env *core.Env) *core.Outcome {
	out := core.NewOutcome()
	prop := env.Property
	if prop == "" {
		prop = c.Prop
	}
	if prop == "" {
		prop = "C13"
	}
	if c.NDB < 1 || c.NRP < 1 || c.NMst < 1 || c.NSeries < 1 || c.NPT < 1 || c.NGroups < 1 {
		out.Infra = "malformed case"
		return out
	}
	dSetup()
	fs := simfs.Install()
	run := &dRun{c: c, env: env, out: out, prop: prop, fs: fs, model: newDModel(), r: core.NewRand(c.ReadSeed),
		ackPos: map[[2]int]int{}, seen: map[string]bool{}, leaked: map[string]bool{}, checked: map[string]bool{},
		mstEver: map[[3]int]bool{}, physOld: map[string]int{}, unflushed: map[dCell]bool{}, cellGens: map[dCell]map[int64]bool{},
		idxNames: map[string]map[string]bool{}, physEver: map[string]bool{}, idxBorn: map[string]int{}, delIdxAt: map[string]int{}}
	defer run.cleanup()
	igd := dSgdH * 4
	if c.IdxPerGroup {
		igd = dSgdH
	}
	run.cat = newDCatalogue(dCatCfg{NPT: c.NPT, SgdH: dSgdH, IgdH: igd})
	for db := 0; db < c.NDB; db++ {
		dMust(run.cat.createDatabase(0, 0, db), "create database")
		for rp := 1; rp < c.NRP; rp++ {
			dMust(run.cat.createRP(0, 0, db, rp), "create retention policy")
		}
	}
	if err := run.open(filepath.Join(env.Scratch, "inc0"), ""); err != nil {
		out.Violation = sviol(prop, "open_failed", "starting an empty store failed: "+err.Error(), nil)
		return out
	}
	hd := []string{fmt.Sprintf("knobs=%+v ndb=%d nrp=%d nm=%d ns=%d npt=%d ng=%d ipg=%v desc=%v", c.Knobs, c.NDB, c.NRP, c.NMst, c.NSeries, c.NPT, c.NGroups, c.IdxPerGroup, c.Desc)}
	namedDrop, writeAfter, reorgAfter := false, false, false
	for i, op := range c.Ops {
		run.states = append(run.states, run.model.clone())
		run.disk.SetTag(i)
		ngens := len(run.model.gens)
		v := run.step(i, op)
		run.ackPos[[2]int{len(run.incDisk) - 1, i}] = run.disk.Len()
		hd = append(hd, dOpDigest(op))
		if v != nil {
			v.Attrs = mergeAttrsS(v.Attrs, map[string]string{"op": dOpAttr(op.K), "shape": "-", "after": "immediately"})
			out.Violation = v
			return out
		}
		out.Stats["ops"]++
		if len(run.model.gens) > ngens && len(run.model.gens[len(run.model.gens)-1].Rows) > 0 {
			namedDrop = true
		} else if namedDrop {
			switch op.K {
			case "w":
				writeAfter = true
			case "flush", "compact", "fullcompact", "merge", "restart":
				reorgAfter = true
			}
		}
		if v := run.checkRound(i, op); v != nil {
			out.Violation = v
			return out
		}
	}
	run.states = append(run.states, run.model.clone())
	out.Digest = core.DigestStrings(hd)
	out.Nontrivial = namedDrop && writeAfter && reorgAfter
	if v := run.checkAll(len(c.Ops)-1, "end", run.liveCtx()); v != nil {
		out.Violation = v
		return out
	}
	run.layoutProbe()
	if err := run.node.close(); err != nil {
		out.Violation = sviol(prop, "close_error", "closing the store failed: "+err.Error(), map[string]string{"op": "end", "shape": "-", "after": "immediately"})
		return out
	}
	run.node = nil
	if err := run.disk.CheckComplete(filepath.Join(env.Scratch, "complete-check"), run.incInit[len(run.incInit)-1], dSeamIgnore); err != nil {
		out.Infra = err.Error()
		return out
	}
	if c.Crash {
		if v := run.crashEnum(); v != nil {
			out.Violation = v
			return out
		}
	}
	return out
}

func dSeamIgnore(rel string) bool { return sSeamIgnore(rel) }

func dMust(err error, what string) {
	if err != nil {
		panic(core.InfraPanic(what + ": " + err.Error()))
	}
}

func dOpAttr(k string) string {
	switch k {
	case "drops":
		return "drop_series"
	case "dropm":
		return "drop_measurement"
	case "droprp":
		return "drop_rp"
	case "dropdb":
		return "drop_database"
	}
	return k
}

func dOpDigest(op DOp) string {
	var b strings.Builder
	fmt.Fprintf(&b, "%s %d %d %d %d %v %d %q:", op.K, op.ID, op.DB, op.RP, op.Level, op.Force, op.M, op.Cond)
	for _, r := range op.Rows {
		fmt.Fprintf(&b, "%d.%d.%d.%d,", r.M, r.S, r.T, r.F)
	}
	return b.String()
}

func (run *dRun) cleanup() {
	if run.node != nil {
		func() {
			defer func() { _ = recover() }()
			_ = run.node.close()
		}()
	}
	for _, d := range run.incDisk {
		d.Kill()
		run.fs.Forget(d)
	}
}

func (run *dRun) open(dir, from string) error {
	if from != "" {
		if err := simfs.CopyTree(from, dir); err != nil {
			panic(core.InfraPanic("copy tree: " + err.Error()))
		}
		if err := simfs.RelocateTxn(dir, run.env.Scratch, dir); err != nil {
			panic(core.InfraPanic("relocate: " + err.Error()))
		}
	} else {
		_ = os.MkdirAll(dir, 0o755)
	}
	init := dir + ".init"
	if err := simfs.CopyTree(dir, init); err != nil {
		panic(core.InfraPanic("copy tree: " + err.Error()))
	}
	run.incInit = append(run.incInit, init)
	d := run.fs.NewDisk(dir)
	run.disk = d
	run.incDisk = append(run.incDisk, d)
	run.incBase = append(run.incBase, len(run.states))
	if n := len(run.states); n > 0 {
		d.SetTag(n - 1)
	}
	run.inc++
	node, err := run.openNode(dir, run.cat, run.inc)
	if err != nil {
		return err
	}
	run.node = node
	return nil
}

func (run *dRun) pos() (int, int) { return len(run.incDisk) - 1, run.disk.Len() }

// ---- operations ----------------------------------------------------------------------------

func (run *dRun) step(i int, op DOp) *core.Violation {
	out := run.out
	switch op.K {
	case "w":
		return run.opWrite(i, op)
	case "flush":
		for _, es := range run.node.shardList() {
			es.sh.ForceFlush()
		}
		out.Log("op%d flush", i)
		out.Stats["flushes"]++
		run.noteFlushed()
	case "compact", "fullcompact", "merge":
		for _, es := range run.node.shardList() {
			sh := es.sh
			var err error
			switch op.K {
			case "compact":
				sh.immTables.CompactionEnable()
				err = sh.immTables.LevelCompact(uint16(op.Level), es.id)
				dWaitStore(sh)
				sh.immTables.CompactionDisable()
			case "fullcompact":
				sh.immTables.CompactionEnable()
				err = sh.immTables.FullCompact(es.id)
				dWaitStore(sh)
				sh.immTables.CompactionDisable()
			case "merge":
				sh.immTables.MergeEnable()
				err = sh.immTables.MergeOutOfOrder(es.id, false, op.Force)
				dWaitStore(sh)
				sh.immTables.MergeDisable()
			}
			if err != nil {
				return sviol(run.prop, "reorg_error", fmt.Sprintf("op %d: %s on shard %d = %v", i, op.K, es.id, err), nil)
			}
			if os.Getenv("DW_DEBUG") != "" {
				if mt, ok := sh.immTables.(*immutable.MmsTables); ok {
					for name, fs := range mt.Order {
						var lv []string
						for _, f := range fs.Files() {
							l, q := f.LevelAndSequence()
							lv = append(lv, fmt.Sprintf("L%d/seq%d", l, q))
						}
						fmt.Printf("DW after %s(level %d) shard %d %s ordered: %v\n", op.K, op.Level, es.id, name, lv)
					}
				}
			}
		}
		out.Log("op%d %s level=%d force=%v", i, op.K, op.Level, op.Force)
		out.Stats["reorganisations"]++
	case "idxflush":
		run.node.flushIndexes()
		out.Log("op%d idxflush", i)
	case "purge":
		err := run.node.eng.DropSeries()
		out.Log("op%d purge err=%v", i, err != nil)
		if err != nil {
			return sviol(run.prop, "purge_error", fmt.Sprintf("op %d: the drop-series purge task failed: %v", i, err), nil)
		}
		out.Stats["purges"]++
	case "restart":
		if err := run.node.close(); err != nil {
			return sviol(run.prop, "close_error", fmt.Sprintf("op %d: clean close failed: %v", i, err), nil)
		}
		run.node = nil
		prev := run.disk
		prev.Kill()
		if err := run.open(filepath.Join(run.env.Scratch, fmt.Sprintf("inc%d", run.inc)), prev.Root); err != nil {
			return sviol(run.prop, "open_failed", fmt.Sprintf("op %d: start-up after a clean stop failed: %v", i, err), nil)
		}
		run.seen = map[string]bool{} // WAL replay re-creates the series of unflushed rows
		// start-up (DBPTInfo.OpenIndexes) makes a deleted-id index builder for every policy directory that holds an index
		run.delIdxAt = map[string]int{}
		for ik := range run.idxBorn {
			var a, b, c2, d int
			if n, _ := fmt.Sscanf(ik, "%d/%d/%d/%d", &a, &b, &c2, &d); n == 4 {
				run.delIdxAt[fmt.Sprintf("%d/%d/%d", a, b, c2)] = i
			}
		}
		run.node.flushIndexes()
		out.Faults["clean_restart"]++
		out.Log("op%d restart", i)
		if len(run.model.gens) > 0 {
			out.Probes["restart after drop"]++
		}
	case "drops":
		return run.opDropSeries(i, op, run.model, run.cat, run.node, true)
	case "dropm":
		return run.opDropMeasurement(i, op)
	case "droprp":
		return run.opDropRP(i, op)
	case "dropdb":
		return run.opDropDB(i, op)
	}
	return nil
}

func dWaitStore(sh *shard) {
	if mt, ok := sh.immTables.(*immutable.MmsTables); ok {
		mt.Wait()
	}
}

func dBuildRows(w int, db, rp int, rows []SRow, name func(m int) string, timeOf func(t int) int64) []influx.Row {
	out := make([]influx.Row, 0, len(rows))
	for _, r := range rows {
		fs := rowFields(r)
		if len(fs) == 0 {
			continue
		}
		var ir influx.Row
		ir.Name = name(r.M)
		ir.Timestamp = timeOf(r.T)
		tags := sSeriesTags(r.S)
		ir.Tags = make(influx.PointTags, len(tags))
		for i, t := range tags {
			ir.Tags[i].Key, ir.Tags[i].Value = t[0], t[1]
		}
		sort.Sort(&ir.Tags)
		ir.Fields = make([]influx.Field, len(fs))
		for i, f := range fs {
			v := dCellValue(w, dCell{db, rp, r.M, r.S, r.T}, f)
			ir.Fields[i].Key = f
			switch v.Typ {
			case influxql.Integer:
				ir.Fields[i].Type = influx.Field_Type_Int
				ir.Fields[i].NumValue = float64(v.I)
			case influxql.Float:
				ir.Fields[i].Type = influx.Field_Type_Float
				ir.Fields[i].NumValue = v.F
			case influxql.String:
				ir.Fields[i].Type = influx.Field_Type_String
				ir.Fields[i].StrValue = v.S
			case influxql.Boolean:
				ir.Fields[i].Type = influx.Field_Type_Boolean
				if v.B {
					ir.Fields[i].NumValue = 1
				}
			}
		}
		sort.Sort(&ir.Fields)
		ir.UnmarshalIndexKeys(nil)
		_ = ir.UnmarshalShardKeyByTag(nil)
		out = append(out, ir)
	}
	return out
}

// ensure: the CREATE statements a client issues before writing to something that does not
// exist (any more): database (+ partitions assigned to the store), policy, measurement.
func (run *dRun) ensure(i int, db, rp int, ms []int, cat *dCatalogue, node *dNode) {
	inc, pos := run.pos()
	if !cat.dbExists(db) {
		dMust(cat.createDatabase(inc, pos, db), "create database")
		for q := 1; q < run.c.NRP; q++ {
			dMust(cat.createRP(inc, pos, db, q), "create retention policy")
		}
		dMust(node.assignDB(cat, db), "assign partitions of a re-created database")
		node.tame()
		run.out.Probes["database re-created after drop"]++
		run.logf("op%d create database %s", i, dDBName(db))
	}
	if !cat.rpExists(db, rp) {
		dMust(cat.createRP(inc, pos, db, rp), "create retention policy")
		run.out.Probes["retention policy re-created after drop"]++
		run.logf("op%d create retention policy %s.%s", i, dDBName(db), dRPName(rp))
	}
	for _, m := range ms {
		if cat.physName(db, rp, m) == "" {
			dMust(cat.createMeasurement(inc, pos, db, rp, m), "create measurement")
			if run.mstEver[[3]int{db, rp, m}] {
				run.out.Probes["measurement re-created after drop"]++
			}
			run.mstEver[[3]int{db, rp, m}] = true
			run.physEver[fmt.Sprintf("%d/%d/%s", db, rp, cat.physName(db, rp, m))] = true
			run.logf("op%d create measurement %s.%s.%s -> %s", i, dDBName(db), dRPName(rp), dMstName(m), cat.physName(db, rp, m))
		}
	}
}

func (run *dRun) opWrite(i int, op DOp) *core.Violation {
	return run.writeOn(i, op, run.model, run.cat, run.node)
}

// writeOn: the coordinator stub.  Per point: resolve the measurement to its versioned name,
// make sure a shard group covers the timestamp, pick the shard of the point's partition, and
// hand each shard its batch in wire form (Storage.Write: create the shard on ShardNotFound).
func (run *dRun) writeOn(i int, op DOp, model *dModel, cat *dCatalogue, node *dNode) *core.Violation {
	out := run.out
	if len(op.Rows) == 0 {
		return nil
	}
	var ms []int
	seenM := map[int]bool{}
	for _, r := range op.Rows {
		if !seenM[r.M] && len(rowFields(r)) > 0 {
			seenM[r.M] = true
			ms = append(ms, r.M)
		}
	}
	run.ensure(i, op.DB, op.RP, ms, cat, node)
	db, rp := dDBName(op.DB), dRPName(op.RP)
	type tgt struct {
		pt    uint32
		shard uint64
	}
	batches := map[tgt][]SRow{}
	var order []tgt
	inc, pos := run.pos()
	for _, r := range op.Rows {
		if len(rowFields(r)) == 0 {
			continue
		}
		ts := run.c.timeOf(r.T)
		pt := run.c.ptOf(r.S)
		sid := cat.shardFor(op.DB, op.RP, pt, ts)
		if sid == 0 {
			dMust(cat.createShardGroup(inc, pos, op.DB, op.RP, ts), "create shard group")
			sid = cat.shardFor(op.DB, op.RP, pt, ts)
		}
		if sid == 0 {
			panic(core.InfraPanic("no shard of the group is owned by the point's partition"))
		}
		k := tgt{pt, sid}
		if _, ok := batches[k]; !ok {
			order = append(order, k)
		}
		batches[k] = append(batches[k], r)
	}
	before := atomic.LoadInt64(&statistics.PerfStat.FlushSnapshotCount)
	newSeries := false
	for _, k := range order {
		rows := dBuildRows(op.ID, op.DB, op.RP, batches[k], func(m int) string { return cat.physName(op.DB, op.RP, m) }, run.c.timeOf)
		if err := run.storeWrite(node, cat, db, rp, k.pt, k.shard, rows); err != nil {
			run.logf("op%d w id=%d err", i, op.ID)
			return sviol(run.prop, "write_error", fmt.Sprintf("op %d: write of %d rows into %s.%s shard %d failed: %v", i, len(rows), db, rp, k.shard, err), nil)
		}
		var idxID uint64
		for _, ref := range cat.shards(op.DB, op.RP) {
			if ref.ID == k.shard {
				idxID = ref.IndexID
			}
		}
		for _, r := range batches[k] {
			ik := fmt.Sprintf("%d/%d/%d/%d", op.DB, op.RP, k.pt, idxID)
			if run.idxNames[ik] == nil {
				run.idxNames[ik] = map[string]bool{}
			}
			if _, ok := run.idxBorn[ik]; !ok && !run.crashing {
				run.idxBorn[ik] = i
			}
			run.idxNames[ik][cat.physName(op.DB, op.RP, r.M)] = true
			key := fmt.Sprintf("%s/%s/%s/%d/%d", db, rp, cat.physName(op.DB, op.RP, r.M), r.S, k.shard)
			if !run.seen[key] {
				run.seen[key] = true
				newSeries = true
			}
		}
	}
	afterWrites := atomic.LoadInt64(&statistics.PerfStat.FlushSnapshotCount) // (creating a shard replays its empty log and "flushes")
	// was this a write to something a drop had removed?
	for _, r := range op.Rows {
		for _, g := range model.gens {
			for c := range g.Rows {
				if c.DB == op.DB && c.RP == op.RP && c.M == r.M && c.S == r.S {
					switch g.Kind {
					case "drop_series":
						out.Probes["write to dropped series"]++
					default:
						out.Probes["write to a series of a dropped measurement / policy / database"]++
					}
					goto next
				}
			}
		}
	next:
	}
	model.applyWrite(op.ID, op.DB, op.RP, op.Rows)
	if !run.crashing {
		for _, r := range op.Rows {
			if len(rowFields(r)) > 0 {
				k := dCell{op.DB, op.RP, r.M, r.S, r.T}
				run.unflushed[k] = true
				if run.cellGens[k] == nil {
					run.cellGens[k] = map[int64]bool{}
				}
				run.cellGens[k][before] = true
			}
		}
	}
	run.logf("op%d w id=%d %s.%s rows=%d shards=%d", i, op.ID, db, rp, len(op.Rows), len(order))
	out.Stats["writes"]++
	out.Stats["rows_written"] += int64(len(op.Rows))
	// a series becomes visible to queries once the index's in-memory items are flushed (one-second
	// timer in the product, which the statements allow for); as in world S the flush follows a
	// series-creating write at once
	if newSeries {
		node.flushIndexes()
		out.Stats["index_flushes"]++
	}
	for _, k := range order {
		if sh := node.shard(db, k.pt, k.shard); sh != nil {
			seq := sh.immTables.Sequencer()
			for n := 0; n < 5000 && seq.IsLoading(); n++ {
				sleepMs(1)
			}
			seq.UnRef()
			if run.c.Knobs.MutableLimit < 1<<20 {
				dSettle(sh)
			}
		}
	}
	if atomic.LoadInt64(&statistics.PerfStat.FlushSnapshotCount) != afterWrites {
		out.Probes["size-triggered flush"]++
		run.noteFlushed()
	}
	return nil
}

func dSettle(sh *shard) {
	before := atomic.LoadInt64(&statistics.PerfStat.FlushSnapshotCount)
	sh.snapshotLock.RLock()
	need := sh.activeTbl != nil && sh.activeTbl.NeedFlush()
	sh.snapshotLock.RUnlock()
	if !need {
		return
	}
	for k := 0; k < 300 && atomic.LoadInt64(&statistics.PerfStat.FlushSnapshotCount) == before; k++ {
		sleepMs(10)
	}
	sh.waitSnapshot()
}

func (run *dRun) storeWrite(node *dNode, cat *dCatalogue, db, rp string, pt uint32, shardID uint64, rows []influx.Row) error {
	bin, err := influx.FastMarshalMultiRows(nil, rows)
	if err != nil {
		panic(core.InfraPanic("marshal rows: " + err.Error()))
	}
	dec, _, _, _, _, err := influx.FastUnmarshalMultiRows(bin, nil, nil, nil, nil, nil)
	if err != nil {
		panic(core.InfraPanic("unmarshal rows: " + err.Error()))
	}
	err = node.eng.WriteRows(db, rp, pt, shardID, dec, bin, nil)
	if err == nil || !errno.Equal(err, errno.ShardNotFound) {
		return err
	}
	tri, err := node.mc.GetShardRangeInfo(db, rp, shardID)
	if err != nil {
		return err
	}
	mst, err := cat.data.Measurement(db, rp, influx.GetOriginMstName(rows[0].Name))
	if err != nil {
		return err
	}
	if err = node.eng.CreateShard(db, rp, pt, shardID, tri, mst); err != nil {
		return err
	}
	if sh := node.shard(db, pt, shardID); sh != nil {
		node.tameShard(sh)
	}
	node.tame()
	dec, _, _, _, _, err = influx.FastUnmarshalMultiRows(bin, nil, nil, nil, nil, nil)
	if err != nil {
		panic(core.InfraPanic("unmarshal rows: " + err.Error()))
	}
	return node.eng.WriteRows(db, rp, pt, shardID, dec, bin, nil)
}

// layoutOf: where the rows named by a drop live (probes).
func (run *dRun) layoutProbesForDrop(g *dGen, node *dNode, cat *dCatalogue, physNames map[[3]int]string) {
	if len(g.Rows) == 0 {
		return
	}
	seenT := map[string]bool{}
	for c := range g.Rows {
		name := physNames[[3]int{c.DB, c.RP, c.M}]
		if name == "" {
			continue
		}
		ts := run.c.timeOf(c.T)
		sid := cat.shardFor(c.DB, c.RP, run.c.ptOf(c.S), ts)
		key := fmt.Sprintf("%d/%d/%s/%d", c.DB, c.RP, name, sid)
		if seenT[key] || sid == 0 {
			continue
		}
		seenT[key] = true
		sh := node.shard(dDBName(c.DB), run.c.ptOf(c.S), sid)
		if sh == nil {
			continue
		}
		for _, order := range []bool{true, false} {
			files, ok := sh.immTables.GetTSSPFiles(name, order)
			if !ok || files == nil {
				continue
			}
			n := 0
			lv := false
			for _, f := range files.Files() {
				n++
				if l, _ := f.LevelAndSequence(); l > 0 {
					lv = true
				}
			}
			immutable.UnrefFilesReader(files.Files()...)
			immutable.UnrefFiles(files.Files()...)
			if n > 0 {
				if order {
					run.out.Probes["drop of data in ordered file"]++
					if lv {
						run.out.Probes["drop of data in compacted file"]++
					}
				} else {
					run.out.Probes["drop of data in out-of-order file"]++
				}
			}
		}
	}
}

func (run *dRun) layoutProbe() {
	var parts []string
	for _, es := range run.node.shardList() {
		sh := es.sh
		if sh.immTables == nil {
			continue
		}
		for m := 0; m < run.c.NMst; m++ {
			for ver := 0; ver < 3; ver++ {
				name := fmt.Sprintf("%s_%04d", dMstName(m), ver)
				for _, order := range []bool{true, false} {
					files, ok := sh.immTables.GetTSSPFiles(name, order)
					if !ok || files == nil {
						continue
					}
					var lv []string
					for _, f := range files.Files() {
						l, _ := f.LevelAndSequence()
						lv = append(lv, fmt.Sprint(l))
					}
					immutable.UnrefFilesReader(files.Files()...)
					immutable.UnrefFiles(files.Files()...)
					if len(lv) > 0 {
						tag := "o:"
						if !order {
							tag = "u:"
							run.out.Probes["out-of-order file present"]++
						}
						parts = append(parts, fmt.Sprintf("v%d%s%s", ver, tag, strings.Join(lv, "")))
					}
				}
			}
		}
	}
	run.out.AddLayout(strings.Join(parts, "|"))
}

func TestVerifWorldD(t *testing.T) {
	core.RunWorker[DCase](worldD{})
}
