package engine

// World P oracles: committed-prefix agreement read from the nodes' raft stores,
// master / replica dumps against the last-write-wins model with the narrow
// relaxation for writes the client has no acknowledgement for.

import (
	"fmt"
	"math"
	"runtime"
	"sort"
	"strings"

	"github.com/openGemini/openGemini/verifsim/core"
	"go.etcd.io/etcd/raft/v3/raftpb"
)

type pwEnt struct {
	term uint64
	dig  uint64
	typ  raftpb.EntryType
	set  bool
}

func pwFnv(b []byte) uint64 {
	h := uint64(14695981039346656037)
	for _, c := range b {
		h ^= uint64(c)
		h *= 1099511628211
	}
	return h
}

// checkCommitted: (1) the committed prefixes of any two nodes agree.  Each node's
// durable hard state and entry log are read from its raftlog store; every
// committed entry is compared with what any node committed at that index before.
func (r *pwRun) checkCommitted() *core.Violation {
	r.out.Stats["prefix_checks"]++
	for _, n := range r.c.nodes {
		if n == nil || n.rn == nil || !r.c.isAlive(n) {
			continue
		}
		st := n.rn.Store
		hs, err := st.HardState()
		if err != nil {
			r.out.Stats["hardstate_unreadable"]++
			continue
		}
		if hs.Commit < n.checked {
			return pviol("commit_index_regressed", fmt.Sprintf("node %d (incarnation %d): durable commit index went from %d to %d", n.idx, n.inc, n.checked, hs.Commit),
				map[string]string{"node_role": r.roleOf(n.idx)})
		}
		if hs.Commit == n.checked {
			continue
		}
		first, err := st.FirstIndex()
		if err != nil {
			continue
		}
		lo := n.checked + 1
		if lo < first {
			lo = first
		}
		if lo > hs.Commit {
			n.checked = hs.Commit
			continue
		}
		ents, err := st.Entries(lo, hs.Commit+1, math.MaxUint64)
		if err != nil {
			last, _ := st.LastIndex()
			return pviol("committed_entries_unreadable", fmt.Sprintf("node %d (incarnation %d): hard state says commit=%d but entries [%d,%d] cannot be read (first=%d last=%d): %v",
				n.idx, n.inc, hs.Commit, lo, hs.Commit, first, last, err), map[string]string{"node_role": r.roleOf(n.idx)})
		}
		taught := false
		for _, e := range ents {
			d := pwEnt{term: e.Term, dig: pwFnv(e.Data), typ: e.Type, set: true}
			for uint64(len(r.canon)) < e.Index {
				r.canon = append(r.canon, pwEnt{})
			}
			c := &r.canon[e.Index-1]
			if !c.set {
				*c = d
				r.canonBy = append(r.canonBy, n.idx)
				taught = true
				continue
			}
			if *c != d {
				return pviol("committed_prefix_divergence", fmt.Sprintf("index %d: node %d (incarnation %d) has committed an entry of term %d (type %v, %d bytes, digest %x) where another node committed term %d (type %v, digest %x)",
					e.Index, n.idx, n.inc, e.Term, e.Type, len(e.Data), d.dig, c.term, c.typ, c.dig), map[string]string{"node_role": r.roleOf(n.idx)})
			}
		}
		n.checked = hs.Commit
		if taught {
			// the agreed log now rests on what this disk says: a crash image of the node must not
			// be cut before this instant (the entries would never have been committed by anybody)
			r.c.net.mu.Lock()
			n.observe(n.disk.Len(), "commit_read")
			r.c.net.mu.Unlock()
		}
	}
	return nil
}

func (r *pwRun) roleOf(i int) string {
	s := "follower"
	if i == r.leaderHint {
		s = "leader"
	}
	if i == r.c.meta.nodeOfPt(r.c.meta.masterPt()) {
		s += "+master"
	}
	return s
}

// dump reads every measurement of the node's shard through the real cursor path.
func (r *pwRun) dump(n *pwInc) ([]map[string][]sDumpRow, error) {
	out := make([]map[string][]sDumpRow, r.cs.NMst)
	r.wait() // reads are judged on a settled node (reads racing with a flush are world C's subject)
	for m := range out {
		out[m] = map[string][]sDumpRow{}
	}
	full := int64(1) << 62
	flushed := map[interface{}]bool{}
	for _, sh := range n.shards(r.c) {
		// series become visible to queries when the index's in-memory items are flushed (a
		// one-second timer in the engine); the statements allow for that, so flush first
		if ib := sh.indexBuilder; ib != nil && !flushed[ib] {
			ib.Flush()
			flushed[ib] = true
		}
		for m := 0; m < r.cs.NMst; m++ {
			q := &sQuery{Mst: m, Fields: sFieldNames, TMin: -full, TMax: full, ChunkSize: r.cs.Knobs.ChunkSize, Parallel: r.cs.Knobs.MaxParallel}
			got, _, err := selectRows(sh, q)
			r.out.Stats["reads"]++
			if err != nil {
				return nil, err
			}
			// shard groups cover disjoint, increasing time ranges: the per-series union is a concatenation
			for sk, rows := range got {
				if r.dbg {
					fmt.Printf("DUMP n%d shard %d [%v,%v) mst%d %s: %d rows first=%s\n", n.idx, sh.ident.ShardID, sh.startTime.Unix()-sBaseTime/1e9, sh.endTime.Unix()-sBaseTime/1e9, m, sk, len(rows), fmtRow(rows[0]))
				}
				out[m][sk] = append(out[m][sk], rows...)
			}
		}
	}
	return out, nil
}

// expectFor returns the model's rows of measurement m, rewritten cell by cell where
// the node returned the value of a write the client has no acknowledgement for
// (such a write may take effect at any later time, or never).
func (r *pwRun) expectFor(m int, got map[string][]sDumpRow) map[string][]sDumpRow {
	full := int64(1) << 62
	want := r.model.expected(m, -full, full, sFieldNames)
	indet := r.indet
	if r.pending != nil {
		indet = append(append([]*pwCall(nil), indet...), r.pending) // in flight: old or new per cell
	}
	if len(indet) == 0 {
		return want
	}
	// alternatives per cell
	type ck struct {
		s string
		t int64
		f string
	}
	alt := map[ck][]sVal{}
	for _, c := range indet {
		for _, row := range c.rows {
			if row.M != m {
				continue
			}
			for _, f := range rowFields(row) {
				k := ck{sSeriesKey(row.S), sTime(row.T), f}
				alt[k] = append(alt[k], cellValue(c.id, row, f))
			}
		}
	}
	if len(alt) == 0 {
		return want
	}
	idx := map[string]map[int64]map[string]sVal{}
	for s, rows := range want {
		idx[s] = map[int64]map[string]sVal{}
		for _, rw := range rows {
			fs := map[string]sVal{}
			for f, v := range rw.Fields {
				fs[f] = v
			}
			idx[s][rw.Time] = fs
		}
	}
	used := false
	for s, rows := range got {
		for _, rw := range rows {
			for f, gv := range rw.Fields {
				for _, av := range alt[ck{s, rw.Time, f}] {
					if gv.equal(av) {
						if idx[s] == nil {
							idx[s] = map[int64]map[string]sVal{}
						}
						if idx[s][rw.Time] == nil {
							idx[s][rw.Time] = map[string]sVal{}
						}
						if cur, ok := idx[s][rw.Time][f]; !ok || !cur.equal(gv) {
							used = true
						}
						idx[s][rw.Time][f] = gv
						break
					}
				}
			}
		}
	}
	if !used {
		return want
	}
	r.out.Probes["a write without acknowledgement took effect"]++
	nw := map[string][]sDumpRow{}
	for s, tm := range idx {
		for t, fs := range tm {
			if len(fs) > 0 {
				nw[s] = append(nw[s], sDumpRow{Series: s, Time: t, Fields: fs})
			}
		}
		rs := nw[s]
		sort.Slice(rs, func(a, b int) bool { return rs[a].Time < rs[b].Time })
	}
	return nw
}

func pwKind(k string) string {
	switch k {
	case "missing_row", "missing_field":
		return "acked_write_lost"
	case "stale_value":
		return "acked_write_stale"
	}
	return "read_" + k
}

// compareNode compares a node's dump with the model; "" if equal.
func (r *pwRun) compareNode(n *pwInc, d []map[string][]sDumpRow) (kind, detail string) {
	for m := 0; m < r.cs.NMst; m++ {
		want := r.expectFor(m, d[m])
		if k, det := compareDump(d[m], want, false, r.model, m); k != "" {
			return pwKind(k), fmt.Sprintf("measurement %d on node %d: %s", m, n.idx, det)
		}
	}
	return "", ""
}

// checkMaster: (2) every acknowledged write is readable with its latest value from
// the current master partition's shard (a majority is up by construction).
func (r *pwRun) checkMaster(after string) *core.Violation {
	mi := r.c.meta.nodeOfPt(r.c.meta.masterPt())
	n := r.c.nodes[mi]
	if n == nil || !r.c.isAlive(n) {
		// the catalogue names a master whose node is down: no master exists right now
		r.out.Stats["reads_without_master"]++
		return nil
	}
	d, err := r.dump(n)
	at := map[string]string{"after": after, "read_from": "master", "victim": r.lastVictimRole}
	// did the master change after the last acknowledgement, i.e. is this the window in
	// which the new master partition may not have caught up with the group's log yet
	if r.lastAck != nil && (r.lastAck.ackNode != mi || r.lastAck.ackGen != n.gen) {
		// the partition that is master now has not acknowledged a write since it became
		// master: it is a raft follower that may not have received the group's last entries yet
		at["catchup"] = "new_master_has_not_acked_yet"
	} else {
		at["catchup"] = "no"
	}
	if err != nil {
		return pviol("read_error", fmt.Sprintf("reading the master (node %d) %s: %v", mi, after, err), at)
	}
	if k, det := r.compareNode(n, d); k != "" {
		if at["catchup"] != "no" {
			// a class of its own: the meta service made a raft follower the master partition; until
			// that follower has caught up with the group's log it answers without the last
			// acknowledged writes
			at["diff"] = k
			k = "stale_master_after_failover"
		}
		at["lost_vs_flush"] = r.lostVsFlush(n, d)
		return pviol(k, fmt.Sprintf("%s, master partition %d on node %d: %s", after, r.c.meta.masterPt(), mi, det), at)
	}
	return nil
}

// checkAllReplicas: every live replica's dump equals the model, and the replicas
// equal each other.
func (r *pwRun) checkAllReplicas(after string) *core.Violation {
	var dumps [pwNNodes][]map[string][]sDumpRow
	for i, n := range r.c.nodes {
		if n == nil || !r.c.isAlive(n) {
			continue
		}
		d, err := r.dump(n)
		if err != nil {
			return pviol("read_error", fmt.Sprintf("reading node %d %s: %v", i, after, err), map[string]string{"after": after})
		}
		dumps[i] = d
	}
	mi := r.c.meta.nodeOfPt(r.c.meta.masterPt())
	for i, n := range r.c.nodes {
		if dumps[i] == nil {
			continue
		}
		if k, det := r.compareNode(n, dumps[i]); k != "" {
			role := "replica"
			if i == mi {
				role = "master"
			}
			kind := "replica_divergence_after_heal"
			if i == mi {
				kind = k
			}
			return pviol(kind, fmt.Sprintf("%s: node %d (%s) differs from the acknowledged writes (%s): %s", after, i, role, k, det),
				map[string]string{"after": after, "read_from": role, "diff": k, "victim": r.lastVictimRole, "lost_vs_flush": r.lostVsFlush(n, dumps[i])})
		}
	}
	// pairwise: where writes without acknowledgement leave a choice, all replicas made the same one
	for i := 0; i < pwNNodes; i++ {
		for j := i + 1; j < pwNNodes; j++ {
			if dumps[i] == nil || dumps[j] == nil {
				continue
			}
			for m := 0; m < r.cs.NMst; m++ {
				if k, det := compareDump(dumps[i][m], dumps[j][m], false, nil, m); k != "" {
					return pviol("replica_divergence_after_heal", fmt.Sprintf("%s: nodes %d and %d hold different data for measurement %d (%s, first = node %d, expected = node %d): %s", after, i, j, m, k, i, j, det),
						map[string]string{"after": after, "read_from": "pair", "diff": k, "victim": r.lastVictimRole})
				}
			}
		}
	}
	return nil
}

// ---- where a client call without outcome stands ------------------------------------------------

// pwStuckCalls describes, from a dump of all goroutines of the process, where the
// store-side calls of client writes (EngineImpl.WriteToRaft) stand that have not
// returned: stuckAt is the matcher attribute (innermost frames of the code under
// test, outermost last, with the kind of wait of the goroutine; several distinct
// places are joined by "|"), detail the stacks (function and file:line only - no
// goroutine numbers, arguments or addresses, so that the text is the same in every
// process) of those goroutines and of the goroutines they can be waiting for: the
// partitions' propose loops (RaftNode.proposals) and etcd-raft's node.run.
func pwStuckCalls() (stuckAt, detail string) {
	buf := make([]byte, 16<<20)
	buf = buf[:runtime.Stack(buf, true)]
	type gr struct {
		wait   string
		frames []string // "func file:line"
	}
	const mod = "github.com/openGemini/openGemini/"
	var calls, others []gr
	for _, blk := range strings.Split(string(buf), "\n\n") {
		ls := strings.Split(blk, "\n")
		if len(ls) < 3 || !strings.HasPrefix(ls[0], "goroutine ") {
			continue
		}
		g := gr{}
		if a, b := strings.Index(ls[0], "["), strings.LastIndex(ls[0], "]"); a >= 0 && b > a {
			g.wait = ls[0][a+1 : b]
			// "chan send, 2 minutes, synctest bubble 7": only the kind of wait
			if k := strings.Index(g.wait, ","); k >= 0 {
				g.wait = g.wait[:k]
			}
			g.wait = strings.TrimSuffix(g.wait, " (durable)")
		}
		for i := 1; i+1 < len(ls); i += 2 {
			f := ls[i]
			if strings.HasPrefix(f, "created by ") {
				break
			}
			if k := strings.LastIndex(f, "("); k > 0 {
				f = f[:k]
			}
			loc := strings.TrimSpace(ls[i+1])
			if k := strings.Index(loc, " +0x"); k >= 0 {
				loc = loc[:k]
			}
			if k := strings.LastIndex(loc, "/"); k >= 0 {
				loc = loc[k+1:]
			}
			g.frames = append(g.frames, f+" "+loc)
		}
		all := strings.Join(g.frames, "\n")
		switch {
		case strings.Contains(all, "(*EngineImpl).WriteToRaft "):
			calls = append(calls, g)
		case strings.Contains(all, "raftconn.(*RaftNode).proposals "), strings.Contains(all, "raft/v3.(*node).run "):
			others = append(others, g)
		}
	}
	seen := map[string]bool{}
	var ats []string
	var b strings.Builder
	show := func(title string, g gr) {
		fmt.Fprintf(&b, "%s [%s]\n", title, g.wait)
		for _, f := range g.frames {
			if strings.HasPrefix(f, "runtime.") || strings.HasPrefix(f, "testing/synctest.") {
				continue
			}
			fmt.Fprintf(&b, "    %s\n", strings.TrimPrefix(f, mod))
		}
	}
	for _, g := range calls {
		var fr []string
		for _, f := range g.frames {
			if !strings.HasPrefix(f, mod) || strings.Contains(f, "verifsim") || strings.Contains(f, "zz_verif") || strings.Contains(f, ".pw") || strings.Contains(f, "(*pwRun)") {
				continue
			}
			f = strings.TrimPrefix(f, mod)
			if k := strings.Index(f, " "); k >= 0 {
				f = f[:k]
			}
			fr = append(fr, f)
			if len(fr) == 3 {
				break
			}
		}
		at := strings.Join(fr, "<") + "[" + g.wait + "]"
		if !seen[at] {
			seen[at] = true
			ats = append(ats, at)
		}
	}
	sort.Strings(ats)
	sort.SliceStable(calls, func(i, j int) bool { return strings.Join(calls[i].frames, "") < strings.Join(calls[j].frames, "") })
	sort.SliceStable(others, func(i, j int) bool { return strings.Join(others[i].frames, "") < strings.Join(others[j].frames, "") })
	for _, g := range calls {
		show("store-side call of a client write", g)
	}
	for _, g := range others {
		show("goroutine", g)
	}
	if len(ats) == 0 {
		return "no_store_side_call", b.String()
	}
	return strings.Join(ats, "|"), b.String()
}
