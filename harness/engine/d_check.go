package engine

// World D oracle: every read shape, compared with the model and (where the model is
// relaxed) with each other.

import (
	"fmt"
	"os"
	"sort"
	"strings"
	"time"

	"github.com/openGemini/openGemini/engine/index/tsi"
	"github.com/openGemini/openGemini/lib/util/lifted/influx/influxql"
	"github.com/openGemini/openGemini/verifsim/core"
)

// dCtx: where a check round stands.
type dCtx struct {
	i     int    // index of the last executed operation
	phase string // live | crash
	model *dModel
	pre   *dModel // relaxed rounds: state before the operation in flight (nil = strict)
	cat   *dCatalogue
	node  *dNode
	where string            // prefix of violation details (crash point description)
	extra map[string]string // extra attributes (pin)
	noListings bool
	skip  func(db, rp, m int) bool // targets not to be read at user level (named by a drop whose mark is pending)
	inflight bool // crash rounds: operation i was in flight (not acknowledged)
	physUpTo int // versioned names whose drop was completed by operation <= physUpTo must not be served any more
}

func (run *dRun) liveCtx() *dCtx {
	return &dCtx{i: len(run.states) - 1, phase: "live", model: run.model, cat: run.cat, node: run.node, physUpTo: len(run.c.Ops)}
}

type dRowKey struct{ S, T int }

type dExp map[dRowKey]map[string]sVal

// dTarget: one (measurement, shard) a statement is sent to.
type dTarget struct {
	DB, RP, M int
	Name      string
	Ref       dShardRef
	sh        *shard
	physical  bool // a versioned name the catalogue no longer resolves (its drop was acknowledged)
}

func (t *dTarget) key() string {
	return fmt.Sprintf("%d/%d/%s/%d", t.DB, t.RP, t.Name, t.Ref.ID)
}

// dFinding: one disagreement, before it becomes a violation.
type dFinding struct {
	class  string // dropped | mixed | lost | other | disagree
	kind   string // for class other
	gen    *dGen  // for dropped / mixed
	cands  []*dGen // listings: every drop that could explain the surplus (gen is the preferred one)
	detail string
}

// dShape: one read shape.
type dShape struct {
	name      string
	fields    []string
	where     string
	groupTags []string
	pred      func(s int) bool
	rowPred   func(fs map[string]sVal) bool
	call      string
	form      string
	interval  int64
	exact     bool
	desc      bool
}

func dHostIs(h string, want bool) func(int) bool {
	return func(s int) bool { return (dSeriesTagMap(s)["host"] == h) == want }
}

// dShapes: every read shape with seeded parameters.  maxW: highest write id so far.
func dShapes(r *core.Rand, maxW int) []dShape {
	h := fmt.Sprintf("h%d", r.Intn(2))
	// every row passes the field filter: a filter that splits the writes of one (series, timestamp)
	// across files is C02's subject (the filter is evaluated per file, before the merge)
	_ = r.Intn(maxW + 1)
	thr := int64(0)
	fiGt := func(fs map[string]sVal) bool { v, ok := fs["fi"]; return ok && v.I > thr }
	attributable := []string{"ff", "fi", "fs"}
	fn := core.Pick(r, []string{"count", "sum", "min", "max", "last"})
	fn2 := core.Pick(r, []string{"count", "sum", "min", "max", "first", "last"})
	iv := int64(core.Pick(r, []int{2, 5, 7, 24})) * sStep
	var out []dShape
	out = append(out,
		dShape{name: "sel_plain_nogroup", fields: attributable, groupTags: []string{}},
		dShape{name: "tag_eq", fields: sFieldNames, where: "host = '" + h + "'", pred: dHostIs(h, true)},
		dShape{name: "tag_neq", fields: sFieldNames, where: "host != '" + h + "'", pred: dHostIs(h, false)},
		dShape{name: "tag_re", fields: sFieldNames, where: "host =~ /" + h + "/", pred: dHostIs(h, true)},
		dShape{name: "tag_nre", fields: sFieldNames, where: "host !~ /" + h + "/", pred: dHostIs(h, false)},
		dShape{name: "sel_field_filter", fields: sFieldNames, where: fmt.Sprintf("fi > %d", thr), rowPred: fiGt},
		dShape{name: "sel_field_filter_nogroup", fields: attributable, where: fmt.Sprintf("fi > %d", thr), rowPred: fiGt, groupTags: []string{}},
		dShape{name: "sel_group_by_tag", fields: attributable, groupTags: []string{"host"}},
		dShape{name: "sel_plain_desc", fields: sFieldNames, desc: true},
		dShape{name: "sel_group_by_time", call: core.Pick(r, []string{"count", "sum", "max"}), form: "interval", interval: iv},
		dShape{name: "sel_agg_bare", call: fn, form: "bare"},
		dShape{name: "sel_agg_exact", call: fn, form: "exact", exact: true},
		dShape{name: "sel_agg_filter", call: fn2, form: "filter", where: "fi > -9000000000000000", rowPred: func(fs map[string]sVal) bool { _, ok := fs["fi"]; return ok }},
		dShape{name: "tag_agg", call: fn, form: "tagfilter", where: "host = '" + h + "'", pred: dHostIs(h, true)},
	)
	// region predicates: series without the tag count as region = ''
	switch r.Intn(3) {
	case 0:
		out = append(out, dShape{name: "tag_eq", fields: sFieldNames, where: "region = 'r0'", pred: func(s int) bool { return dSeriesTagMap(s)["region"] == "r0" }})
	case 1:
		out = append(out, dShape{name: "tag_neq", fields: sFieldNames, where: "region != 'r0'", pred: func(s int) bool { return dSeriesTagMap(s)["region"] != "r0" }})
	default:
		out = append(out, dShape{name: "tag_re", fields: sFieldNames, where: "region =~ /r/", pred: func(s int) bool { return strings.Contains(dSeriesTagMap(s)["region"], "r") }})
	}
	return out
}

// ---- targets -----------------------------------------------------------------------------------

func (run *dRun) targets(ctx *dCtx) []dTarget {
	var out []dTarget
	for db := 0; db < run.c.NDB; db++ {
		for rp := 0; rp < run.c.NRP; rp++ {
			refs := ctx.cat.shards(db, rp)
			for m := 0; m < run.c.NMst; m++ {
				if ctx.skip != nil && ctx.skip(db, rp, m) {
					continue
				}
				name := ctx.cat.physName(db, rp, m)
				if name == "" {
					continue
				}
				for _, ref := range refs {
					out = append(out, dTarget{DB: db, RP: rp, M: m, Name: name, Ref: ref, sh: ctx.node.shard(dDBName(db), ref.PT, ref.ID)})
				}
			}
		}
	}
	// versioned names whose drop was acknowledged: the store must not serve them any more
	var olds []string
	for k, at := range run.physOld {
		if at <= ctx.physUpTo {
			olds = append(olds, k)
		}
	}
	sort.Strings(olds)
	for _, k := range olds {
		var db, rp, m int
		var name string
		if n, _ := fmt.Sscanf(k, "%d/%d/%d/%s", &db, &rp, &m, &name); n != 4 {
			continue
		}
		if ctx.cat.physName(db, rp, m) == name {
			continue // the name is in use again (policy / database re-created): an ordinary target
		}
		for _, ref := range ctx.cat.shards(db, rp) {
			if sh := ctx.node.shard(dDBName(db), ref.PT, ref.ID); sh != nil {
				out = append(out, dTarget{DB: db, RP: rp, M: m, Name: name, Ref: ref, sh: sh, physical: true})
			}
		}
	}
	return out
}

// expected: the model's rows of a target (measurement x shard), optionally filtered.
func (run *dRun) expected(m *dModel, tg *dTarget, sp *dShape) dExp {
	out := dExp{}
	if tg.physical {
		return out
	}
	for c, fs := range m.rows {
		if c.DB != tg.DB || c.RP != tg.RP || c.M != tg.M || run.c.ptOf(c.S) != tg.Ref.PT {
			continue
		}
		ts := run.c.timeOf(c.T)
		if ts < tg.Ref.Start || ts >= tg.Ref.End {
			continue
		}
		if sp != nil && sp.pred != nil && !sp.pred(c.S) {
			continue
		}
		if sp != nil && sp.rowPred != nil && !sp.rowPred(fs) {
			continue
		}
		row := map[string]sVal{}
		fields := sFieldNames
		if sp != nil && sp.fields != nil {
			fields = sp.fields
		}
		for _, f := range fields {
			if v, ok := fs[f]; ok {
				row[f] = v
			}
		}
		if len(row) > 0 {
			out[dRowKey{c.S, c.T}] = row
		}
	}
	return out
}

func dFmtRow(k dRowKey, fs map[string]sVal) string {
	var ks []string
	for f := range fs {
		ks = append(ks, f)
	}
	sort.Strings(ks)
	var b strings.Builder
	fmt.Fprintf(&b, "{%s t=%d", sSeriesKey(k.S), k.T)
	for _, f := range ks {
		fmt.Fprintf(&b, " %s=%s", f, fs[f])
	}
	b.WriteString("}")
	return b.String()
}

// ---- plain shapes --------------------------------------------------------------------------------

type dGotRow struct {
	key dRowKey
	fs  map[string]sVal
}

// attribute maps the rows of a plain selection to (series, slot).  With GROUP BY all tags the
// series comes from the group key, otherwise from the values (every value names its cell).
func (run *dRun) attribute(tg *dTarget, sp *dShape, fields []string, rows []sChunkRow) ([]dGotRow, *dFinding) {
	byKey := dSeriesOfKey(run.c.NSeries)
	var out []dGotRow
	for _, r := range rows {
		g := dGotRow{fs: map[string]sVal{}}
		for i, f := range fields {
			if i < len(r.Vals) && r.Vals[i] != nil {
				g.fs[f] = *r.Vals[i]
			}
		}
		t, okT := run.c.slotOf(r.Time)
		if !okT {
			return nil, &dFinding{class: "other", kind: "foreign_row", detail: fmt.Sprintf("a row with timestamp %d that no write ever used was returned (group %q)", r.Time, r.Group)}
		}
		s := -1
		if sp.groupTags == nil {
			if x, ok := byKey[r.Group]; ok {
				s = x
			} else {
				return nil, &dFinding{class: "other", kind: "foreign_row", detail: fmt.Sprintf("a row of an unknown series %q was returned", r.Group)}
			}
		} else {
			for _, f := range []string{"fi", "ff", "fs"} {
				if v, ok := g.fs[f]; ok {
					if _, c, ok2 := dDecode(v); ok2 {
						s = c.S
						break
					}
				}
			}
			if s < 0 {
				return nil, &dFinding{class: "other", kind: "foreign_row", detail: fmt.Sprintf("a row that carries no attributable value was returned: group %q t=%d", r.Group, t)}
			}
			// the group key must agree with the series named by the values
			for _, k := range sp.groupTags {
				want := k + "=" + dSeriesTagMap(s)[k] + ","
				if !strings.Contains(r.Group, want) {
					return nil, &dFinding{class: "other", kind: "wrong_group", detail: fmt.Sprintf("a row whose values belong to series %s was returned in group %q", sSeriesKey(s), r.Group)}
				}
			}
		}
		g.key = dRowKey{s, t}
		out = append(out, g)
	}
	return out, nil
}

// dAccept: what a relaxed round accepts for a cell's field besides the strict expectation.
func dAltOK(pre dExp, k dRowKey, f string, v *sVal) bool {
	if pre == nil {
		return false
	}
	pv, ok := pre[k][f]
	if v == nil {
		return !ok
	}
	return ok && pv.equal(*v)
}

// comparePlain compares attributed rows with the expectation.  pre != nil: relaxed (either the
// value of exp or that of pre, per field).  It returns the rows observed (for shape agreement).
func (run *dRun) comparePlain(m *dModel, tg *dTarget, got []dGotRow, exp, pre dExp) (dExp, *dFinding) {
	obs := dExp{}
	cellOf := func(k dRowKey) dCell { return dCell{tg.DB, tg.RP, tg.M, k.S, k.T} }
	sort.SliceStable(got, func(i, j int) bool {
		if got[i].key.S != got[j].key.S {
			return got[i].key.S < got[j].key.S
		}
		return got[i].key.T < got[j].key.T
	})
	exact := func(g dGotRow) bool {
		e, ok := exp[g.key]
		if !ok || len(e) != len(g.fs) {
			return false
		}
		for f, v := range g.fs {
			if ev, ok := e[f]; !ok || !ev.equal(v) {
				return false
			}
		}
		return true
	}
	sort.SliceStable(got, func(i, j int) bool {
		// of several rows for one (series, timestamp) the one that is the expected row comes first
		if got[i].key.S != got[j].key.S {
			return got[i].key.S < got[j].key.S
		}
		if got[i].key.T != got[j].key.T {
			return got[i].key.T < got[j].key.T
		}
		return exact(got[i]) && !exact(got[j])
	})
	seen := map[dRowKey]bool{}
	for _, g := range got {
		e, live := exp[g.key]
		if seen[g.key] {
			// a second row for the same (series, timestamp)
			for _, f := range sortedFields(g.fs) {
				v := g.fs[f]
				if gen, _ := m.explain(cellOf(g.key), f, v); gen != nil {
					return obs, &dFinding{class: "dropped", gen: gen, detail: fmt.Sprintf("a second row %s is returned for a (series, timestamp) that has a live row; its %s is what operation %d (%s) dropped", dFmtRow(g.key, g.fs), f, gen.Op, gen.Kind)}
				}
			}
			return obs, &dFinding{class: "other", kind: "duplicate_timestamp", detail: fmt.Sprintf("(series, timestamp) returned twice: %s", dFmtRow(g.key, g.fs))}
		}
		seen[g.key] = true
		var preRow map[string]sVal
		if pre != nil {
			preRow = pre[g.key]
		}
		if !live && preRow == nil {
			for _, f := range sortedFields(g.fs) {
				if gen, _ := m.explain(cellOf(g.key), f, g.fs[f]); gen != nil {
					return obs, &dFinding{class: "dropped", gen: gen, detail: fmt.Sprintf("row %s was returned; operation %d (%s) dropped it", dFmtRow(g.key, g.fs), gen.Op, gen.Kind)}
				}
			}
			for _, f := range sortedFields(g.fs) {
				if _, stale := m.explain(cellOf(g.key), f, g.fs[f]); stale {
					return obs, &dFinding{class: "other", kind: "stale_value", detail: fmt.Sprintf("row %s was returned with an overwritten value", dFmtRow(g.key, g.fs))}
				}
			}
			return obs, &dFinding{class: "other", kind: "extra_row", detail: fmt.Sprintf("row %s was returned but the acknowledged writes contain no such row", dFmtRow(g.key, g.fs))}
		}
		row := map[string]sVal{}
		for _, f := range sortedFields(g.fs) {
			v := g.fs[f]
			ev, ok := e[f]
			if ok && ev.equal(v) {
				row[f] = v
				continue
			}
			if dAltOK(pre, g.key, f, &v) {
				row[f] = v
				continue
			}
			if gen, stale := m.explain(cellOf(g.key), f, v); gen != nil {
				// "mixed": the row carries live values and dropped ones (a write to a dropped series was merged
				// with what the series held before); otherwise the dropped row itself came back
				cl := "dropped"
				if live && len(row) > 0 {
					cl = "mixed"
				}
				if live && cl == "dropped" {
					for _, f2 := range sortedFields(g.fs) {
						if ev2, ok2 := e[f2]; ok2 && ev2.equal(g.fs[f2]) {
							cl = "mixed"
						}
					}
				}
				return obs, &dFinding{class: cl, gen: gen, detail: fmt.Sprintf("field %s of row %s holds what operation %d (%s) dropped; expected row %s", f, dFmtRow(g.key, g.fs), gen.Op, gen.Kind, dFmtRow(g.key, e))}
			} else if stale {
				return obs, &dFinding{class: "other", kind: "stale_value", detail: fmt.Sprintf("field %s of row %s holds an overwritten value; expected %s", f, dFmtRow(g.key, g.fs), dFmtRow(g.key, e))}
			}
			if !ok {
				return obs, &dFinding{class: "other", kind: "extra_field", detail: fmt.Sprintf("row %s has field %s which was never written for it; expected %s", dFmtRow(g.key, g.fs), f, dFmtRow(g.key, e))}
			}
			return obs, &dFinding{class: "other", kind: "foreign_value", detail: fmt.Sprintf("field %s of row %s: expected %s", f, dFmtRow(g.key, g.fs), ev)}
		}
		for _, f := range sortedFields(e) {
			if _, ok := g.fs[f]; !ok && !dAltOK(pre, g.key, f, nil) {
				return obs, &dFinding{class: "lost", detail: fmt.Sprintf("row %s lacks field %s; expected %s", dFmtRow(g.key, g.fs), f, dFmtRow(g.key, e))}
			}
		}
		if len(row) > 0 {
			obs[g.key] = row
		}
	}
	var keys []dRowKey
	for k := range exp {
		keys = append(keys, k)
	}
	sort.Slice(keys, func(i, j int) bool {
		if keys[i].S != keys[j].S {
			return keys[i].S < keys[j].S
		}
		return keys[i].T < keys[j].T
	})
	for _, k := range keys {
		if seen[k] {
			continue
		}
		missingOK := pre != nil
		if pre != nil {
			for f := range exp[k] {
				if !dAltOK(pre, k, f, nil) {
					missingOK = false
				}
			}
		}
		if !missingOK {
			return obs, &dFinding{class: "lost", detail: fmt.Sprintf("row %s is in the acknowledged writes, was not named by any drop, and was not returned", dFmtRow(k, exp[k]))}
		}
	}
	return obs, nil
}

func sortedFields(fs map[string]sVal) []string {
	ks := make([]string, 0, len(fs))
	for f := range fs {
		ks = append(ks, f)
	}
	sort.Strings(ks)
	return ks
}

// ---- aggregate shapes ----------------------------------------------------------------------------

// compareAgg: the aggregate (one call over fi, GROUP BY all tags [, time bucket]) against the
// function over the model's rows; a surplus is attributed to drop generations where possible.
func (run *dRun) compareAgg(m *dModel, tg *dTarget, sp *dShape, q *dQuery, rows []sChunkRow, exp dExp) *dFinding {
	byKey := dSeriesOfKey(run.c.NSeries)
	bucketOf := func(ts int64) int64 {
		if sp.interval <= 0 {
			return 0
		}
		return ts - ((ts%sp.interval)+sp.interval)%sp.interval
	}
	type gk struct {
		s int
		b int64
	}
	// reference accumulators over the live rows
	type acc struct {
		n       int64
		sum     int64
		vals    []sVal
		times   []int64
	}
	ref := map[gk]*acc{}
	add := func(dst map[gk]*acc, s int, ts int64, v sVal) {
		k := gk{s, bucketOf(ts)}
		a := dst[k]
		if a == nil {
			a = &acc{}
			dst[k] = a
		}
		a.n++
		a.sum += v.I
		a.vals = append(a.vals, v)
		a.times = append(a.times, ts)
	}
	for k, fs := range exp {
		if v, ok := fs["fi"]; ok {
			add(ref, k.S, run.c.timeOf(k.T), v)
		}
	}
	// dropped rows of this target, per generation
	type genAcc struct {
		gen *dGen
		a   map[gk]*acc
	}
	var gens []genAcc
	for _, g := range m.gens {
		ga := genAcc{gen: g, a: map[gk]*acc{}}
		for c, fs := range g.Rows {
			if c.DB != tg.DB || c.RP != tg.RP || c.M != tg.M || run.c.ptOf(c.S) != tg.Ref.PT {
				continue
			}
			ts := run.c.timeOf(c.T)
			if ts < tg.Ref.Start || ts >= tg.Ref.End {
				continue
			}
			if sp.pred != nil && !sp.pred(c.S) {
				continue
			}
			if sp.rowPred != nil && !sp.rowPred(fs) {
				continue
			}
			if v, ok := fs["fi"]; ok {
				add(ga.a, c.S, ts, v)
			}
			for _, hv := range g.Hist[c]["fi"] {
				add(ga.a, c.S, ts, hv)
			}
		}
		if len(ga.a) > 0 {
			gens = append(gens, ga)
		}
	}
	value := func(a *acc) (sVal, []sVal) {
		switch sp.call {
		case "count":
			return sVal{Typ: influxql.Integer, I: a.n}, nil
		case "sum":
			return sVal{Typ: influxql.Integer, I: a.sum}, nil
		}
		best := 0
		for i := 1; i < len(a.vals); i++ {
			switch sp.call {
			case "min":
				if a.vals[i].I < a.vals[best].I {
					best = i
				}
			case "max":
				if a.vals[i].I > a.vals[best].I {
					best = i
				}
			case "first":
				if a.times[i] < a.times[best] {
					best = i
				}
			case "last":
				if a.times[i] > a.times[best] {
					best = i
				}
			}
		}
		return a.vals[best], nil
	}
	got := map[gk]sVal{}
	for _, r := range rows {
		if len(r.Vals) == 0 || r.Vals[0] == nil {
			continue
		}
		s, ok := byKey[r.Group]
		if !ok {
			return &dFinding{class: "other", kind: "foreign_row", detail: fmt.Sprintf("%s returned a group %q of an unknown series", q.text(), r.Group)}
		}
		k := gk{s, 0}
		if sp.interval > 0 {
			k.b = bucketOf(r.Time)
		}
		if _, dup := got[k]; dup {
			// two rows for one group: with dropped data around this is the old and the new series id
			for _, ga := range gens {
				if _, ok := ga.a[k]; ok {
					return &dFinding{class: "dropped", gen: ga.gen, detail: fmt.Sprintf("%s returned two rows for group %s bucket %d; operation %d (%s) dropped rows of that group", q.text(), r.Group, k.b, ga.gen.Op, ga.gen.Kind)}
				}
			}
			return &dFinding{class: "other", kind: "agg_duplicate_group", detail: fmt.Sprintf("%s returned two rows for group %s bucket %d", q.text(), r.Group, k.b)}
		}
		got[k] = *r.Vals[0]
	}
	var keys []gk
	seen := map[gk]bool{}
	for k := range ref {
		keys = append(keys, k)
		seen[k] = true
	}
	for k := range got {
		if !seen[k] {
			keys = append(keys, k)
		}
	}
	sort.Slice(keys, func(i, j int) bool {
		if keys[i].s != keys[j].s {
			return keys[i].s < keys[j].s
		}
		return keys[i].b < keys[j].b
	})
	for _, k := range keys {
		a := ref[k]
		g, gok := got[k]
		desc := fmt.Sprintf("%s group %s", q.text(), sSeriesKey(k.s))
		if sp.interval > 0 {
			desc += fmt.Sprintf(" bucket %d", k.b)
		}
		var want sVal
		if a != nil {
			want, _ = value(a)
		}
		switch {
		case a != nil && gok && g.equal(want):
			continue
		case a == nil && gok && sp.call == "count" && g.I == 0:
			continue
		}
		// can dropped generations explain what was returned?
		if gok {
			var withGen []genAcc
			for _, ga := range gens {
				if _, ok := ga.a[k]; ok {
					withGen = append(withGen, ga)
				}
			}
			// rows of the group that some drop removed, one by one (a resurrected series may hold only part of a generation)
			if sp.call == "count" || sp.call == "sum" {
				var ln, lsum int64
				if a != nil {
					ln, lsum = a.n, a.sum
				}
				explains := func(gas []genAcc) bool {
					var dvals []int64
					for _, ga := range gas {
						for _, dv := range ga.a[k].vals {
							dvals = append(dvals, dv.I)
						}
					}
					if sp.call == "count" {
						return g.I > ln && g.I <= ln+int64(len(dvals))
					}
					if len(dvals) > 18 {
						// too many rows for the subset search: all of them, or any surplus up to their total
						var tot int64
						for _, v := range dvals {
							tot += v
						}
						return g.I-lsum > 0 && g.I-lsum <= tot
					}
					sums := map[int64]bool{0: true}
					for _, v := range dvals {
						ns := map[int64]bool{}
						for x := range sums {
							ns[x] = true
							ns[x+v] = true
						}
						sums = ns
					}
					return g.I != lsum && sums[g.I-lsum]
				}
				// one generation alone (the latest first), else all of them together
				var who *dGen
				for j := len(withGen) - 1; j >= 0 && who == nil; j-- {
					if explains(withGen[j : j+1]) {
						who = withGen[j].gen
					}
				}
				if who == nil && len(withGen) > 1 && explains(withGen) {
					who = withGen[len(withGen)-1].gen
				}
				if who != nil {
					return &dFinding{class: "dropped", gen: who, detail: fmt.Sprintf("%s = %s; the rows not dropped give %s; the difference is made of rows that operation %d (%s) dropped", desc, g, dOrNone(a != nil, want), who.Op, who.Kind)}
				}
			}
			switch sp.call {
			case "count", "sum":
				// live + any non-empty subset of generations
				for mask := 1; mask < 1<<uint(len(withGen)) && len(withGen) <= 6; mask++ {
					var n, sum int64
					if a != nil {
						n, sum = a.n, a.sum
					}
					var first *dGen
					for j, ga := range withGen {
						if mask&(1<<uint(j)) != 0 {
							n += ga.a[k].n
							sum += ga.a[k].sum
							if first == nil {
								first = ga.gen
							}
						}
					}
					if (sp.call == "count" && g.I == n) || (sp.call == "sum" && g.I == sum) {
						return &dFinding{class: "dropped", gen: first, detail: fmt.Sprintf("%s = %s; the rows not dropped give %s; the difference is exactly the rows operation %d (%s) dropped", desc, g, dOrNone(a != nil, want), first.Op, first.Kind)}
					}
				}
			default:
				for j := len(withGen) - 1; j >= 0; j-- {
					ga := withGen[j]
					for _, dv := range ga.a[k].vals {
						if dv.equal(g) {
							return &dFinding{class: "dropped", gen: ga.gen, detail: fmt.Sprintf("%s = %s, a value operation %d (%s) dropped; the rows not dropped give %s", desc, g, ga.gen.Op, ga.gen.Kind, dOrNone(a != nil, want))}
						}
					}
				}
			}
		}
		switch {
		case a != nil && !gok:
			return &dFinding{class: "lost", detail: fmt.Sprintf("%s: no value, the rows not named by any drop give %s", desc, want)}
		case a == nil && gok:
			return &dFinding{class: "other", kind: "agg_extra_group", detail: fmt.Sprintf("%s = %s but no acknowledged row is in that group", desc, g)}
		default:
			cl, kind := "other", "agg_mismatch"
			if (sp.call == "count" || sp.call == "sum") && g.I < want.I && g.I >= 0 {
				cl, kind = "lost", ""
			}
			if sp.call != "count" && sp.call != "sum" {
				// the value of another live row of the group: the row that should have won was not seen
				for _, lv := range a.vals {
					if lv.equal(g) {
						cl, kind = "lost", ""
					}
				}
			}
			return &dFinding{class: cl, kind: kind, detail: fmt.Sprintf("%s = %s, the acknowledged rows give %s", desc, g, want)}
		}
	}
	return nil
}

func dOrNone(ok bool, v sVal) string {
	if !ok {
		return "nothing"
	}
	return v.String()
}

// ---- one target, every shape --------------------------------------------------------------------------

func (run *dRun) query(tg *dTarget, sp *dShape) *dQuery {
	full := int64(1) << 62
	q := &dQuery{DB: dDBName(tg.DB), RP: dRPName(tg.RP), Name: tg.Name, Fields: sp.fields, TMin: -full, TMax: full,
		GroupTags: sp.groupTags, Where: sp.where, Desc: sp.desc, ChunkSize: 1024, Parallel: 1}
	if sp.call != "" {
		q.Call, q.CallField, q.Fields = sp.call, "fi", nil
		q.Interval, q.Exact = sp.interval, sp.exact
	}
	return q
}

// checkTarget runs the plain dump and the given shapes on one target.  report turns a finding
// into a violation (nil = listed finding, stepped over).
func (run *dRun) checkTarget(ctx *dCtx, tg *dTarget, shapes []dShape) *core.Violation {
	plain := dShape{name: "sel_plain", fields: sFieldNames}
	exp := run.expected(ctx.model, tg, &plain)
	var pre dExp
	if ctx.pre != nil {
		pre = run.expected(ctx.pre, tg, &plain)
	}
	if tg.sh == nil {
		// the store has no such shard: nothing may be expected from it
		for k := range exp {
			if pre == nil || pre[k] != nil {
				f := &dFinding{class: "lost", detail: fmt.Sprintf("the store has no shard %d (%s.%s pt %d) but row %s is expected there", tg.Ref.ID, dDBName(tg.DB), dRPName(tg.RP), tg.Ref.PT, dFmtRow(k, exp[k]))}
				if v := run.report(ctx, tg, "sel_plain", f); v != nil {
					return v
				}
				break
			}
		}
		return nil
	}
	q := run.query(tg, &plain)
	q.ChunkSize, q.Parallel = run.c.Knobs.ChunkSize, run.c.Knobs.MaxParallel
	rows, err := dRunQuery(tg.sh, q)
	run.out.Stats["reads"]++
	obsModelExp := exp
	relaxed := pre != nil
	if err != nil {
		if v := run.report(ctx, tg, "sel_plain", &dFinding{class: "other", kind: "read_error", detail: err.Error()}); v != nil {
			return v
		}
	} else {
		got, f := run.attribute(tg, &plain, plain.fields, rows)
		var obs dExp
		if f == nil {
			obs, f = run.comparePlain(ctx.model, tg, got, exp, pre)
		}
		if f != nil {
			f.detail += "\n  query: " + q.text() + "\n  files: " + dFileLayout(tg.sh, tg.Name)
			if v := run.report(ctx, tg, "sel_plain", f); v != nil {
				return v
			}
			if relaxed {
				return nil // an operation is in flight and the dump itself is off: the other shapes cannot be judged
			}
		} else {
			run.markClean(ctx, tg, "sel_plain")
			if relaxed {
				obsModelExp = obs
			}
		}
	}
	for si := range shapes {
		sp := &shapes[si]
		if tg.physical && sp.call != "" {
			continue
		}
		if (sp.form == "bare" || sp.form == "tagfilter") && (ctx.phase != "live" || run.multiGen(tg.DB, tg.RP, tg.M)) {
			run.out.Stats["agg_bare_skipped_multi_generation"]++
			continue
		}
		var e dExp
		if relaxed {
			e = dFilterExp(obsModelExp, sp)
		} else {
			e = run.expected(ctx.model, tg, sp)
		}
		q := run.query(tg, sp)
		rows, err := dRunQuery(tg.sh, q)
		run.out.Stats["reads"]++
		var f *dFinding
		if err != nil {
			f = &dFinding{class: "other", kind: "read_error", detail: err.Error()}
		} else if sp.call != "" {
			f = run.compareAgg(ctx.model, tg, sp, q, rows, e)
		} else {
			var got []dGotRow
			got, f = run.attribute(tg, sp, sp.fields, rows)
			if f == nil {
				_, f = run.comparePlain(ctx.model, tg, got, e, nil)
			}
		}
		if f == nil {
			run.markClean(ctx, tg, sp.name)
			continue
		}
		if relaxed {
			// the plain dump of the same shard was accepted (within the relaxation); this shape tells another story
			f = &dFinding{class: "disagree", gen: f.gen, detail: "the plain dump of the shard was accepted, this shape disagrees with it: " + f.detail}
		}
		f.detail += "\n  query: " + q.text() + "\n  files: " + dFileLayout(tg.sh, tg.Name)
		if v := run.report(ctx, tg, sp.name, f); v != nil {
			return v
		}
	}
	return nil
}

func dFilterExp(obs dExp, sp *dShape) dExp {
	out := dExp{}
	for k, fs := range obs {
		if sp.pred != nil && !sp.pred(k.S) {
			continue
		}
		if sp.rowPred != nil && !sp.rowPred(fs) {
			continue
		}
		row := map[string]sVal{}
		fields := sFieldNames
		if sp.fields != nil {
			fields = sp.fields
		}
		for _, f := range fields {
			if v, ok := fs[f]; ok {
				row[f] = v
			}
		}
		if len(row) > 0 {
			out[k] = row
		}
	}
	return out
}

func dFileLayout(sh *shard, name string) string {
	var b strings.Builder
	if sh == nil || sh.immTables == nil {
		return "-"
	}
	for _, order := range []bool{true, false} {
		files, ok := sh.immTables.GetTSSPFiles(name, order)
		if !ok || files == nil {
			continue
		}
		// (file sequence numbers depend on the map order in which the store flushes measurements and shards: not printed)
		var lv []string
		for _, f := range files.Files() {
			l, _ := f.LevelAndSequence()
			lv = append(lv, fmt.Sprintf("L%d", l))
		}
		sort.Strings(lv)
		if len(lv) > 0 {
			fmt.Fprintf(&b, "[%s %s] ", map[bool]string{true: "ordered", false: "unordered"}[order], strings.Join(lv, " "))
		}
		dUnrefFiles(files)
	}
	return b.String()
}

// ---- verdict bookkeeping ------------------------------------------------------------------------------

// after: what happened between the drop and now.
func (run *dRun) afterOf(ctx *dCtx, dropOp int) string {
	if ctx.phase == "crash" {
		return "crash"
	}
	res := "immediately"
	rank := map[string]int{"immediately": 0, "flush": 1, "compact": 2, "restart": 3}
	for j := dropOp + 1; j <= ctx.i && j < len(run.c.Ops); j++ {
		k := ""
		switch run.c.Ops[j].K {
		case "flush", "dropm": // DROP MEASUREMENT flushes the shard
			k = "flush"
		case "compact", "fullcompact", "merge":
			k = "compact"
		case "restart":
			k = "restart"
		}
		if k != "" && rank[k] > rank[res] {
			res = k
		}
	}
	return res
}

func dShapeClass(shape string) string {
	if i := strings.Index(shape, "_"); i > 0 {
		return shape[:i]
	}
	return shape
}

func (run *dRun) markClean(ctx *dCtx, tg *dTarget, shape string) {
	if ctx.phase != "live" {
		return
	}
	for _, g := range ctx.model.gens {
		run.checked[fmt.Sprintf("%s|%s|%d", tg.key(), dShapeClass(shape), g.Op)] = true
	}
}

// unflushedAt: the cells written by the operations before op i since the last flush of every
// shard (a flush operation, or a restart: start-up flushes what it replays from the log).
// Size-triggered flushes are not accounted for (the result only feeds an attribute).
func (run *dRun) unflushedAt(i int) map[dCell]bool {
	out := map[dCell]bool{}
	var flushed [][2]int
	for j := i - 1; j >= 0; j-- {
		op := run.c.Ops[j]
		if op.K == "flush" || op.K == "restart" {
			break
		}
		if op.K == "dropm" {
			flushed = append(flushed, [2]int{op.DB, op.RP}) // DROP MEASUREMENT flushes the shards of its policy first
		}
		if op.K == "w" {
			skip := false
			for _, x := range flushed {
				skip = skip || (x[0] == op.DB && x[1] == op.RP)
			}
			if skip {
				continue
			}
			for _, r := range op.Rows {
				if len(rowFields(r)) > 0 {
					out[dCell{op.DB, op.RP, r.M, r.S, r.T}] = true
				}
			}
		}
	}
	return out
}

// walReplayed: rows of the generation were still in the write-ahead log when the store was
// (re)started after the drop.
func (run *dRun) walReplayed(ctx *dCtx, g *dGen) bool {
	// rows of a series the drop named: the dropped rows themselves, or rows written to the series since
	type sk struct{ db, rp, m, s int }
	named := map[sk]bool{}
	for c := range g.Rows {
		named[sk{c.DB, c.RP, c.M, c.S}] = true
	}
	hit := func(i int) bool {
		for c := range run.unflushedAt(i) {
			if named[sk{c.DB, c.RP, c.M, c.S}] {
				return true
			}
		}
		return false
	}
	for j := g.Op + 1; j <= ctx.i && j < len(run.c.Ops); j++ {
		if run.c.Ops[j].K == "restart" && hit(j) {
			return true
		}
	}
	if ctx.phase == "crash" {
		// the crash interrupts operation ctx.i (or follows it): everything written before it and not flushed is replayed
		n := ctx.i
		if ctx.i < len(run.c.Ops) && run.c.Ops[ctx.i].K == "w" {
			n = ctx.i + 1
		}
		return hit(n)
	}
	return false
}

func (run *dRun) opBetween(ctx *dCtx, from int, kinds ...string) bool {
	for j := from + 1; j <= ctx.i && j < len(run.c.Ops); j++ {
		for _, k := range kinds {
			if run.c.Ops[j].K == k {
				return true
			}
		}
	}
	return false
}

// tailAttr: is the target's versioned name the last measurement name its index has entries for?
func (run *dRun) tailAttr(tg *dTarget) string {
	if tg == nil || tg.RP < 0 {
		return "-"
	}
	for n := range run.idxNames[fmt.Sprintf("%d/%d/%d/%d", tg.DB, tg.RP, tg.Ref.PT, tg.Ref.IndexID)] {
		if n > tg.Name {
			return "not_last"
		}
	}
	return "last"
}

// sharedName: some versioned name of the listing is (or was) in use in more than one policy.
func (run *dRun) sharedName(tg *dTarget) string {
	if tg == nil || tg.RP >= 0 {
		return "-"
	}
	for _, n := range strings.Split(tg.Name, "+") {
		cnt := 0
		for rp := 0; rp < run.c.NRP; rp++ {
			if run.physEver[fmt.Sprintf("%d/%d/%s", tg.DB, rp, n)] {
				cnt++
			}
		}
		if cnt > 1 {
			return "yes"
		}
	}
	return "no"
}

// report turns a finding into a violation; nil = a listed finding that was stepped over.
//
// Attributes: op (the drop that named the data, else the last drop executed), shape, after (what
// happened since that drop: immediately / flush / compact / restart / crash), and facts about the
// history that separate the known defects: tail (is the measurement the last one in its index),
// wal (were dropped rows still in the log at a restart), purged (did the purge task run since),
// rewritten (was something written to the dropped series since), shared_name (listings: the
// versioned name is used by several policies).
func (run *dRun) report(ctx *dCtx, tg *dTarget, shape string, f *dFinding) *core.Violation {
	at := map[string]string{"shape": shape}
	kind := f.kind
	tkey := "-"
	where := ""
	if tg != nil {
		tkey = tg.key()
		where = fmt.Sprintf("%s.%s.%s (%s) shard %d pt %d", dDBName(tg.DB), dRPArg(tg.RP), dMstName(tg.M), tg.Name, tg.Ref.ID, tg.Ref.PT)
		if tg.physical {
			at["shape"] = shape + "_old_version_name"
		}
		if tg.RP >= 0 {
			at["tail"] = run.tailAttr(tg)
		} else {
			at["shared_name"] = run.sharedName(tg)
		}
	}
	at["seq"] = "distinct"
	if !run.c.DistinctSeq && (run.c.NPT > 1 || run.c.NDB > 1) {
		at["seq"] = "shared" // several partitions hand out the same series ids
	}
	gen := f.gen
	if gen == nil {
		gen = ctx.model.lastDrop()
	}
	if gen == nil {
		at["op"], at["after"] = "none", ctx.phaseAfter()
	} else {
		at["op"], at["after"] = gen.Kind, run.afterOf(ctx, gen.Op)
		cands := f.cands
		if len(cands) == 0 && f.gen == nil && tg != nil {
			// not attributed to one drop: every drop that named rows of the target's measurement may be involved
			for _, g := range ctx.model.gens {
				for c := range g.Rows {
					if c.DB == tg.DB && c.M == tg.M && (tg.RP < 0 || c.RP == tg.RP) {
						cands = append(cands, g)
						break
					}
				}
			}
		}
		if len(cands) == 0 {
			cands = []*dGen{gen}
		}
		wal := false
		for _, g := range cands {
			wal = wal || run.walReplayed(ctx, g)
		}
		at["wal"] = map[bool]string{true: "yes", false: "no"}[wal]
		for _, g := range cands {
			if g.Kind == "drop_series" && g.Names > 1 {
				at["drop_names"] = "several" // the statement matched several versioned names (policies at different versions)
			}
		}
		// the purge task ran after some DROP SERIES
		purged := false
		for j, seenDrop := 0, false; j <= ctx.i && j < len(run.c.Ops); j++ {
			if run.c.Ops[j].K == "drops" {
				seenDrop = true
			}
			if run.c.Ops[j].K == "purge" && seenDrop && !(j == ctx.i && ctx.phase == "crash" && false) {
				purged = true
			}
		}
		at["purged"] = map[bool]string{true: "yes", false: "no"}[purged]
		// were the deleted ids of every DROP SERIES that may be involved flushed out of the deleted-id index's
		// memory (its one-second flusher, or a clean stop)?
		all, any := true, false
		for _, g := range cands {
			if g.Kind != "drop_series" {
				continue
			}
			any = true
			fl := false
			for j := g.Op + 1; j <= ctx.i && j < len(run.c.Ops); j++ {
				if k := run.c.Ops[j].K; k == "idxflush" || k == "restart" {
					if j < ctx.i || !ctx.inflight {
						fl = true
					}
				}
			}
			all = all && fl
		}
		if any {
			at["del_flushed"] = map[bool]string{true: "yes", false: "no"}[all]
		}
	}
	// the target's index came into being while the partition already held the policy's deleted-id index builder,
	// and the store has not been restarted since
	if tg != nil && tg.RP >= 0 && ctx.phase == "live" {
		born, ok1 := run.idxBorn[fmt.Sprintf("%d/%d/%d/%d", tg.DB, tg.RP, tg.Ref.PT, tg.Ref.IndexID)]
		since, ok2 := run.delIdxAt[fmt.Sprintf("%d/%d/%d", tg.DB, tg.RP, tg.Ref.PT)]
		if ok1 && ok2 && born > since && !run.opBetween(ctx, born, "restart") {
			at["idx_born"] = "after_delidx"
		}
	}
	if tg != nil && tg.RP < 0 && ctx.phase == "live" {
		// listings search every index of the partitions
		for ik, born := range run.idxBorn {
			var a, b, c2, d int
			if n, _ := fmt.Sscanf(ik, "%d/%d/%d/%d", &a, &b, &c2, &d); n != 4 || a != tg.DB {
				continue
			}
			if since, ok := run.delIdxAt[fmt.Sprintf("%d/%d/%d", a, b, c2)]; ok && born > since && !run.opBetween(ctx, born, "restart") {
				at["idx_born"] = "after_delidx"
			}
		}
	}
	// a DROP SERIES that named one policy ([rp.]measurement) was executed and this target is in another policy
	at["drop_scope"] = "-"
	if tg != nil && tg.RP >= 0 {
		for j := 0; j <= ctx.i && j < len(run.c.Ops); j++ {
			if op := run.c.Ops[j]; op.K == "drops" && op.RP >= 0 && op.DB == tg.DB && op.M == tg.M && op.RP != tg.RP {
				at["drop_scope"] = "other_policy"
			}
		}
	} else if tg != nil && run.c.NRP > 1 {
		for j := 0; j <= ctx.i && j < len(run.c.Ops); j++ {
			if op := run.c.Ops[j]; op.K == "drops" && op.RP >= 0 && op.DB == tg.DB && op.M == tg.M {
				at["drop_scope"] = "other_policy"
			}
		}
	}
	switch f.class {
	case "dropped", "mixed", "disagree":
		if f.gen != nil {
			key := fmt.Sprintf("%s|%s|%d", tkey, dShapeClass(shape), f.gen.Op)
			switch {
			case f.class == "disagree":
				kind = "read_shapes_disagree"
			case f.class == "mixed" && ctx.phase != "crash":
				kind = "fresh_write_sees_old_data"
			case ctx.phase == "crash":
				kind = "dropped_data_returned"
				if !run.leaked[key] {
					kind = "crash_dropped_data_reappeared"
				}
			case run.checked[key] && !run.leaked[key] && at["after"] == "restart":
				kind = "dropped_data_reappeared_after_restart"
			default:
				kind = "dropped_data_returned"
			}
			if ctx.phase == "live" {
				run.leaked[key] = true
			}
		} else {
			kind = "read_shapes_disagree"
		}
	case "lost":
		kind = "undropped_data_lost"
		if at["op"] == "none" {
			kind = "missing_row"
		}
	}
	if ctx.phase == "crash" && !strings.HasPrefix(kind, "crash_") && f.class != "dropped" && f.class != "mixed" {
		kind = "crash_" + kind
	}
	for k, v := range ctx.extra {
		at[k] = v
	}
	cur := "end"
	if ctx.i >= 0 && ctx.i < len(run.c.Ops) {
		cur = run.c.Ops[ctx.i].K
	}
	detail := fmt.Sprintf("%safter op %d (%s), %s: %s", ctx.where, ctx.i, cur, where, f.detail)
	v := &core.Violation{Property: run.prop, Kind: kind, Detail: detail, Attrs: at}
	if run.env != nil && run.env.KnownID(v, run.out) != "" {
		return nil
	}
	return v
}

func (run *dRun) lastDropAttrs(ctx *dCtx) (string, string) {
	g := ctx.model.lastDrop()
	if g == nil {
		return "none", ctx.phaseAfter()
	}
	return g.Kind, run.afterOf(ctx, g.Op)
}

func (ctx *dCtx) phaseAfter() string {
	if ctx.phase == "crash" {
		return "crash"
	}
	return "immediately"
}

// ---- listings ------------------------------------------------------------------------------------------

// liveSeries: series of (db, logical m) with at least one live row, per policy.
func (run *dRun) liveSeries(m *dModel, db, mi int) map[int]map[int]bool {
	out := map[int]map[int]bool{}
	for c := range m.rows {
		if c.DB == db && c.M == mi {
			if out[c.RP] == nil {
				out[c.RP] = map[int]bool{}
			}
			out[c.RP][c.S] = true
		}
	}
	return out
}

func dSetString(m map[string]bool) string {
	var ks []string
	for k := range m {
		ks = append(ks, k)
	}
	sort.Strings(ks)
	return "[" + strings.Join(ks, " ") + "]"
}

// checkListings: SHOW SERIES / TAG KEYS / TAG VALUES / SERIES [EXACT] CARDINALITY of every
// logical measurement of every database, through the store's message handlers, as the SQL
// node issues them (all versioned names the catalogue matches, all partitions of the node).
func (run *dRun) checkListings(ctx *dCtx) *core.Violation {
	if ctx.noListings || ctx.pre != nil {
		return nil
	}
	for db := 0; db < run.c.NDB; db++ {
		if !ctx.cat.dbExists(db) {
			continue
		}
		pts := ctx.cat.pts(db)
		for mi := 0; mi < run.c.NMst; mi++ {
			if ctx.skip != nil {
				sk := false
				for rp := 0; rp < run.c.NRP; rp++ {
					if ctx.skip(db, rp, mi) {
						sk = true
					}
				}
				if sk {
					continue
				}
			}
			names := dUniq(ctx.cat.matchMeasurements(db, -1, mi, run.c.Desc))
			if len(names) == 0 {
				continue // the SQL node answers without asking the store
			}
			live := run.liveSeries(ctx.model, db, mi)
			want := map[int]bool{}
			for rp, ss := range live {
				if ctx.cat.physName(db, rp, mi) == "" {
					continue
				}
				for s := range ss {
					want[s] = true
				}
			}
			mst := dMstName(mi)
			tgs := &dTarget{DB: db, RP: -1, M: mi, Name: strings.Join(names, "+")}
			// which drop could explain a surplus series?
			gensOf := func(s int) []*dGen {
				var out []*dGen
				for _, g := range dGensByPreference(ctx.model) {
					for c := range g.Rows {
						if c.DB == db && c.M == mi && c.S == s {
							out = append(out, g)
							break
						}
					}
				}
				return out
			}
			genOf := func(s int) *dGen {
				// a DROP SERIES / DROP MEASUREMENT leaves the index entries in place, the other drops delete the index
				for _, pref := range [][]string{{"drop_series"}, {"drop_measurement"}, {"drop_rp", "drop_database"}} {
					for i := len(ctx.model.gens) - 1; i >= 0; i-- {
						ok := false
						for _, k := range pref {
							ok = ok || ctx.model.gens[i].Kind == k
						}
						if !ok {
							continue
						}
						for c := range ctx.model.gens[i].Rows {
							if c.DB == db && c.M == mi && c.S == s {
								return ctx.model.gens[i]
							}
						}
					}
				}
				return nil
			}
			cmpSeries := func(shape string, got []string, cond string, sel map[int]bool) *core.Violation {
				wantKeys := map[string]bool{}
				for s := range want {
					if sel == nil || sel[s] {
						wantKeys[dListingKey(mst, s)] = true
					}
				}
				gotKeys := map[string]bool{}
				for _, k := range got {
					gotKeys[k] = true
				}
				var f *dFinding
				for _, k := range core.SortedKeys(gotKeys) {
					if !wantKeys[k] {
						f = &dFinding{class: "other", kind: "listing_extra_series", detail: fmt.Sprintf("series %q is listed but has no acknowledged row", k)}
						for s := 0; s < run.c.NSeries; s++ {
							if dListingKey(mst, s) == k {
								if g := genOf(s); g != nil {
									f = &dFinding{class: "dropped", gen: g, cands: gensOf(s), detail: fmt.Sprintf("series %q is listed; operation %d (%s) dropped it and nothing was written to it since", k, g.Op, g.Kind)}
								}
							}
						}
						break
					}
				}
				if os.Getenv("DW_DEBUG") != "" {
					fmt.Println("DEBUG listing", shape, ctx.phase, len(run.unflushed), got)
					{
						var nb [][]byte
						for _, n := range names {
							nb = append(nb, []byte(n))
						}
						g3, e3 := ctx.node.eng.SeriesKeys(dDBName(db), pts, nb, nil, influxql.TimeRange{Min: time.Unix(0, influxql.MinTime).UTC(), Max: time.Unix(0, influxql.MaxTime).UTC()})
						fmt.Println("DEBUG   all pts direct", pts, g3, e3)
						g4, e4 := DwStore.SeriesKeys(dDBName(db), pts, names, cond, false)
						fmt.Println("DEBUG   all pts handler", pts, g4, e4)
					}
					for _, pt := range pts {
						g2, e2 := DwStore.SeriesKeys(dDBName(db), []uint32{pt}, names, cond, false)
						fmt.Println("DEBUG   pt", pt, g2, e2)
						var nb [][]byte
						for _, n := range names {
							nb = append(nb, []byte(n))
						}
						g3, e3 := ctx.node.eng.SeriesKeys(dDBName(db), []uint32{pt}, nb, nil, influxql.TimeRange{Min: time.Unix(0, influxql.MinTime).UTC(), Max: time.Unix(0, influxql.MaxTime).UTC()})
						fmt.Println("DEBUG   pt direct", pt, g3, e3)
						ctx.node.eng.mu.RLock()
						for id, ib := range ctx.node.eng.DBPartitions[dDBName(db)][pt].indexBuilder {
							idx := ib.GetPrimaryIndex().(*tsi.MergeSetIndex)
							ser, e5 := idx.SearchSeriesKeys(nil, []byte(names[0]), nil)
							var ss []string
							for _, x := range ser {
								ss = append(ss, string(x))
							}
							fmt.Println("DEBUG     index", id, ss, e5, "deleted", idx.GetDeletedTSIDs().AppendTo(nil))
						}
						ctx.node.eng.mu.RUnlock()
					}
				}
				if f == nil && !(strings.HasPrefix(shape, "listx_") && !run.allFlushed(ctx)) {
					// (the exact variants answer from the data files: rows still in the memtable do not count)
					for _, k := range core.SortedKeys(wantKeys) {
						if !gotKeys[k] {
							f = &dFinding{class: "lost", detail: fmt.Sprintf("series %q has acknowledged rows that no drop named, but is not listed", k)}
							break
						}
					}
				}
				if f == nil {
					run.markClean(ctx, tgs, shape)
					return nil
				}
				f.detail += fmt.Sprintf("\n  listing of %v cond %q: got %s want %s", names, cond, dSetString(gotKeys), dSetString(wantKeys))
				return run.report(ctx, tgs, shape, f)
			}
			for _, exact := range []bool{false, true} {
				shape := "list_series"
				if exact {
					shape = "listx_series"
				}
				got, err := DwStore.SeriesKeys(dDBName(db), pts, names, "", exact)
				run.out.Stats["reads"]++
				if err != nil {
					if v := run.report(ctx, tgs, shape, &dFinding{class: "other", kind: "read_error", detail: err.Error()}); v != nil {
						return v
					}
					continue
				}
				if v := cmpSeries(shape, got, "", nil); v != nil {
					return v
				}
			}
			// with a tag predicate
			cond := core.Pick(run.r, dAtoms)
			if sel, err := dPredSeries(cond, run.c.NSeries); err == nil {
				got, err := DwStore.SeriesKeys(dDBName(db), pts, names, cond, false)
				run.out.Stats["reads"]++
				if err != nil {
					if v := run.report(ctx, tgs, "list_series_cond", &dFinding{class: "other", kind: "read_error", detail: err.Error()}); v != nil {
						return v
					}
				} else if v := cmpSeries("list_series_cond", got, cond, sel); v != nil {
					return v
				}
			}
			// tag keys
			{
				got, err := DwStore.TagKeys(dDBName(db), pts, names, "")
				run.out.Stats["reads"]++
				wantKeys := map[string]bool{}
				for s := range want {
					for k := range dSeriesTagMap(s) {
						wantKeys[k] = true
					}
				}
				gotKeys := map[string]bool{}
				for _, line := range got {
					parts := strings.Split(line, ",")
					for _, k := range parts[1:] {
						gotKeys[k] = true
					}
				}
				var f *dFinding
				if err != nil {
					f = &dFinding{class: "other", kind: "read_error", detail: err.Error()}
				} else if dSetString(gotKeys) != dSetString(wantKeys) {
					f = run.listingFinding(ctx, db, mi, gotKeys, wantKeys, func(s int, k string) bool { _, ok := dSeriesTagMap(s)[k]; return ok },
						fmt.Sprintf("tag keys of %v: got %s want %s", names, dSetString(gotKeys), dSetString(wantKeys)))
				}
				if f != nil {
					if v := run.report(ctx, tgs, "list_tag_keys", f); v != nil {
						return v
					}
				} else {
					run.markClean(ctx, tgs, "list_tag_keys")
				}
			}
			// tag values
			for _, exact := range []bool{false, true} {
				shape := "list_tag_values"
				if exact {
					shape = "listx_tag_values"
				}
				tk := map[string]map[string]struct{}{}
				for _, n := range names {
					tk[n] = map[string]struct{}{"host": {}, "region": {}}
				}
				got, err := DwStore.TagValues(dDBName(db), pts, tk, "", exact)
				run.out.Stats["reads"]++
				wantKV := map[string]bool{}
				for s := range want {
					for k, v := range dSeriesTagMap(s) {
						wantKV[k+"="+v] = true
					}
				}
				gotKV := map[string]bool{}
				for _, tts := range got {
					for _, ts := range tts.Values {
						gotKV[ts.Key+"="+ts.Value] = true
					}
				}
				var f *dFinding
				if err != nil {
					f = &dFinding{class: "other", kind: "read_error", detail: err.Error()}
				} else if dSetString(gotKV) != dSetString(wantKV) {
					f = run.listingFinding(ctx, db, mi, gotKV, wantKV, func(s int, kv string) bool {
						p := strings.SplitN(kv, "=", 2)
						v, ok := dSeriesTagMap(s)[p[0]]
						return ok && len(p) == 2 && v == p[1]
					}, fmt.Sprintf("tag values of %v: got %s want %s", names, dSetString(gotKV), dSetString(wantKV)))
					if f != nil && f.class == "lost" && exact && !run.allFlushed(ctx) {
						f = nil // the exact variant answers from the data files: rows still in the memtable do not count
					}
				}
				if f != nil {
					if v := run.report(ctx, tgs, shape, f); v != nil {
						return v
					}
				} else {
					run.markClean(ctx, tgs, shape)
				}
			}
			// exact cardinality = number of distinct series keys
			{
				got, err := DwStore.SeriesExactCardinality(dDBName(db), pts, names, "")
				run.out.Stats["reads"]++
				var f *dFinding
				if err != nil {
					f = &dFinding{class: "other", kind: "read_error", detail: err.Error()}
				} else if int(got[mst]) != len(want) {
					f = run.cardFinding(ctx, db, mi, int(got[mst]), len(want), fmt.Sprintf("series exact cardinality of %v = %d, series with acknowledged rows: %d", names, got[mst], len(want)))
				}
				if f != nil {
					if v := run.report(ctx, tgs, "list_exact_cardinality", f); v != nil {
						return v
					}
				} else {
					run.markClean(ctx, tgs, "list_exact_cardinality")
				}
			}
			// rough cardinality = sum over the index groups of every policy
			{
				wantN := 0
				for rp := 0; rp < run.c.NRP; rp++ {
					if ctx.cat.physName(db, rp, mi) == "" {
						continue
					}
					perIdx := map[uint64]map[int]bool{}
					for c := range ctx.model.rows {
						if c.DB != db || c.RP != rp || c.M != mi {
							continue
						}
						ts := run.c.timeOf(c.T)
						for _, ref := range ctx.cat.shards(db, rp) {
							if ref.PT == run.c.ptOf(c.S) && ts >= ref.Start && ts < ref.End {
								if perIdx[ref.IndexID] == nil {
									perIdx[ref.IndexID] = map[int]bool{}
								}
								perIdx[ref.IndexID][c.S] = true
							}
						}
					}
					for _, ss := range perIdx {
						wantN += len(ss)
					}
				}
				infos, err := DwStore.SeriesCardinality(dDBName(db), pts, names, "")
				run.out.Stats["reads"]++
				gotN := 0
				for _, mi := range infos {
					for _, ci := range mi.CardinalityInfos {
						gotN += int(ci.Cardinality)
					}
				}
				var f *dFinding
				if err != nil {
					f = &dFinding{class: "other", kind: "read_error", detail: err.Error()}
				} else if gotN != wantN {
					f = run.cardFinding(ctx, db, mi, gotN, wantN, fmt.Sprintf("series cardinality of %v = %d (summed over index groups), series with acknowledged rows per index group: %d", names, gotN, wantN))
				}
				if f != nil {
					if v := run.report(ctx, tgs, "list_cardinality", f); v != nil {
						return v
					}
				} else {
					run.markClean(ctx, tgs, "list_cardinality")
				}
			}
		}
	}
	return nil
}

// listingFinding classifies a difference between two sets of listing items: a surplus item
// that only dropped series carry is dropped data; a missing item is lost data.
func (run *dRun) listingFinding(ctx *dCtx, db, mi int, got, want map[string]bool, has func(s int, item string) bool, detail string) *dFinding {
	for _, k := range core.SortedKeys(got) {
		if want[k] {
			continue
		}
		var cands []*dGen
		for _, g := range dGensByPreference(ctx.model) {
			for c := range g.Rows {
				if c.DB == db && c.M == mi && has(c.S, k) {
					cands = append(cands, g)
					break
				}
			}
		}
		if len(cands) > 0 {
			g := cands[0]
			return &dFinding{class: "dropped", gen: g, cands: cands, detail: fmt.Sprintf("%q is listed although only series dropped by operation %d (%s) carry it; %s", k, g.Op, g.Kind, detail)}
		}
		return &dFinding{class: "other", kind: "listing_extra_item", detail: fmt.Sprintf("%q is listed but no acknowledged series carries it; %s", k, detail)}
	}
	return &dFinding{class: "lost", detail: detail}
}

func (run *dRun) cardFinding(ctx *dCtx, db, mi int, got, want int, detail string) *dFinding {
	if got > want {
		var cands []*dGen
		for _, g := range dGensByPreference(ctx.model) {
			for c := range g.Rows {
				if c.DB == db && c.M == mi {
					cands = append(cands, g)
					break
				}
			}
		}
		if len(cands) > 0 {
			g := cands[0]
			return &dFinding{class: "dropped", gen: g, cands: cands, detail: detail + fmt.Sprintf("; operation %d (%s) dropped series of this measurement", g.Op, g.Kind)}
		}
		return &dFinding{class: "other", kind: "cardinality_too_high", detail: detail}
	}
	return &dFinding{class: "lost", detail: detail}
}

// dGensByPreference: latest first; DROP SERIES, then DROP MEASUREMENT (both leave the index entries in
// place), then the drops that delete the index.
func dGensByPreference(m *dModel) []*dGen {
	var out []*dGen
	for _, pref := range [][]string{{"drop_series"}, {"drop_measurement"}, {"drop_rp", "drop_database"}} {
		for i := len(m.gens) - 1; i >= 0; i-- {
			for _, k := range pref {
				if m.gens[i].Kind == k {
					out = append(out, m.gens[i])
				}
			}
		}
	}
	return out
}

func dUniq(xs []string) []string {
	var out []string
	seen := map[string]bool{}
	for _, x := range xs {
		if !seen[x] {
			seen[x] = true
			out = append(out, x)
		}
	}
	return out
}

// allFlushed: the check follows a flush of every shard (the exact listing variants answer from
// the data files only).
func (run *dRun) allFlushed(ctx *dCtx) bool {
	return ctx.phase == "live" && ctx.i >= 0 && ctx.i < len(run.c.Ops) && run.c.Ops[ctx.i].K == "flush"
}

// ---- rounds ------------------------------------------------------------------------------------------

// checkAll: every shape on every target, and every listing.
func (run *dRun) checkAll(i int, why string, ctx *dCtx) *core.Violation {
	ctx.i = i
	shapes := dShapes(run.r, run.maxW(i))
	for _, tg := range run.targets(ctx) {
		tg := tg
		if v := run.checkTarget(ctx, &tg, shapes); v != nil {
			return v
		}
	}
	return run.checkListings(ctx)
}

func (run *dRun) maxW(i int) int {
	w := 0
	for j := 0; j <= i && j < len(run.c.Ops); j++ {
		if run.c.Ops[j].ID > w {
			w = run.c.Ops[j].ID
		}
	}
	return w
}

// checkRound: after every operation the plain dump of every target; after a drop and the two
// operations that follow it every shape on every target and every listing; otherwise a
// seeded sample of shapes.
func (run *dRun) checkRound(i int, op DOp) *core.Violation {
	ctx := run.liveCtx()
	ctx.i = i
	full := false
	for j := i; j >= 0 && j >= i-2; j-- {
		switch run.c.Ops[j].K {
		case "drops", "dropm", "droprp", "dropdb":
			full = true
		}
	}
	if op.K == "restart" || op.K == "purge" {
		full = true
	}
	if full {
		return run.checkAll(i, op.K, ctx)
	}
	shapes := dShapes(run.r, run.maxW(i))
	tgs := run.targets(ctx)
	for ti := range tgs {
		var sel []dShape
		for _, x := range run.r.Sample(len(shapes), 3) {
			sel = append(sel, shapes[x])
		}
		if v := run.checkTarget(ctx, &tgs[ti], sel); v != nil {
			return v
		}
	}
	if run.r.Intn(3) == 0 {
		return run.checkListings(ctx)
	}
	return nil
}
