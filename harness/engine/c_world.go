package engine

// World C — concurrent clients on one storage shard under a seeded interleaving
// scheduler (property C04).  Real goroutines run the real engine entry points;
// every mutation (and, per case, every read) of the shard's data and WAL files
// parks at a simfs gate and the scheduler decides which one proceeds next.

import (
	"fmt"
	"os"
	"sort"
	"strconv"
	"strings"
	"sync"
	"testing"

	"github.com/openGemini/openGemini/verifsim/core"
)

// task ids
const (
	cwTPrologue = 0
	cwTWriter1  = 1 // 1..3
	cwTReader1  = 4 // 4..5
	cwTFlusher  = 6
	cwTCompact  = 7
	cwTDropper  = 8
	cwTCloser   = 9
	cwNTasks    = 10
)

func cwTaskName(t int) string {
	switch {
	case t == cwTPrologue:
		return "pre"
	case t >= cwTWriter1 && t < cwTReader1:
		return fmt.Sprintf("w%d", t)
	case t >= cwTReader1 && t < cwTFlusher:
		return fmt.Sprintf("r%d", t-cwTReader1+1)
	case t == cwTFlusher:
		return "flusher"
	case t == cwTCompact:
		return "compactor"
	case t == cwTDropper:
		return "dropper"
	case t == cwTCloser:
		return "closer"
	}
	return fmt.Sprintf("t%d", t)
}

// COp is one client operation.  T==0: prologue (sequential, ungated, builds the
// layout); T>0: operation of concurrent task T (operations of one task run in list
// order, operations of different tasks overlap as the scheduler decides).
type COp struct {
	T     int    `json:"t"`
	K     string `json:"k"` // w | q | flush | compact | fullcompact | merge | dropm | close | reopen (prologue only)
	ID    int    `json:"id,omitempty"`
	Rows  []SRow `json:"rows,omitempty"`
	Level int    `json:"level,omitempty"`
	Force bool   `json:"force,omitempty"`
	M     int    `json:"m,omitempty"` // dropm, q
	A     int    `json:"a,omitempty"` // q: first time slot
	B     int    `json:"b,omitempty"` // q: last time slot
	Desc  bool   `json:"desc,omitempty"`
	Chunk int    `json:"chunk,omitempty"`
	Par   int    `json:"par,omitempty"`
	Burst bool   `json:"burst,omitempty"` // started in the same scheduler step as the other startable burst operations
}

type CCase struct {
	Prop      string   `json:"prop"`
	Knobs     SKnobs   `json:"knobs"`
	NMst      int      `json:"nmst"`
	NSeries   int      `json:"nseries"`
	Ops       []COp    `json:"ops"`
	SchedSeed uint64   `json:"sched_seed"`
	PCT       bool     `json:"pct"`
	PCTDepth  int      `json:"pct_depth"`
	ReadGate  string   `json:"read_gate"` // classes whose file reads park: seqload,query,compact,merge
	ReadNth   int      `json:"read_nth"`  // every n-th read of such a class parks
	MaxSteps  int      `json:"max_steps"`
	Sched     []string `json:"sched,omitempty"` // recorded schedule used as a priority order (guided replay)
	LazyFiles bool     `json:"lazy_files,omitempty"` // leave loading of file components after a reopen to the first reader (racy inside a step)
	NoGate    bool     `json:"no_gate,omitempty"`  // nothing parks: operations started together race natively (directed races inside one step)
	Repeat    int      `json:"repeat,omitempty"` // run the case up to n times, stop at the first violation (races inside one step)
	// lock-level yield points (absent in old replay files = off): task goroutines arriving at
	// an instrumented Lock/RLock/Unlock/RUnlock/Ref/Unref statement park, and the scheduler
	// decides who proceeds.  One arrival in LockNth parks (1 = every one; pure function of
	// SchedSeed, class, site and the arrival's ordinal), only at sites whose name contains one
	// of LockSites (empty = all) and only goroutines of the classes in LockCls (empty = all).
	LockNth   int      `json:"lock_nth,omitempty"`
	LockSites []string `json:"lock_sites,omitempty"`
	LockCls   string   `json:"lock_cls,omitempty"`
	// iteration order of the engine's maps that are ranged through verifyield.Sorted
	// (measurement -> files, measurement -> memtable, ...): 0 = ascending keys, else a
	// rotation/reversal of it (see verifyield.SetMapOrder)
	MapOrder uint64 `json:"map_order,omitempty"`
	// crash plan (property C01; absent in older replay files = no crash images): at every CrashEvery-th
	// scheduler step the journal of the live disk is cut, the image recovered and judged (c_crash.go);
	// CrashTorn: also the variant where one parked write lands as a prefix.  OnlyCrashStep/OnlyCrashVar pin
	// a minimised replay to the step (of the recorded schedule) and variant (0 plain, 1 torn) of its violation.
	CrashEvery    int  `json:"crash_every,omitempty"`
	CrashTorn     bool `json:"crash_torn,omitempty"`
	OnlyCrashStep int  `json:"only_crash_step,omitempty"`
	OnlyCrashVar  int  `json:"only_crash_var,omitempty"`
	OnlyCrashCut  int  `json:"only_crash_cut,omitempty"` // pinned torn variant: bytes of the parked write that landed
}

type worldC struct{}

func (worldC) Name() string { return "C" }
func (worldC) Components() ([]string, []string) {
	return []string{"engine shard (WriteRows, ForceFlush, DropMeasurement, Close, WAL, memtable, snapshot)",
			"engine/immutable (flush, TSSP files, reference counts, sequencer + asynchronous reload, level/full compaction, out-of-order merge, ReplaceFiles)",
			"read path: CreateCursor (cloneReaders, GetBothFilesRef), cursors, ChunkReader", "engine/index/tsi + mergeset (not gated)",
			"lib/fileops through simfs gates (mutations and reads of data/ and wal/)", "lock-level yield points (tools/yieldins: Lock/RLock/Unlock/RUnlock/Ref/Unref statements of the shard, memtable and immutable packages) under the seeded scheduler", "Go runtime scheduler between two yield points (real goroutines; GOMAXPROCS=1 without asynchronous preemption, 3 chaos workers at GOMAXPROCS=4)"},
		[]string{"meta service (not needed at shard level)", "SQL layer (statements parsed by the real parser; reader ops hand-written as in the repo's own tests)", "network",
			"timers: size/time triggered flush and the compaction worker are switched off; flush/compaction/merge are client operations"}
}

// ---- generation ------------------------------------------------------------------

func (w worldC) Gen(r *core.Rand, env *core.Env) CCase {
	var c CCase
	if env.Property == "C01" {
		// crash images at scheduler steps: own shapes, own draws (these cases did not exist before)
		c = w.genCrash(r, env)
		cwDrawLockKnobs(r, &c)
		if r.Intn(4) != 0 {
			// the crash states are determined by file-system calls and acknowledgements: lock-level
			// yield points (which use up the step bound) in a quarter of the cases only
			c.LockNth, c.LockSites, c.LockCls = 0, nil, ""
		}
		if r.Bool(0.5) {
			cwWalWarmN(r, &c, 4) // 8-10 (write, flush) pairs: the log file sequence has passed 9
		} else {
			cwWalWarmTo(r, &c, 4) // ... is about to pass 9 in the concurrent phase
		}
		cwDrawCrashPlan(r, &c)
		return c
	}
	if r.Intn(5) == 0 {
		c = w.genReload(r, env)
	} else {
		c = w.genMixed(r, env)
	}
	cwDrawLockKnobs(r, &c) // drawn last: the rest of the case is what the seed gave before these knobs existed
	cwWalWarm(r, &c)       // drawn after that, for the same reason
	return c
}

// cwWalWarm: in one case of eight the prologue ends with 8-10 extra (small write, flush) pairs, so that the shard's
// write-ahead-log file sequence has passed 9 when the concurrent phase starts: file names are <seq>.wal without
// padding, and a write racing with a flush leaves two log files (9.wal, 10.wal) that a restart has to replay in
// numeric order (seeded change C01-d ordered them as strings).
func cwWalWarm(r *core.Rand, c *CCase) { cwWalWarmN(r, c, 8) }

func cwWalWarmN(r *core.Rand, c *CCase, oneIn int) {
	if r.Intn(oneIn) != 0 {
		return
	}
	n := r.Range(8, 10)
	pos := 0
	for i, op := range c.Ops {
		if op.T != cwTPrologue {
			break
		}
		pos = i + 1
	}
	var warm []COp
	for i := 0; i < n; i++ {
		warm = append(warm, COp{T: cwTPrologue, K: "w", Rows: []SRow{{M: 0, S: 0, T: 0, F: 15}}}, COp{T: cwTPrologue, K: "flush"})
	}
	ops := append([]COp(nil), c.Ops[:pos]...)
	ops = append(ops, warm...)
	c.Ops = append(ops, c.Ops[pos:]...)
	id := 0
	for i := range c.Ops {
		if c.Ops[i].K == "w" {
			id++
			c.Ops[i].ID = id
		}
	}
}

// cwLockSiteGroups: swarm-style focus of the lock-level yield points on one part of the code.
var cwLockSiteGroups = [][]string{
	nil, nil, nil, // every instrumented site
	{"mms_tables.go", "ts_mms_tables.go"},
	{"engine/shard.go", "ts_storage.go", "iterators.go", "engine/mutable/"},
	{"tssp_reader.go", "tssp_file.go", ":Ref#", ":Unref#", ":UnRef#", "FileReader#"},
	{"mms_tables.go", "ts_mms_tables.go", "engine/shard.go", "ts_storage.go", "iterators.go"},
	{"sequencer.go", "mms_loader.go", "compact.go", "merge_"},
	{"engine/wal.go", "engine/shard.go", "engine/mutable/"},
}

var cwLockClsGroups = []string{"", "", "", "", "query", "query,flush", "query,compact,merge", "query,drop,close", "flush,compact,merge,drop,close",
	"w1,w2,w3,flush", "w1,w2,w3,query", "seqload,flush,merge", "flush", "compact,merge"}

func cwDrawLockKnobs(r *core.Rand, c *CCase) {
	c.LockNth = core.Pick(r, []int{0, 0, 0, 0, 0, 0, 0, 1, 1, 1, 2, 2, 2, 3, 3, 3, 5, 5, 8, 8})
	sites := core.Pick(r, cwLockSiteGroups)
	cls := core.Pick(r, cwLockClsGroups)
	if v := os.Getenv("VERIF_C_LOCKNTH"); v != "" {
		// experiment aid (e.g. VERIF_C_LOCKNTH=0: the search of before the yield points existed)
		c.LockNth, _ = strconv.Atoi(v)
	}
	if c.LockNth > 0 {
		c.LockSites, c.LockCls = append([]string(nil), sites...), cls
	}
	if mo := r.Uint64(); r.Bool(0.5) {
		c.MapOrder = mo % 1000
	}
}

// genReload: a swarm-style shape around the asynchronous sequencer reload — few
// series, a restart just before the concurrent phase, writers that keep writing new
// and late points, several flushes and forced merges, file reads of the reload gated.
func (worldC) genReload(r *core.Rand, env *core.Env) CCase {
	c := CCase{Prop: env.Property, Knobs: genKnobs(r), MaxSteps: 400}
	c.Knobs.MutableLimit = 30 << 20
	c.Knobs.Partitions = 1
	c.Knobs.MinGroupFiles = core.Pick(r, []int{2, 3})
	c.Knobs.ReplayParallel = false
	c.NMst, c.NSeries = r.Range(1, 2), r.Range(1, 2)
	c.SchedSeed = r.Uint64()
	c.PCT = r.Bool(0.5)
	c.PCTDepth = r.Range(1, 3)
	c.ReadGate = core.Pick(r, []string{"seqload", "seqload", "seqload,query"})
	c.ReadNth = 1
	c.LazyFiles = r.Bool(0.25)
	next := map[int]int{}
	pre := COp{T: cwTPrologue, K: "w"}
	for s := 0; s < c.NSeries; s++ {
		for j, n := 0, r.Range(1, 3); j < n; j++ {
			for m := 0; m < c.NMst; m++ {
				pre.Rows = append(pre.Rows, SRow{M: m, S: s, T: next[s], F: 15})
			}
			next[s] += 1 + r.Intn(2)
		}
	}
	c.Ops = append(c.Ops, pre, COp{T: cwTPrologue, K: "flush"})
	if r.Bool(0.4) {
		late := COp{T: cwTPrologue, K: "w", Rows: []SRow{{M: 0, S: 0, T: r.Intn(next[0]), F: 1 + r.Intn(15)}}}
		c.Ops = append(c.Ops, late, COp{T: cwTPrologue, K: "flush"})
	}
	c.Ops = append(c.Ops, COp{T: cwTPrologue, K: "reopen"})
	// round 1: the first write starts the reload; flushes (and sometimes a merge) race with it
	// round 2 (after another clean restart): writes incl. late points, merges, flushes, queries
	for round := 0; round < 2; round++ {
		var per [cwNTasks][]COp
		for s := 0; s < c.NSeries; s++ {
			t := cwTWriter1 + s
			for i, n := 0, r.Range(1, 3); i < n; i++ {
				op := COp{T: t, K: "w"}
				for j, m := 0, r.Range(1, 2); j < m; j++ {
					tt := next[s] + r.Intn(3)
					if (round > 0 || i > 0) && r.Bool(0.5) {
						tt = r.Intn(next[s] + 1) // late point / overwrite
					} else if tt >= next[s] {
						next[s] = tt + 1
					}
					if tt >= sNumTimes {
						tt = sNumTimes - 1
					}
					for m := 0; m < c.NMst; m++ {
						if m == 0 || r.Bool(0.7) {
							op.Rows = append(op.Rows, SRow{M: m, S: s, T: tt, F: core.Pick(r, []int{15, 15, 8, 4})})
						}
					}
				}
				per[t] = append(per[t], op)
			}
		}
		for rd := 0; rd < 2; rd++ {
			for i, n := 0, r.Range(1, 2+round); i < n; i++ {
				per[cwTReader1+rd] = append(per[cwTReader1+rd], COp{T: cwTReader1 + rd, K: "q", M: r.Intn(c.NMst), A: 0, B: sNumTimes - 1, Desc: r.Bool(0.3), Chunk: 1024, Par: 1})
			}
		}
		for i, n := 0, r.Range(1, 2); i < n; i++ {
			per[cwTFlusher] = append(per[cwTFlusher], COp{T: cwTFlusher, K: "flush"})
		}
		if round > 0 || r.Bool(0.3) {
			for i, n := 0, r.Range(1, 2); i < n; i++ {
				per[cwTCompact] = append(per[cwTCompact], COp{T: cwTCompact, K: "merge", Force: true})
			}
		}
		if round > 0 && r.Bool(0.2) {
			per[cwTCloser] = append(per[cwTCloser], COp{T: cwTCloser, K: "close"})
		}
		cwInterleave(r, &c, &per)
		if round == 0 {
			if r.Bool(0.7) {
				c.Ops = append(c.Ops, COp{T: cwTPrologue, K: "reopen"})
			} else {
				break
			}
		}
	}
	cwInterleave(r, &c, &[cwNTasks][]COp{})
	return c
}

func cwInterleave(r *core.Rand, c *CCase, per *[cwNTasks][]COp) {
	for {
		var live []int
		for t := range per {
			if len(per[t]) > 0 {
				live = append(live, t)
			}
		}
		if len(live) == 0 {
			break
		}
		t := core.Pick(r, live)
		c.Ops = append(c.Ops, per[t][0])
		per[t] = per[t][1:]
	}
	id := 0
	for i := range c.Ops {
		if c.Ops[i].K == "w" {
			id++
			c.Ops[i].ID = id
		}
	}
}

func (worldC) genMixed(r *core.Rand, env *core.Env) CCase {
	c := CCase{Prop: env.Property, Knobs: genKnobs(r), MaxSteps: 400}
	c.Knobs.MutableLimit = 30 << 20 // no timer-driven flush: flushes are scheduler actions
	c.Knobs.Partitions = core.Pick(r, []int{1, 1, 1, 1, 1, 1, 1, 2, 4})
	c.Knobs.MinGroupFiles = core.Pick(r, []int{2, 2, 3})
	c.Knobs.ReplayParallel = false
	c.NMst = r.Range(1, 2)
	c.NSeries = r.Range(2, 4)
	nW := r.Range(2, 3)
	drop := r.Bool(0.2)
	victim := -1
	if drop {
		victim = c.NMst
		c.NMst++
	}
	c.SchedSeed = r.Uint64()
	c.PCT = r.Bool(0.5)
	c.PCTDepth = r.Range(1, 3)
	c.ReadGate = core.Pick(r, []string{"", "seqload", "seqload", "seqload,query", "seqload,query", "seqload,query,compact,merge"})
	c.ReadNth = core.Pick(r, []int{1, 1, 2, 4})
	c.LazyFiles = r.Bool(0.25)

	next := map[[2]int]int{} // (m,s) -> next fresh slot
	fresh := func(m, s int) int {
		k := [2]int{m, s}
		t := next[k]
		if t >= sNumTimes {
			return r.Intn(sNumTimes)
		}
		next[k] = t + 1 + r.Intn(2)
		return t
	}
	mask := func() int {
		if r.Bool(0.5) {
			return 15
		}
		return 1 + r.Intn(15)
	}
	// --- prologue: every series gets a row; then a layout of ordered / unordered files
	first := COp{T: cwTPrologue, K: "w"}
	for m := 0; m < c.NMst; m++ {
		for s := 0; s < c.NSeries; s++ {
			n := r.Range(1, 3)
			for j := 0; j < n; j++ {
				first.Rows = append(first.Rows, SRow{M: m, S: s, T: fresh(m, s), F: mask()})
			}
		}
	}
	c.Ops = append(c.Ops, first)
	npre := r.Range(1, 7)
	for i := 0; i < npre; i++ {
		switch r.Weighted([]int{5, 4, 1, 2}) {
		case 0:
			op := COp{T: cwTPrologue, K: "w"}
			n := r.Range(1, 5)
			for j := 0; j < n; j++ {
				m, s := r.Intn(c.NMst), r.Intn(c.NSeries)
				t := fresh(m, s)
				if r.Bool(0.35) && next[[2]int{m, s}] > 0 {
					t = r.Intn(next[[2]int{m, s}]) // late data / overwrite
				}
				op.Rows = append(op.Rows, SRow{M: m, S: s, T: t, F: mask()})
			}
			c.Ops = append(c.Ops, op)
		case 1:
			c.Ops = append(c.Ops, COp{T: cwTPrologue, K: "flush"})
		case 2:
			c.Ops = append(c.Ops, COp{T: cwTPrologue, K: "compact", Level: r.Intn(2)})
		case 3:
			c.Ops = append(c.Ops, COp{T: cwTPrologue, K: "merge", Force: true})
		}
	}
	if r.Bool(0.6) {
		c.Ops = append(c.Ops, COp{T: cwTPrologue, K: "flush"}, COp{T: cwTPrologue, K: "reopen"})
	}
	// --- concurrent tasks
	var per [cwNTasks][]COp
	for w := 0; w < nW; w++ {
		t := cwTWriter1 + w
		var mine [][2]int
		for m := 0; m < c.NMst; m++ {
			if m == victim {
				continue
			}
			for s := 0; s < c.NSeries; s++ {
				if s%nW == w {
					mine = append(mine, [2]int{m, s})
				}
			}
		}
		if len(mine) == 0 {
			continue
		}
		nw := r.Range(2, 5)
		for i := 0; i < nw; i++ {
			op := COp{T: t, K: "w"}
			n := r.Range(1, 4)
			for j := 0; j < n; j++ {
				ms := core.Pick(r, mine)
				tt := fresh(ms[0], ms[1])
				if r.Bool(0.3) {
					tt = r.Intn(next[ms]) // overwrite of an own (or prologue) earlier cell / late data
				}
				op.Rows = append(op.Rows, SRow{M: ms[0], S: ms[1], T: tt, F: mask()})
			}
			per[t] = append(per[t], op)
		}
	}
	for rd := 0; rd < 2; rd++ {
		t := cwTReader1 + rd
		nq := r.Range(2, 4)
		for i := 0; i < nq; i++ {
			op := COp{T: t, K: "q", M: r.Intn(c.NMst), A: 0, B: sNumTimes - 1, Desc: r.Bool(0.3),
				Chunk: core.Pick(r, []int{1, 3, 1024}), Par: core.Pick(r, []int{1, 1, 4})}
			if r.Bool(0.2) {
				a, b := r.Intn(sNumTimes), r.Intn(sNumTimes)
				if a > b {
					a, b = b, a
				}
				op.A, op.B = a, b
			}
			per[t] = append(per[t], op)
		}
	}
	for i, n := 0, r.Range(1, 3); i < n; i++ {
		per[cwTFlusher] = append(per[cwTFlusher], COp{T: cwTFlusher, K: "flush"})
	}
	for i, n := 0, r.Range(1, 3); i < n; i++ {
		switch r.Weighted([]int{3, 1, 4}) {
		case 0:
			per[cwTCompact] = append(per[cwTCompact], COp{T: cwTCompact, K: "compact", Level: r.Intn(2)})
		case 1:
			per[cwTCompact] = append(per[cwTCompact], COp{T: cwTCompact, K: "fullcompact"})
		case 2:
			per[cwTCompact] = append(per[cwTCompact], COp{T: cwTCompact, K: "merge", Force: r.Bool(0.8)})
		}
	}
	if drop {
		per[cwTDropper] = append(per[cwTDropper], COp{T: cwTDropper, K: "dropm", M: victim})
	}
	if r.Bool(0.5) {
		per[cwTCloser] = append(per[cwTCloser], COp{T: cwTCloser, K: "close"})
	}
	// interleave the task lists into one list (order matters only inside a task)
	for {
		var live []int
		for t := range per {
			if len(per[t]) > 0 {
				live = append(live, t)
			}
		}
		if len(live) == 0 {
			break
		}
		t := core.Pick(r, live)
		c.Ops = append(c.Ops, per[t][0])
		per[t] = per[t][1:]
	}
	if !drop && r.Bool(0.3) {
		// a second round after a clean restart: more writes (incl. late points), a flush, a merge, queries
		c.Ops = append(c.Ops, COp{T: cwTPrologue, K: "reopen"})
		var per2 [cwNTasks][]COp
		for w := 0; w < nW; w++ {
			t := cwTWriter1 + w
			for i, n := 0, r.Range(1, 2); i < n; i++ {
				op := COp{T: t, K: "w"}
				for j, k := 0, r.Range(1, 3); j < k; j++ {
					m, s := r.Intn(c.NMst), w+nW*r.Intn(2)
					if s >= c.NSeries {
						s = w
					}
					if s >= c.NSeries {
						continue
					}
					tt := fresh(m, s)
					if r.Bool(0.4) {
						tt = r.Intn(next[[2]int{m, s}] + 1)
						if tt >= sNumTimes {
							tt = sNumTimes - 1
						}
					}
					op.Rows = append(op.Rows, SRow{M: m, S: s, T: tt, F: mask()})
				}
				if len(op.Rows) > 0 {
					per2[t] = append(per2[t], op)
				}
			}
		}
		for rd := 0; rd < 2; rd++ {
			for i, n := 0, r.Range(1, 2); i < n; i++ {
				per2[cwTReader1+rd] = append(per2[cwTReader1+rd], COp{T: cwTReader1 + rd, K: "q", M: r.Intn(c.NMst), A: 0, B: sNumTimes - 1, Desc: r.Bool(0.3), Chunk: core.Pick(r, []int{1, 1024}), Par: 1})
			}
		}
		per2[cwTFlusher] = append(per2[cwTFlusher], COp{T: cwTFlusher, K: "flush"})
		per2[cwTCompact] = append(per2[cwTCompact], COp{T: cwTCompact, K: "merge", Force: true})
		if r.Bool(0.5) {
			per2[cwTFlusher] = append(per2[cwTFlusher], COp{T: cwTFlusher, K: "flush"})
		}
		cwInterleave(r, &c, &per2)
	}
	if r.Bool(0.1) {
		// a burst: two operations of different tasks race inside one scheduler step
		var idx []int
		for i, op := range c.Ops {
			if op.T != cwTPrologue {
				idx = append(idx, i)
			}
		}
		if len(idx) >= 2 {
			a := core.Pick(r, idx)
			b := core.Pick(r, idx)
			if c.Ops[a].T != c.Ops[b].T {
				c.Ops[a].Burst, c.Ops[b].Burst = true, true
			}
		}
	}
	id := 0
	for i := range c.Ops {
		if c.Ops[i].K == "w" {
			id++
			c.Ops[i].ID = id
		}
	}
	return c
}

func (worldC) NumOps(c CCase) int { return len(c.Ops) }

func cwClone(c CCase) CCase {
	n := c
	n.Ops = make([]COp, len(c.Ops))
	for i, op := range c.Ops {
		op.Rows = append([]SRow(nil), op.Rows...)
		n.Ops[i] = op
	}
	n.Sched = append([]string(nil), c.Sched...)
	n.LockSites = append([]string(nil), c.LockSites...)
	return n
}

// cwTraces: schedule recorded by the last executions in this process, keyed by the
// digest of the case that was executed.  Subset/Simplify attach the recorded
// schedule of their parent to the candidates (guided replay): the trace then acts
// as a priority order over actions, which keeps a schedule-dependent failure alive
// while operations are being removed.  Exec stays a pure function of the case.
var (
	cwTraceMu sync.Mutex
	cwTraces  = map[string][]string{}
)

func cwCaseKey(c CCase) string {
	var parts []string
	parts = append(parts, fmt.Sprintf("%+v|%d|%d|%d|%v|%d|%s|%d|%d", c.Knobs, c.NMst, c.NSeries, c.SchedSeed, c.PCT, c.PCTDepth, c.ReadGate, c.ReadNth, c.MaxSteps) + fmt.Sprint(c.LazyFiles, c.Repeat, c.NoGate) + fmt.Sprint("|", c.LockNth, c.LockSites, c.LockCls, c.MapOrder)+cwCrashKey(c))
	for _, op := range c.Ops {
		parts = append(parts, cwOpDigest(op))
	}
	parts = append(parts, strings.Join(c.Sched, ";"))
	return core.DigestStrings(parts)
}

func cwOpDigest(op COp) string {
	var b strings.Builder
	fmt.Fprintf(&b, "%d %s %d %d %v %d %d %d %v %d %d %v:", op.T, op.K, op.ID, op.Level, op.Force, op.M, op.A, op.B, op.Desc, op.Chunk, op.Par, op.Burst)
	for _, r := range op.Rows {
		fmt.Fprintf(&b, "%d.%d.%d.%d,", r.M, r.S, r.T, r.F)
	}
	return b.String()
}

func cwGuide(parent CCase, n CCase) CCase {
	cwTraceMu.Lock()
	tr, ok := cwTraces[cwCaseKey(parent)]
	cwTraceMu.Unlock()
	if ok && len(tr) > 0 {
		n.Sched = append([]string(nil), tr...)
	}
	return n
}

func (worldC) Subset(c CCase, keep []int) CCase {
	n := c
	n.Ops = nil
	for _, i := range keep {
		op := c.Ops[i]
		op.Rows = append([]SRow(nil), op.Rows...)
		n.Ops = append(n.Ops, op)
	}
	n.Sched = append([]string(nil), c.Sched...)
	return cwGuide(c, n)
}

func (worldC) Simplify(c CCase) []CCase {
	var out []CCase
	add := func(n CCase) { out = append(out, cwGuide(c, n)) }
	for i, op := range c.Ops {
		if op.K == "w" && len(op.Rows) > 1 {
			n := cwClone(c)
			n.Ops[i].Rows = n.Ops[i].Rows[:len(op.Rows)/2]
			add(n)
			n2 := cwClone(c)
			n2.Ops[i].Rows = n2.Ops[i].Rows[len(op.Rows)/2:]
			add(n2)
		}
	}
	if c.ReadGate != "" {
		cls := strings.Split(c.ReadGate, ",")
		for i := range cls {
			n := cwClone(c)
			n.ReadGate = strings.Join(append(append([]string(nil), cls[:i]...), cls[i+1:]...), ",")
			add(n)
		}
	}
	if c.ReadNth > 1 {
		n := cwClone(c)
		n.ReadNth = 1
		add(n)
	}
	if c.PCT {
		n := cwClone(c)
		n.PCT = false
		add(n)
	}
	if c.MapOrder != 0 {
		n := cwClone(c)
		n.MapOrder = 0
		add(n)
	}
	if c.LockNth > 0 {
		// fewer lock-level yield points: none at all, then fewer classes / sites
		n := cwClone(c)
		n.LockNth, n.LockSites, n.LockCls = 0, nil, ""
		add(n)
		if c.LockCls != "" {
			cls := strings.Split(c.LockCls, ",")
			for i := range cls {
				if len(cls) > 1 {
					n := cwClone(c)
					n.LockCls = strings.Join(append(append([]string(nil), cls[:i]...), cls[i+1:]...), ",")
					add(n)
				}
			}
		}
		for i := range c.LockSites {
			if len(c.LockSites) > 1 {
				n := cwClone(c)
				n.LockSites = append(append([]string(nil), c.LockSites[:i]...), c.LockSites[i+1:]...)
				add(n)
			}
		}
	}
	if c.CrashTorn {
		n := cwClone(c)
		n.CrashTorn = false
		add(n)
	}
	if c.Knobs.Partitions > 1 {
		n := cwClone(c)
		n.Knobs.Partitions = 1
		add(n)
	}
	if c.Knobs.RowsPerSegment != 1000 {
		n := cwClone(c)
		n.Knobs.RowsPerSegment = 1000
		add(n)
	}
	if c.Knobs.SegmentLimit != 65535 {
		n := cwClone(c)
		n.Knobs.SegmentLimit = 65535
		add(n)
	}
	for i, op := range c.Ops {
		if op.K == "q" && (op.Chunk != 1024 || op.Par != 1 || op.Desc || op.A != 0 || op.B != sNumTimes-1) {
			n := cwClone(c)
			n.Ops[i].Chunk, n.Ops[i].Par, n.Ops[i].Desc, n.Ops[i].A, n.Ops[i].B = 1024, 1, false, 0, sNumTimes-1
			add(n)
		}
		if op.K == "w" {
			for j, row := range op.Rows {
				if row.F&(row.F-1) != 0 {
					n := cwClone(c)
					n.Ops[i].Rows[j].F = row.F & (row.F - 1)
					add(n)
					break
				}
			}
		}
		if op.Burst {
			n := cwClone(c)
			n.Ops[i].Burst = false
			add(n)
		}
	}
	// a guided schedule that is no longer needed: fall back to the seeded one
	if len(c.Sched) > 0 {
		n := cwClone(c)
		n.Sched = nil
		out = append(out, n)
	}
	return out
}

func (worldC) Neutralise(c CCase, name string) (CCase, bool) {
	switch name {
	case "no-reopen":
		// without a restart there is no asynchronous reload of the per-series flush times
		n := cwClone(c)
		n.Ops = nil
		found := false
		for _, op := range c.Ops {
			if op.K == "reopen" {
				found = true
				continue
			}
			n.Ops = append(n.Ops, op)
		}
		return n, found
	case "one-wal-partition":
		if c.Knobs.Partitions <= 1 {
			return c, false
		}
		n := cwClone(c)
		n.Knobs.Partitions = 1
		return n, true
	case "no-read-gate":
		if c.ReadGate == "" {
			return c, false
		}
		n := cwClone(c)
		n.ReadGate = ""
		return n, true
	}
	return c, false
}

func cwSortedSet(m map[string]bool) string {
	var ks []string
	for k := range m {
		ks = append(ks, k)
	}
	sort.Strings(ks)
	return strings.Join(ks, "+")
}

func TestVerifWorldC(t *testing.T) {
	core.RunWorker[CCase](worldC{})
}
