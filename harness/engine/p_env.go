package engine

// World P plumbing: process-wide setup, the meta-service facade over a real
// meta.Data, one store-node incarnation (EngineImpl + DBPTInfo + raft node on its
// own simulated disk), the StorageService adapter and the simulated network.

import (
	"fmt"
	"io"
	stdlog "log"
	"math/rand"
	"os"
	"path/filepath"
	"runtime"
	"sort"
	"sync"
	"time"
	_ "unsafe" // go:linkname (etcd-raft election jitter)

	"github.com/gogo/protobuf/proto"
	"github.com/openGemini/openGemini/engine/immutable"
	"github.com/openGemini/openGemini/lib/config"
	"github.com/openGemini/openGemini/lib/errno"
	"github.com/openGemini/openGemini/lib/logger"
	"github.com/openGemini/openGemini/lib/metaclient"
	"github.com/openGemini/openGemini/lib/raftconn"
	"github.com/openGemini/openGemini/lib/raftlog"
	"github.com/openGemini/openGemini/lib/util/lifted/hashicorp/serf/serf"
	"github.com/openGemini/openGemini/lib/util/lifted/influx/meta"
	proto2 "github.com/openGemini/openGemini/lib/util/lifted/influx/meta/proto"
	"github.com/openGemini/openGemini/lib/util/lifted/vm/protoparser/influx"
	"github.com/openGemini/openGemini/verifsim/core"
	"github.com/openGemini/openGemini/verifsim/simfs"
	"go.etcd.io/etcd/raft/v3"
	"go.etcd.io/etcd/raft/v3/raftpb"
	"go.uber.org/zap"
)

const (
	pwRP     = "rp0"
	pwNNodes = 3
)

// pwDB is the database name of the current execution.  The code under test keeps
// process-global pools keyed by database name whose channels would belong to the
// bubble of the execution that created them (mutable.MemTablePoolManager), so every
// execution in a worker process uses a name of its own.
var pwDB = "db0"
var pwDBSeq int

func pwNextDB() {
	pwDBSeq++
	pwDB = fmt.Sprintf("pdb%d", pwDBSeq)
}

// ---- etcd-raft election jitter ----------------------------------------------------
//
// etcd-raft draws its randomized election timeout from a package-global source
// seeded from the wall clock.  The variable is re-pointed at a source seeded from
// the case (same memory layout as raft.lockedRand), so that which node campaigns
// first is a function of the case as far as the order of the draws is.

type pwLockedRand struct {
	mu   sync.Mutex
	rand *rand.Rand
}

//go:linkname pwRaftGlobalRand go.etcd.io/etcd/raft/v3.globalRand
var pwRaftGlobalRand *pwLockedRand

func pwSeedRaft(seed uint64) {
	pwRaftGlobalRand.mu.Lock()
	pwRaftGlobalRand.rand = rand.New(rand.NewSource(int64(seed)))
	pwRaftGlobalRand.mu.Unlock()
}

// pwFreshGlobals re-creates, inside the bubble of the current execution, the
// process-global objects of the engine that hold channels or wait groups (a
// synctest bubble may not share those with another bubble).
func pwFreshGlobals() {
	compWorker = &Compactor{
		sources:                  make(map[uint64]*shard, 32),
		outOfOrderMergeNumberMin: 2,
		outOfOrderMergeSizeMin:   1 * 1024 * 1024,
		plans:                    make(map[uint64][immutable.CompactLevels]map[string][][]uint64, 8),
	}
}

var pwSetupOnce sync.Once

func pwSetup() {
	sSetup()
	pwSetupOnce.Do(func() {
		if err := config.SetHaPolicy(config.RepPolicy); err != nil {
			panic(core.InfraPanic("SetHaPolicy: " + err.Error()))
		}
		// the store's raft logger is only initialised by ts-store's main; etcd falls back to
		// its default logger (stderr).  Keep the worker log small.
		raft.SetLogger(&raft.DefaultLogger{Logger: stdlog.New(io.Discard, "", 0)})
		// per-partition load reports to the meta service (1 s ticker) are not part of the property
		reportLoadFrequency = 5000 * time.Hour
		// the process-wide zap logger writes through lumberjack (a lazily started goroutine and
		// channel that would belong to the first bubble); world P logs to nowhere, or to
		// stderr with VERIF_PLOG=1
		// (first lines through the original logger start lumberjack's goroutine outside any bubble,
		// for the packages that captured the original logger at init)
		logger.GetLogger().Info("verif world P: worker start")
		logger.GetLogger().Error("verif world P: worker start")
		if os.Getenv("VERIF_PLOG") != "" {
			lg, _ := zap.NewDevelopment()
			logger.SetLogger(lg)
		} else {
			logger.SetLogger(zap.NewNop())
		}
		if meta.DataLogger == nil {
			meta.DataLogger = zap.NewNop()
		}
	})
}

// ---- meta service facade ------------------------------------------------------------

// pwMeta plays the meta service (catalogue + cluster manager) on one real meta.Data
// shared by the three stores' real metaclient.Client caches.  Every change is made
// by the Data methods the meta FSM / cluster manager call, at quiescent points only.
type pwMeta struct {
	data  *meta.Data
	ltime uint64
	ids   [pwNNodes]uint64
	split bool // shard groups of one hour; the universe has time slots in two consecutive hours
}

func pwNodeAddr(i int) (string, string) {
	return fmt.Sprintf("127.0.0.%d:8400", i+1), fmt.Sprintf("127.0.0.%d:8401", i+1)
}

func pwNewMeta(nmst int, split bool) *pwMeta {
	m := &pwMeta{data: &meta.Data{PtNumPerNode: 1, TakeOverEnabled: true}, ltime: 1, split: split}
	d := m.data
	must := func(what string, err error) {
		if err != nil {
			panic(core.InfraPanic("meta bootstrap " + what + ": " + err.Error()))
		}
	}
	for i := 0; i < pwNNodes; i++ {
		h, t := pwNodeAddr(i)
		id, err := d.CreateDataNode(h, t, "", "")
		must("CreateDataNode", err)
		m.ids[i] = id
		must("UpdateNodeStatus", d.UpdateNodeStatus(id, int32(serf.StatusAlive), m.ltime, "8011"))
	}
	// handlers_process.go:createDatabase proposes CreateDbPtView (pt view + replica groups), then CreateDatabase
	_, err := d.CreateDBPtView(pwDB)
	must("CreateDBPtView", err)
	must("CreateDBReplication", d.CreateDBReplication(pwDB, pwNNodes))
	rpi := meta.NewRetentionPolicyInfo(pwRP)
	rpi.ShardGroupDuration = 7 * 24 * time.Hour
	if split {
		rpi.ShardGroupDuration = pwSGSpan
	}
	rpi.IndexGroupDuration = 7 * 24 * time.Hour
	must("CreateDatabase", d.CreateDatabase(pwDB, rpi, nil, false, pwNNodes, nil))
	for k := 0; k < nmst; k++ {
		must("CreateMeasurement", d.CreateMeasurement(pwDB, pwRP, fmt.Sprintf("mst%d", k), &proto2.ShardKeyInfo{Type: proto.String(meta.HASH)}, 0, nil, config.TSSTORE, nil, nil, nil))
	}
	must("CreateShardGroup", d.CreateShardGroup(pwDB, pwRP, time.Unix(0, sBaseTime), 0, config.TSSTORE, 0))
	rp, err := d.RetentionPolicy(pwDB, pwRP)
	must("RetentionPolicy", err)
	if len(rp.ShardGroups) != 1 || len(rp.ShardGroups[0].Shards) != pwNNodes {
		panic(core.InfraPanic(fmt.Sprintf("meta bootstrap: unexpected shard groups %+v", rp.ShardGroups)))
	}
	return m
}

const pwSGSpan = time.Hour // the shortest shard group duration the catalogue accepts

// sgIndex is the shard group a time slot of the universe falls into.
func (m *pwMeta) sgIndex(t int) int {
	if m.split {
		return t / int(pwSGSpan/time.Second)
	}
	return 0
}

func (m *pwMeta) sgStart(idx int) time.Time {
	return time.Unix(0, sBaseTime).Add(time.Duration(idx) * pwSGSpan)
}

// sgOf returns the shard group with index idx in d (nil if d does not know it).
func pwSgOf(d *meta.Data, m *pwMeta, idx int) *meta.ShardGroupInfo {
	rp, err := d.RetentionPolicy(pwDB, pwRP)
	if err != nil {
		return nil
	}
	ts := m.sgStart(idx)
	for i := range rp.ShardGroups {
		if rp.ShardGroups[i].Contains(ts) && !rp.ShardGroups[i].Deleted() {
			return &rp.ShardGroups[i]
		}
	}
	return nil
}

// createSG is the coordinator's CreateShardGroup call for a write into a time range
// that has no shard group yet.
func (m *pwMeta) createSG(idx int) error {
	return m.data.CreateShardGroup(pwDB, pwRP, m.sgStart(idx), 0, config.TSSTORE, 0)
}

func (m *pwMeta) nodeIndex(id uint64) int {
	for i, x := range m.ids {
		if x == id {
			return i
		}
	}
	return -1
}

// ptOf returns the partition owned by node i (one pt per node).
func (m *pwMeta) ptOf(i int) uint32 {
	for _, pi := range m.data.PtView[pwDB] {
		if pi.Owner.NodeID == m.ids[i] {
			return pi.PtId
		}
	}
	panic(core.InfraPanic("node owns no partition"))
}

func (m *pwMeta) nodeOfPt(pt uint32) int {
	return m.nodeIndex(m.data.PtView[pwDB][pt].Owner.NodeID)
}

func (m *pwMeta) rg() *meta.ReplicaGroup { return &m.data.ReplicaGroups[pwDB][0] }

func (m *pwMeta) masterPt() uint32 { return m.rg().MasterPtID }

// nodeFailed is what the cluster manager does on a member-failed event:
// UpdateNodeStatus (pts of the node go offline) and, if the node owned the master
// partition, election of a new master among the online slaves (cluster_manager.go:
// electRgMaster + UpdateReplication).
func (m *pwMeta) nodeFailed(i int) (newMaster int) {
	m.ltime++
	if err := m.data.UpdateNodeStatus(m.ids[i], int32(serf.StatusFailed), m.ltime, "8011"); err != nil {
		panic(core.InfraPanic("UpdateNodeStatus(failed): " + err.Error()))
	}
	pt := m.ptOf(i)
	rg := m.rg()
	newMaster = -1
	if rg.MasterPtID != pt {
		return
	}
	ptInfo := m.data.PtView[pwDB]
	// electRgMaster: first slave peer whose pt is online
	peers := make([]*proto2.Peer, len(rg.Peers))
	elected := false
	var master uint32
	for k := range rg.Peers {
		id, role := rg.Peers[k].ID, rg.Peers[k].PtRole
		if role == meta.Slave && ptInfo[id].Status == meta.Online && !elected {
			master = id
			elected = true
			id, role = rg.MasterPtID, meta.Slave
		}
		peers[k] = &proto2.Peer{ID: proto.Uint32(id), Role: proto.Uint32(uint32(role))}
	}
	if !elected {
		return
	}
	if _, err := m.data.UpdateReplication(pwDB, rg.ID, master, peers); err != nil {
		panic(core.InfraPanic("UpdateReplication: " + err.Error()))
	}
	return int(master)
}

// nodeJoined: the store registers again (CreateDataNode re-uses the id and bumps
// the connection id) and is reported alive; the pts it owns are still offline and
// are handed back by assign events (see pwCluster.startNode).
func (m *pwMeta) nodeJoined(i int) {
	h, t := pwNodeAddr(i)
	if dn := m.data.DataNodeByHttpHost(h); dn != nil {
		m.data.MaxConnID++
		dn.ConnID = m.data.MaxConnID
	} else if _, err := m.data.CreateDataNode(h, t, "", ""); err != nil {
		panic(core.InfraPanic("CreateDataNode: " + err.Error()))
	}
	m.ltime++
	if err := m.data.UpdateNodeStatus(m.ids[i], int32(serf.StatusAlive), m.ltime, "8011"); err != nil {
		panic(core.InfraPanic("UpdateNodeStatus(alive): " + err.Error()))
	}
}

func (m *pwMeta) ptOnline(pi *meta.PtInfo) {
	info := &proto2.PtInfo{
		Owner:  &proto2.PtOwner{NodeID: proto.Uint64(pi.Owner.NodeID)},
		Status: proto.Uint32(uint32(pi.Status)),
		PtId:   proto.Uint32(pi.PtId),
		Ver:    proto.Uint64(pi.Ver),
		RGID:   proto.Uint32(pi.RGID),
	}
	if err := m.data.UpdatePtInfo(pwDB, info, pi.Owner.NodeID, uint32(meta.Online)); err != nil {
		panic(core.InfraPanic("UpdatePtInfo(online): " + err.Error()))
	}
}

// ---- one store node -------------------------------------------------------------------

// pwInc is one incarnation (process life) of a store node.
type pwInc struct {
	idx   int // node index 0..2
	inc   int // incarnation number of this node
	gen   int // cluster-wide incarnation counter (logic clock)
	root  string
	disk  *simfs.Disk
	init  string // copy of the directory the incarnation started from
	eng   *EngineImpl
	mc    *metaclient.Client
	lctx  *metaclient.LoadCtx
	pt    uint32
	rn    *raftconn.RaftNode
	dead  chan struct{} // closed at the crash instant
	alive bool
	// highest journal length at which the node did something another party HAS
	// observed: a message of it was delivered (the journal length at its send instant
	// counts), a client was answered, or the harness learned a committed entry from its
	// durable state.  A SIGKILL at an earlier local instant t keeps every file-system
	// mutation before t and loses everything after it, sends included; that is only
	// legal while nothing done after t has been observed, so a crash image may cut the
	// journal anywhere at or after visible (messages sent after the cut are still in
	// the link queues then, and are purged with the connections of the dead process).
	visible int
	visKind string // what the observation at visible was: send | answer | commit_read
	visMsg  string // send: type of the delivered message (MsgVoteResp only if the vote was granted, else "MsgVoteResp(reject)")
	sentMax int    // journal length at the last send, delivered or not (the rule before: cut >= sentMax)
	mu      sync.Mutex
	applied map[int]error // write id -> result of the local apply (StorageService.Write)
	applyN  int
	applySeq []int // write keys (id*4 + shard group) in the order of their local applies
	applyPos []int // length of the disk journal when the apply ended (parallel to applySeq)
	lastSnap int   // crashed life: journal position of the last raft snapshot (index > 0) inside the crash image, -1: none
	ay       pwApplyState // apply-path yield points (p_yield.go; guarded by pwApplyYield.mu)
	stopLd  chan struct{}
	checked uint64 // commit index up to which the committed prefix was compared
	frozen  int    // journal length at the crash instant
	unreach bool   // paused: no client reaches it
	pausedCh chan struct{}
	st      StorageService
}

// pwStorage is the StorageService the apply path writes through (ts-store's
// storage.Storage.Write / WriteDataFunc, minus statistics).
type pwStorage struct {
	c *pwCluster
	n *pwInc
}

func (s *pwStorage) GetNodeId() uint64 { return s.c.meta.ids[s.n.idx] }

func (s *pwStorage) WriteDataFunc(db, rp string, ptId uint32, shardID uint64, rows []influx.Row, binaryRows []byte, snp *raftlog.SnapShotter) error {
	return s.n.eng.WriteRows(db, rp, ptId, shardID, rows, binaryRows, snp)
}

func (s *pwStorage) Write(db, rp, mst string, ptId uint32, shardID uint64, writeData func() error) error {
	err := s.write(db, rp, mst, ptId, shardID, writeData)
	return err
}

func (s *pwStorage) write(db, rp, mst string, ptId uint32, shardID uint64, writeData func() error) error {
	err := writeData()
	err2, ok := err.(*errno.Error)
	if !ok || !errno.Equal(err2, errno.ShardNotFound) {
		return err
	}
	// storage.go: GetShardRangeInfo + RetryMeasurement are answered by the meta service
	rpi, rerr := s.c.meta.data.RetentionPolicy(db, rp)
	if rerr != nil {
		return rerr
	}
	tri := rpi.TimeRangeInfo(shardID)
	if tri == nil {
		return errno.NewError(errno.ShardMetaNotFound, shardID)
	}
	mstInfo, merr := s.n.mc.Measurement(db, rp, influx.GetOriginMstName(mst))
	if merr != nil {
		return merr
	}
	if err = s.n.eng.CreateShard(db, rp, ptId, shardID, tri, mstInfo); err != nil {
		return err
	}
	return writeData()
}

// pwApplyHook wraps WriteDataFunc to record which client write a local apply
// belonged to and how it ended (oracle 4).  The write id is recovered from the
// attributable value of the first row (every batch starts with an "fi" field).
func pwWriteIDOfRows(rows []influx.Row) int {
	for i := range rows {
		for _, f := range rows[i].Fields {
			if f.Key == "fi" && f.Type == influx.Field_Type_Int {
				return int(int64(f.NumValue) / 1000000)
			}
		}
	}
	return -1
}

type pwStorageRec struct{ pwStorage }

func (s *pwStorageRec) WriteDataFunc(db, rp string, ptId uint32, shardID uint64, rows []influx.Row, binaryRows []byte, snp *raftlog.SnapShotter) error {
	w := pwWriteIDOfRows(rows)
	if w >= 0 && len(rows) > 0 {
		w = w*4 + s.c.meta.sgIndex(int((rows[0].Timestamp-sBaseTime)/sStep))
	}
	err := s.pwStorage.WriteDataFunc(db, rp, ptId, shardID, rows, binaryRows, snp)
	pos := s.n.disk.Len() // taken when the rows are in the memtable: the apply loop may have stood at a yield point before
	s.n.mu.Lock()
	if old, seen := s.n.applied[w]; !seen || old != nil {
		s.n.applied[w] = err
	}
	s.n.applyN++
	s.n.applySeq = append(s.n.applySeq, w)
	s.n.applyPos = append(s.n.applyPos, pos)
	s.n.mu.Unlock()
	return err
}

func (s *pwStorageRec) Write(db, rp, mst string, ptId uint32, shardID uint64, writeData func() error) error {
	if s.c.ay != nil {
		s.c.ay.entryStart(s.n) // one entry of a commit batch (or of the restart replay) reaches the storage seam
	}
	return s.pwStorage.write(db, rp, mst, ptId, shardID, writeData)
}

// ---- simulated network -----------------------------------------------------------------

type pwMsg struct {
	from, to int
	fromGen  int
	data     []byte
	typ      raftpb.MessageType
	seq      int
	src      *pwInc // sending incarnation
	jpos     int    // length of the sender's disk journal at the send instant
	nent     int    // entries carried
	term     uint64
	reject   bool
}

// pwNet holds the raft messages in flight: one FIFO per directed link.  The
// scheduler decides which is delivered, dropped or duplicated next.
type pwNet struct {
	mu      sync.Mutex
	q       [pwNNodes][pwNNodes][]*pwMsg
	blocked [pwNNodes][pwNNodes]bool
	held    [pwNNodes][pwNNodes]time.Time // slow link: queued messages are not delivered before this instant
	seq     int
	sent    int64
	byType  map[string]int64
}

type pwSender struct {
	c *pwCluster
	n *pwInc
}

func (s *pwSender) SendRaftMessages(nodeID uint64, database string, pt uint32, msg raftpb.Message) error {
	c := s.c
	to := c.meta.nodeIndex(nodeID)
	if to < 0 {
		return nil
	}
	b, err := msg.Marshal()
	if err != nil {
		return err
	}
	c.net.mu.Lock()
	defer c.net.mu.Unlock()
	if !s.n.alive {
		return nil // a dead process sends nothing
	}
	jpos := s.n.disk.Len()
	if jpos > s.n.sentMax {
		s.n.sentMax = jpos
	}
	c.net.seq++
	c.net.sent++
	c.net.byType[msg.Type.String()]++
	c.net.q[s.n.idx][to] = append(c.net.q[s.n.idx][to], &pwMsg{from: s.n.idx, to: to, fromGen: s.n.gen, data: b, typ: msg.Type, seq: c.net.seq,
		src: s.n, jpos: jpos, nent: len(msg.Entries), term: msg.Term, reject: msg.Reject})
	return nil
}

// observe records that something the incarnation did while its journal was jpos
// entries long has been seen by another party (caller holds net.mu).
func (n *pwInc) observe(jpos int, kind string) {
	if jpos > n.visible {
		n.visible, n.visKind, n.visMsg = jpos, kind, ""
	}
}

// ---- cluster ----------------------------------------------------------------------------

type pwCluster struct {
	env    *core.Env
	out    *core.Outcome
	fs     *simfs.FS
	knobs  SKnobs
	meta   *pwMeta
	net    *pwNet
	nodes  [pwNNodes]*pwInc // current incarnation (alive or not)
	incs   []*pwInc         // every incarnation ever started
	gen    int
	syncIv time.Duration
	zombie sync.WaitGroup
	coord  *metaclient.Client // the coordinator's catalogue view (always current)
	lag    bool               // stores refresh their catalogue cache only when the clock moves
	yield  bool               // every file-system mutation of a node first lets the node's other goroutines run
	ay     *pwApplyYield      // scheduling points inside the apply path (nil: off)
}

func pwNewCluster(env *core.Env, out *core.Outcome, knobs SKnobs, nmst int, syncIv time.Duration, split bool) *pwCluster {
	pwSetup()
	applyKnobs(knobs)
	c := &pwCluster{env: env, out: out, fs: simfs.Install(), knobs: knobs, syncIv: syncIv}
	c.meta = pwNewMeta(nmst, split)
	c.net = &pwNet{byType: map[string]int64{}}
	c.coord = metaclient.NewClient("", false, 20)
	c.coord.SetCacheData(c.meta.data)
	return c
}

// startNode starts an incarnation of node i on dir (an empty directory or a crash
// image) the way ts-store does: engine, registration with the meta service, then
// the assign events for the partitions the meta service has for this node.
func (c *pwCluster) startNode(i int, dir string) (*pwInc, error) {
	// every incarnation of node i starts at its own phase of the 400 ms raft tick, so that
	// the tickers of two nodes never fire at the same virtual instant (the order in which
	// they would run is not controlled)
	phase := time.Duration(i*37+13) * time.Millisecond
	now := time.Duration(time.Now().UnixNano()) % (400 * time.Millisecond)
	time.Sleep((phase - now + 400*time.Millisecond) % (400 * time.Millisecond))
	c.gen++
	n := &pwInc{idx: i, gen: c.gen, root: dir, dead: make(chan struct{}), pausedCh: make(chan struct{}), applied: map[int]error{}, stopLd: make(chan struct{}), lastSnap: -1}
	if old := c.nodes[i]; old != nil {
		n.inc = old.inc + 1
	}
	if err := os.MkdirAll(dir, 0o755); err != nil {
		panic(core.InfraPanic(err.Error()))
	}
	if err := simfs.RelocateTxn(dir, c.env.Scratch, dir); err != nil {
		panic(core.InfraPanic("relocate: " + err.Error()))
	}
	n.init = dir + ".init"
	if err := simfs.CopyTree(dir, n.init); err != nil {
		panic(core.InfraPanic("copy tree: " + err.Error()))
	}
	n.disk = c.fs.NewDisk(dir)
	if c.yield {
		// The Ready loop hands its messages to a sender goroutine through a buffered channel and
		// goes on to its disk writes; on one P the sender would only ever run after those writes,
		// so "message left, then the disk write" - the order two cores produce at once - would
		// never be seen.  Yielding before every file-system mutation lets the sender (and every
		// other runnable goroutine of the process) go first: a legal schedule of the same code.
		n.disk.SetGate(func(d *simfs.Disk, e *simfs.Entry) { runtime.Gosched() })
	}
	opts := sEngineOptions(c.knobs)
	opts.RaftEntrySyncInterval = c.syncIv
	opts.OpenShardLimit = 4 // config.Store corrects 0 to the cpu count
	n.lctx = &metaclient.LoadCtx{LoadCh: make(chan *metaclient.DBPTCtx, 64)}
	go func() { // storage.ReportLoad: the consumer of the partitions' load reports
		for {
			select {
			case rc := <-n.lctx.LoadCh:
				n.lctx.PutReportCtx(rc)
			case <-n.stopLd:
				return
			}
		}
	}()
	eng, err := NewEngine(dir, dir, opts, n.lctx)
	if err != nil {
		return n, err
	}
	n.eng = eng.(*EngineImpl)
	n.mc = metaclient.NewClient("", false, 20)
	n.mc.SetCacheData(c.snapshotMeta())
	// the meta service hands out the logic clock at registration (CreateDataNode): one
	// value per process life, strictly increasing
	metaclient.LogicClock = uint64(c.gen)
	if err := n.eng.Open(map[uint64]*meta.ShardDurationInfo{}, map[string]*meta.DatabaseBriefInfo{}, n.mc); err != nil {
		return n, fmt.Errorf("engine open: %w", err)
	}
	c.nodes[i] = n
	c.incs = append(c.incs, n)
	n.alive = true
	c.meta.nodeJoined(i)
	st := &pwStorageRec{pwStorage{c: c, n: n}}
	n.st = st
	pts := c.meta.data.GetFailedPtInfos(c.meta.ids[i], meta.Offline)
	sort.Slice(pts, func(a, b int) bool { return pts[a].Pti.PtId < pts[b].Pti.PtId })
	for _, p := range pts {
		n.pt = p.Pti.PtId
		if err := n.eng.Assign(uint64(c.gen), c.meta.ids[i], p.Db, p.Pti.PtId, p.Pti.Ver, p.Shards, p.DBBriefInfo, n.mc, st); err != nil {
			return n, fmt.Errorf("assign pt %d: %w", p.Pti.PtId, err)
		}
		dbpt := n.eng.DBPartitions[p.Db][p.Pti.PtId]
		rn, ok := dbpt.node.(*raftconn.RaftNode)
		if !ok || rn == nil {
			return n, fmt.Errorf("assign pt %d: no raft node was started", p.Pti.PtId)
		}
		// the transport seam: nothing has been sent yet (no tick has fired, the clock stands still)
		rn.ISend = &pwSender{c: c, n: n}
		n.rn = rn
		c.meta.ptOnline(p.Pti)
	}
	n.mc.SetCacheData(c.snapshotMeta())
	return n, nil
}

// shards returns the node's open shards of the partition, in shard group order.
func (n *pwInc) shards(c *pwCluster) []*shard {
	if n == nil || n.eng == nil {
		return nil
	}
	n.eng.mu.RLock()
	defer n.eng.mu.RUnlock()
	dbpt := n.eng.DBPartitions[pwDB][n.pt]
	if dbpt == nil {
		return nil
	}
	dbpt.mu.RLock()
	defer dbpt.mu.RUnlock()
	var out []*shard
	for idx := 0; idx < 2; idx++ {
		sg := pwSgOf(c.meta.data, c.meta, idx)
		if sg == nil || int(n.pt) >= len(sg.Shards) {
			continue
		}
		if s, ok := dbpt.shards[sg.Shards[n.pt].ID].(*shard); ok && s != nil {
			out = append(out, s)
		}
		if !c.meta.split {
			break
		}
	}
	return out
}

// kill marks the crash instant of the node's current incarnation: from now on
// nothing it does is visible to anybody (sends are ignored, deliveries dropped,
// client calls answered with a connection error).  The process image is taken from
// the disk journal by the caller; the abandoned incarnation is then shut down in
// the background on its own directory, which nobody reads again.
func (c *pwCluster) kill(n *pwInc) (journal []*simfs.Entry) {
	c.net.mu.Lock()
	n.alive = false
	for k := 0; k < pwNNodes; k++ {
		c.net.q[n.idx][k] = nil // connections of the dead process are gone
		c.net.q[k][n.idx] = nil
	}
	c.net.mu.Unlock()
	close(n.dead)
	journal = n.disk.Journal()
	return journal
}

// reap shuts an abandoned incarnation down (all its goroutines end).
func (c *pwCluster) reap(n *pwInc) {
	c.zombie.Add(1)
	go func() {
		defer c.zombie.Done()
		defer func() {
			if r := recover(); r != nil {
				c.out.Stats["zombie_close_panics"]++
			}
		}()
		if n.rn != nil {
			n.rn.Stop()
		}
		if n.eng != nil {
			_ = n.eng.Close()
		}
		if n.rn != nil && n.rn.Store != nil {
			_ = n.rn.Store.Close()
		}
		close(n.stopLd)
	}()
}

func pwImagePath(scratch string, i, inc int) string {
	return filepath.Join(scratch, fmt.Sprintf("n%di%d", i, inc))
}
