package engine

// World D read side: the statement -> cursor -> ChunkReader (-> StreamAggregateTransform)
// assembly of world S (s_read.go runQuery), generalised to any database / policy /
// versioned measurement name and to statements without GROUP BY.

import (
	"context"
	"fmt"
	"os"
	"strings"
	"time"

	"github.com/openGemini/openGemini/engine/executor"
	"github.com/openGemini/openGemini/engine/hybridqp"
	"github.com/openGemini/openGemini/lib/util/lifted/influx/influxql"
	"github.com/openGemini/openGemini/lib/util/lifted/influx/query"
	"github.com/openGemini/openGemini/verifsim/core"
)

type dQuery struct {
	DB, RP    string
	Name      string   // measurement name with version (what the SQL node resolves FROM to)
	Fields    []string // plain fields (no calls)
	Call      string   // aggregate function ("" = plain select)
	CallField string
	TMin      int64
	TMax      int64
	Desc      bool
	GroupTags []string // nil = group by all tag keys; empty = no GROUP BY
	Interval  int64    // ns, 0 = none
	Where     string   // field/tag condition text (without time)
	Exact     bool     // hint: exact statistics
	ChunkSize int
	Parallel  int
}

func (q *dQuery) dims() []string {
	if q.GroupTags == nil {
		return sTagKeys
	}
	return q.GroupTags
}

func (q *dQuery) text() string {
	var sel []string
	if q.Call != "" {
		sel = append(sel, fmt.Sprintf("%s(%s)", q.Call, q.CallField))
	} else {
		sel = append(sel, q.Fields...)
	}
	hint := ""
	if q.Exact {
		hint = "/*+ Exact_Statistic_Query */ "
	}
	s := fmt.Sprintf("SELECT %s%s FROM %s", hint, strings.Join(sel, ", "), q.Name)
	if q.Where != "" {
		s += " WHERE " + q.Where
	}
	var dims []string
	if q.Interval > 0 {
		dims = append(dims, fmt.Sprintf("time(%dns)", q.Interval))
	}
	dims = append(dims, q.dims()...)
	if len(dims) > 0 {
		s += " GROUP BY " + strings.Join(dims, ", ")
	}
	if q.Desc {
		s += " ORDER BY time DESC"
	}
	return s
}

// dFieldMapper: the repository's test field mapper, completed for tag references in
// conditions (the catalogue tells the SQL node that host and region are tags).
type dFieldMapper struct {
	mockShardGroup
}

func (sg *dFieldMapper) MapTypeBatch(measurement *influxql.Measurement, field map[string]*influxql.FieldNameSpace, schema *influxql.Schema) error {
	for k := range field {
		field[k].DataType = sg.mockShardGroup.MapType(measurement, k)
	}
	return nil
}

// dRunQuery executes q against one shard and returns the rows of all chunks in the
// order produced.
func dRunQuery(sh *shard, q *dQuery) (rows []sChunkRow, err error) {
	stmtText := q.text()
	var colOf map[string]int
	defer func() {
		if r := recover(); r != nil {
			// a panic inside the read path is the engine's, report it as such
			panic(fmt.Sprintf("query %q panicked: %v", stmtText, r))
		}
	}()
	shardGroup := &dFieldMapper{mockShardGroup{sh: sh, Fields: sFieldTypes, Dimensions: sTagKeys}}
	stmt := MustParseSelectStatement(stmtText)
	stmt, err = stmt.RewriteFields(shardGroup, true, false)
	if err != nil {
		return nil, fmt.Errorf("rewrite %q: %w", stmtText, err)
	}
	stmt.OmitTime = true
	cs := q.ChunkSize
	if cs <= 0 {
		cs = 1024
	}
	sopt := query.SelectOptions{ChunkSize: cs}
	RemoveTimeCondition(stmt)
	opt, err := query.NewProcessorOptionsStmt(stmt, sopt)
	if err != nil {
		return nil, fmt.Errorf("options %q: %w", stmtText, err)
	}
	source := influxql.Sources{&influxql.Measurement{Database: q.DB, RetentionPolicy: q.RP, Name: q.Name}}
	opt.Name = q.Name
	opt.Sources = source
	opt.StartTime = q.TMin
	opt.EndTime = q.TMax
	if q.Parallel > 0 {
		opt.MaxParallel = q.Parallel
	}
	if q.Exact {
		opt.HintType = hybridqp.ExactStatisticQuery
	}
	querySchema := executor.NewQuerySchema(stmt.Fields, stmt.ColumnNames(), &opt, nil)
	if os.Getenv("VERIF_DEBUG") != "" {
		fmt.Println("DEBUG stmt:", stmt.String(), "refs:", querySchema.Refs(), "dims:", opt.Dimensions)
	}

	ctx := context.Background()
	info, err := sh.CreateCursor(ctx, querySchema)
	if err != nil {
		return nil, fmt.Errorf("create cursor %q: %w", stmtText, err)
	}
	if info == nil {
		return nil, nil
	}
	defer info.Unref()
	var keyCursors []interface{}
	for _, cur := range info.GetCursors() {
		keyCursors = append(keyCursors, cur)
	}
	if len(keyCursors) == 0 {
		return nil, nil
	}

	var outType hybridqp.RowDataType
	var readerOps, aggOps []hybridqp.ExprOptions
	var seriesPlan hybridqp.QueryNode
	var topAgg hybridqp.QueryNode
	builder := executor.NewLogicalPlanBuilderImpl(querySchema)
	sp, perr := builder.CreateSeriesPlan()
	if perr != nil {
		return nil, fmt.Errorf("series plan %q: %w", stmtText, perr)
	}
	mp, perr := builder.CreateMeasurementPlan(sp)
	if perr != nil {
		return nil, fmt.Errorf("measurement plan %q: %w", stmtText, perr)
	}
	if q.Call != "" {
		// the plan the query layer would ship: built by the real plan builder and optimised
		// by the real heuristic planner (aggregate push-down)
		builder.Push(mp)
		builder.Aggregate()
		plan, perr := builder.Build()
		if perr != nil {
			return nil, fmt.Errorf("plan %q: %w", stmtText, perr)
		}
		planner := executor.BuildHeuristicPlanner()
		planner.SetRoot(plan)
		best := planner.FindBestExp()
		var reader *executor.LogicalReader
		for n := best; n != nil; {
			if lr, ok := n.(*executor.LogicalReader); ok {
				reader = lr
				break
			}
			if _, ok := n.(*executor.LogicalAggregate); ok && topAgg == nil {
				topAgg = n
			}
			if len(n.Children()) == 0 {
				break
			}
			n = n.Children()[0]
		}
		if reader == nil || topAgg == nil {
			panic(core.InfraPanic("unexpected plan shape for " + stmtText))
		}
		outType = reader.RowDataType()
		readerOps = reader.RowExprOptions()
		if len(reader.Children()) > 0 {
			seriesPlan = reader.Children()[0]
		}
		aggOps = topAgg.RowExprOptions()
	} else {
		var reader *executor.LogicalReader
		for n := mp; n != nil; {
			if lr, ok := n.(*executor.LogicalReader); ok {
				reader = lr
				break
			}
			if len(n.Children()) == 0 {
				break
			}
			n = n.Children()[0]
		}
		if reader == nil {
			panic(core.InfraPanic("no LogicalReader in the plan of " + stmtText))
		}
		outType = reader.RowDataType()
		readerOps = reader.RowExprOptions()
		if len(reader.Children()) > 0 {
			seriesPlan = reader.Children()[0]
		}
		colOf = map[string]int{}
		var seriesOps []hybridqp.ExprOptions
		for n := seriesPlan; n != nil; {
			if ls, ok := n.(*executor.LogicalSeries); ok {
				seriesOps = ls.RowExprOptions()
				break
			}
			if len(n.Children()) == 0 {
				break
			}
			n = n.Children()[0]
		}
		for i, f := range outType.Fields() {
			// output column -> reader op -> series op -> stored field name
			name := f.Name()
			for _, op := range readerOps {
				if op.Ref.Val == name {
					if vr, ok := op.Expr.(*influxql.VarRef); ok {
						name = vr.Val
					}
					break
				}
			}
			for _, op := range seriesOps {
				if op.Ref.Val == name {
					if vr, ok := op.Expr.(*influxql.VarRef); ok {
						name = vr.Val
					}
					break
				}
			}
			colOf[name] = i
		}
	}

	chunkReader := NewChunkReader(outType, readerOps, seriesPlan, querySchema, keyCursors, false)
	defer chunkReader.Release()
	outPortType := outType
	if topAgg != nil {
		outPortType = topAgg.RowDataType()
	}
	outPort := executor.NewChunkPort(outPortType)
	errc := make(chan error, 2)
	if q.Call != "" {
		agg, aerr := executor.NewStreamAggregateTransform(
			[]hybridqp.RowDataType{outType}, []hybridqp.RowDataType{topAgg.RowDataType()}, aggOps, &opt, querySchema, false)
		if aerr != nil {
			return nil, fmt.Errorf("aggregate transform %q: %w", stmtText, aerr)
		}
		agg.GetInputs()[0].Connect(chunkReader.GetOutputs()[0])
		agg.GetOutputs()[0].Connect(outPort)
		chunkReader.GetOutputs()[0].Connect(agg.GetInputs()[0])
		go func() { errc <- chunkReader.Work(ctx) }()
		go func() { errc <- agg.Work(ctx) }()
	} else {
		chunkReader.GetOutputs()[0].Connect(outPort)
		outPort.Connect(chunkReader.GetOutputs()[0])
		go func() { errc <- chunkReader.Work(ctx) }()
		errc <- nil
	}
	dims := q.dims()
	timeout := time.After(60 * time.Second)
loop:
	for {
		select {
		case ck, ok := <-outPort.State:
			if !ok {
				break loop
			}
			cr := chunkRows(ck, dims)
			if os.Getenv("VERIF_DEBUG") != "" {
				for _, r := range cr {
					fmt.Printf("DEBUG row %q: group=%s t=%d vals=", stmtText, r.Group, r.Time)
					for _, v := range r.Vals {
						if v == nil {
							fmt.Print(" nil")
						} else {
							fmt.Print(" ", *v)
						}
					}
					fmt.Println()
				}
			}
			rows = append(rows, cr...)
		case <-timeout:
			return nil, fmt.Errorf("query %q did not finish within 60s", stmtText)
		}
	}
	for i := 0; i < 2; i++ {
		if e := <-errc; e != nil && err == nil {
			err = fmt.Errorf("query %q: %w", stmtText, e)
		}
	}
	if colOf != nil {
		for ri := range rows {
			nv := make([]*sVal, len(q.Fields))
			for fi, f := range q.Fields {
				if ci, ok := colOf[f]; ok && ci < len(rows[ri].Vals) {
					nv[fi] = rows[ri].Vals[ci]
				}
			}
			rows[ri].Vals = nv
		}
	}
	return rows, err
}
