package engine

// World D: the catalogue and the pieces of the coordinator / meta service that the
// drop protocol needs.
//
// One un-replicated, REAL meta.Data is the catalogue.  Every catalogue change is made
// by the Data method the meta service's state machine calls for the corresponding
// command (CreateDatabase, CreateDBPtView, CreateRetentionPolicy, CreateMeasurement,
// CreateShardGroup, MarkMeasurementDelete, DropMeasurement, MarkRetentionPolicyDelete,
// DropRetentionPolicy, MarkDatabaseDelete, DropDatabase) and is recorded in a command
// log together with the position of the store's file-system journal at that moment,
// so that the catalogue as it was at any crash point can be rebuilt by re-applying the
// log prefix to an empty Data (no Clone / Marshal round trip is trusted).
//
// Stubbed: consensus and RPC of the catalogue, the client-side cache (the store's
// MetaClient reads the catalogue directly), the SQL node (statement -> catalogue
// command / store request translation is done by the few functions below, in the
// order coordinator/statement_executor.go and app/ts-meta/meta/store.go do it).

import (
	"fmt"
	"sort"
	"time"

	"github.com/gogo/protobuf/proto"
	"github.com/openGemini/openGemini/lib/config"
	"github.com/openGemini/openGemini/lib/errno"
	"github.com/openGemini/openGemini/lib/metaclient"
	"github.com/openGemini/openGemini/lib/obs"
	"github.com/openGemini/openGemini/lib/util"
	"github.com/openGemini/openGemini/lib/util/lifted/influx/influxql"
	"github.com/openGemini/openGemini/lib/util/lifted/influx/meta"
	proto2 "github.com/openGemini/openGemini/lib/util/lifted/influx/meta/proto"
	"github.com/openGemini/openGemini/lib/util/lifted/vm/protoparser/influx"
	"github.com/openGemini/openGemini/verifsim/core"
)

func dDBName(i int) string  { return fmt.Sprintf("db%d", i) }
func dRPName(i int) string  { return fmt.Sprintf("rp%d", i) }
func dMstName(i int) string { return fmt.Sprintf("mst%d", i) }

// dCmd is one applied catalogue command.
type dCmd struct {
	inc, pos int // incarnation of the store and length of its journal when the command was applied
	what     string
	fn       func(d *meta.Data) error
}

type dCatalogue struct {
	data *meta.Data
	log  []dCmd
	nid  uint64
	cfg  dCatCfg
}

type dCatCfg struct {
	NPT      int
	SgdH     int // shard group duration, hours
	IgdH     int // index group duration, hours
}

func newDCatalogue(cfg dCatCfg) *dCatalogue {
	c := &dCatalogue{cfg: cfg}
	c.data = c.fresh()
	return c
}

// fresh: an empty catalogue with the one store node registered.
func (c *dCatalogue) fresh() *meta.Data {
	d := &meta.Data{PtNumPerNode: uint32(c.cfg.NPT)}
	nid, err := d.CreateDataNode("127.0.0.1:8400", "127.0.0.1:8401", "", "")
	if err != nil {
		panic(core.InfraPanic("CreateDataNode: " + err.Error()))
	}
	c.nid = nid
	return d
}

// apply executes a command on the live catalogue and logs it.
func (c *dCatalogue) apply(inc, pos int, what string, fn func(d *meta.Data) error) error {
	c.data.Index++
	err := fn(c.data)
	c.log = append(c.log, dCmd{inc: inc, pos: pos, what: what, fn: fn})
	return err
}

// asOf rebuilds the catalogue as it was when the store (incarnation inc) had written
// pos journal entries: every command applied up to that moment, in order.
func (c *dCatalogue) asOf(inc, pos int) *dCatalogue {
	n := &dCatalogue{cfg: c.cfg}
	n.data = n.fresh()
	for _, cmd := range c.log {
		if cmd.inc > inc || (cmd.inc == inc && cmd.pos > pos) {
			break
		}
		n.data.Index++
		_ = cmd.fn(n.data)
		n.log = append(n.log, cmd)
	}
	return n
}

// ---- catalogue commands of the SQL node ----------------------------------------------

func (c *dCatalogue) rpInfo(i int) *meta.RetentionPolicyInfo {
	return &meta.RetentionPolicyInfo{Name: dRPName(i), ReplicaN: 1, Duration: 0,
		ShardGroupDuration: time.Duration(c.cfg.SgdH) * time.Hour,
		IndexGroupDuration: time.Duration(c.cfg.IgdH) * time.Hour}
}

// createDatabase = CREATE DATABASE db WITH NAME rp0 (+ the partition view the meta
// service creates with it).
func (c *dCatalogue) createDatabase(inc, pos int, db int) error {
	name := dDBName(db)
	return c.apply(inc, pos, "create database "+name, func(d *meta.Data) error {
		if err := d.CreateDatabase(name, c.rpInfo(0), nil, false, 1, nil); err != nil {
			return err
		}
		_, err := d.CreateDBPtView(name)
		return err
	})
}

func (c *dCatalogue) createRP(inc, pos int, db, rp int) error {
	return c.apply(inc, pos, fmt.Sprintf("create retention policy %s.%s", dDBName(db), dRPName(rp)), func(d *meta.Data) error {
		return d.CreateRetentionPolicy(dDBName(db), c.rpInfo(rp), false)
	})
}

func (c *dCatalogue) createMeasurement(inc, pos int, db, rp, m int) error {
	return c.apply(inc, pos, fmt.Sprintf("create measurement %s.%s.%s", dDBName(db), dRPName(rp), dMstName(m)), func(d *meta.Data) error {
		return d.CreateMeasurement(dDBName(db), dRPName(rp), dMstName(m), &proto2.ShardKeyInfo{ShardKey: []string{"host"}, Type: proto.String(influxql.HASH)},
			0, nil, config.TSSTORE, nil, nil, nil)
	})
}

func (c *dCatalogue) createShardGroup(inc, pos int, db, rp int, ts int64) error {
	return c.apply(inc, pos, fmt.Sprintf("create shard group %s.%s @%d", dDBName(db), dRPName(rp), ts), func(d *meta.Data) error {
		return d.CreateShardGroup(dDBName(db), dRPName(rp), time.Unix(0, ts), util.Hot, config.TSSTORE, 0)
	})
}

// ---- read side (what the SQL node learns from its catalogue cache) -------------------------

func (c *dCatalogue) dbExists(db int) bool {
	dbi := c.data.Database(dDBName(db))
	return dbi != nil && !dbi.MarkDeleted
}

func (c *dCatalogue) rpExists(db, rp int) bool {
	dbi := c.data.Database(dDBName(db))
	if dbi == nil || dbi.MarkDeleted {
		return false
	}
	rpi := dbi.RetentionPolicy(dRPName(rp))
	return rpi != nil && !rpi.MarkDeleted
}

// physName: the versioned name under which the store keeps logical measurement m of
// (db, rp) ("" if the catalogue has no such measurement, or it is marked deleted).
func (c *dCatalogue) physName(db, rp, m int) string {
	if !c.rpExists(db, rp) {
		return ""
	}
	rpi, err := c.data.RetentionPolicy(dDBName(db), dRPName(rp))
	if err != nil || rpi == nil {
		return ""
	}
	mi := rpi.Measurement(dMstName(m))
	if mi == nil || mi.MarkDeleted {
		return ""
	}
	return mi.Name
}

// matchMeasurements does what metaclient.Client.MatchMeasurements does (walk the
// retention policies, RetentionPolicyInfo.MatchMeasurements) for the single source
// [rp.]mst; rp < 0 = unqualified.  The product returns a map; the order in which the
// SQL node copies its values into the request is the map's iteration order - desc
// picks one of the two orders.
func (c *dCatalogue) matchMeasurements(db, rp, m int, desc bool) []string {
	dbi := c.data.Database(dDBName(db))
	if dbi == nil || dbi.MarkDeleted {
		return nil
	}
	src := &influxql.Measurement{Name: dMstName(m)}
	if rp >= 0 {
		src.RetentionPolicy = dRPName(rp)
	}
	ret := map[string]*meta.MeasurementInfo{}
	dbi.WalkRetentionPolicy(func(rpi *meta.RetentionPolicyInfo) {
		rpi.MatchMeasurements(influxql.Measurements{src}, ret)
	})
	keys := make([]string, 0, len(ret))
	for k := range ret {
		keys = append(keys, k)
	}
	sort.Strings(keys)
	if desc {
		for i, j := 0, len(keys)-1; i < j; i, j = i+1, j-1 {
			keys[i], keys[j] = keys[j], keys[i]
		}
	}
	names := make([]string, 0, len(keys))
	for _, k := range keys {
		names = append(names, ret[k].Name)
	}
	return names
}

func (c *dCatalogue) pts(db int) []uint32 {
	var out []uint32
	for _, pi := range c.data.PtView[dDBName(db)] {
		if pi.Owner.NodeID == c.nid {
			out = append(out, pi.PtId)
		}
	}
	sort.Slice(out, func(i, j int) bool { return out[i] < out[j] })
	return out
}

// dShardRef is one shard of the catalogue.
type dShardRef struct {
	DB, RP  int
	PT      uint32
	ID      uint64
	GroupID uint64
	Start   int64
	End     int64
	IndexID uint64
}

// shards lists the live shards of (db, rp) in (group start, pt) order.
func (c *dCatalogue) shards(db, rp int) []dShardRef {
	if !c.rpExists(db, rp) {
		return nil
	}
	rpi, _ := c.data.RetentionPolicy(dDBName(db), dRPName(rp))
	var out []dShardRef
	for i := range rpi.ShardGroups {
		sg := &rpi.ShardGroups[i]
		if sg.Deleted() {
			continue
		}
		for _, sh := range sg.Shards {
			if sh.MarkDelete || len(sh.Owners) == 0 {
				continue
			}
			out = append(out, dShardRef{DB: db, RP: rp, PT: sh.Owners[0], ID: sh.ID, GroupID: sg.ID,
				Start: sg.StartTime.UnixNano(), End: sg.EndTime.UnixNano(), IndexID: sh.IndexID})
		}
	}
	sort.Slice(out, func(i, j int) bool {
		if out[i].Start != out[j].Start {
			return out[i].Start < out[j].Start
		}
		return out[i].PT < out[j].PT
	})
	return out
}

// shardFor: the shard of (db, rp) that takes a point of partition pt at time ts (0 = none yet).
func (c *dCatalogue) shardFor(db, rp int, pt uint32, ts int64) uint64 {
	sg, err := c.data.ShardGroupByTimestampAndEngineType(dDBName(db), dRPName(rp), time.Unix(0, ts), config.TSSTORE)
	if err != nil || sg == nil {
		return 0
	}
	for _, sh := range sg.Shards {
		if len(sh.Owners) > 0 && sh.Owners[0] == pt {
			return sh.ID
		}
	}
	return 0
}

// nodeShards is Store.getNodeShardsMap of the meta service for the one store node:
// the shards of the policy whose key range contains the measurement (every shard,
// with hash sharding).
func (c *dCatalogue) nodeShards(db, rp int, nameWithVer string) []uint64 {
	rpi, err := c.data.RetentionPolicy(dDBName(db), dRPName(rp))
	if err != nil || rpi == nil {
		return nil
	}
	pts := c.data.PtView[dDBName(db)]
	var ids []uint64
	for sgIdx := range rpi.ShardGroups {
		for shIdx := range rpi.ShardGroups[sgIdx].Shards {
			sh := &rpi.ShardGroups[sgIdx].Shards[shIdx]
			if !sh.ContainPrefix(influx.GetOriginMstName(nameWithVer)) {
				continue
			}
			for _, ptId := range sh.Owners {
				if int(ptId) < len(pts) && pts[ptId].Owner.NodeID == c.nid {
					ids = append(ids, sh.ID)
				}
			}
		}
	}
	return ids
}

// pending lists what the meta service's checkDelete loops would find marked.
type dPending struct {
	dbs  []int
	rps  [][2]int
	msts []dPendingMst
}

type dPendingMst struct {
	db, rp int
	name   string // with version
}

func (c *dCatalogue) pending(ndb, nrp int) dPending {
	var p dPending
	for db := 0; db < ndb; db++ {
		dbi := c.data.Database(dDBName(db))
		if dbi == nil {
			continue
		}
		if dbi.MarkDeleted {
			p.dbs = append(p.dbs, db)
			continue
		}
		for rp := 0; rp < nrp; rp++ {
			rpi := dbi.RetentionPolicy(dRPName(rp))
			if rpi == nil {
				continue
			}
			if rpi.MarkDeleted {
				p.rps = append(p.rps, [2]int{db, rp})
				continue
			}
			var names []string
			for n, mi := range rpi.Measurements {
				if mi.MarkDeleted {
					names = append(names, n)
				}
			}
			sort.Strings(names)
			for _, n := range names {
				p.msts = append(p.msts, dPendingMst{db, rp, n})
			}
		}
	}
	return p
}

// ---- the MetaClient of one incarnation of the store ---------------------------------------

// dMeta answers the calls the engine makes; a method the world did not anticipate
// panics with a nil dereference (embedded nil interface).
type dMeta struct {
	metaclient.MetaClient
	cat *dCatalogue
}

func (m *dMeta) IsSQLiteEnabled() bool { return false }

func (m *dMeta) DatabaseOption(name string) (*obs.ObsOptions, error) {
	dbi := m.cat.data.Database(name)
	if dbi == nil {
		return nil, errno.NewError(errno.DatabaseNotFound, name)
	}
	return dbi.Options, nil
}

func (m *dMeta) Databases() map[string]*meta.DatabaseInfo { return m.cat.data.Databases }

func (m *dMeta) Database(name string) (*meta.DatabaseInfo, error) { return m.cat.data.GetDatabase(name) }

func (m *dMeta) GetMeasurements(mm *influxql.Measurement) ([]*meta.MeasurementInfo, error) {
	dbi, err := m.cat.data.GetDatabase(mm.Database)
	if err != nil {
		return nil, err
	}
	rpi, err := dbi.GetRetentionPolicy(mm.RetentionPolicy)
	if err != nil {
		return nil, err
	}
	var names []string
	for n := range rpi.Measurements {
		names = append(names, n)
	}
	sort.Strings(names)
	var out []*meta.MeasurementInfo
	for _, n := range names {
		out = append(out, rpi.Measurements[n])
	}
	return out, nil
}

func (m *dMeta) Measurement(database string, rpName string, mstName string) (*meta.MeasurementInfo, error) {
	return m.cat.data.Measurement(database, rpName, mstName)
}

func (m *dMeta) ThermalShards(dbName string, start, end time.Duration) map[uint64]struct{} {
	return map[uint64]struct{}{}
}

func (m *dMeta) UpdateShardDownSampleInfo(*meta.ShardIdentifier) error { return nil }

func (m *dMeta) GetShardRangeInfo(db string, rp string, shardID uint64) (*meta.ShardTimeRangeInfo, error) {
	dbi, err := m.cat.data.GetDatabase(db)
	if err != nil {
		return nil, err
	}
	rpi, err := dbi.GetRetentionPolicy(rp)
	if err != nil {
		return nil, err
	}
	tri := rpi.TimeRangeInfo(shardID)
	if tri == nil {
		return nil, errno.NewError(errno.ShardMetaNotFound, shardID)
	}
	b, err := tri.MarshalBinary()
	if err != nil {
		return nil, err
	}
	out := &meta.ShardTimeRangeInfo{}
	return out, out.UnmarshalBinary(b)
}
