package engine

// Exported seam for world T (retention under a simulated clock, property C14).
//
// The world itself lives in package engine_test (files t_world.go, t_meta.go,
// t_oracle.go): it imports services/retention, which imports this package, so it
// cannot be an in-package test.  The few things that need unexported access are
// exported here with a Tw prefix.  Nothing in here changes what the engine does;
// it only observes it, builds options and resets process-global caches.

import (
	"fmt"
	"os"
	"sort"
	"sync"
	"time"

	"github.com/openGemini/openGemini/engine/immutable"
	"github.com/openGemini/openGemini/engine/mutable"
	"github.com/openGemini/openGemini/lib/logger"
	"github.com/openGemini/openGemini/lib/util"
	_ "unsafe"
	"go.uber.org/zap"
)

var twOnce sync.Once

//go:linkname twBucketTimerPool github.com/openGemini/openGemini/lib/bucket.timerPool
var twBucketTimerPool *util.TimerPool

// TwSetup is the process-wide preparation; it must run outside any synctest bubble.
func TwSetup() {
	sSetup()
	twOnce.Do(func() {
		// per-partition load reporting (1 s ticker feeding the store's LoadCh) is not
		// part of the retention path; on a virtual clock it would fire once per
		// simulated second.
		reportLoadFrequency = 1000000 * time.Hour
		if os.Getenv("TW_LOG") == "" {
			// the file logger (lumberjack) owns a goroutine and a channel that must not be
			// created inside one bubble and used from the next; logging is not under test.
			logger.SetLogger(zap.NewNop())
		} else {
			logger.GetLogger().Info("verif world T: logger initialised outside the bubble")
			logger.GetLogger().Error("verif world T: error logger initialised outside the bubble")
		}
	})
}

// TwResetProcessState drops process-global caches that hold timers or channels
// created inside a previous bubble (they may only be used inside the bubble that
// created them).  memPoolKeys are the "db/rp" keys of the memtable pools used by
// the previous execution.
func TwResetProcessState(memPoolKeys []string) {
	mstWriteCtxPool = sync.Pool{}
	mstWriteRecordCtxPool = sync.Pool{}
	// lib/bucket keeps the timers of the resource allocators in a package-level pool
	twBucketTimerPool = util.NewTimePool()
	// the (inert, see sSetup) compaction worker carries a WaitGroup that shards of the
	// previous bubble registered with
	compWorker = &Compactor{
		sources:                  make(map[uint64]*shard, 32),
		outOfOrderMergeNumberMin: 2,
		outOfOrderMergeSizeMin:   1 * 1024 * 1024,
		plans:                    make(map[uint64][immutable.CompactLevels]map[string][][]uint64, 8),
	}
	pm := mutable.NewMemTablePoolManager()
	for _, k := range memPoolKeys {
		// expire = 2^63 makes "active < now - expire" (uint64 arithmetic) true
		pm.Alloc(k).SetExpire(1 << 63)
	}
	pm.Free()
}

// TwEngineOptions: world S's engine options (no timer-driven flushes, synchronous
// WAL) plus the lazy-load settings of the store configuration.
func TwEngineOptions(lazy bool, thermalStart, thermalEnd time.Duration) EngineOptions {
	k := SKnobs{Partitions: 1, RowsPerSegment: 1000, SegmentLimit: 65535, MinGroupFiles: 4, MutableLimit: 30 << 20, ChunkSize: 1024, MaxParallel: 1}
	applyKnobs(k)
	o := sEngineOptions(k)
	o.OpenShardLimit = 8
	o.LazyLoadShardEnable = lazy
	o.ThermalShardStartDuration = thermalStart
	o.ThermalShardEndDuration = thermalEnd
	return o
}

// TwShard is what the engine holds for one shard.
type TwShard struct {
	DB       string
	PT       uint32
	ID       uint64
	Nil      bool // map entry without a usable shard object
	Opened   bool
	Expired  bool
	Duration time.Duration
	GroupID  uint64
	Start    time.Time
	End      time.Time
	RP       string
	IndexID  uint64
	HasIndex bool
	DataPath string
	WalPath  string
}

func TwShards(e Engine) []TwShard {
	ei := e.(*EngineImpl)
	ei.mu.RLock()
	defer ei.mu.RUnlock()
	var out []TwShard
	for db, pts := range ei.DBPartitions {
		for pt, p := range pts {
			p.mu.RLock()
			for id, s := range p.shards {
				sh, ok := s.(*shard)
				if !ok || sh == nil {
					out = append(out, TwShard{DB: db, PT: pt, ID: id, Nil: true})
					continue
				}
				x := TwShard{DB: db, PT: pt, ID: id, Opened: sh.IsOpened(), Expired: sh.IsExpired(),
					Duration: sh.durationInfo.Duration, GroupID: sh.ident.ShardGroupID, Start: sh.startTime, End: sh.endTime, RP: sh.ident.Policy,
					DataPath: sh.dataPath, WalPath: sh.walPath}
				if sh.indexBuilder != nil {
					x.HasIndex = true
					x.IndexID = sh.indexBuilder.GetIndexID()
				}
				out = append(out, x)
			}
			p.mu.RUnlock()
		}
	}
	sort.Slice(out, func(i, j int) bool { return out[i].ID < out[j].ID })
	return out
}

// TwPendingDeletes lists shard ids whose deletion is in progress.
func TwPendingDeletes(e Engine) []uint64 {
	ei := e.(*EngineImpl)
	ei.mu.RLock()
	defer ei.mu.RUnlock()
	var out []uint64
	for _, pts := range ei.DBPartitions {
		for _, p := range pts {
			p.mu.RLock()
			for id := range p.pendingShardDeletes {
				out = append(out, id)
			}
			p.mu.RUnlock()
		}
	}
	sort.Slice(out, func(i, j int) bool { return out[i] < out[j] })
	return out
}

type TwIndex struct {
	DB      string
	PT      uint32
	ID      uint64
	RP      string
	Expired bool
	End     time.Time
}

func TwIndexes(e Engine) []TwIndex {
	ei := e.(*EngineImpl)
	ei.mu.RLock()
	defer ei.mu.RUnlock()
	var out []TwIndex
	for db, pts := range ei.DBPartitions {
		for pt, p := range pts {
			p.mu.RLock()
			for id, ib := range p.indexBuilder {
				out = append(out, TwIndex{DB: db, PT: pt, ID: id, RP: ib.RPName(), Expired: ib.Expired(), End: ib.GetEndTime()})
			}
			p.mu.RUnlock()
		}
	}
	sort.Slice(out, func(i, j int) bool {
		if out[i].ID != out[j].ID {
			return out[i].ID < out[j].ID
		}
		return out[i].PT < out[j].PT
	})
	return out
}

type TwRow struct {
	Series string
	Time   int64
	Val    int64
	Has    bool
}

// TwDump reads every row of measurement mst (field fi) of one shard through the
// real cursor / ChunkReader path (world S's reader).  Like a query it opens a
// not-yet-loaded shard.
func TwDump(e Engine, db string, pt uint32, shardID uint64, mst int) ([]TwRow, error) {
	ei := e.(*EngineImpl)
	s, err := ei.getShard(db, pt, shardID)
	if err != nil {
		return nil, err
	}
	sh, ok := s.(*shard)
	if !ok || sh == nil {
		return nil, fmt.Errorf("shard %d has type %T", shardID, s)
	}
	q := &sQuery{Mst: mst, Fields: []string{"fi"}, TMin: -(1 << 62), TMax: 1 << 62, ChunkSize: 1024, Parallel: 1}
	got, order, err := selectRows(sh, q)
	if err != nil {
		return nil, err
	}
	var out []TwRow
	for _, sk := range order {
		for _, r := range got[sk] {
			v, has := r.Fields["fi"]
			out = append(out, TwRow{Series: r.Series, Time: r.Time, Val: v.I, Has: has})
		}
	}
	return out, nil
}

// TwFlushIndexes makes the series created so far visible to queries.  The index
// does that itself one second after the write, but measures that second with
// fasttime (a real-clock ticker outside the bubble), so on the virtual clock it
// never comes; the harness issues the flush once the virtual clock is 1.5 s past
// the last write.
func TwFlushIndexes(e Engine) {
	ei := e.(*EngineImpl)
	ei.mu.RLock()
	defer ei.mu.RUnlock()
	for _, pts := range ei.DBPartitions {
		for _, p := range pts {
			p.mu.RLock()
			for _, ib := range p.indexBuilder {
				ib.Flush()
			}
			p.mu.RUnlock()
		}
	}
}

func TwMstName(m int) string { return sMstName(m) }

// TwSeriesTags / TwSeriesKey: world S's series universe (tags and the group key a
// "GROUP BY host, region" read returns).
func TwSeriesTags(s int) [][2]string { return sSeriesTags(s) }
func TwSeriesKey(s int) string       { return sSeriesKey(s) }
