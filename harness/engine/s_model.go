package engine

// The last-write-wins reference model of world S and the generator's universe.

import (
	"fmt"
	"math"
	"sort"
	"strings"

	"github.com/openGemini/openGemini/lib/util/lifted/influx/influxql"
	"github.com/openGemini/openGemini/lib/util/lifted/vm/protoparser/influx"
)

// ---- universe --------------------------------------------------------------------

const (
	sBaseTime = int64(1609459200) * 1e9 // 2021-01-01T00:00:00Z
	sStep     = int64(1e9)
	sNumTimes = 24
)

var (
	sFieldNames = []string{"fb", "ff", "fi", "fs"} // sorted, as the write path expects
	sFieldTypes = map[string]influxql.DataType{"fb": influxql.Boolean, "ff": influxql.Float, "fi": influxql.Integer, "fs": influxql.String}
	sTagKeys    = []string{"host", "region"}
)

func sMstName(m int) string { return fmt.Sprintf("mst%d_0000", m) }

// series s of a measurement: tags derived from the index; series 2 and 3 have no
// "region" tag (absent tag = empty value in group keys).
func sSeriesTags(s int) [][2]string {
	if sValMode == 2 && s == 4 {
		// codec cases (C07): the fifth series has no tag at all - a row without tags is a shape of its own in the
		// row-batch codec of the WAL and the wire (seeded change C07-d: the decoder kept the tags of the slot's
		// previous occupant)
		return nil
	}
	host := fmt.Sprintf("h%d", s%2)
	switch s {
	case 0, 1:
		return [][2]string{{"host", host}, {"region", "r0"}}
	case 2, 3:
		return [][2]string{{"host", host}}
	default:
		return [][2]string{{"host", host}, {"region", fmt.Sprintf("r%d", s)}}
	}
}

// group key of a series as returned by "GROUP BY host, region"
func sSeriesKey(s int) string {
	var b strings.Builder
	tags := sSeriesTags(s)
	for _, k := range sTagKeys {
		v := ""
		for _, t := range tags {
			if t[0] == k {
				v = t[1]
			}
		}
		b.WriteString(k + "=" + v + ",")
	}
	return b.String()
}

func sTime(k int) int64 {
	if sTimeTab != nil { // C07 cases with a time mode (s_codec.go)
		return sTimeOfTab(k)
	}
	return sBaseTime + int64(k)*sStep
}

// SRow is one generated point: measurement, series, time slot and the set of
// fields it carries (bit i = sFieldNames[i]).  Values are a function of the
// write id and the cell, so that every value read back is attributable.
type SRow struct {
	M int `json:"m"`
	S int `json:"s"`
	T int `json:"t"`
	F int `json:"f"`
	P int `json:"p,omitempty"` // KiB of incompressible padding appended to the string field (large records)
	// val_mode 2 only: the float field of this row. Bits 0-1: 1 NaN, 2 +Inf, 3 -Inf instead of the column's value;
	// bits 2-3: an ordinary value that differs from row to row instead of the column's pattern (1 integers,
	// 2 at most three decimals, 3 six decimals) - "exactly one special value in an otherwise ordinary column";
	// bits 4-5: 1 the value is -0.0, 2 -0.0 / +0.0 by slot parity;
	// bit 6: long runs - the value changes only every codecLongRun slots (run-length blocks with runs of tens of thousands of rows)
	X int `json:"x,omitempty"`
}

// sVal is a typed field value.
type sVal struct {
	Typ influxql.DataType
	I   int64
	F   float64
	S   string
	B   bool
	W   int // write id (attribution)
}

func (v sVal) String() string {
	switch v.Typ {
	case influxql.Integer:
		return fmt.Sprintf("%di(w%d)", v.I, v.W)
	case influxql.Float:
		return fmt.Sprintf("%v(w%d)", v.F, v.W)
	case influxql.String:
		if len(v.S) > 48 {
			return fmt.Sprintf("%q...[%d bytes](w%d)", v.S[:48], len(v.S), v.W)
		}
		return fmt.Sprintf("%q(w%d)", v.S, v.W)
	case influxql.Boolean:
		return fmt.Sprintf("%v(w%d)", v.B, v.W)
	}
	return "?"
}

func (v sVal) equal(o sVal) bool {
	if v.Typ != o.Typ {
		return false
	}
	switch v.Typ {
	case influxql.Integer:
		return v.I == o.I
	case influxql.Float:
		return math.Float64bits(v.F) == math.Float64bits(o.F)
	case influxql.String:
		return v.S == o.S
	case influxql.Boolean:
		return v.B == o.B
	}
	return false
}

// Value generation mode of the case being executed (one case runs at a time in a
// worker process).  Mode 0: every (write, cell) value is unique and attributable.
// Mode 1 (C07): codec-boundary values - per (series, field) column patterns
// (constant, constant-delta, small deltas, extremes, random bits; NaN payloads,
// +-Inf, -0.0, subnormals; empty / long / compressible / random strings).  Mode 1 is
// kept as it was for the replay files that were recorded with it; mode 2 (s_codec.go)
// is the generator that new C07 cases use.
var (
	sValMode int
	sValSeed uint64
	sNegMode int // mode 0 only: which numeric cell values are negative (SCase.NegMode)
)

// sNegCell: is the numeric value of this cell negative in the case being executed
func sNegCell(r SRow) bool {
	switch sNegMode {
	case 1:
		return r.S%2 == 1
	case 2:
		return true
	case 3:
		return r.T%3 == 0
	}
	return false
}

// cellValue: the value write w stores in field f of row r.  Integers stay well
// inside +-2^53; in mode 0 floats are exactly representable.
func cellValue(w int, r SRow, f string) sVal {
	if sValMode == 1 {
		return codecValue(w, r, f)
	}
	if sValMode == 2 {
		return codecValue2(w, r, f)
	}
	cell := int64(r.M)*100000 + int64(r.S)*1000 + int64(r.T)
	switch f {
	case "fi":
		v := int64(w)*1000000 + cell
		if sNegCell(r) {
			v = -v
		}
		return sVal{Typ: influxql.Integer, I: v, W: w}
	case "ff":
		v := float64(int64(w)*1000000+cell) / 8.0
		if sNegCell(r) {
			v = -v
		}
		return sVal{Typ: influxql.Float, F: v, W: w}
	case "fs":
		v := fmt.Sprintf("w%d.c%d", w, cell)
		if r.P > 0 {
			v += "." + padString(uint64(w)*1000003+uint64(cell), r.P*1024)
		}
		return sVal{Typ: influxql.String, S: v, W: w}
	case "fb":
		return sVal{Typ: influxql.Boolean, B: (int64(w)+cell)%2 == 0, W: w}
	}
	panic("unknown field " + f)
}

// padString: n bytes of printable, poorly compressible text derived from seed.
func padString(seed uint64, n int) string {
	b := make([]byte, n)
	x := seed
	for i := range b {
		if i%8 == 0 {
			x = mix64(x, uint64(i))
		}
		b[i] = byte(33 + (x>>(8*uint(i%8)))%90)
	}
	return string(b)
}

func mix64(a, b uint64) uint64 {
	z := a + 0x9e3779b97f4a7c15*(b+1)
	z = (z ^ (z >> 30)) * 0xbf58476d1ce4e5b9
	z = (z ^ (z >> 27)) * 0x94d049bb133111eb
	return z ^ (z >> 31)
}

const maxSafeInt = int64(1)<<53 - 1

// codecValue: a function of (seed, write, cell, field) that produces column shapes
// which select the different encoder modes.
func codecValue(w int, r SRow, f string) sVal {
	col := mix64(sValSeed, uint64(r.M)*7919+uint64(r.S)*104729+uint64(f[1]))
	cellH := mix64(col, uint64(r.T)*1000003+uint64(w))
	pat := col % 6
	T := int64(r.T)
	switch f {
	case "fi":
		base := int64(col>>20) % 1000000
		var v int64
		switch pat {
		case 0:
			v = base
		case 1:
			v = base + T*int64(col%1000+1)
		case 2:
			v = base + T*10 + int64(cellH%7)
		case 3:
			// int64 extremes that are exactly representable in the row codec's float64
			// carrier (multiples of 2^11 beyond 2^53), so that C06's digit loss stays out
			ex := []int64{maxSafeInt, -maxSafeInt, 0, 1, -1, 1 << 31, -(1 << 31), 1 << 32, (1 << 32) + 1, maxSafeInt - 1,
				math.MinInt64, math.MaxInt64 - 1023, 1 << 62, -(1 << 62), (1 << 60) + (1 << 11), 1700000000000000000}
			v = ex[cellH%uint64(len(ex))]
		case 4:
			v = int64(cellH>>11) - (int64(1) << 52)
		default:
			if col%2 == 0 {
				v = base + T*(int64(1)<<40) + int64(w)
			} else {
				// epoch-nanosecond-like values with an occasional 0: huge first / inner deltas
				v = 1700000000000000000 + T*1000000000
				if (T+int64(col>>8))%7 == 0 {
					v = 0
				}
			}
		}
		return sVal{Typ: influxql.Integer, I: v, W: w}
	case "ff":
		var v float64
		switch pat {
		case 0:
			v = float64(col%1000) / 4
		case 1:
			v = float64(int64(col%100000) + T*3)
		case 2:
			v = float64(int64(cellH%100000)) / 100
		case 3:
			sp := []float64{math.Inf(1), math.Inf(-1), math.NaN(), math.Float64frombits(0x7ff8000000000001 | cellH&0xffff<<8),
				math.Copysign(0, -1), 0, math.SmallestNonzeroFloat64, -math.SmallestNonzeroFloat64, math.MaxFloat64, -math.MaxFloat64, 1, -1.5}
			v = sp[cellH%uint64(len(sp))]
		case 4:
			v = math.Float64frombits(cellH)
			if math.IsNaN(v) || math.IsInf(v, 0) {
				v = float64(cellH % 1000)
			}
		default:
			v = float64(col % 97)
			if cellH%5 == 0 {
				v += float64(cellH % 3)
			}
		}
		return sVal{Typ: influxql.Float, F: v, W: w}
	case "fs":
		var v string
		switch pat {
		case 0:
			v = ""
		case 1:
			v = "const-" + fmt.Sprint(col%10)
		case 2:
			v = strings.Repeat("ab", int(cellH%2500))
		case 3:
			n := int(cellH % 200)
			b := make([]byte, n)
			x := cellH
			for i := range b {
				x = mix64(x, uint64(i))
				b[i] = byte(33 + x%90)
			}
			v = string(b)
		case 4:
			if cellH%16 == 0 {
				n := 20000 + int(cellH%5000)
				b := make([]byte, n)
				x := cellH
				for i := range b {
					if i%8 == 0 {
						x = mix64(x, uint64(i))
					}
					b[i] = byte(32 + (x>>(8*uint(i%8)))%95)
				}
				v = string(b)
			} else {
				v = fmt.Sprintf("v%d", cellH%1000)
			}
		default:
			us := []string{"", "é", "日本語", "a,b=c d", "\"quoted\"", "tab\there", "nul\x00byte", "😀😀", "x"}
			v = us[cellH%uint64(len(us))]
		}
		return sVal{Typ: influxql.String, S: v, W: w}
	case "fb":
		var v bool
		switch pat % 4 {
		case 0:
			v = true
		case 1:
			v = false
		case 2:
			v = r.T%2 == 0
		default:
			v = cellH%2 == 0
		}
		return sVal{Typ: influxql.Boolean, B: v, W: w}
	}
	panic("unknown field " + f)
}

func rowFields(r SRow) []string {
	var fs []string
	for i, n := range sFieldNames {
		if r.F&(1<<uint(i)) != 0 {
			fs = append(fs, n)
		}
	}
	return fs
}

// sBuildRows turns generated rows into influx.Row values the way the write path
// hands them to a shard (sorted tags and fields, index key built by the real code).
func sBuildRows(w int, rows []SRow) []influx.Row {
	out := make([]influx.Row, 0, len(rows))
	for _, r := range rows {
		fs := rowFields(r)
		if len(fs) == 0 {
			continue
		}
		var ir influx.Row
		ir.Name = sMstName(r.M)
		ir.Timestamp = sTime(r.T)
		tags := sSeriesTags(r.S)
		ir.Tags = make(influx.PointTags, len(tags))
		for i, t := range tags {
			ir.Tags[i].Key, ir.Tags[i].Value = t[0], t[1]
		}
		sort.Sort(&ir.Tags)
		ir.Fields = make([]influx.Field, len(fs))
		for i, f := range fs {
			v := cellValue(w, r, f)
			ir.Fields[i].Key = f
			switch v.Typ {
			case influxql.Integer:
				ir.Fields[i].Type = influx.Field_Type_Int
				ir.Fields[i].NumValue = float64(v.I)
			case influxql.Float:
				ir.Fields[i].Type = influx.Field_Type_Float
				ir.Fields[i].NumValue = v.F
			case influxql.String:
				ir.Fields[i].Type = influx.Field_Type_String
				ir.Fields[i].StrValue = v.S
			case influxql.Boolean:
				ir.Fields[i].Type = influx.Field_Type_Boolean
				if v.B {
					ir.Fields[i].NumValue = 1
				}
			}
		}
		sort.Sort(&ir.Fields)
		ir.UnmarshalIndexKeys(nil)
		_ = ir.UnmarshalShardKeyByTag(nil)
		out = append(out, ir)
	}
	return out
}

// ---- model -----------------------------------------------------------------------

type cellKey struct {
	M, S, T int
}

// sModel: (measurement, series, time) -> field -> value.
type sModel struct {
	rows map[cellKey]map[string]sVal
	hist map[cellKey]map[string][]int // every write id that ever wrote the field of the row (attribution)
}

func newSModel() *sModel {
	return &sModel{rows: map[cellKey]map[string]sVal{}, hist: map[cellKey]map[string][]int{}}
}

// attribute decodes the write id a value read back was produced by (-1: none).
func attribute(v sVal) int {
	switch v.Typ {
	case influxql.Integer:
		if v.I < 0 {
			return int(-v.I / 1000000)
		}
		return int(v.I / 1000000)
	case influxql.Float:
		return int(int64(math.Abs(v.F)*8) / 1000000)
	case influxql.String:
		var w, c int
		if n, _ := fmt.Sscanf(v.S, "w%d.c%d", &w, &c); n == 2 {
			return w
		}
	}
	return -1
}

// classify names a wrong value: "stale_value" if an earlier acknowledged write to
// the same field of the same row produced it, "foreign_value" if it was written
// to some other cell or never, "wrong_value" if it cannot be attributed (booleans).
func (m *sModel) classifyM(mst int, series string, t int64, f string, got sVal) string {
	if sValMode != 0 {
		return "wrong_value" // values are not unique in codec mode
	}
	for k, hs := range m.hist {
		if k.M != mst || sSeriesKey(k.S) != series || sTime(k.T) != t {
			continue
		}
		for _, w := range hs[f] {
			ref := cellValue(w, SRow{M: k.M, S: k.S, T: k.T}, f)
			if ref.equal(got) || (f == "fs" && strings.HasPrefix(got.S, ref.S+".")) {
				return "stale_value"
			}
		}
	}
	if got.Typ == influxql.Boolean {
		return "wrong_value"
	}
	return "foreign_value"
}

func (m *sModel) clone() *sModel {
	n := newSModel()
	for k, fs := range m.rows {
		c := make(map[string]sVal, len(fs))
		for f, v := range fs {
			c[f] = v
		}
		n.rows[k] = c
	}
	for k, hs := range m.hist {
		c := make(map[string][]int, len(hs))
		for f, ws := range hs {
			c[f] = append([]int(nil), ws...)
		}
		n.hist[k] = c
	}
	return n
}

func (m *sModel) applyWrite(w int, rows []SRow) {
	for _, r := range rows {
		fs := rowFields(r)
		if len(fs) == 0 {
			continue
		}
		k := cellKey{r.M, r.S, r.T}
		if m.rows[k] == nil {
			m.rows[k] = map[string]sVal{}
		}
		if m.hist[k] == nil {
			m.hist[k] = map[string][]int{}
		}
		for _, f := range fs {
			m.rows[k][f] = cellValue(w, r, f)
			m.hist[k][f] = append(m.hist[k][f], w)
		}
	}
}

func (m *sModel) dropMeasurement(mi int) {
	for k := range m.rows {
		if k.M == mi {
			delete(m.rows, k)
		}
	}
	for k := range m.hist {
		if k.M == mi {
			delete(m.hist, k)
		}
	}
}

// sDumpRow is one logical row as read back from the engine.
type sDumpRow struct {
	Series string
	Time   int64
	Fields map[string]sVal
}

// expected returns the model's rows of measurement mi restricted to [tmin,tmax] and
// to the given fields, grouped by series key, ascending by time.  Rows whose
// selected fields are all absent are not returned (as the query layer does).
func (m *sModel) expected(mi int, tmin, tmax int64, fields []string) map[string][]sDumpRow {
	out := map[string][]sDumpRow{}
	for k, fs := range m.rows {
		if k.M != mi {
			continue
		}
		t := sTime(k.T)
		if t < tmin || t > tmax {
			continue
		}
		row := sDumpRow{Series: sSeriesKey(k.S), Time: t, Fields: map[string]sVal{}}
		for _, f := range fields {
			if v, ok := fs[f]; ok {
				row.Fields[f] = v
			}
		}
		if len(row.Fields) == 0 {
			continue
		}
		out[row.Series] = append(out[row.Series], row)
	}
	for s := range out {
		rs := out[s]
		sort.Slice(rs, func(i, j int) bool { return rs[i].Time < rs[j].Time })
	}
	return out
}

func fmtRow(r sDumpRow) string {
	var ks []string
	for f := range r.Fields {
		ks = append(ks, f)
	}
	sort.Strings(ks)
	var b strings.Builder
	fmt.Fprintf(&b, "{%s t=%d", r.Series, sSlot(r.Time))
	for _, f := range ks {
		fmt.Fprintf(&b, " %s=%s", f, r.Fields[f])
	}
	b.WriteString("}")
	return b.String()
}
