package engine

// The last-write-wins reference model of world S and the generator's universe.

import (
	"fmt"
	"math"
	"sort"
	"strings"

	"github.com/openGemini/openGemini/lib/util/lifted/influx/influxql"
	"github.com/openGemini/openGemini/lib/util/lifted/vm/protoparser/influx"
)

// ---- universe --------------------------------------------------------------------

const (
	sBaseTime = int64(1609459200) * 1e9 // 2021-01-01T00:00:00Z
	sStep     = int64(1e9)
	sNumTimes = 24
)

var (
	sFieldNames = []string{"fb", "ff", "fi", "fs"} // sorted, as the write path expects
	sFieldTypes = map[string]influxql.DataType{"fb": influxql.Boolean, "ff": influxql.Float, "fi": influxql.Integer, "fs": influxql.String}
	sTagKeys    = []string{"host", "region"}
)

func sMstName(m int) string { return fmt.Sprintf("mst%d_0000", m) }

// series s of a measurement: tags derived from the index; series 2 and 3 have no
// "region" tag (absent tag = empty value in group keys).
func sSeriesTags(s int) [][2]string {
	host := fmt.Sprintf("h%d", s%2)
	switch s {
	case 0, 1:
		return [][2]string{{"host", host}, {"region", "r0"}}
	case 2, 3:
		return [][2]string{{"host", host}}
	default:
		return [][2]string{{"host", host}, {"region", fmt.Sprintf("r%d", s)}}
	}
}

// group key of a series as returned by "GROUP BY host, region"
func sSeriesKey(s int) string {
	var b strings.Builder
	tags := sSeriesTags(s)
	for _, k := range sTagKeys {
		v := ""
		for _, t := range tags {
			if t[0] == k {
				v = t[1]
			}
		}
		b.WriteString(k + "=" + v + ",")
	}
	return b.String()
}

func sTime(k int) int64 { return sBaseTime + int64(k)*sStep }

// SRow is one generated point: measurement, series, time slot and the set of
// fields it carries (bit i = sFieldNames[i]).  Values are a function of the
// write id and the cell, so that every value read back is attributable.
type SRow struct {
	M int `json:"m"`
	S int `json:"s"`
	T int `json:"t"`
	F int `json:"f"`
}

// sVal is a typed field value.
type sVal struct {
	Typ influxql.DataType
	I   int64
	F   float64
	S   string
	B   bool
	W   int // write id (attribution)
}

func (v sVal) String() string {
	switch v.Typ {
	case influxql.Integer:
		return fmt.Sprintf("%di(w%d)", v.I, v.W)
	case influxql.Float:
		return fmt.Sprintf("%v(w%d)", v.F, v.W)
	case influxql.String:
		return fmt.Sprintf("%q(w%d)", v.S, v.W)
	case influxql.Boolean:
		return fmt.Sprintf("%v(w%d)", v.B, v.W)
	}
	return "?"
}

func (v sVal) equal(o sVal) bool {
	if v.Typ != o.Typ {
		return false
	}
	switch v.Typ {
	case influxql.Integer:
		return v.I == o.I
	case influxql.Float:
		return math.Float64bits(v.F) == math.Float64bits(o.F)
	case influxql.String:
		return v.S == o.S
	case influxql.Boolean:
		return v.B == o.B
	}
	return false
}

// cellValue: the value write w stores in field f of row r.  Integers stay well
// inside +-2^53, floats are exactly representable.
func cellValue(w int, r SRow, f string) sVal {
	cell := int64(r.M)*100000 + int64(r.S)*1000 + int64(r.T)
	switch f {
	case "fi":
		return sVal{Typ: influxql.Integer, I: int64(w)*1000000 + cell, W: w}
	case "ff":
		return sVal{Typ: influxql.Float, F: float64(int64(w)*1000000+cell) / 8.0, W: w}
	case "fs":
		return sVal{Typ: influxql.String, S: fmt.Sprintf("w%d.c%d", w, cell), W: w}
	case "fb":
		return sVal{Typ: influxql.Boolean, B: (int64(w)+cell)%2 == 0, W: w}
	}
	panic("unknown field " + f)
}

func rowFields(r SRow) []string {
	var fs []string
	for i, n := range sFieldNames {
		if r.F&(1<<uint(i)) != 0 {
			fs = append(fs, n)
		}
	}
	return fs
}

// sBuildRows turns generated rows into influx.Row values the way the write path
// hands them to a shard (sorted tags and fields, index key built by the real code).
func sBuildRows(w int, rows []SRow) []influx.Row {
	out := make([]influx.Row, 0, len(rows))
	for _, r := range rows {
		fs := rowFields(r)
		if len(fs) == 0 {
			continue
		}
		var ir influx.Row
		ir.Name = sMstName(r.M)
		ir.Timestamp = sTime(r.T)
		tags := sSeriesTags(r.S)
		ir.Tags = make(influx.PointTags, len(tags))
		for i, t := range tags {
			ir.Tags[i].Key, ir.Tags[i].Value = t[0], t[1]
		}
		sort.Sort(&ir.Tags)
		ir.Fields = make([]influx.Field, len(fs))
		for i, f := range fs {
			v := cellValue(w, r, f)
			ir.Fields[i].Key = f
			switch v.Typ {
			case influxql.Integer:
				ir.Fields[i].Type = influx.Field_Type_Int
				ir.Fields[i].NumValue = float64(v.I)
			case influxql.Float:
				ir.Fields[i].Type = influx.Field_Type_Float
				ir.Fields[i].NumValue = v.F
			case influxql.String:
				ir.Fields[i].Type = influx.Field_Type_String
				ir.Fields[i].StrValue = v.S
			case influxql.Boolean:
				ir.Fields[i].Type = influx.Field_Type_Boolean
				if v.B {
					ir.Fields[i].NumValue = 1
				}
			}
		}
		sort.Sort(&ir.Fields)
		ir.UnmarshalIndexKeys(nil)
		_ = ir.UnmarshalShardKeyByTag(nil)
		out = append(out, ir)
	}
	return out
}

// ---- model -----------------------------------------------------------------------

type cellKey struct {
	M, S, T int
}

// sModel: (measurement, series, time) -> field -> value.
type sModel struct {
	rows map[cellKey]map[string]sVal
	hist map[cellKey]map[string][]int // every write id that ever wrote the field of the row (attribution)
}

func newSModel() *sModel {
	return &sModel{rows: map[cellKey]map[string]sVal{}, hist: map[cellKey]map[string][]int{}}
}

// attribute decodes the write id a value read back was produced by (-1: none).
func attribute(v sVal) int {
	switch v.Typ {
	case influxql.Integer:
		return int(v.I / 1000000)
	case influxql.Float:
		return int(int64(v.F*8) / 1000000)
	case influxql.String:
		var w, c int
		if n, _ := fmt.Sscanf(v.S, "w%d.c%d", &w, &c); n == 2 {
			return w
		}
	}
	return -1
}

// classify names a wrong value: "stale_value" if an earlier acknowledged write to
// the same field of the same row produced it, "foreign_value" if it was written
// to some other cell or never, "wrong_value" if it cannot be attributed (booleans).
func (m *sModel) classifyM(mst int, series string, t int64, f string, got sVal) string {
	for k, hs := range m.hist {
		if k.M != mst || sSeriesKey(k.S) != series || sTime(k.T) != t {
			continue
		}
		for _, w := range hs[f] {
			if cellValue(w, SRow{M: k.M, S: k.S, T: k.T}, f).equal(got) {
				return "stale_value"
			}
		}
	}
	if got.Typ == influxql.Boolean {
		return "wrong_value"
	}
	return "foreign_value"
}

func (m *sModel) clone() *sModel {
	n := newSModel()
	for k, fs := range m.rows {
		c := make(map[string]sVal, len(fs))
		for f, v := range fs {
			c[f] = v
		}
		n.rows[k] = c
	}
	for k, hs := range m.hist {
		c := make(map[string][]int, len(hs))
		for f, ws := range hs {
			c[f] = append([]int(nil), ws...)
		}
		n.hist[k] = c
	}
	return n
}

func (m *sModel) applyWrite(w int, rows []SRow) {
	for _, r := range rows {
		fs := rowFields(r)
		if len(fs) == 0 {
			continue
		}
		k := cellKey{r.M, r.S, r.T}
		if m.rows[k] == nil {
			m.rows[k] = map[string]sVal{}
		}
		if m.hist[k] == nil {
			m.hist[k] = map[string][]int{}
		}
		for _, f := range fs {
			m.rows[k][f] = cellValue(w, r, f)
			m.hist[k][f] = append(m.hist[k][f], w)
		}
	}
}

func (m *sModel) dropMeasurement(mi int) {
	for k := range m.rows {
		if k.M == mi {
			delete(m.rows, k)
		}
	}
	for k := range m.hist {
		if k.M == mi {
			delete(m.hist, k)
		}
	}
}

// sDumpRow is one logical row as read back from the engine.
type sDumpRow struct {
	Series string
	Time   int64
	Fields map[string]sVal
}

// expected returns the model's rows of measurement mi restricted to [tmin,tmax] and
// to the given fields, grouped by series key, ascending by time.  Rows whose
// selected fields are all absent are not returned (as the query layer does).
func (m *sModel) expected(mi int, tmin, tmax int64, fields []string) map[string][]sDumpRow {
	out := map[string][]sDumpRow{}
	for k, fs := range m.rows {
		if k.M != mi {
			continue
		}
		t := sTime(k.T)
		if t < tmin || t > tmax {
			continue
		}
		row := sDumpRow{Series: sSeriesKey(k.S), Time: t, Fields: map[string]sVal{}}
		for _, f := range fields {
			if v, ok := fs[f]; ok {
				row.Fields[f] = v
			}
		}
		if len(row.Fields) == 0 {
			continue
		}
		out[row.Series] = append(out[row.Series], row)
	}
	for s := range out {
		rs := out[s]
		sort.Slice(rs, func(i, j int) bool { return rs[i].Time < rs[j].Time })
	}
	return out
}

func fmtRow(r sDumpRow) string {
	var ks []string
	for f := range r.Fields {
		ks = append(ks, f)
	}
	sort.Strings(ks)
	var b strings.Builder
	fmt.Fprintf(&b, "{%s t=%d", r.Series, (r.Time-sBaseTime)/sStep)
	for _, f := range ks {
		fmt.Fprintf(&b, " %s=%s", f, r.Fields[f])
	}
	b.WriteString("}")
	return b.String()
}
