package engine

// World C, crash images at scheduler steps (property C01 under concurrency).
//
// World S crashes sequential histories: a flush is atomic with respect to writes there, so no
// crash point has "a write acknowledged while a flush / compaction / merge was half done".  Here
// the concurrent run of world C is stopped at quiescent points of the scheduler (every task is
// parked at a gate or a yield point, blocked, or finished), the journal of the live disk is cut
// at its current length, the image of that prefix is built in a fresh directory, the real
// start-up path recovers it (gates and yield parking are suspended for everything the recovery
// does), every measurement is read in full and judged with C01's semantics, the incarnation is
// closed and discarded, and the live run goes on.
//
// What a kill can leave (crash model = process kill): every completed file-system call survives
// (the journal prefix), a parked file-system operation has had no effect yet (gates sit before
// the effect), optionally ONE parked write lands as a prefix (byte-granular for log records,
// page-granular elsewhere).  A write is acknowledged when the scheduler has OBSERVED its
// WriteRows returning nil (cwHist.ack); "returned but not yet observed" counts as in flight.

import (
	"fmt"
	"os"
	"path/filepath"
	"runtime/debug"
	"sort"
	"strconv"
	"strings"
	"time"

	"github.com/openGemini/openGemini/engine/immutable"
	"github.com/openGemini/openGemini/verifsim/core"
	"github.com/openGemini/openGemini/verifsim/simfs"
)

// bounds of the crash-image work of one execution
const (
	cwCrashMaxStates = 260
	cwCrashMaxUs     = 45e6
)

type cwCrash struct {
	on       bool
	every    int
	torn     bool
	only     int    // pinned step (0 = every planned step)
	onlyVar  int    // pinned variant: 0 plain, 1 torn
	onlyCut  int    // pinned length of the torn prefix (0 = the seeded ones)
	dir      string // parent directory of the bases and images (the run's attempt directory)
	base     string // initial tree of the current incarnation + journal[0:pos)
	pos      int
	disk     *simfs.Disk
	inc      int
	n        int // images built so far (fresh path per image)
	lastStep int
	lastKey  string
	differs  bool
	// data files of the live shard that were on disk but in no in-memory file list at a quiescent point
	// with no flush / compaction / merge / close in flight (diagnostic label only; see crashOrphans)
	orphans   map[string]bool
	orphansAt int
}

// crashPlan: set up at the start of an execution.
func (run *cwRun) crashPlan(base string) {
	c := run.c
	if c.CrashEvery <= 0 && c.OnlyCrashStep <= 0 {
		return
	}
	if c.NoGate {
		return
	}
	run.crash = &cwCrash{on: true, every: c.CrashEvery, torn: c.CrashTorn, dir: base, lastStep: -1}
	if c.OnlyCrashStep > 0 && run.env.Extra["unpin"] == "" {
		run.crash.only, run.crash.onlyVar, run.crash.onlyCut = c.OnlyCrashStep, c.OnlyCrashVar, c.OnlyCrashCut
	}
	if run.crash.every <= 0 {
		run.crash.every = 1
	}
	run.out.Stats["runs_with_crash_plan"]++
}

// crashNewIncarnation: called by open() after the incarnation's directory has been prepared and
// before the shard touches it: the initial tree is what the journal of this disk is relative to.
func (run *cwRun) crashNewIncarnation(dir string, d *simfs.Disk) {
	cr := run.crash
	if cr == nil {
		return
	}
	if cr.base != "" {
		_ = os.RemoveAll(cr.base)
	}
	cr.base = filepath.Join(cr.dir, fmt.Sprintf("cbase%d", run.inc))
	_ = os.RemoveAll(cr.base)
	if err := simfs.CopyTree(dir, cr.base); err != nil {
		panic(core.InfraPanic("crash base: " + err.Error()))
	}
	cr.pos, cr.disk, cr.inc, cr.lastKey = 0, d, run.inc, ""
}

// advance applies the journal entries [pos,k) of the live disk to the base.
func (cr *cwCrash) advance(j []*simfs.Entry, k int) {
	for cr.pos < k {
		if err := simfs.Apply(cr.base, j[cr.pos], -1); err != nil {
			panic(core.InfraPanic(fmt.Sprintf("crash image: journal entry %d (%s) does not apply: %v", cr.pos, j[cr.pos], err)))
		}
		cr.pos++
	}
}

func cwGatedEntries(j []*simfs.Entry) int {
	n := 0
	for _, e := range j {
		if cwGatedPath(e.Path) {
			n++
		}
	}
	return n
}

// crashAt is called by the scheduler goroutine at a quiescent point, after the finished
// operations have been observed.  final: the segment has ended (nothing in flight).
func (run *cwRun) crashAt(final bool) (v *core.Violation, checked bool) {
	cr := run.crash
	if cr == nil || !cr.on || cr.disk == nil || run.sch.free.Load() {
		return nil, false
	}
	j := cr.disk.Journal()
	k := len(j)
	gated := cwGatedEntries(j)
	run.crashOrphans(gated)
	step := run.step
	if step == 0 {
		return nil, false // the state the sequential prologue left (world S's subject)
	}
	if cr.only > 0 {
		if step != cr.only {
			return nil, false
		}
	} else if !final && step%cr.every != 0 {
		return nil, false
	}
	if step == cr.lastStep && !final {
		return nil, false
	}
	cr.lastStep = step
	if !run.env.Deadline.IsZero() && time.Now().After(run.env.Deadline) && !run.env.Replay {
		run.out.Stats["crash_checks_cut_by_budget"]++
		return nil, false
	}
	if cr.only == 0 && (run.out.Stats["crash_states"] >= cwCrashMaxStates || run.out.Stats["crash_check_us"] > cwCrashMaxUs) {
		// one execution stays well inside the worker's per-execution watchdog, on a loaded machine too
		run.out.Stats["crash_checks_capped"]++
		return nil, false
	}
	nfail := 0
	for _, w := range run.h.writes {
		if w.failed {
			nfail++
		}
	}
	// the same disk state (as far as the scheduler controls it) under the same acknowledgement
	// state has been judged already: yield-point steps and steps of blocked tasks change neither
	key := fmt.Sprintf("%d|%d|%d|%d|%d", cr.inc, gated, len(run.h.writes), run.h.nAcked, nfail)
	if key == cr.lastKey && cr.only == 0 {
		run.out.Stats["crash_steps_same_state_skipped"]++
		return nil, false
	}
	cr.lastKey = key
	t0 := time.Now()
	defer func() { run.out.Stats["crash_check_us"] += time.Since(t0).Microseconds() }()

	// everything the recovery does is outside the scheduler: its disk has no gates, and the
	// yield hook lets every goroutine that is not a task of the live run pass
	run.sch.suspended.Store(true)
	defer run.sch.suspended.Store(false)
	sSyncSequencerLoad = true // the recovered incarnation settles (log replay, sequencer) before it is read
	defer func() { sSyncSequencerLoad = false }()

	cr.advance(j, k)
	infl := run.inflightSet()
	delete(infl, "query")
	inflight := cwSortedSet(infl)
	at := map[string]string{"phase": "crash", "inflight": inflight, "step": strconv.Itoa(step), "variant": "plain", "wal_parts": "1"}
	if run.c.Knobs.Partitions > 1 {
		at["wal_parts"] = "n"
	}
	if final {
		at["at"] = "segment_end"
	}
	where := fmt.Sprintf("crash at scheduler step %d (journal prefix of %d entries of incarnation %d; in flight: %s; writes in flight: %s)", step, k, cr.inc, orDash(inflight), orDash(run.h.inflightWrites()))
	if cr.only == 0 || cr.onlyVar == 0 {
		dst := filepath.Join(cr.dir, fmt.Sprintf("crash%d", cr.n))
		cr.n++
		if err := simfs.CopyTree(cr.base, dst); err != nil {
			panic(core.InfraPanic("crash image: " + err.Error()))
		}
		run.out.Faults["crash"]++
		run.crashProbes(dst, infl)
		run.out.Log("s%d crash image inflight=%s", step, inflight)
		if v := run.recoverAndJudge(dst, where, at); v != nil {
			if !run.crashStepOver(v) {
				return v, true
			}
		}
	}
	// ONE parked write lands as a prefix
	if (cr.torn && cr.only == 0) || (cr.only > 0 && cr.onlyVar == 1) {
		p, cuts := run.tornCandidate(step)
		if cr.only > 0 && cr.onlyCut > 0 {
			cuts = []int{cr.onlyCut}
		}
		for _, cut := range cuts {
			if p == nil {
				break
			}
			dst := filepath.Join(cr.dir, fmt.Sprintf("crash%d", cr.n))
			cr.n++
			if err := simfs.CopyTree(cr.base, dst); err != nil {
				panic(core.InfraPanic("crash image: " + err.Error()))
			}
			if err := simfs.Apply(dst, p.ent, cut); err == nil {
				at2 := map[string]string{}
				for k, v := range at {
					at2[k] = v
				}
				at2["variant"] = "torn"
				at2["torn"] = fmt.Sprintf("%s %s", p.class, cwPathClass(cwNormPath(p.path)))
				at2["torn_bytes"] = strconv.Itoa(cut)
				run.out.Faults["torn_write"]++
				run.out.Stats["crash_torn_states"]++
				run.out.Log("s%d crash image torn %s %d/%d", step, p.desc(), cut, len(p.ent.Data))
				where2 := where + fmt.Sprintf("; the parked write %s (offset %d, %d bytes) landed as a prefix of %d bytes", p.desc(), p.ent.Off, len(p.ent.Data), cut)
				if v := run.recoverAndJudge(dst, where2, at2); v != nil {
					if !run.crashStepOver(v) {
						return v, true
					}
				}
			} else {
				_ = os.RemoveAll(dst)
			}
		}
	}
	return nil, true
}

// crashOrphans (diagnostic label, never a verdict): the listed finding C04-flush-adds-file-to-unlinked-list leaves a
// flushed data file on disk that is in none of the table store's in-memory lists; a restart - and so the recovery of
// a crash image - loads it again, and as an out-of-order file it overrides newer values.  A file counts as such an
// orphan once it was unlisted at a quiescent point with no flush, compaction, merge or close in flight (while one of
// those runs, a file it has renamed into place but not yet listed is unlisted for a moment in correct operation too).
func (run *cwRun) crashOrphans(gated int) {
	cr := run.crash
	if run.closed || run.closeStarted || run.node == nil || run.node.sh == nil || gated == cr.orphansAt {
		return
	}
	if run.cur[cwTFlusher] != nil || run.cur[cwTCompact] != nil || run.cur[cwTCloser] != nil || run.cur[cwTDropper] != nil {
		return
	}
	cr.orphansAt = gated
	for m := 0; m < run.c.NMst; m++ {
		for _, f := range cwUnlisted(run.node, m) {
			if cr.orphans == nil {
				cr.orphans = map[string]bool{}
			}
			if !cr.orphans[f] {
				cr.orphans[f] = true
				run.out.Probes["live shard: flushed data file on disk but in no in-memory list (listed finding C04-flush-adds-file-to-unlinked-list)"]++
			}
		}
	}
}

// cwUnlisted: data files of measurement m (paths relative to the disk root) that are on disk but in no in-memory list.
func cwUnlisted(n *sNode, m int) []string {
	ch := make(chan []string, 1)
	go func() {
		defer func() {
			if r := recover(); r != nil {
				ch <- nil
			}
		}()
		sh := n.sh
		name := sMstName(m)
		listed := map[string]bool{}
		for _, order := range []bool{true, false} {
			files, ok := sh.immTables.GetTSSPFiles(name, order)
			if !ok || files == nil {
				continue
			}
			for _, f := range files.Files() {
				listed[filepath.Base(f.Path())] = true
			}
			immutable.UnrefFilesReader(files.Files()...)
			immutable.UnrefFiles(files.Files()...)
		}
		var out []string
		for _, sub := range []string{"", "out-of-order"} {
			ents, err := os.ReadDir(filepath.Join(sh.filesPath, name, sub))
			if err != nil {
				continue
			}
			for _, e := range ents {
				if !e.IsDir() && strings.HasSuffix(e.Name(), ".tssp") && !listed[e.Name()] {
					out = append(out, filepath.Join("data", "tssp", name, sub, e.Name()))
				}
			}
		}
		sort.Strings(out)
		ch <- out
	}()
	select {
	case r := <-ch:
		return r
	case <-time.After(300 * time.Millisecond):
		return nil
	}
}

// crashStepOver: a listed finding is counted and the run goes on.  A crash image that holds an orphan file (see
// crashOrphans) shows the listed finding C04-flush-adds-file-to-unlinked-list through a crash instead of a clean
// restart (same root cause: the violation disappears on a tree with fixes/C/C04-flush-adds-file-to-unlinked-list.patch);
// until it is listed under this property too, its C04 entries are matched by the same diagnostic attribute.
func (run *cwRun) crashStepOver(v *core.Violation) bool {
	if run.stepOver(v) {
		return true
	}
	if v.Attrs["unlisted_files"] != "yes" || run.env.Replay {
		return false
	}
	// (only the reverted overwrite: a start-up loads the orphan file, so nothing it holds can be missing)
	if v.Kind != "crash_stale_value" {
		return false
	}
	pv := &core.Violation{Property: "C04", Kind: "stale_value", Detail: v.Detail, Attrs: map[string]string{"unlisted_files": "yes", "phase": "crash", "inflight": v.Attrs["inflight"]}}
	return run.env.KnownID(pv, run.out) != ""
}

func orDash(s string) string {
	if s == "" {
		return "-"
	}
	return s
}

// tornCandidate: one parked write (seeded choice) and the length of the prefix that lands.
func (run *cwRun) tornCandidate(step int) (*cwParked, []int) {
	var cand []*cwParked
	for _, p := range run.sch.parkedSorted() {
		if p.site == "" && p.ent != nil && p.kind == simfs.KWrite && len(p.ent.Data) >= 2 {
			cand = append(cand, p)
		}
	}
	if len(cand) == 0 {
		return nil, nil
	}
	h := cwHash("torn", int64(run.c.SchedSeed>>1), int64(step))
	p := cand[int(h%uint64(len(cand)))]
	n := len(p.ent.Data)
	var cuts []int
	if strings.HasPrefix(p.ent.Path, "wal/") {
		// log records: the header alone (5 bytes; the body is what replay must notice is missing), plus one seeded
		// other prefix (inside the header, header + 1, half, all but one byte)
		for _, c := range []int{1, 4, 6, n / 2, n - 1} {
			if c > 0 && c < n && c != 5 {
				cuts = append(cuts, c)
			}
		}
		cuts = []int{cuts[int((h>>20)%uint64(len(cuts)))]}
		if n > 5 {
			cuts = append([]int{5}, cuts...)
		}
		return p, cuts
	}
	for t := int(4096 - p.ent.Off%4096); t < n; t += 4096 {
		cuts = append(cuts, t)
	}
	if len(cuts) == 0 {
		return nil, nil // (no kill tears inside a page)
	}
	return p, []int{cuts[int((h>>20)%uint64(len(cuts)))]}
}

// crashProbes: evidence of which crash states were reached.
func (run *cwRun) crashProbes(dst string, infl map[string]bool) {
	out := run.out
	for k := range infl {
		switch k {
		case "flush":
			out.Probes["crash with a flush in flight"]++
		case "write":
			out.Probes["crash with a write in flight"]++
		case "compact", "merge":
			out.Probes["crash with a compaction/merge in flight"]++
		case "seq_reload":
			out.Probes["crash during sequencer reload"]++
		case "close":
			out.Probes["crash with a close in flight"]++
		}
	}
	if infl["flush"] && infl["write"] {
		out.Probes["crash with a write and a flush in flight"]++
	}
	if (infl["compact"] || infl["merge"]) && infl["flush"] {
		out.Probes["crash with a flush and a compaction/merge in flight"]++
	}
	if len(infl) == 0 {
		out.Probes["crash with nothing in flight"]++
	}
	// log files per partition directory
	parts, _ := os.ReadDir(filepath.Join(dst, "wal"))
	for _, pd := range parts {
		if !pd.IsDir() {
			continue
		}
		ents, _ := os.ReadDir(filepath.Join(dst, "wal", pd.Name()))
		var seqs []int
		for _, e := range ents {
			if strings.HasSuffix(e.Name(), ".wal") {
				if s, err := strconv.Atoi(strings.TrimSuffix(e.Name(), ".wal")); err == nil {
					seqs = append(seqs, s)
				}
			}
		}
		if len(seqs) >= 2 {
			out.Probes["crash with two WAL files present"]++
			sort.Ints(seqs)
			if len(strconv.Itoa(seqs[0])) != len(strconv.Itoa(seqs[len(seqs)-1])) {
				out.Probes["crash with two WAL files whose sequence numbers differ in length (9.wal, 10.wal)"]++
			}
			if infl["flush"] && run.h.ackedSince(run.flushStart()) {
				out.Probes["crash with two WAL files and a write acknowledged since the flush began"]++
			}
		}
	}
	if ents, e := os.ReadDir(filepath.Join(dst, "data", "compact_log")); e == nil && len(ents) > 0 {
		out.Probes["crash image holds a compaction intent log"]++
	}
}

// flushStart: step at which the flush now in flight was started (-1: none).
func (run *cwRun) flushStart() int {
	if tr := run.cur[cwTFlusher]; tr != nil {
		return tr.start
	}
	return -1
}

func (h *cwHist) ackedSince(step int) bool {
	if step < 0 {
		return false
	}
	for _, w := range h.writes {
		if w.acked >= step && w.issued >= step {
			return true
		}
	}
	return false
}

func (h *cwHist) inflightWrites() string {
	var ids []int
	for _, w := range h.writes {
		if w.acked < 0 && !w.failed {
			ids = append(ids, w.id)
		}
	}
	sort.Ints(ids)
	var p []string
	for _, id := range ids {
		p = append(p, fmt.Sprintf("w%d", id))
	}
	return strings.Join(p, ",")
}

type cwRecovered struct {
	node *sNode
	err  error
	how  string
}

// cwGuard runs fn on its own goroutine with a watchdog; a panic or a hang is reported, not propagated.
func cwGuard(limit time.Duration, fn func() error) (err error, how string) {
	ch := make(chan error, 1)
	go func() {
		defer func() {
			if r := recover(); r != nil {
				ch <- fmt.Errorf("panic: %v [%s]", r, cwInnerFrames(string(debug.Stack())))
			}
		}()
		ch <- fn()
	}()
	select {
	case e := <-ch:
		if e != nil {
			if strings.HasPrefix(e.Error(), "panic: ") {
				return e, "panic"
			}
			return e, "error"
		}
		return nil, ""
	case <-time.After(limit):
		return fmt.Errorf("did not return within %v", limit), "hang"
	}
}

// recoverAndJudge opens a new shard incarnation on the image (fresh path), reads every
// measurement in full, judges, closes and discards the incarnation.
func (run *cwRun) recoverAndJudge(dir string, where string, at map[string]string) *core.Violation {
	out, cr := run.out, run.crash
	if err := simfs.RelocateTxn(dir, filepath.Dir(dir), dir); err != nil {
		panic(core.InfraPanic("relocate: " + err.Error()))
	}
	cd := run.fs.NewDisk(dir) // journalled, never gated; fenced when the incarnation is discarded
	defer func() {
		cd.Kill()
		run.fs.Forget(cd)
		_ = os.RemoveAll(dir)
	}()
	out.Stats["crash_states"]++
	var orph []string
	for f := range cr.orphans {
		if _, err := os.Stat(filepath.Join(dir, f)); err == nil {
			orph = append(orph, f)
		}
	}
	sort.Strings(orph)
	if len(orph) > 0 {
		out.Probes["crash image holds a data file that the live shard had in no in-memory list"]++
	}
	fail := func(kind, detail string, extra map[string]string) *core.Violation {
		a := map[string]string{"unlisted_files": "no"}
		if len(orph) > 0 {
			a["unlisted_files"] = "yes"
			detail += "\n  data files of the image that the live shard had on disk but in no in-memory file list (with no flush/compaction/merge in flight): " + strings.Join(orph, " ")
		}
		for k, v := range at {
			a[k] = v
		}
		for k, v := range extra {
			a[k] = v
		}
		return sviol(run.prop, kind, where+": "+detail, a)
	}
	image := cwTreeList(dir) // (recovery removes the log files it has replayed)
	var node *sNode
	t0 := time.Now()
	err, how := cwGuard(20*time.Second, func() error {
		n, e := openShard(dir, run.c.Knobs, uint64(1000+cr.n))
		node = n
		return e
	})
	out.Stats["crash_recover_us"] += time.Since(t0).Microseconds()
	if err != nil {
		if how == "hang" {
			cwLeaks++
		}
		return fail("crash_open_failed", "start-up on the crash image failed: "+err.Error()+"\n  image: "+image, map[string]string{"how": how})
	}
	defer func() {
		if e, how := cwGuard(10*time.Second, func() error { return cwCloseNode(node) }); e != nil {
			out.Stats["crash_incarnation_close_"+how]++
		}
	}()
	for m := 0; m < run.c.NMst; m++ {
		op := COp{K: "q", M: m, A: 0, B: sNumTimes - 1, Chunk: run.c.Knobs.ChunkSize, Par: 1}
		var rows map[string][]sDumpRow
		var order []string
		err, how := cwGuard(20*time.Second, func() error {
			var e error
			rows, order, e = cwRunQuery(node.sh, cwQueryOf(op))
			return e
		})
		if err != nil {
			return fail("crash_query_error", fmt.Sprintf("full read of %s on the recovered shard failed: %v", sMstName(m), err), map[string]string{"how": how})
		}
		out.Stats["crash_reads"]++
		if kind, detail := run.h.checkCrash(m, rows, order); kind != "" {
			return fail(kind, detail+"\n  files of the recovered shard: "+cwFileLayout(node.sh, m)+"\n  image: "+image, nil)
		}
	}
	// one state in four: the recovered shard is used further — a batch that overwrites the cells of the
	// writes that were in flight and adds seeded rows, read back, a flush, read back again (a recovery that
	// left the sequencer, the index or the log numbering in a bad state shows only now)
	hs := cwHash("suffix", int64(run.c.SchedSeed>>1), int64(run.step))
	if hs%4 != 0 && cr.only == 0 {
		return nil
	}
	var rows []SRow
	var wk []int
	for i := range run.h.writes {
		wk = append(wk, i)
	}
	sort.Ints(wk)
	for _, i := range wk {
		if w := run.h.writes[i]; w.acked < 0 && !w.failed && i >= 0 && i < len(run.c.Ops) {
			for _, r := range run.c.Ops[i].Rows {
				r.F = 15
				rows = append(rows, r)
			}
		}
	}
	for k := 0; k < 2; k++ {
		hk := cwHash("suffix-row", int64(hs), int64(k))
		rows = append(rows, SRow{M: int(hk % uint64(run.c.NMst)), S: int((hk >> 8) % uint64(run.c.NSeries)), T: int((hk >> 16) % sNumTimes), F: 1 + int((hk>>24)%15)})
	}
	xop := COp{T: cwTPrologue, K: "w", ID: 900000 + cr.n, Rows: rows}
	undo := run.h.overlay(xop, run.step)
	defer undo()
	out.Stats["crash_states_used_further"]++
	if err, how := cwGuard(20*time.Second, func() error { return cwWriteTo(node.sh, xop) }); err != nil {
		return fail("crash_write_error_after_recovery", fmt.Sprintf("a write on the recovered shard failed: %v", err), map[string]string{"how": how, "after": "write"})
	}
	// (a series this write created becomes searchable with the index's next flush of its pending items - a
	// one-second timer in the product; the sequential worlds and world C's prologue flush it after a write too)
	node.ib.Flush()
	for _, after := range []string{"write", "write+flush"} {
		if after == "write+flush" {
			if err, how := cwGuard(20*time.Second, func() error { node.sh.ForceFlush(); return nil }); err != nil {
				return fail("crash_flush_error_after_recovery", fmt.Sprintf("a flush on the recovered shard failed: %v", err), map[string]string{"how": how, "after": after})
			}
		}
		for m := 0; m < run.c.NMst; m++ {
			op := COp{K: "q", M: m, A: 0, B: sNumTimes - 1, Chunk: run.c.Knobs.ChunkSize, Par: 1}
			var got map[string][]sDumpRow
			var order []string
			err, how := cwGuard(20*time.Second, func() error {
				var e error
				got, order, e = cwRunQuery(node.sh, cwQueryOf(op))
				return e
			})
			if err != nil {
				return fail("crash_query_error", fmt.Sprintf("full read of %s on the recovered shard (after one more %s) failed: %v", sMstName(m), after, err), map[string]string{"how": how, "after": after})
			}
			out.Stats["crash_reads"]++
			if kind, detail := run.h.checkCrash(m, got, order); kind != "" {
				return fail(kind, fmt.Sprintf("after one more %s on the recovered shard (write %d, rows %v): ", after, xop.ID, rows)+detail+"\n  files of the recovered shard: "+cwFileLayout(node.sh, m)+"\n  image: "+image,
					map[string]string{"after": after})
			}
		}
	}
	return nil
}

// overlay adds an acknowledged write that exists only on a recovered incarnation to the history (the live
// run never sees it); the returned function takes it out again.
func (h *cwHist) overlay(op COp, step int) (undo func()) {
	const idx = -1000000
	n0 := h.nAcked
	h.issue(idx, op, step)
	h.ack(idx, step)
	w := h.writes[idx]
	return func() {
		for _, r := range op.Rows {
			k := cellKey{r.M, r.S, r.T}
			for f, ws := range h.cells[k] {
				if len(ws) > 0 && ws[len(ws)-1] == w {
					h.cells[k][f] = ws[:len(ws)-1]
				}
				if len(h.cells[k][f]) == 0 {
					delete(h.cells[k], f)
				}
			}
			if len(h.cells[k]) == 0 {
				delete(h.cells, k)
			}
		}
		delete(h.writes, idx)
		delete(h.byID, op.ID)
		h.nAcked = n0
	}
}

// cwTreeList: the data and log files of an image (diagnostics in violation details).
func cwTreeList(root string) string {
	var fs []string
	_ = filepath.Walk(root, func(p string, info os.FileInfo, err error) error {
		if err != nil || info.IsDir() {
			return nil
		}
		rel, _ := filepath.Rel(root, p)
		if cwGatedPath(rel) {
			fs = append(fs, fmt.Sprintf("%s(%d)", rel, info.Size()))
		}
		return nil
	})
	sort.Strings(fs)
	if len(fs) > 40 {
		fs = append(fs[:40], "...")
	}
	return strings.Join(fs, " ")
}

// checkCrash: C01 under concurrency, per cell (series, timestamp, field) of measurement m.
// The recovered value must be the value of the latest write to that cell acknowledged before
// the crash, or of a write to that cell that was issued but not (observed as) acknowledged and
// is later than it; a row with an acknowledged field must be there; no row that no issued write
// contains; rows ascending, each timestamp once.
func (h *cwHist) checkCrash(m int, rows map[string][]sDumpRow, order []string) (kind, detail string) {
	for _, s := range order {
		g := rows[s]
		for i := 1; i < len(g); i++ {
			if g[i].Time == g[i-1].Time {
				return "crash_duplicate_timestamp", fmt.Sprintf("series %s of %s returns timestamp t=%d twice after recovery: %s and %s", s, sMstName(m), (g[i].Time-sBaseTime)/sStep, fmtRow(g[i-1]), fmtRow(g[i]))
			}
			if g[i].Time < g[i-1].Time {
				return "crash_wrong_order", fmt.Sprintf("series %s of %s is not in ascending time order after recovery: %s then %s", s, sMstName(m), fmtRow(g[i-1]), fmtRow(g[i]))
			}
		}
	}
	got := map[[2]int]sDumpRow{} // (series index, slot)
	var skeys []string
	for s := range rows {
		skeys = append(skeys, s)
	}
	sort.Strings(skeys)
	for _, s := range skeys {
		si, ok := cwSeriesIdx[s]
		if !ok {
			return "crash_extra_row", fmt.Sprintf("the recovered %s has a series %q that was never written", sMstName(m), s)
		}
		for _, r := range rows[s] {
			slot := int((r.Time - sBaseTime) / sStep)
			if (r.Time-sBaseTime)%sStep != 0 || slot < 0 || slot >= sNumTimes {
				return "crash_extra_row", fmt.Sprintf("recovered row %s of %s lies on no written timestamp", fmtRow(r), sMstName(m))
			}
			cell := cellKey{m, si, slot}
			fs := h.cells[cell]
			if fs == nil {
				return "crash_extra_row", fmt.Sprintf("recovered row %s of %s is contained in no write that was issued before the crash", fmtRow(r), sMstName(m))
			}
			got[[2]int{si, slot}] = r
			for _, f := range sFieldNames {
				gv, ok := r.Fields[f]
				if !ok {
					continue
				}
				ws := fs[f]
				last := h.lastAckedNow(ws)
				okv, older := false, -1
				for wi, w := range ws {
					if cellValue(w.id, SRow{M: cell.M, S: cell.S, T: cell.T}, f).equal(gv) {
						if wi >= last {
							okv = true
							break
						}
						older = wi
					}
				}
				if okv {
					continue
				}
				if older >= 0 {
					return "crash_stale_value", fmt.Sprintf("field %s of recovered row %s of %s holds the value of write %d, but the later write %d to the same cell was acknowledged (at step %d) before the crash (writes to the cell: %s)",
						f, fmtRow(r), sMstName(m), ws[older].id, ws[last].id, ws[last].acked, cwWriteList(ws))
				}
				return "crash_foreign_value", fmt.Sprintf("field %s of recovered row %s of %s (value attributable to write %d) was written to this cell by no write issued before the crash (writes to the cell: %s)",
					f, fmtRow(r), sMstName(m), attribute(gv), cwWriteList(ws))
			}
		}
	}
	// every acknowledged point is there, with every acknowledged field
	var ck []cellKey
	for k := range h.cells {
		if k.M == m && k.T >= 0 && k.T < sNumTimes { // (the range that is read back)
			ck = append(ck, k)
		}
	}
	sort.Slice(ck, func(i, j int) bool {
		if ck[i].S != ck[j].S {
			return ck[i].S < ck[j].S
		}
		return ck[i].T < ck[j].T
	})
	for _, k := range ck {
		r, present := got[[2]int{k.S, k.T}]
		for _, f := range sFieldNames {
			ws := h.cells[k][f]
			last := h.lastAckedNow(ws)
			if last < 0 {
				continue
			}
			if !present {
				return "crash_acked_point_missing", fmt.Sprintf("point {%s t=%d} of %s was acknowledged before the crash (write %d, acknowledged at step %d) and is missing after recovery (the recovered series has %d rows; writes to the cell: %s)",
					sSeriesKey(k.S), k.T, sMstName(m), ws[last].id, ws[last].acked, len(rows[sSeriesKey(k.S)]), cwWriteList(ws))
			}
			if _, ok := r.Fields[f]; !ok {
				return "crash_acked_field_missing", fmt.Sprintf("recovered row %s of %s lacks field %s written by write %d (acknowledged at step %d, before the crash)", fmtRow(r), sMstName(m), f, ws[last].id, ws[last].acked)
			}
		}
	}
	return "", ""
}

// lastAckedNow: index of the last write of ws (issue order) whose acknowledgement has been observed; -1 if none.
func (h *cwHist) lastAckedNow(ws []*cwWrite) int {
	last := -1
	for i, w := range ws {
		if w.acked >= 0 {
			last = i
		}
	}
	return last
}

// crashSelfCheck: at the end of a segment the image of the whole journal must equal the live
// directory (otherwise some code bypassed the seam and crash images would be wrong).
func (run *cwRun) crashSelfCheck() string {
	cr := run.crash
	if cr == nil || cr.disk == nil || cr.differs {
		return ""
	}
	for try := 0; ; try++ {
		j := cr.disk.Journal()
		cr.advance(j, len(j))
		a, err1 := simfs.TreeDigest(cr.disk.Root)
		b, err2 := simfs.TreeDigest(cr.base)
		if len(cr.disk.Journal()) != len(j) || err1 != nil || err2 != nil {
			if try < 5 {
				continue // a background goroutine of the index wrote meanwhile
			}
			return ""
		}
		var diffs []string
		for k, v := range a {
			if !sSeamIgnore(k) && b[k] != v {
				diffs = append(diffs, fmt.Sprintf("%s live=%s image=%s", k, v, b[k]))
			}
		}
		for k, v := range b {
			if _, ok := a[k]; !ok && !sSeamIgnore(k) {
				diffs = append(diffs, fmt.Sprintf("%s live=<absent> image=%s", k, v))
			}
		}
		if len(diffs) == 0 {
			run.out.Stats["crash_seam_self_checks"]++
			return ""
		}
		if try < 3 {
			time.Sleep(2 * time.Millisecond)
			continue
		}
		sort.Strings(diffs)
		if len(diffs) > 6 {
			diffs = diffs[:6]
		}
		cr.differs = true
		return "world C crash images: the journal of the live disk does not reproduce the live directory: " + strings.Join(diffs, "; ")
	}
}

// ---- generation --------------------------------------------------------------------

// genCrash: the shapes property C01 is about under concurrency — writers that overwrite their
// own recent cells, several flushes, a compaction / merge, sometimes a close; no readers (live
// queries are C04's subject), no dropper, one WAL partition (the listed replay-order defect of
// several partitions is kept out).
func (worldC) genCrash(r *core.Rand, env *core.Env) CCase {
	c := CCase{Prop: env.Property, Knobs: genKnobs(r), MaxSteps: 400}
	c.Knobs.MutableLimit = 30 << 20
	c.Knobs.Partitions = 1
	c.Knobs.MinGroupFiles = core.Pick(r, []int{2, 2, 3})
	c.Knobs.ReplayParallel = false
	c.NMst = r.Range(1, 2)
	c.NSeries = r.Range(2, 4)
	nW := r.Range(2, 3)
	c.SchedSeed = r.Uint64()
	c.PCT = r.Bool(0.4)
	c.PCTDepth = r.Range(1, 3)
	c.ReadGate = core.Pick(r, []string{"", "", "seqload", "seqload,compact,merge"})
	c.ReadNth = core.Pick(r, []int{1, 2, 4})
	lateSeries := -1
	if r.Bool(0.3) {
		lateSeries = r.Intn(c.NSeries) // a series whose first point is written by a concurrent writer
	}
	next := map[[2]int]int{}
	fresh := func(m, s int) int {
		k := [2]int{m, s}
		t := next[k]
		if t >= sNumTimes {
			return r.Intn(sNumTimes)
		}
		next[k] = t + 1 + r.Intn(2)
		return t
	}
	mask := func() int {
		if r.Bool(0.5) {
			return 15
		}
		return 1 + r.Intn(15)
	}
	first := COp{T: cwTPrologue, K: "w"}
	for m := 0; m < c.NMst; m++ {
		for s := 0; s < c.NSeries; s++ {
			if s == lateSeries {
				continue
			}
			for j, n := 0, r.Range(1, 3); j < n; j++ {
				first.Rows = append(first.Rows, SRow{M: m, S: s, T: fresh(m, s), F: mask()})
			}
		}
	}
	c.Ops = append(c.Ops, first)
	for i, n := 0, r.Range(0, 5); i < n; i++ {
		switch r.Weighted([]int{5, 4, 1, 2}) {
		case 0:
			op := COp{T: cwTPrologue, K: "w"}
			for j, k := 0, r.Range(1, 4); j < k; j++ {
				m, s := r.Intn(c.NMst), r.Intn(c.NSeries)
				if s == lateSeries {
					continue
				}
				t := fresh(m, s)
				if r.Bool(0.35) && next[[2]int{m, s}] > 0 {
					t = r.Intn(next[[2]int{m, s}])
				}
				op.Rows = append(op.Rows, SRow{M: m, S: s, T: min(t, sNumTimes-1), F: mask()})
			}
			if len(op.Rows) > 0 {
				c.Ops = append(c.Ops, op)
			}
		case 1:
			c.Ops = append(c.Ops, COp{T: cwTPrologue, K: "flush"})
		case 2:
			c.Ops = append(c.Ops, COp{T: cwTPrologue, K: "compact", Level: r.Intn(2)})
		case 3:
			c.Ops = append(c.Ops, COp{T: cwTPrologue, K: "merge", Force: true})
		}
	}
	if r.Bool(0.5) {
		c.Ops = append(c.Ops, COp{T: cwTPrologue, K: "flush"}, COp{T: cwTPrologue, K: "reopen"})
	}
	rounds := 1
	if r.Bool(0.3) {
		rounds = 2
	}
	for round := 0; round < rounds; round++ {
		if round > 0 {
			c.Ops = append(c.Ops, COp{T: cwTPrologue, K: "reopen"})
		}
		var per [cwNTasks][]COp
		for w := 0; w < nW; w++ {
			t := cwTWriter1 + w
			var mine [][2]int
			for m := 0; m < c.NMst; m++ {
				for s := 0; s < c.NSeries; s++ {
					if s%nW == w {
						mine = append(mine, [2]int{m, s})
					}
				}
			}
			if len(mine) == 0 {
				continue
			}
			var recent [][3]int // cells this writer wrote in this round (overwrites across a flush's log switch)
			for i, nw := 0, r.Range(3, 6); i < nw; i++ {
				op := COp{T: t, K: "w"}
				for j, n := 0, r.Range(1, 3); j < n; j++ {
					ms := core.Pick(r, mine)
					tt := fresh(ms[0], ms[1])
					switch {
					case len(recent) > 0 && r.Bool(0.45):
						rc := recent[len(recent)-1-r.Intn(min(len(recent), 3))] // one of its last three cells
						ms, tt = [2]int{rc[0], rc[1]}, rc[2]
					case r.Bool(0.2) && next[ms] > 0:
						tt = r.Intn(next[ms]) // overwrite of an older cell / late data
					}
					tt = min(tt, sNumTimes-1)
					op.Rows = append(op.Rows, SRow{M: ms[0], S: ms[1], T: tt, F: mask()})
					recent = append(recent, [3]int{ms[0], ms[1], tt})
				}
				per[t] = append(per[t], op)
			}
		}
		for i, n := 0, r.Range(2, 4); i < n; i++ {
			per[cwTFlusher] = append(per[cwTFlusher], COp{T: cwTFlusher, K: "flush"})
		}
		for i, n := 0, r.Range(1, 3); i < n; i++ {
			switch r.Weighted([]int{3, 1, 4}) {
			case 0:
				per[cwTCompact] = append(per[cwTCompact], COp{T: cwTCompact, K: "compact", Level: r.Intn(2)})
			case 1:
				per[cwTCompact] = append(per[cwTCompact], COp{T: cwTCompact, K: "fullcompact"})
			case 2:
				per[cwTCompact] = append(per[cwTCompact], COp{T: cwTCompact, K: "merge", Force: r.Bool(0.8)})
			}
		}
		if round == rounds-1 && r.Bool(0.25) {
			per[cwTCloser] = append(per[cwTCloser], COp{T: cwTCloser, K: "close"})
		}
		cwInterleave(r, &c, &per)
	}
	return c
}

// cwWalWarmTo: in one case of oneIn the (first) prologue is extended by (small write, flush) pairs until it has
// created 7 or 8 log files since its last restart: log files are named <seq>.wal without padding, so the first or
// second flush of the concurrent phase then has 9.wal closed and pending removal while the next write creates
// 10.wal — two files whose names a restart has to order numerically (seeded change C01-d ordered them as strings).
func cwWalWarmTo(r *core.Rand, c *CCase, oneIn int) {
	if r.Intn(oneIn) != 0 {
		return
	}
	target := r.Range(7, 8)
	pos, files, dirty := 0, 0, false
	for i, op := range c.Ops {
		if op.T != cwTPrologue {
			break
		}
		pos = i + 1
		switch op.K {
		case "w":
			if !dirty {
				files++ // the first write after a log switch creates the next file
			}
			dirty = true
		case "flush":
			dirty = false
		case "reopen":
			files, dirty = 0, false // a clean close leaves no log file; numbering restarts
		}
	}
	var warm []COp
	if dirty {
		warm = append(warm, COp{T: cwTPrologue, K: "flush"})
	}
	for ; files < target; files++ {
		warm = append(warm, COp{T: cwTPrologue, K: "w", Rows: []SRow{{M: 0, S: 0, T: 0, F: 15}}}, COp{T: cwTPrologue, K: "flush"})
	}
	ops := append([]COp(nil), c.Ops[:pos]...)
	ops = append(ops, warm...)
	c.Ops = append(ops, c.Ops[pos:]...)
	id := 0
	for i := range c.Ops {
		if c.Ops[i].K == "w" {
			id++
			c.Ops[i].ID = id
		}
	}
}

// cwCrashKey: the crash plan's part of the case digest ("" when there is none: digests of older cases stay as they were).
func cwCrashKey(c CCase) string {
	if c.CrashEvery == 0 && !c.CrashTorn && c.OnlyCrashStep == 0 {
		return ""
	}
	return fmt.Sprint("|crash ", c.CrashEvery, c.CrashTorn, c.OnlyCrashStep, c.OnlyCrashVar, c.OnlyCrashCut)
}

// cwDrawCrashPlan: drawn last.
func cwDrawCrashPlan(r *core.Rand, c *CCase) {
	c.CrashEvery = core.Pick(r, []int{1, 1, 1, 2, 3, 5})
	c.CrashTorn = r.Bool(0.5)
}

// Pin: the replay checks the recorded crash step (of the recorded schedule) only.
func (worldC) Pin(c CCase, v *core.Violation) (CCase, bool) {
	if v == nil || v.Attrs["phase"] != "crash" {
		return c, false
	}
	step, err := strconv.Atoi(v.Attrs["step"])
	if err != nil || step <= 0 {
		return c, false
	}
	n := cwGuide(c, cwClone(c))
	n.OnlyCrashStep = step
	n.OnlyCrashVar = 0
	if v.Attrs["variant"] == "torn" {
		n.OnlyCrashVar = 1
		n.OnlyCrashCut, _ = strconv.Atoi(v.Attrs["torn_bytes"])
	}
	return n, true
}
