package engine

// World P — one replica group of three store nodes replicating writes through
// etcd-raft (property C05).  Per node: real EngineImpl + DBPTInfo + raftconn.RaftNode
// + lib/raftlog + the shard write path, each on its own simulated disk, all inside
// one testing/synctest bubble (virtual clock; the scheduler goroutine is the only
// one that sleeps on purpose, synctest.Wait is the quiescence test after every
// step).  Stubs: transport (pwNet), meta service (pwMeta over a real meta.Data),
// coordinator (startWrite/writePart), SQL layer.  Every case runs in a child
// process of the worker (p_proc.go).
//
// Files: p_env.go (setup, meta facade, node incarnation, network), p_sched.go
// (steps, client, delivery, crash/restart, closing phase), p_oracle.go (committed
// prefix, master/replica dumps against the model), p_proc.go (parent/child).

import (
	"fmt"
	"os"
	"runtime"
	"sort"
	"strings"
	"testing"
	"testing/synctest"
	"time"

	"github.com/openGemini/openGemini/verifsim/core"
)

// POp is one scheduler step.
type POp struct {
	K     string `json:"k"`               // w | run | pump | tick | crash | restart | part | heal | flush | read | hold | xfer | aresume
	ID    int    `json:"id,omitempty"`    // w: write id
	Rows  []SRow `json:"rows,omitempty"`  // w
	Async bool   `json:"async,omitempty"` // w: leave the call in flight
	Ms    int    `json:"ms,omitempty"`    // run / tick: virtual milliseconds
	N     int    `json:"n,omitempty"`     // pump: number of network actions
	Seed  uint64 `json:"seed,omitempty"`  // seeds the choices made inside the step
	Sel   string `json:"sel,omitempty"`   // crash / part / flush: leader | master | follower | n0 | n1 | n2
	Back  int    `json:"back,omitempty"`  // crash: permille of the un-observed journal tail that is lost
	Torn  bool   `json:"torn,omitempty"`  // crash: the write in flight at the cut lands as a prefix
	OneW  bool   `json:"onew,omitempty"`  // part: only messages towards the node are blocked
	Pause bool   `json:"pause,omitempty"` // part: the process is paused (unreachable for clients too; the meta service fails it over)
	Early bool   `json:"early,omitempty"` // crash: the earliest legal kill instant - right after the victim's last observed action (delivered message, answered client)
	Tight bool   `json:"tight,omitempty"` // w (synchronous): deliveries stop at the instant the client has its answer
	Until string `json:"until,omitempty"` // tick: stop when a vote request is queued (vote; vote2: one of another node) / pump: stop when a granted vote was delivered (voteresp)
	Only  string `json:"only,omitempty"`  // pump: vote = only links whose next message is a vote request or response
	All   bool   `json:"all,omitempty"`   // aresume: nothing of the rest of the commit batch parks
}

type PCase struct {
	Prop    string `json:"prop"`
	Knobs   SKnobs `json:"knobs"`
	NMst    int    `json:"nmst"`
	NSeries int    `json:"nseries"`
	Seed    uint64 `json:"seed"`
	Drop    int    `json:"drop"`    // permille of raft messages dropped while running
	Dup     int    `json:"dup"`     // permille duplicated
	Reorder int    `json:"reorder"` // permille taken out of FIFO order
	SyncMs  int    `json:"sync_ms"` // raft entry log sync interval
	MetaLag bool   `json:"meta_lag"`
	SGSplit bool   `json:"sg_split"` // shard groups of one hour and time slots in two consecutive hours: the second group is created by the first write into it
	SplitMeta bool `json:"split_meta"` // crash cuts may fall inside a run of raft.meta writes (lib/raftlog's own subject, C17)
	Second  int    `json:"second"` // node killed in the closing "later, different failure" exercise (-1: seeded)
	Yield   bool   `json:"yield,omitempty"` // every file-system mutation of a node first yields to the node's other goroutines (the raft message sender above all)
	Flav    string `json:"flav,omitempty"`  // generator flavour (statistics only)
	// crash images: "observed" = the journal may be cut anywhere after the victim's last OBSERVED action (every generated
	// case); "" = at or after its last send, delivered or not (the rule of replay files recorded before, kept for them)
	Cut string `json:"cut,omitempty"`
	Ops     []POp  `json:"ops"`
	// scheduling points inside the apply path (p_yield.go): 0 / absent = off; n: the apply loop of a node parks between two
	// entries of one commit batch (1: before every entry but the first; n > 1: at one in n arrivals, seeded)
	ApplyYield int `json:"apply_yield,omitempty"`
	ApplyHold  int `json:"apply_hold,omitempty"` // a parked apply loop is resumed after this many steps at the latest (0: seeded, 2..4)
}

type worldP struct{}


func (worldP) Name() string { return "P" }

func (worldP) Components() ([]string, []string) {
	return []string{"engine.EngineImpl (Assign/startRaftNode, WriteToRaft, SendRaftMessage, readCommitFromRaft/dealCommitData, readReplayForReplication, CreateShard, WriteRows, ForceFlush, Close)",
			"lib/raftconn.RaftNode + go.etcd.io/etcd/raft/v3", "lib/raftlog on simfs", "engine shard write/read path, WAL, index (as world S)",
			"lib/metaclient.Client read side over a real meta.Data (DBPtView, DBRepGroups, ShardOwner, GetAliveShards, Measurement)",
			"meta.Data replication bookkeeping (CreateDBReplication, UpdateNodeStatus, UpdatePtInfo, UpdateReplication, GetFailedPtInfos)"},
		[]string{"transport: simulated network on raftconn.RaftNode.ISend / Engine.SendRaftMessage", "clock: testing/synctest bubble",
			"meta service + cluster manager decisions (facade calling the real meta.Data methods; electRgMaster re-stated)",
			"coordinator (simulated client routing by GetAliveShards and retrying like points_writer.go)", "StorageService (adapter restating storage.Write/WriteDataFunc)", "SQL layer"}
}

func (worldP) NumOps(c PCase) int { return len(c.Ops) }

// pwNormCase makes every shard-group part of every write batch attributable: its
// first row carries the integer field (the apply hook reads the write id from it).
func pwNormCase(c PCase) PCase {
	n := pwCloneCase(c)
	span := 1 << 30
	if c.SGSplit {
		span = int(pwSGSpan / time.Second)
	}
	for i := range n.Ops {
		seen := map[int]bool{}
		for j := range n.Ops[i].Rows {
			row := &n.Ops[i].Rows[j]
			if row.F&15 == 0 {
				continue
			}
			if k := row.T / span; !seen[k] {
				seen[k] = true
				row.F |= 4
			}
		}
	}
	return n
}

func pwCloneCase(c PCase) PCase {
	n := c
	n.Ops = make([]POp, len(c.Ops))
	for i, op := range c.Ops {
		op.Rows = append([]SRow(nil), op.Rows...)
		n.Ops[i] = op
	}
	return n
}

func (worldP) Subset(c PCase, keep []int) PCase {
	n := c
	n.Ops = nil
	for _, i := range keep {
		op := c.Ops[i]
		op.Rows = append([]SRow(nil), op.Rows...)
		n.Ops = append(n.Ops, op)
	}
	return n
}

func (worldP) Simplify(c PCase) []PCase {
	var out []PCase
	if c.Drop+c.Dup+c.Reorder > 0 {
		n := pwCloneCase(c)
		n.Drop, n.Dup, n.Reorder = 0, 0, 0
		out = append(out, n)
	}
	if c.MetaLag {
		n := pwCloneCase(c)
		n.MetaLag = false
		out = append(out, n)
	}
	if c.SplitMeta {
		n := pwCloneCase(c)
		n.SplitMeta = false
		out = append(out, n)
	}
	if c.Yield {
		n := pwCloneCase(c)
		n.Yield = false
		out = append(out, n)
	}
	if c.ApplyYield > 0 {
		n := pwCloneCase(c)
		n.ApplyYield, n.ApplyHold = 0, 0
		out = append(out, n)
	}
	if c.SGSplit && !c.MetaLag {
		n := pwCloneCase(c)
		n.SGSplit = false
		out = append(out, n)
	}
	for i, op := range c.Ops {
		if op.K == "w" && len(op.Rows) > 1 {
			n := pwCloneCase(c)
			n.Ops[i].Rows = n.Ops[i].Rows[:1]
			out = append(out, n)
		}
		if op.K == "w" && op.Async {
			n := pwCloneCase(c)
			n.Ops[i].Async = false
			out = append(out, n)
		}
		if op.K == "crash" && (op.Back > 0 || op.Torn || op.Early) {
			n := pwCloneCase(c)
			n.Ops[i].Back, n.Ops[i].Torn, n.Ops[i].Early = 0, false, false
			out = append(out, n)
		}
		if op.K == "w" && op.Tight {
			n := pwCloneCase(c)
			n.Ops[i].Tight = false
			out = append(out, n)
		}
		if op.K == "run" && op.Ms > 1000 {
			n := pwCloneCase(c)
			n.Ops[i].Ms = 1000
			out = append(out, n)
		}
	}
	if c.Knobs.Partitions > 1 || c.Knobs.MutableLimit < 1<<20 {
		n := pwCloneCase(c)
		n.Knobs.Partitions = 1
		n.Knobs.MutableLimit = 30 << 20
		out = append(out, n)
	}
	if c.NSeries > 1 || c.NMst > 1 {
		n := pwCloneCase(c)
		for i := range n.Ops {
			for j := range n.Ops[i].Rows {
				n.Ops[i].Rows[j].M = 0
				n.Ops[i].Rows[j].S = 0
			}
		}
		n.NMst, n.NSeries = 1, 1
		out = append(out, n)
	}
	return out
}

func (worldP) Neutralise(c PCase, name string) (PCase, bool) {
	switch name {
	case "no-meta-lag":
		if !c.MetaLag {
			return c, false
		}
		n := pwCloneCase(c)
		n.MetaLag = false
		return n, true
	case "one-shard-group":
		if !c.SGSplit {
			return c, false
		}
		n := pwCloneCase(c)
		n.SGSplit, n.MetaLag = false, false
		return n, true
	case "atomic-raft-meta":
		if !c.SplitMeta {
			return c, false
		}
		n := pwCloneCase(c)
		n.SplitMeta = false
		return n, true
	case "no-journal-cut":
		ch := false
		n := pwCloneCase(c)
		for i := range n.Ops {
			if n.Ops[i].K == "crash" && (n.Ops[i].Back > 0 || n.Ops[i].Torn || n.Ops[i].Early) {
				n.Ops[i].Back, n.Ops[i].Torn, n.Ops[i].Early = 0, false, false
				ch = true
			}
		}
		return n, ch
	}
	return c, false
}

// ---- generation ---------------------------------------------------------------------

func pwGenRows(r *core.Rand, c *PCase, written *[]SRow) []SRow {
	n := r.Range(1, 4)
	if r.Intn(6) == 0 {
		n = r.Range(5, 12)
	}
	var rows []SRow
	for j := 0; j < n; j++ {
		var row SRow
		if len(*written) > 0 && r.Bool(0.45) { // overwrite of an earlier cell
			row = (*written)[r.Intn(len(*written))]
		} else {
			row = SRow{M: r.Intn(c.NMst), S: r.Intn(c.NSeries), T: r.Intn(sNumTimes)}
			if c.SGSplit && row.T >= sNumTimes/2 {
				row.T += int(pwSGSpan/time.Second) - sNumTimes/2 // second hour
			}
		}
		row.F = 1 + r.Intn(15)
		if r.Bool(0.4) {
			row.F = 15
		}
		if j == 0 {
			row.F |= 4 // "fi": makes the batch attributable to its write id
		}
		rows = append(rows, row)
		*written = append(*written, row)
	}
	return rows
}

func (worldP) Gen(r *core.Rand, env *core.Env) PCase {
	c := pwGenCase(r, env)
	// drawn last: the rest of a case is what its seed produced before the knob existed
	pwGenApplyYield(r, env, &c)
	return c
}

func pwGenCase(r *core.Rand, env *core.Env) PCase {
	c := PCase{Prop: env.Property, Knobs: genKnobs(r), Second: -1, Cut: "observed"}
	c.Knobs.ReplayParallel = false
	if c.Knobs.Partitions > 4 {
		c.Knobs.Partitions = 4
	}
	c.NMst = r.Range(1, 2)
	c.NSeries = r.Range(1, 4)
	c.Seed = r.Uint64()
	if r.Bool(0.5) {
		c.Drop = core.Pick(r, []int{10, 30, 80})
		c.Dup = core.Pick(r, []int{0, 20, 60})
		c.Reorder = core.Pick(r, []int{0, 50, 200})
	}
	c.SyncMs = core.Pick(r, []int{0, 100})
	c.SplitMeta = r.Intn(8) == 0
	c.SGSplit = r.Bool(0.4)
	c.MetaLag = c.SGSplit && r.Bool(0.5)
	// a quarter of the cases aims at the "persist before you send / answer" rule (p_flavours.go)
	f := r.Intn(100)
	dev := os.Getenv("VERIF_PFLAV") // development aid: every case of one flavour (never set by vsim)
	if dev != "" {
		f = 0
	}
	if f < 33 {
		flav := "ack_kill"
		switch {
		case f >= 25:
			flav = "flush_mid_batch"
		case f >= 19:
			flav = "send_kill_storm"
		case f >= 14:
			flav = "vote_kill"
		case f >= 10:
			flav = "leader_ack_kill"
		}
		if dev != "" {
			flav = dev
		}
		pwGenFlavour(r, env, &c, flav)
		return c
	}
	c.Yield = r.Bool(0.3)
	nops := r.Range(10, 34)
	if env.Tier == "thorough" {
		nops = r.Range(12, 60)
	}
	wid := 0
	crashes := 0
	down, cut := false, false
	var written []SRow
	roles := []string{"leader", "leader", "master", "follower", "follower", "n0", "n1", "n2"}
	for i := 0; i < nops; i++ {
		w := []int{40, 8, 10, 5, 9, 0, 6, 0, 6, 8}
		//         w   wa run pump crash restart part heal flush read
		if down {
			w[4], w[5], w[6] = 0, 14, 0
		}
		if cut {
			w[4], w[6], w[7] = 0, 0, 12
		}
		if crashes >= 6 {
			w[4] = 0
		}
		switch r.Weighted(w) {
		case 0, 1:
			wid++
			op := POp{K: "w", ID: wid, Rows: pwGenRows(r, &c, &written), Seed: r.Uint64()}
			op.Async = false
			c.Ops = append(c.Ops, op)
		case 2:
			c.Ops = append(c.Ops, POp{K: "run", Ms: core.Pick(r, []int{400, 1200, 5000, 12000}), Seed: r.Uint64()})
		case 3:
			c.Ops = append(c.Ops, POp{K: "pump", N: r.Range(1, 6), Seed: r.Uint64()})
		case 4:
			op := POp{K: "crash", Sel: core.Pick(r, roles), Seed: r.Uint64()}
			if r.Bool(0.5) {
				op.Back = r.Range(1, 1000)
				op.Torn = r.Bool(0.3)
			}
			// sometimes with a write in flight, sometimes right after a flush of the victim
			switch r.Intn(4) {
			case 0:
				wid++
				c.Ops = append(c.Ops, POp{K: "w", ID: wid, Rows: pwGenRows(r, &c, &written), Async: true, Seed: r.Uint64()},
					POp{K: "pump", N: r.Range(0, 8), Seed: r.Uint64()})
			case 1:
				c.Ops = append(c.Ops, POp{K: "flush", Sel: op.Sel})
			}
			c.Ops = append(c.Ops, op)
			crashes++
			down = true
		case 5:
			c.Ops = append(c.Ops, POp{K: "restart"})
			down = false
		case 6:
			op := POp{K: "part", Sel: core.Pick(r, roles)}
			if r.Bool(0.5) {
				op.Pause = true
			} else {
				op.OneW = r.Bool(0.4)
			}
			c.Ops = append(c.Ops, op)
			cut = true
		case 7:
			c.Ops = append(c.Ops, POp{K: "heal"})
			cut = false
		case 8:
			c.Ops = append(c.Ops, POp{K: "flush", Sel: core.Pick(r, roles)})
		case 9:
			c.Ops = append(c.Ops, POp{K: "read"})
		}
	}
	return c
}

// ---- execution ------------------------------------------------------------------------

func pviol(kind, detail string, attrs map[string]string) *core.Violation {
	return &core.Violation{Property: "C05", Kind: kind, Detail: detail, Attrs: attrs}
}

func (w worldP) Exec(c PCase, env *core.Env) *core.Outcome {
	return pwExecParent(c, env)
}

// pwExecInBubble runs the case in this process (the child), inside one bubble.
func pwExecInBubble(pt *testing.T, c PCase, env *core.Env) (out *core.Outcome) {
	out = core.NewOutcome()
	pwSetup()
	pwNextDB()
	defer func() {
		if r := recover(); r != nil {
			msg := fmt.Sprint(r)
			if strings.Contains(msg, "deadlock: main bubble goroutine has exited") {
				// leftover goroutines of the code under test that wait for nothing (they can do
				// no harm: their bubble is gone); recorded, not judged
				out.Stats["bubble_leftover_goroutines"]++
				return
			}
			panic(r)
		}
	}()
	synctest.Test(pt, func(t *testing.T) {
		run := &pwRun{cs: c, env: env, out: out}
		defer func() {
			if r := recover(); r != nil {
				if ip, ok := r.(core.InfraPanic); ok {
					out.Infra = string(ip)
				} else {
					buf := make([]byte, 16<<10)
					buf = buf[:runtime.Stack(buf, false)]
					kind := "panic"
					if strings.Contains(fmt.Sprint(r), "deadlock: all goroutines in bubble are blocked") {
						kind = "deadlock"
					}
					out.Violation = pviol(kind, fmt.Sprintf("panic on the scheduler goroutine: %v\n%s", r, buf), map[string]string{"phase": run.phase})
				}
			}
			run.shutdown()
		}()
		run.exec()
	})
	return out
}

func TestVerifWorldP(t *testing.T) {
	if os.Getenv("VERIF_MODE") == "pchild" {
		pwChildMain(t)
		return
	}
	core.RunWorker[PCase](worldP{})
}

// runAttrs: attributes every violation of the run carries (matcher keys).
func (r *pwRun) runAttrs() map[string]string {
	return map[string]string{"window": r.windowStr(), "meta_torn": fmt.Sprint(r.metaTorn), "flush_cut": fmt.Sprint(r.flushCut),
		"after_unapplied_ack": fmt.Sprint(r.unapplied), "multi_shard_flush": fmt.Sprint(r.multiShardFlush()),
		"split_meta": fmt.Sprint(r.cs.SplitMeta), "meta_lag": fmt.Sprint(r.cs.MetaLag), "sg_split": fmt.Sprint(r.cs.SGSplit)}
}

// multiShardFlush: the partition has two shards (two shard groups) and a memtable
// flush of one of them may have happened (explicit step, or size-triggered).
func (r *pwRun) multiShardFlush() bool {
	return r.cs.SGSplit && (r.flushed || r.cs.Knobs.MutableLimit < 1<<20)
}

func (r *pwRun) known(v *core.Violation) string {
	// development aid: VERIF_PSKIP=token,token steps over violations whose kind equals a
	// token or that carry an attribute "k=v" equal to a token (never set by vsim)
	if sk := os.Getenv("VERIF_PSKIP"); sk != "" {
		for _, tok := range strings.Split(sk, ",") {
			if tok == v.Kind {
				r.out.Stats["dev_skipped"]++
				return "dev-skip"
			}
			if k, val, ok := strings.Cut(tok, "="); ok && v.Attrs[k] == val {
				r.out.Stats["dev_skipped"]++
				return "dev-skip"
			}
		}
	}
	id := pwAskKnown(v)
	if r.dbg {
		fmt.Printf("KNOWN? kind=%s attrs=%v -> %q\n", v.Kind, v.Attrs, id)
	}
	if id != "" {
		r.out.Stats["violations_stepped_over"]++
	}
	return id
}

// pwRun is the state of one execution.
type pwRun struct {
	cs    PCase
	env   *core.Env
	out   *core.Outcome
	c     *pwCluster
	r     *core.Rand
	phase string
	opi   int

	model    *sModel
	indet    []*pwCall // writes whose outcome the client does not know
	calls    []*pwCall
	pending  *pwCall
	lastAck  *pwCall
	canon    []pwEnt // agreed committed log (index -> term, digest), canon[0] = index 1
	faults   map[string]bool
	window   map[string]bool // fault kinds since the last settled point
	downNode int             // -1: none
	cutNode  int             // -1: none
	victims  []string
	masterChangedAt int // op index of the last master change
	leaderHint int
	leaderTerm uint64
	dbg      bool
	stuck    []*pwCall
	canonBy  []int
	lastVictimRole string
	lastCut  string
	metaTorn bool
	paused   bool
	flushed  bool
	unapplied bool // some acknowledged write had not been applied (listed finding stepped over)
	flushCut bool // some crash so far cut the journal inside a memtable flush
	heldNode int  // node whose links were slowed down last (-1: none)
	ay       *pwApplyYield // scheduling points inside the apply path (nil: off)
	yieldedNode int        // node whose apply loop parked last (-1: none)
	pumpStop func() bool
	headFilter func(m *pwMsg) bool
	cand, voter, grants int
	votes    map[[2]uint64]uint64 // (voter, term) -> candidate the vote went to
	leaders  map[uint64]int       // term -> node seen acting as leader
	proposed map[int][][2]int     // write key -> (node, cluster-wide incarnation) of every attempt that reached a store (under net.mu)
}

func (r *pwRun) logf(format string, a ...interface{}) {
	r.out.Log(format, a...)
	if r.dbg {
		fmt.Printf("[t=%s] "+format+"\n", append([]interface{}{time.Now().Format("04:05.000")}, a...)...)
	}
}

func (r *pwRun) wait() { synctest.Wait() }

func (r *pwRun) exec() {
	c, out := r.cs, r.out
	r.dbg = os.Getenv("VERIF_DEBUG") != ""
	c = pwNormCase(c)
	r.cs = c
	r.r = core.NewRand(c.Seed)
	r.model = newSModel()
	r.faults = map[string]bool{}
	r.window = map[string]bool{}
	r.downNode, r.cutNode, r.leaderHint, r.heldNode = -1, -1, -1, -1
	r.cand, r.voter, r.yieldedNode = -1, -1, -1
	pwSeedRaft(c.Seed)
	pwFreshGlobals()
	r.phase = "bootstrap"
	r.c = pwNewCluster(r.env, out, c.Knobs, c.NMst, time.Duration(c.SyncMs)*time.Millisecond, c.SGSplit)
	r.c.lag = c.MetaLag
	r.c.yield = c.Yield
	if c.ApplyYield > 0 {
		r.ay = pwNewApplyYield(c, &r.opi)
		r.c.ay = r.ay
		r.ay.install()
		defer r.foldApplyStats()
		out.Stats["cases_with_apply_yields"]++
	}
	if c.Flav != "" {
		out.Stats["cases_flavour_"+c.Flav]++
	}
	if c.Yield {
		out.Stats["cases_with_yield_before_fs_mutations"]++
	}
	for i := 0; i < pwNNodes; i++ {
		if _, err := r.c.startNode(i, pwImagePath(r.env.Scratch, i, 0)); err != nil {
			out.Violation = pviol("start_failed", fmt.Sprintf("starting node %d on an empty disk failed: %v", i, err), map[string]string{"phase": "bootstrap"})
			return
		}
	}
	r.c.syncAllMeta()
	r.wait()
	hd := []string{fmt.Sprintf("knobs=%+v nm=%d ns=%d drop=%d dup=%d reo=%d sync=%d lag=%v", c.Knobs, c.NMst, c.NSeries, c.Drop, c.Dup, c.Reorder, c.SyncMs, c.MetaLag)}
	if c.ApplyYield > 0 {
		hd[0] += fmt.Sprintf(" ay=%d/%d", c.ApplyYield, c.ApplyHold)
	}
	// initial election: the cluster is started and left alone until a leader exists
	if v := r.runFor(12*time.Second, core.NewRand(c.Seed^0x9e37), false); v != nil {
		v.Attrs = mergeAttrsS(v.Attrs, r.runAttrs())
		v.Attrs["phase"] = "bootstrap"
		out.Violation = v
		return
	}
	r.phase = "ops"
	for i, op := range c.Ops {
		r.opi = i
		hd = append(hd, pwOpDigest(op))
		if v := r.step(i, op); v != nil {
			v.Attrs = mergeAttrsS(v.Attrs, map[string]string{"op": op.K})
			if v = r.over(v, "ops"); v == nil {
				continue
			}
			out.Violation = v
			return
		}
		out.Stats["ops"]++
	}
	out.Digest = core.DigestStrings(hd)
	out.Nontrivial = out.Faults["crash"] > 0 && out.Stats["writes_acked"] > 1
	if v := r.closing(); v != nil {
		// violations of the oracles were already offered to the known-finding matcher by closing();
		// what arrives here is reported
		if v.Attrs["phase"] == "" {
			v.Attrs = mergeAttrsS(v.Attrs, r.runAttrs())
			v.Attrs["phase"] = r.phase
		}
		out.Violation = v
	}
	out.SimTimeNs = int64(time.Since(pwEpoch))
}

var pwEpoch = time.Date(2000, 1, 1, 0, 0, 0, 0, time.UTC)

func pwOpDigest(op POp) string {
	var b strings.Builder
	fmt.Fprintf(&b, "%s %d %v %d %d %s %d %v %v %v %v %v %s %s:", op.K, op.ID, op.Async, op.Ms, op.N, op.Sel, op.Back, op.Torn, op.OneW, op.Pause, op.Early, op.Tight, op.Until, op.Only)
	if op.All {
		b.WriteString("all:")
	}
	for _, r := range op.Rows {
		fmt.Fprintf(&b, "%d.%d.%d.%d,", r.M, r.S, r.T, r.F)
	}
	return b.String()
}

func (r *pwRun) windowStr() string {
	var ks []string
	for k := range r.window {
		ks = append(ks, k)
	}
	sort.Strings(ks)
	if len(ks) == 0 {
		return "none"
	}
	return strings.Join(ks, "+")
}

// shutdown ends every goroutine the run started so that the bubble can end.
func (r *pwRun) shutdown() {
	if r.c == nil {
		return
	}
	r.phase = "shutdown"
	if r.ay != nil {
		// parked apply loops end with their nodes (kill closes n.dead)
		r.ay.mu.Lock()
		r.ay.off = true
		r.ay.mu.Unlock()
	}
	func() {
		defer func() { _ = recover() }()
		for _, n := range r.c.nodes {
			if n != nil && n.alive {
				r.c.kill(n)
				r.c.reap(n)
			}
		}
		// client calls and commit waits of abandoned incarnations end by their own timeouts
		for k := 0; k < 40; k++ {
			time.Sleep(time.Second)
		}
		r.c.zombie.Wait()
	}()
	for _, n := range r.c.incs {
		n.disk.Kill()
		r.c.fs.Forget(n.disk)
	}
	if r.dbg {
		buf := make([]byte, 8<<20)
		buf = buf[:runtime.Stack(buf, true)]
		cnt := map[string]int{}
		for _, g := range strings.Split(string(buf), "\n\n") {
			ls := strings.Split(g, "\n")
			if len(ls) < 2 || !strings.Contains(ls[0], "synctest bubble") {
				continue
			}
			key := ls[1]
			for _, l := range ls {
				if strings.HasPrefix(l, "created by ") {
					key += " <- " + l
				}
			}
			cnt[key]++
		}
		for k, v := range cnt {
			fmt.Printf("LEFTOVER %d x %s\n", v, k)
		}
	}
}
