package engine

// World C execution: prologue, scheduler loop, task bodies, final checks.

import (
	"context"
	"fmt"
	"os"
	"path/filepath"
	"runtime"
	"runtime/debug"
	"sort"
	"strings"
	"sync/atomic"
	"time"

	"github.com/openGemini/openGemini/engine/immutable"
	"github.com/openGemini/openGemini/lib/util/lifted/vm/mergeset"
	"github.com/openGemini/openGemini/lib/util/lifted/vm/protoparser/influx"
	"github.com/openGemini/openGemini/verifsim/core"
	"github.com/openGemini/openGemini/verifsim/simfs"
	"github.com/openGemini/openGemini/verifsim/verifyield"
)

// cwLeaks counts executions of this process that ended in a deadlock: their
// goroutines stay blocked for ever and may hold process-wide limiter tokens.
var cwLeaks int

var cwDbgEnabled = os.Getenv("CW_DEBUG_ENABLED") != ""

// cwGCEvery: at GOMAXPROCS=1 the collector is run by the scheduler every so many steps.
const cwGCEvery = 24

// cwChaos: this worker runs with more than one P (orchestrator: "chaos_workers"); its runs
// are counted separately and it is not part of the determinism self-test.
var cwChaos = os.Getenv("VERIF_CHAOS") != ""

type cwRun struct {
	c     CCase
	env   *core.Env
	out   *core.Outcome
	prop  string
	fs    *simfs.FS
	sch   *cwSched
	node  *sNode
	disks []*simfs.Disk
	inc   int
	h     *cwHist
	step  int
	runs  []*cwTaskRun // started operations, in start order
	cur   [cwNTasks]*cwTaskRun
	nextOp [cwNTasks][]int // remaining op indexes per task
	doneCnt atomic.Int64
	closed  bool // the shard was closed by a task
	closeStarted bool
	attempt      int
	seqBehind    string
	seqBehindTxt string
	seqReorg      map[string]bool // compact/merge operations seen in flight while the current sequencer reload was loading
	seqBehindReorg string         // value of attribute reorg_during_reload, fixed when a reload finished behind an ordered file
	unlistedBeforeRestart string // "yes": at some clean close of this run a data file was on disk but in no in-memory list
	unlistedTxt           string
	plantFile    immutable.TSSPFile
	plantUnlock  func()
	closeStep    int
	trace   []string
	guide   []string
	rnd     *core.Rand
	prio    map[string]int
	pctAt   map[int]bool
	seen    map[[2]int]bool
	seqLoading bool
	oneP     bool // GOMAXPROCS == 1
	lastGC   int
	overlaps int64
	dbg bool
	crash *cwCrash // crash images at scheduler steps (c_crash.go); nil = none
}

func (worldC) Exec(c CCase, env *core.Env) *core.Outcome {
	out := cwExec(c, env)
	if os.Getenv("CW_DEBUG") != "" {
		for _, l := range out.APILog {
			fmt.Println("CWLOG", l)
		}
	}
	return out
}

func cwExec(c CCase, env *core.Env) *core.Outcome {
	n := c.Repeat
	if n < 1 {
		n = 1
	}
	var out *core.Outcome
	for i := 0; i < n; i++ {
		out = cwExecOnce(c, env, i)
		if out.Violation != nil || out.Infra != "" {
			if n > 1 {
				out.Stats["attempts"] = int64(i + 1)
			}
			break
		}
	}
	return out
}

func cwExecOnce(c CCase, env *core.Env, attempt int) *core.Outcome {
	out := core.NewOutcome()
	// world C keeps the reload of the per-series flush times asynchronous (started by
	// the first write after a restart): its races with flush/merge/close are the point
	sSyncSequencerLoad = false
	defer func() { sSyncSequencerLoad = true }()
	c.Knobs.FileCursor, c.Knobs.SegmentLimit = true, 65535 // product values (not configurable)
	prop := env.Property
	if prop == "" {
		prop = c.Prop
	}
	if prop == "" {
		prop = "C04"
	}
	if c.MaxSteps <= 0 {
		c.MaxSteps = 400
	}
	run := &cwRun{c: c, env: env, out: out, prop: prop, fs: simfs.Install(), h: newCwHist(c), rnd: core.NewRand(c.SchedSeed),
		attempt: attempt, seen: map[[2]int]bool{}, guide: append([]string(nil), c.Sched...), dbg: os.Getenv("CW_DEBUG") != ""}
	run.sch = newCwSched(c.ReadGate, c.ReadNth)
	run.sch.dbg = run.dbg
	run.sch.lockNth, run.sch.lockSeed, run.sch.lockSites = c.LockNth, int64(c.SchedSeed>>1), c.LockSites
	for _, cl := range strings.Split(c.LockCls, ",") {
		if cl != "" {
			run.sch.lockCls[cl] = true
		}
	}
	run.sch.oneP = runtime.GOMAXPROCS(0) == 1
	run.sch.serial = run.sch.oneP && !cwChaos && !c.NoGate && os.Getenv("CW_NO_SERIAL") == ""
	if c.LockNth > 0 || cwMicro || run.sch.serial {
		run.sch.installYield()
	}
	// (a case that is repeated — directed replays recorded when the map order was the
	// runtime's random one — tries another order in every attempt)
	verifyield.SetMapOrder(c.MapOrder + uint64(attempt))
	defer run.cleanup()
	if run.oneP = runtime.GOMAXPROCS(0) == 1; run.oneP {
		// a one-CPU machine: the index starts one part merger per table, not one per host CPU
		defer mergeset.VerifSetMergeWorkers(mergeset.VerifSetMergeWorkers(1))
		// one P: the garbage collector runs only where the scheduler calls it (at quiescent
		// points), so that its workers never reorder the goroutines of a step
		defer debug.SetGCPercent(debug.SetGCPercent(-1))
		t0 := time.Now()
		runtime.GC()
		out.Stats["gc_us"] += time.Since(t0).Microseconds()
	}
	base := filepath.Join(env.Scratch, fmt.Sprintf("a%d", attempt))
	run.crashPlan(base)
	if err := run.open(filepath.Join(base, "inc0"), ""); err != nil {
		out.Violation = sviol(prop, "open_failed", "opening an empty shard failed: "+err.Error(), nil)
		return out
	}
	out.Log("case knobs=%+v nm=%d ns=%d pct=%v readgate=%q/%d guided=%d maporder=%d", c.Knobs, c.NMst, c.NSeries, c.PCT, c.ReadGate, c.ReadNth, len(c.Sched), c.MapOrder)
	if cwChaos {
		out.Stats["chaos_runs"]++
	}
	if c.LockNth > 0 {
		out.Log("lock yields: 1 in %d, sites=%v classes=%q", c.LockNth, c.LockSites, c.LockCls)
		out.Stats["runs_with_lock_yields"]++
	}
	// ---- rounds: T==0 operations run alone (ungated); each maximal run of T>0
	// operations is one concurrent segment under the scheduler
	var v *core.Violation
	run.initPCT()
	for i := 0; i < len(c.Ops) && v == nil; {
		op := c.Ops[i]
		if op.T == cwTPrologue || op.T >= cwNTasks {
			v = run.prologueOp(i, op, base)
			i++
			continue
		}
		j := i
		for j < len(c.Ops) && c.Ops[j].T > cwTPrologue && c.Ops[j].T < cwNTasks {
			j++
		}
		if run.closed {
			out.Log("segment op%d..op%d skipped: the shard is closed", i, j-1)
		} else {
			run.node.ib.Flush()
			run.h.indexFlushed(run.step)
			if !c.LazyFiles {
				run.loadAllFiles()
			}
			for k := i; k < j; k++ {
				run.nextOp[c.Ops[k].T] = append(run.nextOp[c.Ops[k].T], k)
			}
			v = run.loop()
			run.sch.freeRun()
			for t := range run.nextOp {
				run.nextOp[t] = nil // operations that could not be started any more (closed shard)
			}
		}
		i = j
	}
	if cwMicro {
		for _, l := range run.sch.micro {
			out.Log("micro %s", l)
		}
	}
	// record the schedule for guided minimisation
	cwTraceMu.Lock()
	if len(cwTraces) > 64 {
		cwTraces = map[string][]string{}
	}
	cwTraces[cwCaseKey(c)] = append([]string(nil), run.trace...)
	cwTraceMu.Unlock()
	out.Digest = core.DigestStrings(append([]string{cwCaseKey(c)}, run.trace...))
	out.AddLayout(core.DigestStrings(run.trace))
	out.Stats["steps"] = int64(run.step)
	out.Stats["gated_fs_ops"] = atomic.LoadInt64(&run.sch.gatedOps)
	out.Stats["quiescence_polls"] = run.sch.polls
	out.Stats["overlap_steps"] = run.overlaps
	for cl, n := range run.sch.fsSteps {
		out.Stats["fs_steps_"+cl] += n
	}
	for cl, n := range run.sch.ySteps {
		out.Stats["yield_steps_"+cl] += n
		out.Stats["yield_steps"] += n
	}
	out.Stats["yield_arrivals"] = run.sch.yHits.Load()
	out.Stats["yield_parked"] = run.sch.yParked.Load()
	out.Stats["serialisation_parks"] = run.sch.yAuto.Load()
	out.Nontrivial = run.overlaps > 0 && run.h.nAcked > 0
	if v != nil {
		out.Violation = v
		return out
	}
	// ---- settled state: every task has finished; a fresh full query must now return
	// exactly the acknowledged points (cells of failed writes may be old or new)
	if run.crash != nil && prop == "C01" {
		// C01 in this world is judged on crash images only; live reads and the clean reopen
		// are clauses of C04 and are checked (and their findings listed) under that property
		out.Nontrivial = out.Stats["crash_states"] > 0 && run.h.nAcked > 0
		if !run.closed {
			if v := run.closeNode("final_close"); v != nil {
				out.Violation = v
			}
		}
		return out
	}
	if !run.closed {
		if v := run.finalReads("settled"); v != nil {
			out.Violation = v
			return out
		}
		if v := run.closeNode("final_close"); v != nil {
			out.Violation = v
			return out
		}
	}
	// ---- (f) reopen equals the model
	prev := run.disks[len(run.disks)-1]
	if err := run.open(filepath.Join(base, fmt.Sprintf("inc%d", run.inc)), prev.Root); err != nil {
		out.Violation = sviol(prop, "reopen_failed", "reopening after the clean close failed: "+err.Error(), map[string]string{"phase": "reopen"})
		return out
	}
	run.closed = false
	if v := run.finalReads("reopen"); v != nil {
		out.Violation = v
		return out
	}
	if v := run.closeNode("reopen_close"); v != nil {
		out.Violation = v
		return out
	}
	return out
}

func (run *cwRun) cleanup() {
	run.sch.freeRun()
	run.sch.removeYield()
	if run.plantUnlock != nil {
		run.plantUnlock()
		run.plantUnlock = nil
	}
	// operations still in flight (after a violation) run to completion ungated
	for t0 := time.Now(); run.anyRunning() && time.Since(t0) < 3*time.Second; {
		time.Sleep(2 * time.Millisecond)
	}
	if run.node != nil && run.node.sh != nil && !run.closed {
		done := make(chan struct{})
		node := run.node
		go func() {
			defer func() { _ = recover(); close(done) }()
			_ = cwCloseNode(node)
		}()
		select {
		case <-done:
		case <-time.After(3 * time.Second):
		}
	}
	for _, d := range run.disks {
		run.fs.Forget(d)
	}
}

func (run *cwRun) open(dir, from string) error {
	if from != "" {
		var err error
		for try := 0; try < 5; try++ {
			// (the 200 ms file collector of the table store may still be unlinking files)
			_ = os.RemoveAll(dir)
			if err = simfs.CopyTree(from, dir); err == nil {
				break
			}
			time.Sleep(250 * time.Millisecond)
		}
		if err != nil {
			panic(core.InfraPanic("copy tree: " + err.Error()))
		}
		if err := simfs.RelocateTxn(dir, filepath.Dir(dir), dir); err != nil {
			panic(core.InfraPanic("relocate: " + err.Error()))
		}
	} else {
		_ = os.MkdirAll(dir, 0o755)
	}
	d := run.fs.NewDisk(dir)
	d.SetGate(run.sch.gate)
	d.SetReadGate(run.sch.gate)
	run.disks = append(run.disks, d)
	run.crashNewIncarnation(dir, d)
	node, err := openShard(dir, run.c.Knobs, uint64(run.inc+1))
	if err != nil {
		return err
	}
	run.node = node
	run.inc++
	return nil
}

// cwStepOver: a listed finding (or, with CW_STOP_AT="<kind> k=v ...", anything but the
// named class — a triage aid) is counted and the run goes on.
func (run *cwRun) stepOver(v *core.Violation) bool {
	if st := os.Getenv("CW_STOP_AT"); st != "" {
		f := strings.Fields(st)
		match := f[0] == v.Kind
		for _, kv := range f[1:] {
			p := strings.SplitN(kv, "=", 2)
			if len(p) == 2 && v.Attrs[p[0]] != p[1] {
				match = false
			}
		}
		if !match {
			run.out.Stats["stepped_over_not_stop_at"]++
			return true
		}
		return false
	}
	// CW_SKIP="kind k=v ...;kind2 ...": classes to step over (triage aid, same effect as a listed finding)
	for _, cl := range strings.Split(os.Getenv("CW_SKIP"), ";") {
		f := strings.Fields(cl)
		if len(f) == 0 || f[0] != v.Kind {
			continue
		}
		match := true
		for _, kv := range f[1:] {
			p := strings.SplitN(kv, "=", 2)
			if len(p) == 2 && v.Attrs[p[0]] != p[1] {
				match = false
			}
		}
		if match {
			run.out.Stats["stepped_over_cw_skip"]++
			return true
		}
	}
	return run.env.KnownID(v, run.out) != ""
}

// loadAllFiles loads the components (trailer, bloom filter, meta index) of every data
// file now, instead of leaving it to whichever reader touches the file first.
func (run *cwRun) loadAllFiles() {
	for m := 0; m < run.c.NMst; m++ {
		for _, order := range []bool{true, false} {
			files, ok := run.node.sh.immTables.GetTSSPFiles(sMstName(m), order)
			if !ok || files == nil {
				continue
			}
			for _, f := range files.Files() {
				_ = f.LoadComponents()
			}
			immutable.UnrefFilesReader(files.Files()...)
			immutable.UnrefFiles(files.Files()...)
		}
	}
}

// closeNode closes the shard outside the scheduler (free-run) with a watchdog.
func (run *cwRun) closeNode(phase string) *core.Violation {
	run.sch.freeRun()
	// diagnostics only (labels, never verdicts): data files that are on disk but in no
	// in-memory list now will be loaded by the next incarnation
	if run.node != nil && run.node.sh != nil && !run.closed && run.unlistedBeforeRestart != "yes" {
		run.unlistedBeforeRestart = "no"
		for m := 0; m < run.c.NMst; m++ {
			if a, txt := cwDiag(run.node, m); a["unlisted_files"] == "yes" {
				run.unlistedBeforeRestart = "yes"
				run.unlistedTxt = txt
			}
		}
	}
	errc := make(chan error, 1)
	node := run.node
	go func() {
		defer func() {
			if r := recover(); r != nil {
				errc <- fmt.Errorf("panic: %v", r)
			}
		}()
		errc <- cwCloseNode(node)
	}()
	select {
	case err := <-errc:
		run.closed = true
		if err != nil {
			return sviol(run.prop, "close_error", "closing the shard failed: "+err.Error(), map[string]string{"phase": phase})
		}
		return nil
	case <-time.After(8 * time.Second):
		cwLeaks++
		sum, stacks := cwBlockedSummary(run.sch.dump(), 0)
		run.closed = true
		return sviol(run.prop, "deadlock", fmt.Sprintf("Close did not return within 8 s with no other operation in flight; blocked: %s\n%s", sum, stacks),
			map[string]string{"phase": phase, "blocked": sum})
	}
}

func (run *cwRun) prologueOp(i int, op COp, base string) *core.Violation {
	sh := run.node.sh
	out := run.out
	if run.closed && op.K != "reopen" {
		out.Log("pre op%d %s skipped: the shard is closed", i, op.K)
		return nil
	}
	run.sch.freeRun()
	at := map[string]string{"phase": "prologue", "op": op.K}
	switch op.K {
	case "w":
		err := run.doWrite(op)
		out.Log("pre op%d w id=%d rows=%d err=%v", i, op.ID, len(op.Rows), err != nil)
		run.h.issue(i, op, run.step)
		if err != nil {
			return sviol(run.prop, "write_error", fmt.Sprintf("prologue op %d: WriteRows failed: %v", i, err), at)
		}
		run.h.ack(i, run.step)
		run.node.ib.Flush()
		seq := run.node.sh.immTables.Sequencer()
		for k := 0; k < 5000 && seq.IsLoading(); k++ {
			sleepMs(1)
		}
		seq.UnRef()
	case "flush":
		sh.ForceFlush()
		out.Log("pre op%d flush", i)
	case "compact":
		sh.immTables.CompactionEnable()
		err := sh.immTables.LevelCompact(uint16(op.Level), 1)
		run.node.waitStore()
		sh.immTables.CompactionDisable()
		out.Log("pre op%d compact %d err=%v", i, op.Level, err != nil)
	case "fullcompact":
		sh.immTables.CompactionEnable()
		err := sh.immTables.FullCompact(1)
		run.node.waitStore()
		sh.immTables.CompactionDisable()
		out.Log("pre op%d fullcompact err=%v", i, err != nil)
	case "merge":
		sh.immTables.MergeEnable()
		err := sh.immTables.MergeOutOfOrder(1, false, op.Force)
		run.node.waitStore()
		sh.immTables.MergeDisable()
		out.Log("pre op%d merge err=%v", i, err != nil)
	case "reopen":
		if !run.closed {
			if v := run.closeNode("reopen_op"); v != nil {
				return v
			}
		}
		run.closed, run.closeStarted, run.seqLoading = false, false, false
		run.h.bg("seq_reload", false, run.step)
		prev := run.disks[len(run.disks)-1]
		if err := run.open(filepath.Join(base, fmt.Sprintf("inc%d", run.inc)), prev.Root); err != nil {
			return sviol(run.prop, "open_failed", fmt.Sprintf("prologue op %d: reopening after a clean close failed: %v", i, err), at)
		}
		out.Faults["clean_restart"]++
		out.Log("pre op%d reopen", i)
	case "dropm":
		err := sh.DropMeasurement(context.Background(), sMstName(op.M))
		run.h.dropIssued(op.M, run.step)
		run.h.dropDone(op.M, run.step)
		out.Log("pre op%d dropm %d err=%v", i, op.M, err != nil)
	case "q", "close":
		// not meaningful in the prologue
	}
	return nil
}

// cwCloseNode closes the shard, then its index (the order of DBPTInfo.closeDBPt).
func cwCloseNode(n *sNode) error {
	var first error
	if err := n.sh.Close(); err != nil {
		first = err
	}
	if err := n.ib.Close(); err != nil && first == nil {
		first = err
	}
	return first
}

func cwWaitStore(sh *shard) {
	if mt, ok := sh.immTables.(*immutable.MmsTables); ok {
		mt.Wait()
	}
}

func (run *cwRun) doWrite(op COp) error { return cwWriteTo(run.node.sh, op) }

func cwWriteTo(sh *shard, op COp) error {
	rows := sBuildRows(op.ID, op.Rows)
	if len(rows) == 0 {
		return nil
	}
	bin, err := influx.FastMarshalMultiRows(nil, rows)
	if err != nil {
		panic(core.InfraPanic("marshal rows: " + err.Error()))
	}
	dec, _, _, _, _, err := influx.FastUnmarshalMultiRows(bin, nil, nil, nil, nil, nil)
	if err != nil {
		panic(core.InfraPanic("unmarshal rows: " + err.Error()))
	}
	return sh.WriteRows(dec, bin)
}

func cwRunQuery(sh *shard, q *sQuery) (map[string][]sDumpRow, []string, error) {
	return selectRows(sh, q)
}

func cwQueryOf(op COp) *sQuery {
	return &sQuery{Mst: op.M, Fields: sFieldNames, TMin: sTime(op.A), TMax: sTime(op.B), Desc: op.Desc, ChunkSize: op.Chunk, Parallel: op.Par}
}

// ---- task bodies -------------------------------------------------------------------

func (run *cwRun) startOp(i int, sole bool) *cwTaskRun {
	op := run.c.Ops[i]
	tr := &cwTaskRun{op: i, task: op.T, start: run.step}
	run.runs = append(run.runs, tr)
	run.cur[op.T] = tr
	node := run.node
	sh := node.sh
	ready := make(chan struct{})
	go func() {
		defer func() {
			if r := recover(); r != nil {
				tr.panicked = fmt.Sprintf("%v\n%s", r, debug.Stack())
			}
			run.sch.mu.Lock()
			delete(run.sch.goTask, tr.goid)
			delete(run.sch.goAll, tr.goid)
			delete(run.sch.goWho, tr.goid)
			run.sch.mu.Unlock()
			tr.done.Store(true)
			run.doneCnt.Add(1)
		}()
		tr.goid = cwGoID()
		run.sch.mu.Lock()
		if op.K == "w" {
			run.sch.goTask[tr.goid] = cwTaskName(op.T)
		}
		run.sch.goAll[tr.goid] = cwActorOfOp(op)
		run.sch.goWho[tr.goid] = cwTaskName(op.T)
		if sole {
			run.sch.actor = tr.goid // the goroutine of this step
		}
		run.sch.mu.Unlock()
		close(ready)
		switch op.K {
		case "w":
			tr.err = run.doWrite(op)
		case "q":
			tr.rows, tr.order, tr.err = cwRunQuery(sh, cwQueryOf(op))
		case "flush":
			sh.ForceFlush()
		case "compact":
			sh.immTables.CompactionEnable()
			tr.err = sh.immTables.LevelCompact(uint16(op.Level), 1)
			cwWaitStore(sh)
		case "fullcompact":
			sh.immTables.CompactionEnable()
			tr.err = sh.immTables.FullCompact(1)
			cwWaitStore(sh)
		case "merge":
			sh.immTables.MergeEnable()
			tr.err = sh.immTables.MergeOutOfOrder(1, false, op.Force)
			cwWaitStore(sh)
		case "dropm":
			tr.err = sh.DropMeasurement(context.Background(), sMstName(op.M))
		case "close":
			tr.err = cwCloseNode(node)
		case "plant_a":
			// detector self-test (never generated): take the read lock of the first
			// ordered data file of measurement 0, as tsspFile.LoadIdTimes does on entry
			files, ok := sh.immTables.GetTSSPFiles(sMstName(0), true)
			if ok && files != nil && files.Len() > 0 {
				f := files.Files()[0]
				immutable.UnrefFilesReader(files.Files()...)
				immutable.UnrefFiles(files.Files()...)
				run.plantFile = f
				run.plantUnlock = immutable.VerifHoldFileRLock(f)
			}
		case "plant_b":
			// ... and read-lock it again while Close is queued for the write lock
			if run.plantFile != nil {
				_ = run.plantFile.IsOrder()
			}
		}
	}()
	<-ready
	return tr
}

// ---- scheduler loop ----------------------------------------------------------------

type cwAction struct {
	desc   string
	actor  string
	parked *cwParked
	op     int // start action: op index (-1 otherwise)
}

func cwActorOfOp(op COp) string {
	switch op.K {
	case "w":
		return cwTaskName(op.T)
	case "q":
		return "query"
	case "flush":
		return "flush"
	case "compact", "fullcompact":
		return "compact"
	case "merge":
		return "merge"
	case "dropm":
		return "drop"
	case "close":
		return "close"
	}
	return "other"
}

func (run *cwRun) initPCT() {
	if !run.c.PCT {
		return
	}
	actors := []string{"w1", "w2", "w3", "query", "flush", "compact", "merge", "seqload", "drop", "close", "other", "write"}
	perm := run.rnd.Perm(len(actors))
	run.prio = map[string]int{}
	for i, a := range actors {
		run.prio[a] = perm[i] + 100
	}
	run.pctAt = map[int]bool{}
	for i := 0; i < run.c.PCTDepth; i++ {
		run.pctAt[run.rnd.Intn(150)] = true
	}
}

func (run *cwRun) enabled() []cwAction {
	var acts []cwAction
	for _, p := range run.sch.parkedSorted() {
		acts = append(acts, cwAction{desc: p.desc(), actor: p.class, parked: p, op: -1})
	}
	if !run.closed {
		for t := 1; t < cwNTasks; t++ {
			if run.cur[t] != nil || len(run.nextOp[t]) == 0 {
				continue
			}
			i := run.nextOp[t][0]
			op := run.c.Ops[i]
			acts = append(acts, cwAction{desc: fmt.Sprintf("start %s %s", cwTaskName(t), op.K), actor: cwActorOfOp(op), op: i})
		}
	}
	return acts
}

func (run *cwRun) choose(acts []cwAction) int {
	// 1. guided: the recorded schedule is a priority order over actions
	if len(run.guide) > 0 {
		for gi, g := range run.guide {
			for ai, a := range acts {
				if a.desc == g {
					run.guide = append(run.guide[:gi:gi], run.guide[gi+1:]...)
					return ai
				}
			}
			if gi > 4000 {
				break
			}
		}
	}
	// 2. PCT: highest-priority actor; its lowest canonical action
	if run.c.PCT {
		best, bp := -1, -1
		for ai, a := range acts {
			p, ok := run.prio[a.actor]
			if !ok {
				p = 50
			}
			if p > bp {
				best, bp = ai, p
			}
		}
		if run.pctAt[run.step] {
			run.prio[acts[best].actor] = 10 - len(run.trace)%7 // demote the running actor
			_ = run.rnd.Uint64()
		}
		return best
	}
	// 3. uniform, but keyed by the action's descriptor (and its ordinal among equal
	// descriptors) instead of its index: an extra or missing parked operation — the
	// residual nondeterminism inside one step — then rarely changes the choice
	salt := run.rnd.Uint64()
	best, bh := 0, ^uint64(0)
	cnt := map[string]int{}
	for ai, a := range acts {
		cnt[a.desc]++
		h := cwHash(a.desc, int64(salt), int64(cnt[a.desc]))
		if h < bh {
			best, bh = ai, h
		}
	}
	return best
}

func (run *cwRun) inflightSet() map[string]bool {
	m := map[string]bool{}
	for t := 1; t < cwNTasks; t++ {
		if tr := run.cur[t]; tr != nil {
			m[cwInflightName(run.c.Ops[tr.op].K)] = true
		}
	}
	if run.seqLoading {
		m["seq_reload"] = true
	}
	return m
}

func cwInflightName(k string) string {
	switch k {
	case "w":
		return "write"
	case "q":
		return "query"
	case "fullcompact":
		return "compact"
	case "dropm":
		return "drop"
	}
	return k
}

// observe collects finished operations (in task order), stamps them with the current
// step and runs the per-query oracle.
func (run *cwRun) observe() *core.Violation {
	// asynchronous sequencer reload (started by the first write after a restart)
	if !run.closed && run.node != nil && run.node.sh != nil {
		l := cwSeqLoading(run.node)
		if l || run.seqLoading {
			// which file reorganisations overlapped the reload (diagnostic label only): operations
			// in flight at any observation while the reload was loading, first and last included
			// (tasks that finished in this step are still in run.cur here)
			if run.seqReorg == nil || (l && !run.seqLoading) {
				run.seqReorg = map[string]bool{}
			}
			for k := range run.inflightSet() {
				if k == "compact" || k == "merge" {
					run.seqReorg[k] = true
				}
			}
		}
		if l != run.seqLoading {
			run.seqLoading = l
			run.h.bg("seq_reload", l, run.step)
			run.out.Log("s%d seq_reload loading=%v", run.step, l)
			if l {
				run.out.Probes["sequencer reload in flight across scheduler steps"]++
			} else {
				// diagnostics only: does the freshly loaded sequencer know the newest
				// time of every series in every ordered file?
				for m := 0; m < run.c.NMst; m++ {
					if a, txt := cwDiag(run.node, m); a["seq_behind"] == "yes" {
						run.seqBehind = "yes"
						run.seqBehindTxt = txt
						run.seqBehindReorg = "none"
						if len(run.seqReorg) > 0 {
							run.seqBehindReorg = cwSortedSet(run.seqReorg) // "compact", "merge" or "compact+merge"
						}
						run.out.Probes["sequencer reload finished behind an ordered file"]++
					}
				}
			}
		}
	}
	for t := 1; t < cwNTasks; t++ {
		tr := run.cur[t]
		if tr == nil || !tr.done.Load() {
			continue
		}
		run.cur[t] = nil
		run.nextOp[t] = run.nextOp[t][1:]
		if v := run.finished(tr); v != nil {
			if run.stepOver(v) {
				continue // a listed finding: stepped over, the run goes on
			}
			return v
		}
	}
	return nil
}

func cwSeqLoading(n *sNode) bool {
	ch := make(chan bool, 1)
	go func() {
		defer func() {
			if r := recover(); r != nil {
				ch <- false
			}
		}()
		seq := n.sh.immTables.Sequencer()
		defer seq.UnRef()
		ch <- seq.IsLoading()
	}()
	select {
	case l := <-ch:
		return l
	case <-time.After(300 * time.Millisecond):
		return false
	}
}

func (run *cwRun) finished(tr *cwTaskRun) *core.Violation {
	op := run.c.Ops[tr.op]
	out := run.out
	name := cwTaskName(op.T)
	closing := run.closeStarted
	infl := run.h.inflightDuring(tr.start, run.step, tr.op)
	at := map[string]string{"op": op.K, "phase": "live", "inflight": infl}
	if closing {
		at["closing"] = "yes"
	}
	if tr.panicked != "" {
		out.Log("s%d done %s op%d %s PANIC", run.step, name, tr.op, op.K)
		at["frames"] = cwInnerFrames(tr.panicked)
		return sviol(run.prop, "panic", fmt.Sprintf("op %d (%s by %s, started at step %d) panicked: %s", tr.op, op.K, name, tr.start, core.InfraPanic(cwTrim(tr.panicked, 3000))), at)
	}
	switch op.K {
	case "w":
		out.Log("s%d done %s op%d w id=%d err=%v", run.step, name, tr.op, op.ID, tr.err != nil)
		if tr.err != nil {
			run.h.failed(tr.op, run.step)
			if !closing {
				return sviol(run.prop, "write_error", fmt.Sprintf("op %d: WriteRows failed although the shard was not being closed: %v", tr.op, tr.err), at)
			}
			out.Stats["writes_refused_by_close"]++
		} else {
			run.h.ack(tr.op, run.step)
			out.Stats["writes"]++
		}
	case "q":
		// (the rows of in-flight writes a query may or may not see are not part of the API-level log)
		out.Log("s%d done %s op%d q m=%d [%d..%d] err=%v", run.step, name, tr.op, op.M, op.A, op.B, tr.err != nil)
		out.Stats["queries"]++
		if tr.err != nil {
			if d, ok := run.h.dropAt[op.M]; ok && d[0] <= run.step {
				// the measurement is being / has been dropped: the statement only asks for
				// "no deadlock, no crash" here
				out.Stats["queries_refused_by_drop"]++
				return nil
			}
			if !closing {
				return sviol(run.prop, "query_error", fmt.Sprintf("op %d: query failed although the shard was not being closed: %v", tr.op, tr.err), at)
			}
			out.Stats["queries_refused_by_close"]++
			return nil
		}
		if infl != "" {
			out.Stats["queries_overlapping_background"]++
			for _, x := range strings.Split(infl, "+") {
				out.Probes["query overlapped "+x]++
			}
		}
		lenient := false
		if run.closeStarted {
			if tr.start >= run.closeStep {
				// started after Close was called: the layers above the shard do not route
				// requests to a closing shard; only (b) and (c) are judged
				lenient = true
				out.Stats["queries_started_during_close"]++
			} else {
				at["closing"] = "query_in_flight_when_close_began"
			}
		}
		if v := run.h.checkQuery(run, tr, op, tr.start, run.step, at, lenient); v != nil {
			return v
		}
	case "flush":
		out.Log("s%d done %s op%d flush", run.step, name, tr.op)
		run.h.indexFlushed(run.step)
		out.Stats["flushes"]++
	case "compact", "fullcompact", "merge":
		out.Log("s%d done %s op%d %s err=%v", run.step, name, tr.op, op.K, tr.err != nil)
		out.Stats[op.K+"s"]++
		if tr.err != nil && !closing {
			return sviol(run.prop, "compact_error", fmt.Sprintf("op %d: %s failed: %v", tr.op, op.K, tr.err), at)
		}
	case "dropm":
		out.Log("s%d done %s op%d dropm %d err=%v", run.step, name, tr.op, op.M, tr.err != nil)
		run.h.dropDone(op.M, run.step)
		if tr.err != nil && !closing {
			return sviol(run.prop, "drop_error", fmt.Sprintf("op %d: DropMeasurement failed: %v", tr.op, tr.err), at)
		}
	case "close":
		out.Log("s%d done %s op%d close err=%v", run.step, name, tr.op, tr.err != nil)
		run.closed = true
		run.h.bg("close", false, run.step)
		if tr.err != nil {
			return sviol(run.prop, "close_error", fmt.Sprintf("op %d: Close failed: %v", tr.op, tr.err), at)
		}
	}
	return nil
}

func cwTrim(s string, n int) string {
	if len(s) > n {
		return s[:n]
	}
	return s
}

func cwInnerFrames(st string) string {
	var fr []string
	for _, l := range strings.Split(st, "\n") {
		if strings.HasPrefix(l, "github.com/openGemini/openGemini/") && !strings.Contains(l, "verifsim") && !strings.Contains(l, ".cw") && !strings.Contains(l, "cwRun") && !strings.Contains(l, "zz_verif") {
			f := strings.TrimPrefix(l, "github.com/openGemini/openGemini/")
			if i := strings.LastIndex(f, "("); i > 0 {
				f = f[:i]
			}
			fr = append(fr, f)
			if len(fr) == 3 {
				break
			}
		}
	}
	return strings.Join(fr, "<")
}

func cwRowsDigest(rows map[string][]sDumpRow, order []string) string {
	var parts []string
	n := 0
	keys := make([]string, 0, len(rows))
	for k := range rows {
		keys = append(keys, k)
	}
	sort.Strings(keys)
	for _, k := range keys {
		for _, r := range rows[k] {
			parts = append(parts, fmtRow(r))
			n++
		}
	}
	return fmt.Sprintf("%d/%s", n, core.DigestStrings(parts))
}

func (run *cwRun) anyRunning() bool {
	for _, tr := range run.runs {
		if !tr.done.Load() {
			return true
		}
	}
	return false
}

func (run *cwRun) anyUnfinished() bool {
	for t := 1; t < cwNTasks; t++ {
		if run.cur[t] != nil {
			return true
		}
	}
	return false
}

func (run *cwRun) loop() *core.Violation {
	run.sch.free.Store(run.c.NoGate)
	doneFn := func() int { return int(run.doneCnt.Load()) }
	for {
		run.sch.waitQuiet(doneFn)
		// goroutines that stopped at a yield point only to be serialised run now, one at a time
		for n := 0; ; n++ {
			p := run.sch.nextAuto()
			if p == nil {
				break
			}
			if n > 20000 {
				panic(core.InfraPanic("world C: more than 20000 serialisation resumes in one step"))
			}
			if run.dbg {
				fmt.Printf("CW s%d resume %s\n", run.step, p.desc())
			}
			run.sch.release(p)
			run.sch.waitQuiet(doneFn)
		}
		if run.oneP && run.step%cwGCEvery == cwGCEvery-1 && run.step != run.lastGC {
			run.lastGC = run.step
			t0 := time.Now()
			runtime.GC()
			run.out.Stats["gc_us"] += time.Since(t0).Microseconds()
			run.out.Stats["gc_forced"]++
		}
		if v := run.observe(); v != nil {
			return v
		}
		if run.crash != nil {
			// a crash image of this quiescent point (C01); real time has passed afterwards: settle again
			if v, checked := run.crashAt(false); v != nil {
				return v
			} else if checked {
				continue
			}
		}
		acts := run.enabled()
		if len(acts) == 0 {
			if !run.anyUnfinished() {
				if run.crash != nil {
					if v, _ := run.crashAt(true); v != nil {
						return v
					}
					if msg := run.crashSelfCheck(); msg != "" {
						panic(core.InfraPanic(msg))
					}
				}
				return nil
			}
			// nothing parked, nothing startable, something unfinished: give timers a
			// chance (the engine has a few second-scale waits), then it is a deadlock
			if v, again := run.maybeDeadlock(doneFn); v != nil {
				return v
			} else if again {
				continue
			}
		}
		if run.step >= run.c.MaxSteps && !run.sch.free.Load() && !run.c.NoGate {
			run.out.Stats["step_bound_reached"]++
			run.out.Log("s%d bound reached: free run", run.step)
			run.sch.freeRun()
			continue
		}
		ai := run.choose(acts)
		a := acts[ai]
		run.step++
		run.sch.stepNo.Store(int64(run.step))
		if cwDbgEnabled {
			// diagnostics (CW_DEBUG_ENABLED=1): the enabled set the choice was made from
			ds := make([]string, len(acts))
			for i, x := range acts {
				ds[i] = x.desc
			}
			run.out.Log("s%d enabled %d: %s", run.step, len(acts), strings.Join(ds, " | "))
		}
		run.trace = append(run.trace, a.desc)
		infl := run.inflightSet()
		if infl["query"] && (infl["flush"] || infl["compact"] || infl["merge"] || infl["seq_reload"] || infl["drop"] || infl["close"]) {
			run.overlaps++
		}
		if a.parked != nil {
			if run.dbg {
				fmt.Printf("CW s%d release %s %s off=%d size=%d (enabled %d)\n", run.step, a.desc, a.parked.path, a.parked.off, a.parked.size, len(acts))
			}
			run.out.Log("s%d %s", run.step, a.desc)
			run.sch.release(a.parked)
			continue
		}
		// start action (a burst starts every startable burst operation at once)
		starts := []int{a.op}
		if run.c.Ops[a.op].Burst {
			for _, b := range acts {
				if b.op >= 0 && b.op != a.op && run.c.Ops[b.op].Burst {
					starts = append(starts, b.op)
				}
			}
		}
		for _, i := range starts {
			op := run.c.Ops[i]
			run.out.Log("s%d start %s op%d %s", run.step, cwTaskName(op.T), i, op.K)
			if run.dbg {
				fmt.Printf("CW s%d start %s op%d %s\n", run.step, cwTaskName(op.T), i, op.K)
			}
			switch op.K {
			case "w":
				run.h.issue(i, op, run.step)
			case "dropm":
				run.h.dropIssued(op.M, run.step)
				run.h.bg("drop", true, run.step)
			case "close":
				run.closeStarted = true
				run.closeStep = run.step
				run.h.bg("close", true, run.step)
			}
			run.h.opStart(i, op, run.step)
		}
		if len(starts) > 1 {
			run.sch.setActor(cwActorAll)
		}
		for k, i := range starts {
			if k > 0 && run.attempt > 0 {
				// delay sweep between the operations of a burst (one value per attempt)
				for t0 := time.Now(); time.Since(t0) < time.Duration(run.attempt%40)*5*time.Microsecond; {
				}
			}
			run.startOp(i, len(starts) == 1)
		}
	}
}

// maybeDeadlock waits (real time) for a change; returns a violation if nothing moves.
func (run *cwRun) maybeDeadlock(doneFn func() int) (*core.Violation, bool) {
	d0 := doneFn()
	t0 := time.Now()
	for time.Since(t0) < 2500*time.Millisecond {
		time.Sleep(20 * time.Millisecond)
		if doneFn() != d0 || run.sch.nParked() > 0 {
			return nil, true
		}
	}
	dump := run.sch.dump()
	sum, stacks := cwBlockedSummary(dump, 0)
	var unf []string
	kinds := map[string]bool{}
	for t := 1; t < cwNTasks; t++ {
		if tr := run.cur[t]; tr != nil {
			op := run.c.Ops[tr.op]
			unf = append(unf, fmt.Sprintf("%s op%d %s (started at step %d)", cwTaskName(t), tr.op, op.K, tr.start))
			kinds[cwInflightName(op.K)] = true
		}
	}
	if run.seqLoading {
		kinds["seq_reload"] = true
	}
	cwLeaks++
	run.out.Log("s%d DEADLOCK unfinished=%v", run.step, unf)
	return sviol(run.prop, "deadlock", fmt.Sprintf("after step %d no file-system operation is parked, no operation can be started and these operations never finish: %s\nblocked goroutines: %s\n%s",
		run.step, strings.Join(unf, "; "), sum, stacks), map[string]string{"phase": "live", "inflight": cwSortedSet(kinds), "blocked": sum}), false
}

// finalReads: full-range query of every measurement, checked against the whole history.
func (run *cwRun) finalReads(phase string) *core.Violation {
	run.sch.freeRun()
	for m := 0; m < run.c.NMst; m++ {
		for _, desc := range []bool{false, true} {
			op := COp{K: "q", M: m, A: 0, B: sNumTimes - 1, Desc: desc, Chunk: run.c.Knobs.ChunkSize, Par: 1}
			rows, order, err := cwRunQuery(run.node.sh, cwQueryOf(op))
			at := map[string]string{"op": "q", "phase": phase, "inflight": ""}
			run.out.Log("%s q m=%d desc=%v err=%v rows=%s", phase, m, desc, err != nil, cwRowsDigest(rows, order))
			if err != nil {
				return sviol(run.prop, "query_error", fmt.Sprintf("%s: full query of measurement %d failed: %v", phase, m, err), at)
			}
			tr := &cwTaskRun{op: -1, task: -1, rows: rows, order: order}
			big := 1 << 30
			if v := run.h.checkQuery(run, tr, op, big, big, at, false); v != nil {
				if phase == "reopen" && (v.Kind == "acked_point_missing" || v.Kind == "acked_field_missing" || v.Kind == "stale_value") {
					v.Attrs["live_kind"] = v.Kind
					v.Kind = "reopen_mismatch"
				}
				if run.stepOver(v) {
					continue
				}
				return v
			}
			run.out.Stats["final_reads"]++
		}
	}
	return nil
}
