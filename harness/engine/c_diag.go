package engine

// World C diagnostics: attributes that separate defect classes of data
// violations.  They read internal state of the engine and are used only to label
// a violation that the oracle has already established, never to raise one.

import (
	"os"
	"path/filepath"
	"sort"
	"strings"
	"time"

	"github.com/openGemini/openGemini/engine/immutable"
)

// cwDiag returns attributes about measurement m:
//   - unlisted_files: data files (*.tssp) present in the measurement's directories
//     that are in none of the table store's in-memory file lists
//   - seq_behind: the sequencer is in "loaded" state and holds, for some series, a
//     last-flush time lower than the newest time of that series in an ordered file
// cwDiag never blocks the scheduler: the inspection takes engine locks that a parked
// task may hold, so it runs on its own goroutine and is abandoned after 300 ms.
func cwDiag(n *sNode, m int) (map[string]string, string) {
	type res struct {
		a map[string]string
		t string
	}
	ch := make(chan res, 1)
	go func() {
		a, t := cwDiagInner(n, m)
		ch <- res{a, t}
	}()
	select {
	case r := <-ch:
		return r.a, r.t
	case <-time.After(300 * time.Millisecond):
		return map[string]string{"diag": "busy"}, ""
	}
}

func cwDiagInner(n *sNode, m int) (attrs map[string]string, text string) {
	attrs = map[string]string{}
	defer func() {
		if r := recover(); r != nil {
			attrs["diag"] = "failed"
		}
	}()
	sh := n.sh
	name := sMstName(m)
	listed := map[string]bool{}
	var ordered []immutable.TSSPFile
	for _, order := range []bool{true, false} {
		files, ok := sh.immTables.GetTSSPFiles(name, order)
		if !ok || files == nil {
			continue
		}
		for _, f := range files.Files() {
			listed[filepath.Base(f.Path())] = true
			if order {
				ordered = append(ordered, f)
			}
		}
		defer immutable.UnrefFilesReader(files.Files()...)
		defer immutable.UnrefFiles(files.Files()...)
	}
	var unlisted []string
	for _, dir := range []string{filepath.Join(sh.filesPath, name), filepath.Join(sh.filesPath, name, "out-of-order")} {
		ents, err := os.ReadDir(dir)
		if err != nil {
			continue
		}
		for _, e := range ents {
			if e.IsDir() || !strings.HasSuffix(e.Name(), ".tssp") {
				continue
			}
			if !listed[e.Name()] {
				unlisted = append(unlisted, filepath.Base(dir)+"/"+e.Name())
			}
		}
	}
	sort.Strings(unlisted)
	attrs["unlisted_files"] = "no"
	if len(unlisted) > 0 {
		attrs["unlisted_files"] = "yes"
		text += " data files on disk that are in no in-memory file list: " + strings.Join(unlisted, ",") + ";"
	}
	seq := sh.immTables.Sequencer()
	defer seq.UnRef()
	attrs["seq_behind"] = "no"
	if !seq.IsLoading() && !seq.IsFreeDbg() {
		for _, f := range ordered {
			p := immutable.GetIDTimePairs(name)
			p.Ids, p.Tms, p.Rows = p.Ids[:0], p.Tms[:0], p.Rows[:0]
			if err := f.LoadIdTimes(p); err == nil {
				for i := range p.Ids {
					if i < len(p.Tms) {
						lt, _ := seq.Get(name, p.Ids[i])
						if lt < p.Tms[i] {
							attrs["seq_behind"] = "yes"
							text += " sequencer(loaded) last-flush time of sid " + itoa64(int64(p.Ids[i])) + " = t" + slotStr(lt) + " but ordered file " + filepath.Base(f.Path()) + " holds t" + slotStr(p.Tms[i]) + ";"
						}
					}
				}
			}
			immutable.PutIDTimePairs(p)
		}
	} else {
		attrs["seq_behind"] = "n/a"
	}
	return attrs, text
}

func itoa64(v int64) string { return int64Str(v) }

func int64Str(v int64) string {
	if v == 0 {
		return "0"
	}
	neg := v < 0
	if neg {
		v = -v
	}
	var b []byte
	for v > 0 {
		b = append([]byte{byte('0' + v%10)}, b...)
		v /= 10
	}
	if neg {
		return "-" + string(b)
	}
	return string(b)
}

func slotStr(t int64) string {
	if t < sBaseTime-sStep*1000 {
		return "-inf"
	}
	return int64Str((t - sBaseTime) / sStep)
}
