package engine

// World P: scheduling points inside the engine-side apply path of a store node.
//
// readCommitFromRaft applies the entries of one commit batch in a loop and only then
// moves the partition's SnapShotter.CommittedIndex (the index the next memtable flush
// records as the raft snapshot index).  The steps of world P run between quiescent
// points, i.e. between whole batches; nothing could be scheduled BETWEEN two entries of
// one batch.  With the lock-level yield machinery of world C (tools/yieldins rewrites
// copies of the files listed in cfg yield_files: verifyield.Point(site) before every
// plain Lock/RLock statement) the apply goroutine of a node can be parked
//
//   - before EngineImpl.getShard's e.mu.RLock()   (site pwSiteGetShard)
//   - before shard.WriteRows' s.mu.RLock()        (site pwSiteWriteRows)
//
// both of which it reaches holding no lock of the product (so a flush, a read, a close
// of that node can run to completion meanwhile - a goroutine blocked on a sync.Mutex
// would not be "durably blocked" for synctest.Wait).  The point before
// SnapShotter.TryToUpdateCommittedIndex's Lock (pwSiteBatchEnd) is the batch
// boundary: it is passed exactly once per batch wherever the call stands.
//
// Which arrival parks is a pure function of the case (knob apply_yield, drawn last in
// Gen; 0 / absent = off): only entries 2.. of a batch, n == 1: the first arrival of
// every such entry, n > 1: hash(seed, node, life, batch, arrival) % n == 0.
// A parked apply goroutine waits on a channel made inside the bubble (durably
// blocked; no busy waiting) until the scheduler resumes it (step aresume; automatically
// after ApplyHold steps; at the start of the closing phase) or its node is killed (it
// then ends through runtime.Goexit: a dead process applies nothing).  While it is
// parked every other step runs: flush / crash of that node in particular (selectors
// "parked" = the node whose apply loop is parked, "yielded" = the node whose apply loop
// parked last).

import (
	"encoding/binary"
	"os"
	"runtime"
	"strings"
	"sync"

	"github.com/openGemini/openGemini/verifsim/core"
	"github.com/openGemini/openGemini/verifsim/simfs"
	"github.com/openGemini/openGemini/verifsim/verifyield"
)

const (
	pwSiteGetShard  = "engine/engine.go:EngineImpl.getShard:RLock#1"
	pwSiteWriteRows = "engine/shard.go:shard.WriteRows:RLock#1"
	pwSiteBatchEnd  = "lib/raftlog/snapshotter.go:SnapShotter.TryToUpdateCommittedIndex:Lock#1"
)

// pwParked is one apply goroutine waiting at a yield point.
type pwParked struct {
	ch      chan struct{}
	site    string
	batch   int  // ordinal of the commit batch in this process life
	entry   int  // ordinal (1..) of the entry of the batch that is about to be applied
	step    int  // scheduler step during which it parked
	hold    int  // released at the start of step step+hold at the latest (0: only explicitly)
	flushed bool // a flush of the node ran while it was parked
}

// pwApplyState: per process life of a node (guarded by pwApplyYield.mu).
type pwApplyState struct {
	batch    int  // batch boundaries passed
	entry    int  // entries of the current batch that reached the storage seam
	arr      int  // arrivals at selectable sites in the current batch
	free     bool // resumed "to the end": nothing parks until the batch boundary
	multi    bool // the current batch was already counted as a multi-entry one
	parked   *pwParked
	parkedAt int  // entry ordinal of the last park in the current batch (n == 1: one park per entry)
	midFlush bool // a flush ran while the apply loop was parked inside a batch (this life)
}

type pwApplyYield struct {
	mu    sync.Mutex
	nth   int
	hold  int
	seed  uint64
	off   bool             // nothing parks any more (closing phase)
	byG   map[int64]*pwInc // goroutine id -> process life whose apply loop it runs (nil: some other goroutine)
	parks int
	step  *int // current scheduler step
	stats map[string]int64
}

func pwGoID() int64 {
	var b [48]byte
	n := runtime.Stack(b[:], false)
	// "goroutine 123 [running]:"
	var id int64
	for i := len("goroutine "); i < n && b[i] >= '0' && b[i] <= '9'; i++ {
		id = id*10 + int64(b[i]-'0')
	}
	return id
}

// pwOnApplyLoop: the calling goroutine runs readCommitFromRaft (classification by stack).
func pwOnApplyLoop() bool {
	var pcs [48]uintptr
	n := runtime.Callers(2, pcs[:])
	fr := runtime.CallersFrames(pcs[:n])
	for {
		f, more := fr.Next()
		if strings.HasSuffix(f.Function, "engine.readCommitFromRaft") {
			return true
		}
		if !more {
			return false
		}
	}
}

func pwNewApplyYield(c PCase, step *int) *pwApplyYield {
	return &pwApplyYield{nth: c.ApplyYield, hold: c.ApplyHold, seed: c.Seed, byG: map[int64]*pwInc{}, step: step, stats: map[string]int64{}}
}

func (ay *pwApplyYield) install() { verifyield.SetHook(ay.point) }
func (ay *pwApplyYield) remove()  { verifyield.SetHook(nil) }

// entryStart is called at the storage seam (StorageService.Write) by the goroutine that
// applies an entry: the live apply loop of a node, or the restart replay.
func (ay *pwApplyYield) entryStart(n *pwInc) {
	gid := pwGoID()
	ay.mu.Lock()
	defer ay.mu.Unlock()
	who, known := ay.byG[gid]
	if !known {
		if pwOnApplyLoop() {
			who = n
		}
		ay.byG[gid] = who
	}
	if who == nil {
		return // restart replay (readReplayForReplication): never parks
	}
	st := &who.ay
	st.entry++
	if st.entry == 2 && !st.multi {
		st.multi = true
		ay.stats["apply_batches_with_several_entries"]++
	}
}

func pwMix(seed uint64, a, b, c, d int) uint64 {
	h := seed ^ 0x9e3779b97f4a7c15
	for _, x := range []int{a, b, c, d} {
		h ^= uint64(x) + 0x9e3779b97f4a7c15 + (h << 6) + (h >> 2)
		h *= 1099511628211
	}
	return h >> 9
}

// point is the verifyield hook.
func (ay *pwApplyYield) point(site string) {
	boundary := false
	switch site {
	case pwSiteGetShard, pwSiteWriteRows:
	case pwSiteBatchEnd:
		boundary = true
	default:
		return
	}
	gid := pwGoID()
	ay.mu.Lock()
	n := ay.byG[gid]
	if n == nil {
		ay.mu.Unlock()
		return
	}
	st := &n.ay
	if boundary {
		st.batch++
		st.entry, st.arr, st.free, st.multi, st.parkedAt = 0, 0, false, false, 0
		ay.mu.Unlock()
		return
	}
	select {
	case <-n.dead:
		ay.mu.Unlock()
		return
	default:
	}
	st.arr++
	park := ay.nth > 0 && !ay.off && !st.free && st.entry >= 2 && st.parked == nil
	if park {
		if ay.nth == 1 {
			park = st.parkedAt != st.entry
		} else {
			park = pwMix(ay.seed, n.idx, n.inc, st.batch, st.arr)%uint64(ay.nth) == 0
		}
	}
	if !park {
		ay.mu.Unlock()
		return
	}
	p := &pwParked{ch: make(chan struct{}), site: site, batch: st.batch, entry: st.entry, step: *ay.step, hold: ay.hold}
	if p.hold == 0 {
		p.hold = 2 + int(pwMix(ay.seed, n.idx, n.inc, ay.parks, 77)%3)
	}
	ay.parks++
	st.parked, st.parkedAt = p, st.entry
	ay.stats["apply_parks"]++
	ay.mu.Unlock()
	select {
	case <-p.ch:
	case <-n.dead:
		// the process was killed while its apply loop stood here: it applies nothing any more
		runtime.Goexit()
	}
}

// ---- scheduler side ----------------------------------------------------------------------

// parkedOf returns the parked apply goroutine of node x (nil: none).
func (r *pwRun) parkedOf(x int) *pwParked {
	if r.ay == nil || x < 0 || r.c.nodes[x] == nil {
		return nil
	}
	n := r.c.nodes[x]
	if !r.c.isAlive(n) {
		return nil
	}
	r.ay.mu.Lock()
	defer r.ay.mu.Unlock()
	return n.ay.parked
}

// parkedNode: the lowest node whose apply loop is parked (-1: none); notes it as "yielded".
func (r *pwRun) parkedNode() int {
	if r.ay == nil {
		return -1
	}
	for i := 0; i < pwNNodes; i++ {
		if r.parkedOf(i) != nil {
			r.yieldedNode = i
			return i
		}
	}
	return -1
}

// resumeApply releases the parked apply goroutine of node x; toEnd: nothing of the rest
// of the batch parks.
func (r *pwRun) resumeApply(x int, toEnd bool) bool {
	if r.ay == nil || x < 0 || r.c.nodes[x] == nil {
		return false
	}
	n := r.c.nodes[x]
	r.ay.mu.Lock()
	p := n.ay.parked
	n.ay.parked = nil
	if toEnd {
		n.ay.free = true
	}
	r.ay.mu.Unlock()
	if p == nil {
		return false
	}
	close(p.ch)
	r.wait()
	r.out.Stats["apply_resumes"]++
	return true
}

// releaseDue resumes, at the start of step i, the apply loops that have been parked for
// their hold.
func (r *pwRun) releaseDue(i int) {
	if r.ay == nil {
		return
	}
	for x := 0; x < pwNNodes; x++ {
		if p := r.parkedOf(x); p != nil && p.hold > 0 && i-p.step >= p.hold {
			r.yieldedNode = x
			r.resumeApply(x, false)
			r.logf("op%d apply loop of n%d resumed (parked for %d steps)", i, x, i-p.step)
		}
	}
}

// releaseAll: faults stop - every apply loop runs freely from here on.
func (r *pwRun) releaseAll() {
	if r.ay == nil {
		return
	}
	r.ay.mu.Lock()
	r.ay.off = true
	r.ay.mu.Unlock()
	for x := 0; x < pwNNodes; x++ {
		if r.parkedOf(x) != nil {
			r.resumeApply(x, true)
		}
	}
}

// noteFlush: a flush of node x is about to run.
func (r *pwRun) noteFlush(x int) {
	if r.ay == nil || r.c.nodes[x] == nil {
		return
	}
	n := r.c.nodes[x]
	r.ay.mu.Lock()
	p := n.ay.parked
	if p != nil {
		p.flushed = true
		n.ay.midFlush = true
	}
	r.ay.mu.Unlock()
	if p != nil {
		r.out.Probes["flush landed inside a commit batch"]++
		r.out.Stats["flushes_inside_a_commit_batch"]++
	}
}

// noteKill: node x is about to be killed.
func (r *pwRun) noteKill(x int) {
	if r.ay == nil || r.c.nodes[x] == nil {
		return
	}
	n := r.c.nodes[x]
	r.ay.mu.Lock()
	p, mid := n.ay.parked, n.ay.midFlush
	r.ay.mu.Unlock()
	if p != nil {
		r.out.Probes["kill with the apply loop inside a commit batch"]++
	}
	if mid {
		r.out.Probes["kill after a mid-batch flush"]++
	}
}

func (r *pwRun) foldApplyStats() {
	if r.ay == nil {
		return
	}
	r.ay.mu.Lock()
	defer r.ay.mu.Unlock()
	for k, v := range r.ay.stats {
		r.out.Stats[k] += v
	}
	r.ay.stats = map[string]int64{}
}

// ---- oracle side: where do the lost rows stand relative to the node's flushes? --------------------

// pwLastSnapshotPos returns the journal position of the last raft snapshot (index > 0)
// that is completely inside journal[:k] (-1: none): the group of raft.meta writes is
// index at 1024, term at 1032, length at 1040, body at 1044.
func pwLastSnapshotPos(journal []*simfs.Entry, k int) int {
	last := -1
	var idx uint64
	for q := 0; q < k && q < len(journal); q++ {
		e := journal[q]
		if e.Kind != simfs.KWrite || !strings.HasSuffix(e.Path, "raft.meta") {
			continue
		}
		switch {
		case e.Off == 1024 && len(e.Data) == 8:
			idx = binary.BigEndian.Uint64(e.Data)
		case e.Off == 1044:
			if idx > 0 {
				last = q
			}
		}
	}
	return last
}

// lostVsFlush places the acknowledged writes a node lacks (its dump d differs from the
// model) relative to the raft snapshots of the node's earlier, crashed process lives
// (a snapshot is taken at the memtable switch of a flush; the restart replays the raft
// log from its index).  Only snapshots inside the crash image count.
//
//	applied_before_snapshot: every lost write had been applied by such a life BEFORE its last snapshot - rows of a
//	    memtable that was switched out (the listed snapshot-ahead findings: the files of that flush were cut off by
//	    the kill, or the rows sat in the memtable of another shard)
//	applied_after_snapshot: some lost write was applied AFTER the last snapshot of the life that applied it - rows no
//	    flush had touched, which the restart must get back from the raft log
//	not_applied_by_that_life: some lost write was never applied by a life that took a snapshot (it was committed, the
//	    kill came first) - the restart must apply it from the raft log
//	no_snapshot: no earlier life of the node has a snapshot in its crash image; unknown: the lost writes cannot be named
func (r *pwRun) lostVsFlush(n *pwInc, d []map[string][]sDumpRow) string {
	lost := map[int]bool{}
	for m := 0; m < r.cs.NMst && m < len(d); m++ {
		want := r.expectFor(m, d[m])
		for s, rows := range want {
			got := map[int64]map[string]sVal{}
			for _, g := range d[m][s] {
				got[g.Time] = g.Fields
			}
			for _, w := range rows {
				for f, wv := range w.Fields {
					if gv, ok := got[w.Time][f]; !ok || !gv.equal(wv) {
						id := attribute(wv)
						if id < 0 {
							id = r.writerOf(m, s, w.Time, f, wv) // booleans carry no write id
						}
						if id >= 0 {
							lost[id] = true
						}
					}
				}
			}
		}
	}
	if len(lost) == 0 {
		return "unknown"
	}
	before, after := map[int]bool{}, map[int]bool{}
	lives := 0
	for _, old := range r.c.incs {
		if old.idx != n.idx || old == n || old.lastSnap < 0 {
			continue
		}
		lives++
		old.mu.Lock()
		for j, key := range old.applySeq {
			if key < 0 || !lost[key/4] || j >= len(old.applyPos) {
				continue
			}
			if old.applyPos[j] > old.lastSnap {
				after[key/4] = true
			} else {
				before[key/4] = true
			}
		}
		old.mu.Unlock()
	}
	if lives == 0 {
		return "no_snapshot"
	}
	res := "applied_before_snapshot"
	for w := range lost {
		switch {
		case before[w]:
		case after[w]:
			return "applied_after_snapshot"
		default:
			res = "not_applied_by_that_life"
		}
	}
	return res
}

// writerOf: the last acknowledged write that gave field f of the row its value v (-1: none found).
func (r *pwRun) writerOf(m int, series string, t int64, f string, v sVal) int {
	for k, hs := range r.model.hist {
		if k.M != m || sSeriesKey(k.S) != series || sTime(k.T) != t {
			continue
		}
		ws := hs[f]
		for j := len(ws) - 1; j >= 0; j-- {
			if cellValue(ws[j], SRow{M: k.M, S: k.S, T: k.T}, f).equal(v) {
				return ws[j]
			}
		}
	}
	return -1
}

// pwApplyYieldOff: development aid (never set by vsim): VERIF_P_APPLYYIELD=0 generates
// every case without apply-path yields (comparison runs).
func pwApplyYieldOff() bool { return os.Getenv("VERIF_P_APPLYYIELD") == "0" }

var _ = core.NewRand
