package engine

// World P generator flavours that aim at raft's "persist before you send / answer"
// rule.  A quarter of the cases is drawn from them (swarm style); the rest is the
// general mix of p_world.go.
//
// What the flavours rely on (p_env.go / p_sched.go):
//   - yield: every file-system mutation of a node first yields, so that the raft
//     message sender goroutine, which the Ready loop feeds through a buffered channel,
//     hands a message to the network BEFORE the disk writes that follow the hand-over
//     in the Ready loop's program order (what a second core does all the time);
//   - every message carries the sender's journal length at its send instant; a crash
//     image may be cut right after the victim's last OBSERVED action ("early");
//   - hold: a slow link (<= 3 s, shorter than any election timeout; not a fault);
//   - tight: a synchronous write stops delivering at the instant of the answer;
//   - xfer: the meta service's TransferLeadership towards the master partition.

import (
	"github.com/openGemini/openGemini/verifsim/core"
)

// pwGenFlavour draws the steps of a flavoured case; c carries the knobs already.
func pwGenFlavour(r *core.Rand, env *core.Env, c *PCase, flav string) {
	c.Flav = flav
	c.Yield = true
	wid := 0
	var written []SRow
	w := func(tight bool) POp {
		wid++
		return POp{K: "w", ID: wid, Rows: pwGenRows(r, c, &written), Seed: r.Uint64(), Tight: tight}
	}
	run := func(ms int) POp { return POp{K: "run", Ms: ms, Seed: r.Uint64()} }
	add := func(ops ...POp) { c.Ops = append(c.Ops, ops...) }
	if flav != "send_kill_storm" {
		// a clean room: nothing of what the listed findings need (no second shard group, no
		// catalogue lag, no memtable flush, raft.meta groups atomic), a perfect network most of the time
		c.SGSplit, c.MetaLag, c.SplitMeta = false, false, false
		c.Knobs.MutableLimit = 30 << 20
		if r.Bool(0.7) {
			c.Drop, c.Dup, c.Reorder = 0, 0, 0
		}
	}
	settle := func() {
		// the commit index of the writes so far reaches the followers, so that the Ready in which a
		// follower receives the next entry carries nothing to publish
		add(run(core.Pick(r, []int{800, 1200, 2000})))
	}
	switch flav {
	case "ack_kill":
		// the leader commits on the acknowledgement of ONE follower (the other one's links are slow),
		// answers the client; that follower is killed at the earliest legal instant - right after
		// its acknowledgement left - and restarted; then the leader is killed before the entry
		// has reached the third node; the two survivors elect; read.
		for k := r.Range(1, 3); k > 0; k-- {
			add(w(false))
		}
		settle()
		if r.Bool(0.8) {
			add(POp{K: "xfer", Seed: r.Uint64()})
			settle()
		}
		rounds := r.Range(1, 3)
		for k := 0; k < rounds; k++ {
			for j := r.Range(0, 2); j > 0; j-- {
				add(w(false))
			}
			settle()
			add(POp{K: "hold", Sel: "follower", Ms: core.Pick(r, []int{1500, 2500, 3000}), Seed: r.Uint64()})
			add(w(true))
			if r.Bool(0.25) {
				add(w(true)) // a second entry behind the first
			}
			kill := POp{K: "crash", Sel: "focus", Early: true, Seed: r.Uint64()}
			if r.Bool(0.15) {
				kill.Early, kill.Back = false, r.Range(500, 1000)
			}
			add(kill, POp{K: "restart"})
			switch r.Intn(10) {
			case 0, 1: // the leader lives: it replicates the entry again, nothing may be lost
				add(run(core.Pick(r, []int{400, 3000})))
			case 2: // a few deliveries first
				add(POp{K: "pump", N: r.Range(1, 4), Seed: r.Uint64()})
				fallthrough
			default:
				lk := POp{K: "crash", Sel: core.Pick(r, []string{"leader", "leader", "master"}), Seed: r.Uint64()}
				if r.Bool(0.3) {
					lk.Back = r.Range(1, 1000)
				}
				add(lk, run(core.Pick(r, []int{9000, 12000})), POp{K: "read"})
				if r.Bool(0.5) {
					add(w(false), POp{K: "read"})
				}
				add(POp{K: "restart"}, run(core.Pick(r, []int{1200, 5000})))
			}
		}
		add(w(false), POp{K: "read"})
	case "leader_ack_kill":
		// the symmetric case: the leader (it may send before it persists) answers the client and is
		// killed at the earliest legal instant; the write must be on a majority of disks all the same
		for k := r.Range(1, 3); k > 0; k-- {
			add(w(false))
		}
		settle()
		if r.Bool(0.6) {
			add(POp{K: "xfer", Seed: r.Uint64()})
			settle()
		}
		rounds := r.Range(1, 3)
		for k := 0; k < rounds; k++ {
			if r.Bool(0.7) {
				add(POp{K: "hold", Sel: "follower", Ms: core.Pick(r, []int{1500, 2500, 3000}), Seed: r.Uint64()})
			}
			add(w(true))
			add(POp{K: "crash", Sel: core.Pick(r, []string{"leader", "master", "master"}), Early: true, Seed: r.Uint64()})
			add(run(core.Pick(r, []int{9000, 12000})), POp{K: "read"})
			if r.Bool(0.5) {
				add(w(false))
			}
			add(POp{K: "restart"}, run(core.Pick(r, []int{1200, 5000})))
			if r.Bool(0.4) {
				// and the node that has just caught up is the next to be relied upon
				add(POp{K: "crash", Sel: "focus", Early: r.Bool(0.5), Seed: r.Uint64()}, run(9000), POp{K: "read"}, POp{K: "restart"}, run(1200))
			}
		}
		add(w(false), POp{K: "read"})
	case "vote_kill":
		// the same window for votes: the leader is isolated for about an election timeout while the
		// clock moves and nothing is delivered, so that candidates appear with their requests still
		// queued; the partition heals, a few messages are delivered, a node that has just answered
		// is killed at the earliest legal instant and restarted while one follower's links are slow:
		// a vote granted but not persisted can be granted again in the same term.
		for k := r.Range(1, 2); k > 0; k-- {
			add(w(false))
		}
		settle()
		rounds := r.Range(1, 3)
		for k := 0; k < rounds; k++ {
			if r.Bool(0.65) {
				// directed: the isolated leader's followers run into their election timeouts; as soon as
				// the first vote request is queued the partition heals, the node that has not asked yet
				// hears nothing for <= 3 s (slow links), the request reaches the old leader, whose
				// granted vote arrives - and the voter is killed right after that send and restarted;
				// if the third node's own timeout falls into the slow phase it asks the restarted
				// voter for a vote in the same term.
				add(POp{K: "part", Sel: "leader"})
				add(POp{K: "tick", Ms: 9000, Until: "vote", Seed: r.Uint64()})
				add(POp{K: "heal"})
				add(POp{K: "hold", Sel: "idle", OneW: true, Ms: 3000, Seed: r.Uint64()})
				add(POp{K: "pump", N: 80, Until: "voteresp", Seed: r.Uint64()})
				add(POp{K: "crash", Sel: "voter", Early: true, Seed: r.Uint64()})
				add(POp{K: "restart"})
				add(POp{K: "tick", Ms: core.Pick(r, []int{1600, 2000, 2400}), Until: "vote2", Seed: r.Uint64()})
				add(POp{K: "pump", N: r.Range(2, 8), Only: "vote", Seed: r.Uint64()})
				add(run(core.Pick(r, []int{400, 3000})))
				for j := r.Range(1, 3); j > 0; j-- {
					add(w(false))
				}
				add(run(core.Pick(r, []int{1200, 5000})), w(false), POp{K: "read"})
				continue
			}
			add(POp{K: "part", Sel: core.Pick(r, []string{"leader", "leader", "follower"})})
			add(POp{K: "tick", Ms: core.Pick(r, []int{4200, 5000, 6000, 7000, 8200}), Seed: r.Uint64()})
			add(POp{K: "heal"})
			add(POp{K: "hold", Sel: core.Pick(r, []string{"follower", "follower", "leader"}), OneW: r.Bool(0.7), Ms: 3000, Seed: r.Uint64()})
			add(POp{K: "pump", N: r.Range(1, 6), Seed: r.Uint64()})
			add(POp{K: "crash", Sel: core.Pick(r, []string{"leader", "cut", "follower", "n0", "n1", "n2"}), Early: true, Seed: r.Uint64()})
			add(POp{K: "restart"})
			if r.Bool(0.5) {
				add(POp{K: "tick", Ms: core.Pick(r, []int{400, 1200, 2000}), Seed: r.Uint64()})
			}
			add(run(core.Pick(r, []int{3000, 9000})))
			add(w(false), POp{K: "read"})
		}
	case "flush_mid_batch":
		// A follower misses >= 3 committed writes (its links are cut, or the process is paused), then
		// gets them back in ONE append message and therefore as ONE commit batch; its apply loop is
		// parked between the first and the second entry of that batch (apply_yield, p_yield.go), the
		// node's memtable is flushed there - the flush records the partition's raft snapshot index -,
		// the apply loop runs to the end of the batch, the node is killed (complete journal, earliest
		// legal instant, or part of the tail lost) before its next flush and restarted: everything the
		// flush did not write must come back from the raft log.  Then another node is killed so that
		// the restarted one is relied upon; the closing phase compares all replicas.
		c.Yield = r.Bool(0.5)
		for k := r.Range(1, 3); k > 0; k-- {
			add(w(false))
		}
		settle()
		if r.Bool(0.3) {
			add(POp{K: "xfer", Seed: r.Uint64()})
			settle()
		}
		rounds := r.Range(1, 2)
		for k := 0; k < rounds; k++ {
			cutOp := POp{K: "part", Sel: "follower"}
			if r.Bool(0.25) {
				cutOp.Pause = true
			}
			add(cutOp)
			for j := r.Range(3, 6); j > 0; j-- {
				add(w(false))
			}
			if r.Bool(0.3) {
				add(run(400))
			}
			add(POp{K: "heal"})
			add(POp{K: "run", Ms: 4000, Until: "parked", Seed: r.Uint64()})
			kill := POp{K: "crash", Sel: "yielded", Seed: r.Uint64()}
			switch r.Intn(10) {
			case 0, 1:
				kill.Early = true // right after the victim's last observed action
			case 2, 3:
				kill.Back = r.Range(1, 600)
			}
			switch v := r.Intn(10); {
			case v < 6:
				add(POp{K: "flush", Sel: "parked"}, POp{K: "aresume", Sel: "parked", All: true})
				if r.Bool(0.5) {
					// the node's acknowledgements reach the leader: kills "at the earliest legal instant" lie after the flush
					add(POp{K: "pump", N: r.Range(1, 6), Seed: r.Uint64()})
				}
				add(kill, POp{K: "restart"})
			case v < 8:
				// killed inside the batch, after the flush
				add(POp{K: "flush", Sel: "parked"}, POp{K: "crash", Sel: "parked", Seed: r.Uint64()}, POp{K: "restart"})
			case v < 9:
				// one more entry, then the flush
				add(POp{K: "aresume", Sel: "parked"}, POp{K: "flush", Sel: "parked"}, POp{K: "aresume", Sel: "parked", All: true}, kill, POp{K: "restart"})
			default:
				// no kill: flush inside the batch, then a clean continuation
				add(POp{K: "flush", Sel: "parked"}, POp{K: "aresume", Sel: "parked", All: true})
			}
			add(run(core.Pick(r, []int{1200, 3000, 5000})))
			if r.Bool(0.7) {
				// the restarted node is relied upon
				add(POp{K: "crash", Sel: core.Pick(r, []string{"leader", "master", "master"}), Seed: r.Uint64()})
				add(run(core.Pick(r, []int{9000, 12000})), POp{K: "read"})
				if r.Bool(0.5) {
					add(w(false), POp{K: "read"})
				}
				add(POp{K: "restart"}, run(core.Pick(r, []int{1200, 5000})))
			}
		}
		add(w(false), POp{K: "read"})
	case "send_kill_storm":
		// the general mix, re-weighted: few deliveries at a time, the clock moving without
		// deliveries, slow links, and kills at the earliest legal instant
		nops := r.Range(12, 36)
		crashes := 0
		down, cut := false, false
		roles := []string{"leader", "leader", "master", "follower", "follower", "focus", "held", "n0", "n1", "n2"}
		for i := 0; i < nops; i++ {
			wt := []int{30, 6, 14, 8, 8, 12, 0, 4, 0, 2, 5, 2}
			//          w  run pump tick hold crash restart part heal flush read xfer
			if down {
				wt[5], wt[6], wt[7] = 0, 14, 0
			}
			if cut {
				wt[7], wt[8] = 0, 10
			}
			if crashes >= 6 {
				wt[5] = 0
			}
			switch r.Weighted(wt) {
			case 0:
				add(w(r.Bool(0.5)))
			case 1:
				add(run(core.Pick(r, []int{400, 1200, 5000})))
			case 2:
				add(POp{K: "pump", N: r.Range(1, 4), Seed: r.Uint64()})
			case 3:
				add(POp{K: "tick", Ms: core.Pick(r, []int{400, 800, 2000, 4400}), Seed: r.Uint64()})
			case 4:
				add(POp{K: "hold", Sel: core.Pick(r, roles), OneW: r.Bool(0.4), Ms: core.Pick(r, []int{800, 2000, 3000}), Seed: r.Uint64()})
			case 5:
				op := POp{K: "crash", Sel: core.Pick(r, roles), Seed: r.Uint64()}
				if cut {
					op.Sel = "cut"
				}
				switch r.Intn(10) {
				case 0, 1, 2, 3, 4, 5:
					op.Early = true
				case 6, 7, 8:
					op.Back = r.Range(1, 1000)
					op.Torn = r.Bool(0.3)
				}
				if r.Intn(3) == 0 {
					wid++
					add(POp{K: "w", ID: wid, Rows: pwGenRows(r, c, &written), Async: true, Seed: r.Uint64()}, POp{K: "pump", N: r.Range(1, 6), Seed: r.Uint64()})
				}
				add(op)
				crashes++
				down, cut = true, false
			case 6:
				add(POp{K: "restart"})
				down = false
			case 7:
				add(POp{K: "part", Sel: core.Pick(r, roles), OneW: r.Bool(0.4)})
				cut = true
			case 8:
				add(POp{K: "heal"})
				cut = false
			case 9:
				add(POp{K: "flush", Sel: core.Pick(r, roles)})
			case 10:
				add(POp{K: "read"})
			case 11:
				add(POp{K: "xfer", Seed: r.Uint64()})
			}
		}
	}
}

// pwGenApplyYield draws the apply-path yield knob (p_yield.go) - LAST, so that everything
// else of a case is what its seed produced before the knob existed - and, where it is on
// in a case of the general mix, inserts steps that use it behind the steps after which a
// node catches up (heal, restart): run until an apply loop is parked inside a commit
// batch, flush that node, then kill it there / let the batch finish and kill it / go on.
func pwGenApplyYield(r *core.Rand, env *core.Env, c *PCase) {
	if pwApplyYieldOff() {
		return
	}
	switch c.Flav {
	case "flush_mid_batch":
		c.ApplyYield, c.ApplyHold = 1, 100 // every step of the flavour is explicit
		return
	case "ack_kill", "leader_ack_kill", "vote_kill":
		return // choreographed to the message
	}
	if !r.Bool(0.15) {
		return
	}
	c.ApplyYield = core.Pick(r, []int{1, 1, 2, 3})
	var ops []POp
	for _, op := range c.Ops {
		ops = append(ops, op)
		if (op.K != "heal" && op.K != "restart") || !r.Bool(0.6) {
			continue
		}
		ops = append(ops, POp{K: "run", Ms: 2000, Until: "parked", Seed: r.Uint64()}, POp{K: "flush", Sel: "parked"})
		switch r.Intn(4) {
		case 0:
			ops = append(ops, POp{K: "crash", Sel: "parked", Seed: r.Uint64()}, POp{K: "restart"})
		case 1:
			kill := POp{K: "crash", Sel: "yielded", Seed: r.Uint64()}
			if r.Bool(0.3) {
				kill.Back = r.Range(1, 600)
			}
			ops = append(ops, POp{K: "aresume", Sel: "parked", All: true}, kill, POp{K: "restart"})
		case 2:
			ops = append(ops, POp{K: "aresume", Sel: "parked", All: true})
		}
	}
	c.Ops = ops
}
