package engine

// World S plumbing: process-wide setup, knobs, opening and closing a shard
// incarnation on a given root directory.

import (
	"fmt"
	"math"
	"path/filepath"
	"sync"
	"time"

	"github.com/openGemini/openGemini/engine/executor"
	"github.com/openGemini/openGemini/engine/immutable"
	"github.com/openGemini/openGemini/engine/index/tsi"
	"github.com/openGemini/openGemini/lib/compress"
	"github.com/openGemini/openGemini/lib/config"
	"github.com/openGemini/openGemini/lib/cpu"
	"github.com/openGemini/openGemini/lib/index"
	"github.com/openGemini/openGemini/lib/resourceallocator"
	"github.com/openGemini/openGemini/lib/util"
	"github.com/openGemini/openGemini/lib/util/lifted/influx/meta"
	"github.com/influxdata/influxdb/toml"
	"github.com/openGemini/openGemini/verifsim/core"
)

var sSetupOnce sync.Once

// sSyncSequencerLoad: run the flush-time reload to completion inside openShard
// (sequential worlds).  World C sets it to false to keep the reload asynchronous.
var sSyncSequencerLoad = true

// sSetup neutralises process-global background work so that reorganisation only
// happens when the scheduler issues it as an operation.
func sSetup() {
	sSetupOnce.Do(func() {
		// the package-level compaction worker (10 s real ticker) is replaced by an
		// instance whose loop never runs; shards register with the inert instance.
		compWorker = &Compactor{
			sources:                  make(map[uint64]*shard, 32),
			outOfOrderMergeNumberMin: 2,
			outOfOrderMergeSizeMin:   1 * 1024 * 1024,
			plans:                    make(map[uint64][immutable.CompactLevels]map[string][][]uint64, 8),
		}
		// production defaults of the store configuration (ts-store does the same at start-up)
		config.SetStoreConfig(config.NewStore())
		immutable.Init()
		_ = resourceallocator.InitResAllocator(math.MaxInt64, 1, 1, resourceallocator.GradientDesc, resourceallocator.ChunkReaderRes, 0, 0)
		_ = resourceallocator.InitResAllocator(math.MaxInt64, 1, 1, resourceallocator.GradientDesc, resourceallocator.ShardsParallelismRes, 0, 0)
		_ = resourceallocator.InitResAllocator(math.MaxInt64, 1, 1, resourceallocator.GradientDesc, resourceallocator.SeriesParallelismRes, 0, 0)
		executor.RegistryTransformCreator(&executor.LogicalReader{}, &ChunkReader{})
	})
}

// SKnobs are the per-run tuning values ("buggify"): they make multi-segment
// files, several compaction levels, merges and uneven WAL partitions reachable
// with tens of rows.
type SKnobs struct {
	Partitions     int  `json:"parts"`      // WAL partitions (cpu.SetCpuNum)
	RowsPerSegment int  `json:"seg_rows"`   // immutable max rows per segment
	SegmentLimit   int  `json:"seg_limit"`  // max segments per file/chunk
	MinGroupFiles  int  `json:"min_group"`  // LeveLMinGroupFiles for all levels
	MutableLimit   int  `json:"mut_limit"`  // ShardMutableSizeLimit (bytes)
	ReplayParallel bool `json:"replay_par"` // WAL parallel replay (only with single-writer-per-cell histories)
	FileCursor     bool `json:"file_cursor"`
	ChunkSize      int  `json:"chunk_size"`
	MaxParallel    int  `json:"max_parallel"`
	// compaction-method of the store configuration: 0 auto (streaming only for very large chunks), 1 streaming,
	// 2 non-streaming; absent in older replay files = auto
	CompactMethod int `json:"compact_method,omitempty"`
	// encoder settings of the store configuration file, drawn only by the C07 check (absent = product defaults):
	// string-compress-algo 0 snappy 1 lz4 2 zstd; float-compress-algorithm "" / "mlf"; chunk-meta-compress-mode 0..3
	StrAlgo       int  `json:"str_algo,omitempty"`
	FloatMLF      bool `json:"float_mlf,omitempty"`
	ChunkMetaMode int  `json:"cm_mode,omitempty"`
}

func genKnobs(r *core.Rand) SKnobs {
	k := SKnobs{}
	k.Partitions = core.Pick(r, []int{1, 1, 1, 1, 1, 1, 2, 2, 3, 4, 8, 16})
	k.RowsPerSegment = core.Pick(r, []int{8, 8, 16, 16, 1000})
	k.CompactMethod = core.Pick(r, []int{0, 0, 1, 2}) // (takes the draw of the former segment-limit knob)
	k.SegmentLimit = 65535 // not configurable in the product (no caller of the setter): left at its default
	k.MinGroupFiles = core.Pick(r, []int{2, 2, 3, 4, 8})
	k.MutableLimit = core.Pick(r, []int{30 << 20, 30 << 20, 2048, 512})
	_ = r.Bool(0.5)
	k.FileCursor = true // the product never switches it off (only the repo's tests call EnableFileCursor(false))
	k.ChunkSize = core.Pick(r, []int{1, 2, 3, 7, 1024})
	k.MaxParallel = core.Pick(r, []int{1, 2, 8})
	return k
}

var origMinGroup = immutable.LeveLMinGroupFiles

func applyKnobs(k SKnobs) {
	sSetup()
	if k.Partitions <= 0 {
		k.Partitions = 1
	}
	cpu.SetCpuNum(k.Partitions, k.Partitions)
	immutable.SetMaxRowsPerSegment4TsStore(k.RowsPerSegment)
	immutable.SetMaxSegmentLimit4TsStore(k.SegmentLimit)
	for i := range immutable.LeveLMinGroupFiles {
		if k.MinGroupFiles > 0 {
			immutable.LeveLMinGroupFiles[i] = k.MinGroupFiles
		} else {
			immutable.LeveLMinGroupFiles[i] = origMinGroup[i]
		}
	}
	executor.EnableFileCursor(k.FileCursor)
	immutable.SetMergeFlag4TsStore(int32(k.CompactMethod))
	// encoder settings: what ts-store does at start-up (config.SetStoreConfig, compress.Init,
	// immutable.SetChunkMetaCompressMode).  A string coder keeps the compressor it was first
	// used with and coders are pooled, so the pools are emptied when the setting changes
	// (a store process never changes it while running).
	algo := []string{config.CompressAlgoSnappy, config.CompressAlgoLZ4, config.CompressAlgoZSTD}[((k.StrAlgo%3)+3)%3]
	if config.GetStoreConfig().StringCompressAlgo != algo {
		config.GetStoreConfig().StringCompressAlgo = algo
		immutable.VerifDropPooledCoders()
	}
	config.GetStoreConfig().FloatCompressAlgorithm = ""
	if k.FloatMLF {
		config.GetStoreConfig().FloatCompressAlgorithm = compress.FloatCompressAlgorithmMLF
	}
	compress.Init()
	immutable.SetChunkMetaCompressMode(((k.ChunkMetaMode % 4) + 4) % 4)
	// the size that triggers an automatic memtable flush; assigned directly because
	// the setter clamps it to >= 30 MiB (a knob value, not a production setting)
	lim := k.MutableLimit
	if lim <= 0 {
		lim = 30 << 20
	}
	config.GetMemTableConfig().ShardMutableSizeLimit = toml.Size(lim)
}

func sEngineOptions(k SKnobs) EngineOptions {
	o := NewEngineOptions()
	o.WriteColdDuration = 5000 * time.Hour // never flush on a timer
	o.ForceSnapShotDuration = 5000 * time.Hour
	o.ShardMutableSizeLimit = int64(k.MutableLimit)
	if o.ShardMutableSizeLimit <= 0 {
		o.ShardMutableSizeLimit = 30 << 20
	}
	o.NodeMutableSizeLimit = 1e9
	o.MaxWriteHangTime = time.Second
	o.MemDataReadEnabled = true
	o.WalSyncInterval = 0 // synchronous sync: no background sync goroutine
	o.WalEnabled = true
	o.WalReplayParallel = k.ReplayParallel
	o.WalReplayAsync = false
	o.DownSampleWriteDrop = true
	return o
}

const (
	sDB = "db0"
	sRP = "rp0"
)

// sNode is one incarnation of the storage shard (index + shard) on a root dir.
type sNode struct {
	root string
	sh   *shard
	ib   *tsi.IndexBuilder
}

// openShard opens (or creates) the shard living under root.  clock is the logical
// clock the meta service would hand to this incarnation of the store process.
func openShard(root string, k SKnobs, clock uint64) (*sNode, error) {
	applyKnobs(k)
	dataPath := filepath.Join(root, "data")
	walPath := filepath.Join(root, "wal")
	lockPath := filepath.Join(dataPath, "LOCK")
	indexPath := filepath.Join(root, sDB, "index", "data")
	ident := &meta.IndexIdentifier{OwnerDb: sDB, OwnerPt: 1, Policy: sRP}
	ident.Index = &meta.IndexDescriptor{IndexID: 1, IndexGroupID: 2, TimeRange: meta.TimeRangeInfo{}}
	ltime := uint64(1700000000) // fixed sequence id: ids must not depend on the wall clock
	t0 := time.Unix(0, 0).UTC()
	opts := new(tsi.Options).
		Ident(ident).
		Path(indexPath).
		IndexType(index.MergeSet).
		EngineType(config.TSSTORE).
		StartTime(t0).
		EndTime(t0.Add(200 * 365 * 24 * time.Hour)).
		Duration(time.Hour).
		LogicalClock(clock).
		SequenceId(&ltime).
		Lock(&lockPath)
	ib := tsi.NewIndexBuilder(opts)
	primaryIndex, err := tsi.NewIndex(opts)
	if err != nil {
		return nil, fmt.Errorf("new index: %w", err)
	}
	primaryIndex.SetIndexBuilder(ib)
	indexRelation, _ := tsi.NewIndexRelation(opts, primaryIndex, ib)
	ib.Relations[uint32(index.MergeSet)] = indexRelation
	if err = ib.Open(); err != nil {
		return nil, fmt.Errorf("open index: %w", err)
	}
	shardDuration := &meta.DurationDescriptor{Tier: util.Hot, TierDuration: 5000 * time.Hour}
	tr := &meta.TimeRangeInfo{StartTime: mustParseTime(time.RFC3339Nano, "1970-01-01T01:00:00Z"),
		EndTime: mustParseTime(time.RFC3339Nano, "2099-01-01T01:00:00Z")}
	shardIdent := &meta.ShardIdentifier{ShardID: 1, ShardGroupID: 1, OwnerDb: sDB, OwnerPt: 1, Policy: sRP}
	sh := NewShard(dataPath, walPath, &lockPath, shardIdent, shardDuration, tr, sEngineOptions(k), config.TSSTORE, nil)
	sh.indexBuilder = ib
	if err := sh.OpenAndEnable(nil); err != nil {
		_ = sh.Close()
		_ = ib.Close()
		return nil, fmt.Errorf("open shard: %w", err)
	}
	// reorganisation happens only as a scheduled operation
	sh.immTables.CompactionDisable()
	sh.immTables.MergeDisable()
	// The per-series flush times are reloaded asynchronously by the first write after a
	// restart; in the sequential regime that background task is run to completion right
	// here, before any other operation (its interleavings with writes, flushes, merges
	// and close are world C's subject: leads L1/L2 were both races with it).
	if sSyncSequencerLoad {
		sh.immTables.LoadSequencer()
		seq := sh.immTables.Sequencer()
		for k := 0; k < 5000 && seq.IsLoading(); k++ {
			time.Sleep(time.Millisecond)
		}
		seq.UnRef()
	}
	return &sNode{root: root, sh: sh, ib: ib}, nil
}

func (n *sNode) close() error {
	if n == nil || n.sh == nil {
		return nil
	}
	var first error
	if err := n.ib.Close(); err != nil {
		first = err
	}
	if err := n.sh.Close(); err != nil && first == nil {
		first = err
	}
	n.sh = nil
	return first
}

// wait for scheduled background tasks of the table store to finish
func (n *sNode) waitStore() {
	if mt, ok := n.sh.immTables.(*immutable.MmsTables); ok {
		mt.Wait()
	}
}
