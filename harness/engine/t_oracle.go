package engine_test

// World T: reference model and oracle of C14.
//
// The model knows, per policy, the duration in force (as accepted by the
// catalogue), and per shard the catalogue told the coordinator stub about: its
// group, time span, partition and the rows acknowledged into it (last write wins).
//
// Judged (statement of C14, clause by clause):
//   - "deleted only when the shard's whole span ended more than the duration ago":
//     a shard with duration = 0 or end+duration >= now must be intact: present in
//     the engine if it was ever created there, its group present, unmarked and the
//     shard not pruned in the catalogue (kinds deleted_unexpired_shard,
//     unlimited_policy_lost_data);
//   - "points inside the window remain queryable": every such shard that is open
//     (or, in a read operation / at the end, every such shard) is read through the
//     real cursor path and must return exactly the model's rows
//     (point_in_window_unreadable, shard_content_mismatch);
//   - "raising the duration before the deletion takes effect keeps the data":
//     follows from the first clause, evaluated with the duration in force at the
//     service run;
//   - "expired shards are eventually removed from storage and catalogue": a shard
//     that was expired at the instant of two consecutive service runs with no
//     operation in between must be gone from the engine and marked + pruned (or
//     absent) in the catalogue after the second (expired_shard_not_removed).
//
// Clock tolerance: a service run starts at instant T; while it runs the virtual
// clock may move (it does not, unless the code sleeps).  A deletion is accepted if
// the shard is expired at the clock reading after the run, and demanded only if it
// was expired at T.

import (
	"fmt"
	"os"
	"path/filepath"
	"sort"
	"strings"
	"time"

	"github.com/openGemini/openGemini/engine"
	"github.com/openGemini/openGemini/lib/util/lifted/influx/meta"
	"github.com/openGemini/openGemini/verifsim/core"
)

type twRPM struct {
	dur     int64 // ns, 0 = unlimited
	prevDur int64 // duration before the last accepted alteration
	sgd     int64
	altered string // none | raised | lowered (last accepted change of the duration)
}

type twKey struct {
	series string
	ts     int64
}

type twShardM struct {
	id, group uint64
	pt        uint32
	rp        int
	start     int64
	end       int64
	indexID   uint64
	rows      map[twKey]int64
	maybe     map[twKey]int64 // written by an operation that was never acknowledged, or that is still in flight: present or absent
	held      bool            // a write is in flight inside it right now
	dataRel   string          // data / WAL directories relative to the store root, once seen
	walRel    string
	foreign   bool // owned by a partition of another store node (catalogue-only checks)
	created   bool // a write reached the store for it: the engine must hold it
	fuzzy     bool // a write into it returned an error: contents not judged
	marked    bool // its group was marked deleted at a run at which it was expired (deletion took effect)
	gone      bool // legitimately removed from engine and catalogue
	waived    bool // a listed finding was stepped over: no longer judged
	expTicks  int
	altered   string // last accepted duration change during the shard's life
	state     string // open | lazy | absent, at the last quiescent point
}

type twModel struct {
	r           *twRun
	rps         []*twRPM
	shards      map[uint64]*twShardM
	lastRestart string
}

func newTwModel(r *twRun) *twModel {
	m := &twModel{r: r, shards: map[uint64]*twShardM{}, lastRestart: "none"}
	for i := range r.c.RPs {
		rp := &twRPM{altered: "none"}
		r.cat.read(func(d *meta.Data) {
			rpi, err := d.RetentionPolicy(twDB, twRPName(i))
			twMust(err, "RetentionPolicy")
			rp.dur = int64(rpi.Duration)
			rp.sgd = int64(rpi.ShardGroupDuration)
			// the catalogue must have taken the requested duration as it is
			if rp.dur != int64(r.c.RPs[i].DurH)*twHour {
				panic(core.InfraPanic(fmt.Sprintf("policy %d created with duration %v, asked for %dh", i, rpi.Duration, r.c.RPs[i].DurH)))
			}
		})
		rp.prevDur = rp.dur
		m.rps = append(m.rps, rp)
	}
	return m
}

func (m *twModel) ids() []uint64 {
	var ids []uint64
	for id := range m.shards {
		ids = append(ids, id)
	}
	sort.Slice(ids, func(i, j int) bool { return ids[i] < ids[j] })
	return ids
}

func (m *twModel) learnGroup(rp int, sg *meta.ShardGroupInfo) {
	for _, sh := range sg.Shards {
		if _, ok := m.shards[sh.ID]; ok {
			continue
		}
		pt := uint32(0)
		if len(sh.Owners) > 0 {
			pt = sh.Owners[0]
		}
		s := &twShardM{id: sh.ID, group: sg.ID, pt: pt, rp: rp, start: sg.StartTime.UnixNano(), end: sg.EndTime.UnixNano(),
			indexID: sh.IndexID, rows: map[twKey]int64{}, altered: "none", state: "absent"}
		if int(pt) >= m.r.c.PTs {
			s.foreign, s.state = true, "foreign"
			m.r.out.Stats["foreign_shards_in_catalogue"]++
		} else {
			m.r.out.Stats["shards_in_catalogue"]++
		}
		m.shards[sh.ID] = s
	}
}

func (m *twModel) applyWrite(shard uint64, series int, ts int64, val int64, failed bool) {
	s := m.shards[shard]
	if s == nil {
		panic(core.InfraPanic("write into a shard the model does not know"))
	}
	if failed {
		s.fuzzy = true
		return
	}
	s.created = true
	s.rows[twKey{engine.TwSeriesKey(series), ts}] = val
	if ts < s.start || ts >= s.end {
		panic(core.InfraPanic("the catalogue routed a point into a group that does not contain it"))
	}
}

func (m *twModel) noteHeld(h *twHold) {
	s := m.shards[h.shard]
	if s == nil {
		panic(core.InfraPanic("held write into a shard the model does not know"))
	}
	if s.maybe == nil {
		s.maybe = map[twKey]int64{}
	}
	s.maybe[twKey{engine.TwSeriesKey(h.series), h.ts}] = h.val
	s.held = true
}

// bookHeld: the held write returned.  ok = acknowledged without error.
func (m *twModel) bookHeld(h *twHold, ok bool) {
	s := m.shards[h.shard]
	if s == nil {
		return
	}
	s.held = false
	k := twKey{engine.TwSeriesKey(h.series), h.ts}
	if ok {
		delete(s.maybe, k)
		s.rows[k] = h.val
		s.created = true
	}
	// not acknowledged: the point stays in "maybe" (it may or may not have landed)
}

func (m *twModel) noteChange() {
	for _, s := range m.shards {
		s.expTicks = 0
	}
}

func (m *twModel) applyAlter(op TOp, err error) {
	rp := m.rps[op.RP]
	var cd, csgd int64
	m.r.cat.read(func(d *meta.Data) {
		rpi, e := d.RetentionPolicy(twDB, twRPName(op.RP))
		twMust(e, "RetentionPolicy")
		cd, csgd = int64(rpi.Duration), int64(rpi.ShardGroupDuration)
	})
	if err != nil {
		if cd != rp.dur {
			m.r.report(&core.Violation{Property: m.r.prop, Kind: "rejected_alter_changed_duration",
				Detail: fmt.Sprintf("UpdateRetentionPolicy returned %v but the duration in the catalogue changed from %v to %v", err, time.Duration(rp.dur), time.Duration(cd))})
			rp.dur = cd
		}
		return
	}
	rp.sgd = csgd
	if op.DurH == nil {
		if cd != rp.dur {
			m.r.report(&core.Violation{Property: m.r.prop, Kind: "alter_changed_duration",
				Detail: fmt.Sprintf("an alteration that did not name the duration changed it from %v to %v", time.Duration(rp.dur), time.Duration(cd))})
			rp.dur = cd
		}
		return
	}
	nd := int64(*op.DurH) * twHour
	if cd != nd {
		m.r.report(&core.Violation{Property: m.r.prop, Kind: "alter_not_applied",
			Detail: fmt.Sprintf("UpdateRetentionPolicy(duration=%v) succeeded but the catalogue holds %v", time.Duration(nd), time.Duration(cd))})
		nd = cd
	}
	old := rp.dur
	dir := "none"
	switch {
	case nd == old:
	case nd == 0 || (old != 0 && nd > old):
		dir = "raised"
	default:
		dir = "lowered"
	}
	if dir != "none" {
		rp.prevDur, rp.dur, rp.altered = old, nd, dir
		for _, s := range m.shards {
			if s.rp == op.RP && !s.gone {
				s.altered = dir
			}
		}
		m.r.out.Stats["duration_"+dir]++
	}
}

// ---- observation ------------------------------------------------------------------------

type twCatShard struct {
	groupPresent bool
	groupMarked  bool
	deletedAt    time.Time
	shardListed  bool
	shardPruned  bool // MarkDelete
}

type twObs struct {
	eng map[uint64]engine.TwShard
	cat map[uint64]twCatShard // by shard id
	idx map[uint64]bool       // index ids the engine holds
}

// syncCatalogue learns shards the catalogue added to known policies without the
// coordinator stub asking for them (ExpandGroups after a data node joined).
func (m *twModel) syncCatalogue() {
	m.r.cat.read(func(d *meta.Data) {
		for i := range m.rps {
			rpi, err := d.RetentionPolicy(twDB, twRPName(i))
			if err != nil {
				continue
			}
			for gi := range rpi.ShardGroups {
				sg := &rpi.ShardGroups[gi]
				for _, sh := range sg.Shards {
					if _, ok := m.shards[sh.ID]; ok {
						continue
					}
					m.learnGroup(i, sg)
					break
				}
			}
		}
	})
}

func (m *twModel) observe() *twObs {
	o := &twObs{eng: map[uint64]engine.TwShard{}, cat: map[uint64]twCatShard{}, idx: map[uint64]bool{}}
	if m.r.up {
		for _, s := range engine.TwShards(m.r.eng) {
			o.eng[s.ID] = s
		}
		for _, ix := range engine.TwIndexes(m.r.eng) {
			o.idx[ix.ID] = true
		}
	}
	m.r.cat.read(func(d *meta.Data) {
		dbi := d.Database(twDB)
		for _, rpi := range dbi.RetentionPolicies {
			for gi := range rpi.ShardGroups {
				sg := &rpi.ShardGroups[gi]
				for _, sh := range sg.Shards {
					o.cat[sh.ID] = twCatShard{groupPresent: true, groupMarked: !sg.DeletedAt.IsZero(), deletedAt: sg.DeletedAt, shardListed: true, shardPruned: sh.MarkDelete}
				}
			}
		}
	})
	return o
}

func (m *twModel) policyClass(s *twShardM) string {
	rp := m.rps[s.rp]
	span := s.end - s.start
	switch {
	case rp.dur == 0:
		return "unlimited"
	case rp.dur < span:
		return "shorter"
	case rp.dur == span:
		return "equal"
	}
	return "longer"
}

func (m *twModel) boundaryClass(s *twShardM, at int64) string {
	rp := m.rps[s.rp]
	if rp.dur == 0 {
		return "unlimited"
	}
	iv := m.r.c.IntervalS * twSec
	delta := at - (s.end + rp.dur)
	switch {
	case delta == 0:
		return "at"
	case delta < 0 && delta > -iv:
		return "before"
	case delta > 0 && delta <= iv:
		return "after"
	case delta < 0:
		return "far_before"
	}
	return "far_after"
}

func (m *twModel) attrs(s *twShardM, at int64, where string) map[string]string {
	return map[string]string{"boundary": m.boundaryClass(s, at), "altered": s.altered, "shard_state": s.state, "policy": m.policyClass(s),
		"restart": m.lastRestart, "where": where}
}

func (m *twModel) describe(s *twShardM, at int64) string {
	rp := m.rps[s.rp]
	exp := "never (unlimited)"
	if rp.dur != 0 {
		exp = twFmtRel(s.end + rp.dur - m.r.epoch.UnixNano())
	}
	return fmt.Sprintf("shard %d (group %d, policy %s, pt %d, span %s..%s, duration in force %v, expires after %s, state before: %s, duration last %s, rows %d)",
		s.id, s.group, twRPName(s.rp), s.pt, twFmtRel(s.start-m.r.epoch.UnixNano()), twFmtRel(s.end-m.r.epoch.UnixNano()), time.Duration(rp.dur), exp, s.state, s.altered, len(s.rows))
}

// judgeTick: called when a service run that started at instant nt is over.
func (m *twModel) judgeTick(nt, after time.Time, killed string) {
	m.judge("tick", nt, after, false, killed)
}

// judgeState: called at any other quiescent point.
func (m *twModel) judgeState(phase string, full bool) {
	now := time.Now()
	m.judge(phase, now, now, full, "")
}

func (m *twModel) judge(phase string, nt, after time.Time, full bool, killed string) {
	r := m.r
	m.syncCatalogue()
	o := m.observe()
	tick := phase == "tick"
	ntN, afterN := nt.UnixNano(), after.UnixNano()
	settled := r.lastWrite.IsZero() || !time.Now().Before(r.lastWrite.Add(1500*time.Millisecond))
	if settled && r.indexDirty && r.up {
		engine.TwFlushIndexes(r.eng)
		r.indexDirty = false
	}
	for _, id := range m.ids() {
		s := m.shards[id]
		if s.gone || s.waived {
			continue
		}
		rp := m.rps[s.rp]
		es, inEng := o.eng[id]
		cs := o.cat[id]
		if inEng && es.DataPath != "" && r.root != "" {
			if rel, ok := strings.CutPrefix(es.DataPath, r.root+"/"); ok {
				s.dataRel = rel
			}
			if rel, ok := strings.CutPrefix(es.WalPath, r.root+"/"); ok {
				s.walRel = rel
			}
		}
		if s.held && tick {
			s.state = "writing"
			if mustExpired(rp, s, ntN) {
				r.out.Probes["service ran while a write into an expiring shard was in flight"]++
			} else {
				r.out.Probes["service ran while a write into a live shard was in flight"]++
			}
		}
		mustBeGone := rp.dur != 0 && s.end+rp.dur < ntN
		mayBeGone := rp.dur != 0 && s.end+rp.dur < afterN
		catRemoved := !cs.groupPresent || (cs.groupMarked && cs.shardPruned)
		if tick {
			r.out.AddLayout(strings.Join([]string{m.policyClass(s), m.boundaryClass(s, ntN), s.state, s.altered, fmt.Sprint(mustBeGone)}, "/"))
			switch m.boundaryClass(s, ntN) {
			case "at":
				r.out.Probes["service run exactly at end+duration"]++
			case "after":
				if ntN-(s.end+rp.dur) == 1 {
					r.out.Probes["service run one nanosecond after end+duration"]++
				}
				r.out.Probes["service run within one interval after end+duration"]++
			case "before":
				if ntN-(s.end+rp.dur) == -1 {
					r.out.Probes["service run one nanosecond before end+duration"]++
				}
			}
			if rp.altered == "raised" && rp.prevDur != 0 && s.end+rp.prevDur < ntN && !mustBeGone && !s.marked {
				r.out.Probes["duration raised after expiry under the old duration, before the service ran"]++
			}
			if rp.altered == "lowered" && mustBeGone && (rp.prevDur == 0 || s.end+rp.prevDur >= ntN) {
				r.out.Probes["duration lowered: shard expired under the new duration only"]++
			}
		}
		if tick && mustBeGone && s.foreign {
			// another node's retention service is in charge of it
			if cs.groupMarked || !cs.groupPresent {
				s.marked = true
			}
			continue
		}
		if tick && mustBeGone {
			// liveness side
			if cs.groupMarked || !cs.groupPresent {
				s.marked = true
			}
			if !inEng && catRemoved {
				if left := m.leftOnDisk(s); left != "" {
					s.expTicks++
					if s.expTicks >= 2 {
						v := &core.Violation{Property: r.prop, Kind: "expired_shard_not_removed", Attrs: m.attrs(s, ntN, "disk"),
							Detail: fmt.Sprintf("service run at %s: %s is gone from the engine and the catalogue, but its files are still on disk: %s", twFmtRel(r.rel(nt)), m.describe(s, ntN), left)}
						if r.report(v) {
							s.waived = true
						}
						if r.stop {
							return
						}
					}
					continue
				}
				s.gone = true
				r.out.Stats["shards_removed"]++
				if len(s.rows) > 0 {
					r.out.Stats["shards_removed_with_rows"]++
				}
				switch s.state {
				case "lazy":
					r.out.Probes["expired shard was not loaded (lazy) when the service ran"]++
				case "absent":
					r.out.Probes["expired shard was unknown to the engine when the service ran"]++
				case "open":
					r.out.Probes["expired shard was open when the service ran"]++
				}
				continue
			}
			s.expTicks++
			if s.expTicks >= 2 {
				where := "engine"
				if !inEng {
					where = "catalogue"
				} else if !catRemoved {
					where = "engine+catalogue"
				}
				v := &core.Violation{Property: r.prop, Kind: "expired_shard_not_removed", Attrs: m.attrs(s, ntN, where),
					Detail: fmt.Sprintf("service run at %s (and the one before it, nothing else happened in between): %s is expired but still there: in engine=%v, catalogue group present=%v marked=%v, shard pruned=%v",
						twFmtRel(r.rel(nt)), m.describe(s, ntN), inEng, cs.groupPresent, cs.groupMarked, cs.shardPruned)}
				if r.report(v) {
					s.waived = true
				}
				if r.stop {
					return
				}
			}
			s.state = twStateOf(es, inEng)
			continue
		}
		if !mayBeGone {
			s.expTicks = 0
		}
		if mayBeGone || s.marked {
			// expired by now (the service may or may not have seen it that way), or its deletion
			// took effect earlier: nothing is promised about it any more
			if cs.groupMarked || !cs.groupPresent {
				s.marked = true
			}
			if tick && s.marked && !mayBeGone && inEng && !s.foreign {
				// not judged: the deletion took effect (the group is invisible to queries) when the
				// catalogue marked it; the shard itself survives until it expires under the new duration
				r.out.Probes["group stays marked deleted while its shard is unexpired again (duration raised after the mark)"]++
			}
			if !s.foreign {
				s.state = twStateOf(es, inEng)
			}
			continue
		}
		// ---- safety side: the shard is not expired, it must be intact
		bad, where := "", ""
		switch {
		case !cs.groupPresent:
			bad, where = "its shard group is no longer in the catalogue", "catalogue_prune"
		case cs.groupMarked:
			bad, where = fmt.Sprintf("its shard group is marked deleted in the catalogue (DeletedAt %s)", twFmtRel(r.rel(cs.deletedAt))), "catalogue_mark"
		case cs.shardPruned:
			bad, where = "the shard is marked pruned (MarkDelete) in the catalogue", "catalogue_prune"
		case s.created && r.up && !inEng:
			bad, where = "the engine no longer holds the shard", "engine"
		case s.created && r.up && inEng && es.HasIndex && !o.idx[es.IndexID]:
			bad, where = fmt.Sprintf("the engine deleted index %d, which the shard's series live in", es.IndexID), "index"
		}
		if bad != "" {
			kind := "deleted_unexpired_shard"
			if rp.dur == 0 {
				kind = "unlimited_policy_lost_data"
			}
			at := m.attrs(s, ntN, where)
			if where == "index" {
				// evidence: what a query gets now, and whether points still inside the window are among the lost ones
				got, err := engine.TwDump(r.eng, twDB, s.pt, s.id, 0)
				_, detail := m.compareRows(s, got, err)
				inWin := 0
				for k := range s.rows {
					if rp.dur == 0 || k.ts >= afterN-rp.dur {
						inWin++
					}
				}
				at["points_in_window"] = "no"
				if inWin > 0 {
					at["points_in_window"] = "yes"
				}
				bad += fmt.Sprintf("; reading the shard now: %s; %d of its %d points are still inside the retention window", detail, inWin, len(s.rows))
			}
			v := &core.Violation{Property: r.prop, Kind: kind, Attrs: at,
				Detail: fmt.Sprintf("%s at %s: %s is not expired, but %s", phase, twFmtRel(r.rel(nt)), m.describe(s, ntN), bad)}
			if r.report(v) {
				s.waived = true
			}
			if r.stop {
				return
			}
			continue
		}
		if !r.up {
			continue
		}
		// ---- contents
		if s.created && !s.fuzzy && !s.held && settled && (full || es.Opened) {
			got, err := engine.TwDump(r.eng, twDB, s.pt, s.id, 0)
			r.out.Stats["shard_reads"]++
			kind, detail := m.compareRows(s, got, err)
			if kind != "" {
				v := &core.Violation{Property: r.prop, Kind: kind, Attrs: m.attrs(s, ntN, "rows"),
					Detail: fmt.Sprintf("%s at %s: %s: %s", phase, twFmtRel(r.rel(nt)), m.describe(s, ntN), detail)}
				if r.report(v) {
					s.waived = true
				}
				if r.stop {
					return
				}
				continue
			}
			if tick && len(s.rows) > 0 {
				r.out.Stats["kept_checks_with_rows"]++
			}
		}
		if tick {
			r.out.Stats["kept_checks"]++
		}
		// the state a later service run will find (a read may just have loaded the shard)
		if r.up {
			es, inEng = twShardOf(r.eng, id)
		}
		if !s.foreign {
			s.state = twStateOf(es, inEng)
		}
	}
}

func mustExpired(rp *twRPM, s *twShardM, at int64) bool { return rp.dur != 0 && s.end+rp.dur < at }

// leftOnDisk names what is left of a shard's directories under the store root.
func (m *twModel) leftOnDisk(s *twShardM) string {
	if m.r.root == "" {
		return ""
	}
	var left []string
	for _, rel := range []string{s.dataRel, s.walRel} {
		if rel == "" {
			continue
		}
		if _, err := os.Stat(filepath.Join(m.r.root, rel)); err == nil {
			left = append(left, rel)
		}
	}
	return strings.Join(left, ", ")
}

func twShardOf(e engine.Engine, id uint64) (engine.TwShard, bool) {
	for _, s := range engine.TwShards(e) {
		if s.ID == id {
			return s, true
		}
	}
	return engine.TwShard{}, false
}

func twStateOf(es engine.TwShard, inEng bool) string {
	switch {
	case !inEng || es.Nil:
		return "absent"
	case es.Opened:
		return "open"
	}
	return "lazy"
}

func (m *twModel) compareRows(s *twShardM, got []engine.TwRow, err error) (string, string) {
	if err != nil {
		return "point_in_window_unreadable", fmt.Sprintf("reading the shard failed: %v", err)
	}
	seen := map[twKey]bool{}
	var missing, wrong, extra []string
	for _, g := range got {
		k := twKey{g.Series, g.Time}
		if seen[k] {
			extra = append(extra, fmt.Sprintf("duplicate {%s t=%d}", g.Series, g.Time))
			continue
		}
		seen[k] = true
		want, ok := s.rows[k]
		if mv, isMaybe := s.maybe[k]; isMaybe && !ok {
			if g.Has && g.Val == mv {
				continue
			}
		}
		switch {
		case !ok:
			extra = append(extra, fmt.Sprintf("{%s t=%s fi=%d}", g.Series, twFmtRel(g.Time-m.r.epoch.UnixNano()), g.Val))
		case !g.Has || g.Val != want:
			wrong = append(wrong, fmt.Sprintf("{%s t=%s fi=%d, expected %d}", g.Series, twFmtRel(g.Time-m.r.epoch.UnixNano()), g.Val, want))
		}
	}
	var keys []twKey
	for k := range s.rows {
		keys = append(keys, k)
	}
	sort.Slice(keys, func(i, j int) bool {
		if keys[i].series != keys[j].series {
			return keys[i].series < keys[j].series
		}
		return keys[i].ts < keys[j].ts
	})
	for _, k := range keys {
		if !seen[k] {
			missing = append(missing, fmt.Sprintf("{%s t=%s fi=%d}", k.series, twFmtRel(k.ts-m.r.epoch.UnixNano()), s.rows[k]))
		}
	}
	if len(missing) > 0 {
		return "point_in_window_unreadable", fmt.Sprintf("%d of %d acknowledged points are not returned: %s", len(missing), len(s.rows), strings.Join(missing, " "))
	}
	if len(wrong)+len(extra) > 0 {
		return "shard_content_mismatch", fmt.Sprintf("wrong values: %s; rows never written: %s", strings.Join(wrong, " "), strings.Join(extra, " "))
	}
	return "", ""
}
