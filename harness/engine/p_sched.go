package engine

// World P scheduler: the steps of a case, the simulated coordinator, message
// delivery, crash / restart, and the closing phase (faults stop, bounded
// liveness, convergence, a later different failure).

import (
	"errors"
	"fmt"
	"os"
	"strings"
	"time"

	"github.com/VictoriaMetrics/VictoriaMetrics/lib/encoding"
	"github.com/openGemini/openGemini/lib/errno"
	"github.com/openGemini/openGemini/lib/metaclient"
	"github.com/openGemini/openGemini/lib/util/lifted/influx/meta"
	"github.com/openGemini/openGemini/lib/util/lifted/vm/protoparser/influx"
	"github.com/openGemini/openGemini/verifsim/core"
	"github.com/openGemini/openGemini/verifsim/simfs"
	"go.etcd.io/etcd/raft/v3/raftpb"
)

const (
	pwClientTimeout = 10 * time.Second // coordinator: retry window for "partition not here" errors
	pwCallWait      = 45 * time.Second // longest a synchronous write step drives the cluster
	pwBoundCommit   = 60 * time.Second // B: after faults stop a probe write must be acknowledged
	pwBoundEqual    = 60 * time.Second // B': after that every live replica equals the model
	pwStepTick      = 100 * time.Millisecond
)

// ---- meta cache of the stores --------------------------------------------------------

func (c *pwCluster) snapshotMeta() *meta.Data {
	b, err := c.meta.data.MarshalBinary()
	if err != nil {
		panic(core.InfraPanic("meta marshal: " + err.Error()))
	}
	d := &meta.Data{}
	if err := d.UnmarshalBinary(b); err != nil {
		panic(core.InfraPanic("meta unmarshal: " + err.Error()))
	}
	return d
}

// syncAllMeta gives every live store the current catalogue (what the stores'
// snapshot polling does).
func (c *pwCluster) syncAllMeta() {
	for _, n := range c.nodes {
		if n != nil && n.alive && n.mc != nil {
			n.mc.SetCacheData(c.snapshotMeta())
		}
	}
}

func (c *pwCluster) metaChanged() {
	if !c.lag {
		c.syncAllMeta()
	}
}

// ---- simulated coordinator --------------------------------------------------------------

type pwCall struct {
	id       int
	rows     []SRow
	done     chan struct{}
	acked    bool
	err      error
	attempts int // attempts that reached a store's WriteToRaft
	routeErr int
	ackNode  int
	ackGen   int
	parts    []*pwPartAck // per shard group: the acknowledging node and what it had applied when it acknowledged
	issuedOp int
}

func (c *pwCall) finished() bool {
	select {
	case <-c.done:
		return true
	default:
		return false
	}
}

var errPwConnReset = errors.New("read tcp: connection reset by peer")
var errPwConnRefused = errors.New("dial tcp: connect: connection refused")

func pwTail(shardID uint64, rows []influx.Row) []byte {
	var tail []byte
	tail = encoding.MarshalUint64(tail, shardID)
	tail = encoding.MarshalUint32(tail, 0) // no stream shards
	tail, err := influx.FastMarshalMultiRows(tail, rows)
	if err != nil {
		panic(core.InfraPanic("marshal rows: " + err.Error()))
	}
	return tail
}

// route picks the shard the coordinator writes a batch of shard group sgi to: the
// shard group is created in the catalogue if the time range has none yet
// (points_writer.go: createShardGroup), then the real GetAliveShards decides (for a
// replicated database: the master partition's shard while the group is healthy).
func (r *pwRun) route(sgi int) (node int, pt uint32, shardID uint64, err error) {
	m := r.c.meta
	sg := pwSgOf(m.data, m, sgi)
	if sg == nil {
		if e := m.createSG(sgi); e != nil {
			return 0, 0, 0, e
		}
		r.out.Probes["shard group created by a write"]++
		r.c.metaChanged()
		if sg = pwSgOf(m.data, m, sgi); sg == nil {
			return 0, 0, 0, errno.NewError(errno.ShardMetaNotFound, uint64(sgi))
		}
	}
	idxs := r.c.coord.GetAliveShards(pwDB, sg, false)
	if len(idxs) == 0 {
		return 0, 0, 0, errno.NewError(errno.NoNodeAvailable)
	}
	sh := sg.Shards[idxs[0]]
	pt = sh.Owners[0]
	return m.nodeOfPt(pt), pt, sh.ID, nil
}

// startWrite is one client write: the batch is split by shard group, every part is
// sent to the store that owns the master partition and retried elsewhere on the
// errors points_writer.go retries on; the write is acknowledged when every part is.
func (r *pwRun) startWrite(op POp) *pwCall {
	call := &pwCall{id: op.ID, rows: op.Rows, done: make(chan struct{}), ackNode: -1, issuedOp: r.opi}
	r.calls = append(r.calls, call)
	var parts [2][]SRow
	for _, row := range op.Rows {
		if rowFields(row) != nil {
			k := r.c.meta.sgIndex(row.T)
			parts[k] = append(parts[k], row)
		}
	}
	go func() {
		defer close(call.done)
		deadline := time.Now().Add(pwClientTimeout)
		for sgi := range parts {
			if len(parts[sgi]) == 0 {
				continue
			}
			if err := r.writePart(call, sgi, sBuildRows(op.ID, parts[sgi]), deadline); err != nil {
				call.err = err
				return
			}
		}
		call.acked = true
	}()
	return call
}

type pwPartAck struct {
	sg, node, gen int
	seen          bool
	err           error
	// while the call waited, the node applied an entry that an earlier process life of the same
	// node had proposed (and got no outcome for)
	earlierLife bool
}

func (r *pwRun) writePart(call *pwCall, sgi int, rows []influx.Row, deadline time.Time) error {
	for {
		var err error
		ni, pt, shardID, rerr := r.route(sgi)
		if rerr != nil {
			err = rerr
			call.routeErr++
		} else {
			n := r.c.nodes[ni]
			if n == nil || !r.c.isAlive(n) || r.c.isUnreach(n) {
				err = errPwConnRefused
				call.routeErr++
			} else {
				call.attempts++
				tail := pwTail(shardID, rows)
				res := make(chan error, 1)
				pa := &pwPartAck{sg: sgi, node: ni, gen: n.gen}
				r.c.net.mu.Lock()
				if r.proposed == nil {
					r.proposed = map[int][][2]int{}
				}
				r.proposed[call.id*4+sgi] = append(r.proposed[call.id*4+sgi], [2]int{ni, n.gen})
				r.c.net.mu.Unlock()
				n.mu.Lock()
				seq0 := len(n.applySeq)
				n.mu.Unlock()
				go func() {
					e := n.eng.WriteToRaft(pwDB, pwRP, pt, tail)
					// server side of the answer: what had the node applied when it answered
					n.mu.Lock()
					ae, seen := n.applied[call.id*4+sgi]
					during := append([]int(nil), n.applySeq[seq0:]...)
					n.mu.Unlock()
					r.c.net.mu.Lock()
					for _, key := range during {
						if key == call.id*4+sgi {
							continue
						}
						for _, at := range r.proposed[key] {
							if at[0] == ni && at[1] < n.gen {
								pa.earlierLife = true
							}
						}
					}
					if n.alive {
						pa.seen, pa.err = seen, ae
						n.observe(n.disk.Len(), "answer")
					}
					r.c.net.mu.Unlock()
					res <- e
				}()
				select {
				case err = <-res:
					if err == nil {
						call.parts = append(call.parts, pa)
						call.ackNode, call.ackGen = ni, n.gen
						return nil
					}
				case <-n.dead:
					err = errPwConnReset
				case <-n.pausedCh:
					// the answer of a paused process does not arrive; the coordinator's request times
					// out ("connection reset" class: retried elsewhere) and its outcome stays unknown
					err = errPwConnReset
				}
			}
		}
		if errno.IsRetryErrorForPtView(err) && time.Now().Before(deadline) {
			time.Sleep(100 * time.Millisecond)
			continue
		}
		return err
	}
}

func (c *pwCluster) isUnreach(n *pwInc) bool {
	c.net.mu.Lock()
	defer c.net.mu.Unlock()
	return n.unreach
}

func (c *pwCluster) isAlive(n *pwInc) bool {
	c.net.mu.Lock()
	defer c.net.mu.Unlock()
	return n.alive
}

// ---- network ---------------------------------------------------------------------------

type pwLink struct{ from, to int }

func (r *pwRun) links() []pwLink {
	net := r.c.net
	net.mu.Lock()
	defer net.mu.Unlock()
	var ls []pwLink
	for f := 0; f < pwNNodes; f++ {
		for t := 0; t < pwNNodes; t++ {
			if len(net.q[f][t]) > 0 && !time.Now().Before(net.held[f][t]) && (r.headFilter == nil || r.headFilter(net.q[f][t][0])) {
				ls = append(ls, pwLink{f, t})
			}
		}
	}
	return ls
}

// netAction takes one queued message (seeded choice of link and position) and
// delivers, drops or duplicates it.  It returns false if nothing is queued.
func (r *pwRun) netAction(rnd *core.Rand, faults bool) (bool, *core.Violation) {
	ls := r.links()
	if len(ls) == 0 {
		return false, nil
	}
	l := ls[rnd.Intn(len(ls))]
	net := r.c.net
	net.mu.Lock()
	q := net.q[l.from][l.to]
	idx := 0
	if faults && r.cs.Reorder > 0 && len(q) > 1 && rnd.Intn(1000) < r.cs.Reorder {
		w := len(q)
		if w > 4 {
			w = 4
		}
		idx = rnd.Intn(w)
		if idx > 0 {
			r.out.Faults["msg_reorder"]++
			r.window["reorder"] = true
		}
	}
	m := q[idx]
	net.q[l.from][l.to] = append(append([]*pwMsg(nil), q[:idx]...), q[idx+1:]...)
	blocked := net.blocked[l.from][l.to]
	net.mu.Unlock()
	if blocked {
		r.out.Faults["msg_blocked"]++
		return true, nil
	}
	if faults {
		roll := rnd.Intn(1000)
		if roll < r.cs.Drop {
			r.out.Faults["msg_drop"]++
			r.window["drop"] = true
			if r.dbg {
				fmt.Printf("[t=%s] DROP %s n%d->n%d term %d entries %d\n", time.Now().Format("04:05.000"), m.typ, m.from, m.to, m.term, m.nent)
			}
			return true, nil
		}
		if roll < r.cs.Drop+r.cs.Dup {
			cp := *m
			net.mu.Lock()
			net.q[l.from][l.to] = append(net.q[l.from][l.to], &cp)
			net.mu.Unlock()
			r.out.Faults["msg_dup"]++
			r.window["dup"] = true
		}
	}
	return true, r.deliver(m)
}

func (r *pwRun) deliver(m *pwMsg) *core.Violation {
	target := r.c.nodes[m.to]
	if target == nil || !r.c.isAlive(target) {
		return nil
	}
	var msg raftpb.Message
	if err := msg.Unmarshal(m.data); err != nil {
		panic(core.InfraPanic("raft message does not unmarshal: " + err.Error()))
	}
	// the message has been seen: the sender's crash image can no longer be cut before the send
	r.c.net.mu.Lock()
	if m.src != nil && m.src.alive {
		m.src.observe(m.jpos, "send")
		if m.src.visible == m.jpos && m.src.visKind == "send" {
			m.src.visMsg = m.typ.String()
			if m.reject {
				m.src.visMsg += "(reject)"
			}
		}
	}
	r.c.net.mu.Unlock()
	r.noteRaftFacts(m, &msg)
	if (msg.Type == raftpb.MsgApp || msg.Type == raftpb.MsgHeartbeat) && msg.Term >= r.leaderTerm {
		if r.leaderHint != m.from && r.leaderHint >= 0 {
			r.out.Probes["leader changed"]++
		}
		r.leaderHint, r.leaderTerm = m.from, msg.Term
	}
	if msg.Type == raftpb.MsgProp {
		r.out.Probes["proposal forwarded to the leader"]++
	}
	if msg.Type == raftpb.MsgSnap {
		r.out.Probes["raft snapshot message sent"]++
	}
	go func() {
		// the receive side of the transport: the store's handler calls Engine.SendRaftMessage
		_ = target.eng.SendRaftMessage(pwDB, uint64(target.pt), msg)
	}()
	r.wait()
	r.out.Stats["msgs_delivered"]++
	return r.checkCommitted()
}

// pump performs up to max network actions (all of them if max < 0, bounded).
func (r *pwRun) pump(rnd *core.Rand, max int, faults bool) *core.Violation {
	limit := max
	if limit < 0 {
		limit = 400
	}
	for k := 0; k < limit; k++ {
		ok, v := r.netAction(rnd, faults)
		if v != nil {
			return v
		}
		if !ok {
			break
		}
		if r.pumpStop != nil && r.pumpStop() {
			break
		}
	}
	return nil
}

// voteQueued: a vote request waits in some queue (other: one of a node that is not the
// candidate noted before); the requester is noted as the candidate.
func (r *pwRun) voteQueued(other bool) bool {
	net := r.c.net
	net.mu.Lock()
	defer net.mu.Unlock()
	best := (*pwMsg)(nil)
	for f := 0; f < pwNNodes; f++ {
		for t := 0; t < pwNNodes; t++ {
			for _, m := range net.q[f][t] {
				if m.typ != raftpb.MsgVote || (other && m.from == r.cand) {
					continue
				}
				if best == nil || m.seq < best.seq {
					best = m
				}
			}
		}
	}
	if best == nil {
		return false
	}
	if !other {
		r.cand = best.from
	}
	return true
}

// noteRaftFacts records (probes only, nothing is judged) facts about the raft group that
// the delivered messages reveal: a node that granted its vote to two candidates in one
// term, two nodes acting as leader in one term.
func (r *pwRun) noteRaftFacts(m *pwMsg, msg *raftpb.Message) {
	if r.votes == nil {
		r.votes = map[[2]uint64]uint64{}
		r.leaders = map[uint64]int{}
	}
	switch msg.Type {
	case raftpb.MsgVoteResp:
		if !msg.Reject {
			k := [2]uint64{uint64(m.from), msg.Term}
			if to, ok := r.votes[k]; ok && to != msg.To {
				r.out.Probes["a node granted its vote twice in one term"]++
				r.logf("node %d granted its vote twice in term %d", m.from, msg.Term)
			}
			r.votes[k] = msg.To
			r.voter = m.from
			r.grants++
		}
	case raftpb.MsgApp, raftpb.MsgHeartbeat:
		if l, ok := r.leaders[msg.Term]; ok && l != m.from {
			r.out.Probes["two leaders in one term"]++
			r.logf("nodes %d and %d both lead term %d", l, m.from, msg.Term)
		}
		r.leaders[msg.Term] = m.from
	}
}

// runFor lets the cluster run for d of virtual time: messages are delivered as
// they appear, the clock moves in 100 ms steps (raft ticks every 400 ms), the
// stores refresh their catalogue caches.
func (r *pwRun) runFor(d time.Duration, rnd *core.Rand, faults bool) *core.Violation {
	return r.runUntil(d, rnd, faults, nil)
}

func (r *pwRun) runUntil(d time.Duration, rnd *core.Rand, faults bool, stop func() bool) *core.Violation {
	end := time.Now().Add(d)
	for {
		if v := r.pump(rnd, -1, faults); v != nil {
			return v
		}
		if stop != nil && stop() {
			return nil
		}
		if !time.Now().Before(end) {
			return nil
		}
		time.Sleep(pwStepTick)
		r.wait()
		if r.c.lag {
			r.c.syncAllMeta()
		}
	}
}

// ---- steps -------------------------------------------------------------------------------

func (r *pwRun) resolve(sel string, rnd *core.Rand) (int, string) {
	master := r.c.meta.nodeOfPt(r.c.meta.masterPt())
	leader := r.leaderHint
	up := func(i int) bool { return i >= 0 && r.c.nodes[i] != nil && r.c.isAlive(r.c.nodes[i]) }
	role := func(i int) string {
		s := "follower"
		if i == leader {
			s = "leader"
		}
		if i == master {
			s += "+master"
		}
		return s
	}
	pick := -1
	switch sel {
	case "leader":
		if up(leader) {
			pick = leader
		}
	case "master":
		if up(master) {
			pick = master
		}
	case "follower":
		var fs []int
		for i := 0; i < pwNNodes; i++ {
			if up(i) && i != leader && i != master {
				fs = append(fs, i)
			}
		}
		if len(fs) == 0 {
			for i := 0; i < pwNNodes; i++ {
				if up(i) && i != leader {
					fs = append(fs, i)
				}
			}
		}
		if len(fs) > 0 {
			pick = fs[rnd.Intn(len(fs))]
		}
	case "n0", "n1", "n2":
		if i := int(sel[1] - '0'); up(i) {
			pick = i
		}
	case "held": // the node whose links were slowed down last
		if up(r.heldNode) {
			pick = r.heldNode
		}
	case "cut": // the isolated node
		if up(r.cutNode) {
			pick = r.cutNode
		}
	case "cand": // the node whose vote request was seen first
		if up(r.cand) {
			pick = r.cand
		}
	case "voter": // the node whose granted vote was delivered last
		if up(r.voter) {
			pick = r.voter
		}
	case "idle": // neither the leader nor the candidate
		for i := 0; i < pwNNodes; i++ {
			if up(i) && i != leader && i != r.cand {
				pick = i
				break
			}
		}
	case "parked", "yielded":
		// parked: the node whose apply loop stands at a yield point inside a commit batch; yielded: the node whose
		// apply loop parked last (since the last "run until parked" step began).  No fallback: the step is skipped.
		pick = r.yieldedNode
		if sel == "parked" {
			pick = r.parkedNode()
		}
		if !up(pick) {
			return -1, "none"
		}
	case "focus": // the follower that still hears the leader while the other one's links are slow
		for pass := 0; pass < 2 && pick < 0; pass++ {
			for i := 0; i < pwNNodes; i++ {
				if up(i) && i != leader && i != r.heldNode && (pass == 1 || i != master) {
					pick = i
					break
				}
			}
		}
	}
	if pick < 0 {
		for i := 0; i < pwNNodes; i++ {
			if up(i) {
				pick = i
				break
			}
		}
	}
	return pick, role(pick)
}

func (r *pwRun) step(i int, op POp) *core.Violation {
	rnd := core.NewRand(op.Seed ^ uint64(i)*0x9e3779b97f4a7c15)
	r.releaseDue(i)
	for _, n := range r.c.nodes {
		if n != nil && n.disk != nil {
			n.disk.SetTag(i)
		}
	}
	switch op.K {
	case "w":
		// one client: the previous call ends before the next starts
		if v := r.finishPending(rnd); v != nil {
			return v
		}
		if len(sBuildRows(op.ID, op.Rows)) == 0 {
			return nil
		}
		call := r.startWrite(op)
		r.pending = call
		r.wait()
		if op.Async {
			r.logf("op%d w id=%d async", i, op.ID)
			return nil
		}
		if op.Tight {
			// the scheduler stops delivering at the very instant the client has its answer
			r.pumpStop = call.finished
			defer func() { r.pumpStop = nil }()
		}
		return r.finishPending(rnd)
	case "hold":
		// a slow network, not a fault: the messages on the node's links stay queued (in order) for
		// at most 3 s of virtual time - less than the shortest election timeout
		x, role := r.resolve(op.Sel, rnd)
		if x < 0 {
			return nil
		}
		ms := op.Ms
		if ms <= 0 || ms > 3000 {
			ms = 3000
		}
		until := time.Now().Add(time.Duration(ms) * time.Millisecond)
		net := r.c.net
		net.mu.Lock()
		for k := 0; k < pwNNodes; k++ {
			if k != x {
				net.held[k][x] = until
				if !op.OneW {
					net.held[x][k] = until
				}
			}
		}
		net.mu.Unlock()
		r.heldNode = x
		r.out.Stats["holds"]++
		r.logf("op%d hold %s %dms onew=%v", i, role, ms, op.OneW)
		return nil
	case "xfer":
		// the meta service asks the group to make the master partition's replica the raft leader
		// (what ts-meta does after UpdateReplication: Store.TransferLeadership -> Engine.TransferLeadership)
		mpt := r.c.meta.masterPt()
		mi := r.c.meta.nodeOfPt(mpt)
		if mi < 0 || r.c.nodes[mi] == nil || !r.c.isAlive(r.c.nodes[mi]) || r.leaderHint == mi {
			r.logf("op%d xfer skipped", i)
			return nil
		}
		x, _ := r.resolve("leader", rnd)
		n := r.c.nodes[x]
		if n == nil || !r.c.isAlive(n) || n.eng == nil {
			return nil
		}
		go func() { _ = n.eng.TransferLeadership(pwDB, r.c.meta.ids[x], n.pt, mpt) }()
		r.wait()
		v := r.runUntil(3*time.Second, rnd, true, func() bool { return r.leaderHint == mi })
		if r.leaderHint == mi {
			r.out.Stats["leadership_transfers"]++
		}
		r.logf("op%d xfer to n%d ok=%v", i, mi, r.leaderHint == mi)
		return v
	case "run":
		if op.Until == "parked" {
			// until the apply loop of some node stands at a yield point inside a commit batch
			if r.ay == nil {
				r.logf("op%d run %dms until parked: skipped", i, op.Ms)
				return nil
			}
			r.yieldedNode = -1
			stop := func() bool { return r.parkedNode() >= 0 }
			r.pumpStop = stop
			defer func() { r.pumpStop = nil }()
			v := r.runUntil(time.Duration(op.Ms)*time.Millisecond, rnd, true, stop)
			r.logf("op%d run %dms until parked: n%d", i, op.Ms, r.parkedNode())
			return v
		}
		r.logf("op%d run %dms", i, op.Ms)
		return r.runFor(time.Duration(op.Ms)*time.Millisecond, rnd, true)
	case "aresume":
		x, role := r.resolve(op.Sel, rnd)
		if x < 0 || !r.resumeApply(x, op.All) {
			r.logf("op%d aresume skipped", i)
			return nil
		}
		r.logf("op%d aresume %s all=%v parked_again=%v", i, role, op.All, r.parkedOf(x) != nil)
		return r.checkCommitted()
	case "pump":
		r.logf("op%d pump %d %s %s", i, op.N, op.Only, op.Until)
		if op.Only == "vote" {
			// only links whose next message is a vote request or an answer to one (order per link is kept)
			r.headFilter = func(m *pwMsg) bool { return m.typ == raftpb.MsgVote || m.typ == raftpb.MsgVoteResp }
			defer func() { r.headFilter = nil }()
		}
		if op.Until == "voteresp" {
			// deliveries stop at the instant a granted vote has arrived
			g0 := r.grants
			r.pumpStop = func() bool { return r.grants > g0 }
			defer func() { r.pumpStop = nil }()
		}
		return r.pump(rnd, op.N, true)
	case "tick":
		// the clock moves, nothing is delivered
		r.logf("op%d tick %dms", i, op.Ms)
		for left := time.Duration(op.Ms) * time.Millisecond; left > 0; left -= pwStepTick {
			if op.Until != "" && r.voteQueued(op.Until == "vote2") {
				break
			}
			d := pwStepTick
			if left < d {
				d = left
			}
			time.Sleep(d)
			r.wait()
			if r.c.lag {
				r.c.syncAllMeta()
			}
		}
		return nil
	case "crash":
		return r.crash(i, op, rnd)
	case "restart":
		return r.restart(i)
	case "part":
		if r.downNode >= 0 || r.cutNode >= 0 {
			r.logf("op%d part skipped", i)
			return nil
		}
		x, role := r.resolve(op.Sel, rnd)
		if x < 0 {
			return nil
		}
		net := r.c.net
		net.mu.Lock()
		for k := 0; k < pwNNodes; k++ {
			if k != x {
				net.blocked[k][x] = true
				if !op.OneW {
					net.blocked[x][k] = true
				}
			}
		}
		net.mu.Unlock()
		r.cutNode = x
		if op.Pause {
			// the store process is paused (SIGSTOP): nobody reaches it, clients included; the
			// meta service sees it fail and moves the master partition away from it
			n := r.c.nodes[x]
			r.c.net.mu.Lock()
			n.unreach = true
			close(n.pausedCh)
			r.c.net.mu.Unlock()
			oldMaster := r.c.meta.masterPt()
			r.c.meta.nodeFailed(x)
			r.c.metaChanged()
			if r.c.meta.masterPt() != oldMaster {
				r.out.Probes["master partition changed"]++
			}
			r.paused = true
			r.out.Faults["pause"]++
			r.window["pause"] = true
			r.lastVictimRole = role
			r.wait()
			r.logf("op%d pause %s", i, role)
			return nil
		}
		r.out.Faults["partition"]++
		r.window["partition"] = true
		r.logf("op%d part %s onew=%v", i, role, op.OneW)
		return nil
	case "heal":
		r.logf("op%d heal", i)
		return r.heal()
	case "flush":
		x, role := r.resolve(op.Sel, rnd)
		if x < 0 {
			r.logf("op%d flush skipped", i)
			return nil
		}
		n := r.c.nodes[x]
		if n == nil || !r.c.isAlive(n) {
			return nil
		}
		r.noteFlush(x)
		done := make(chan struct{})
		go func() { defer close(done); n.eng.ForceFlush() }()
		r.wait()
		select {
		case <-done:
		default:
			r.out.Stats["flush_unfinished_at_quiescence"]++
		}
		r.out.Stats["flushes"]++
		r.flushed = true
		r.logf("op%d flush %s", i, role)
		return nil
	case "read":
		v := r.checkMaster("read")
		r.logf("op%d read ok=%v", i, v == nil)
		return v
	}
	return nil
}

func (r *pwRun) heal() *core.Violation {
	net := r.c.net
	net.mu.Lock()
	for a := 0; a < pwNNodes; a++ {
		for b := 0; b < pwNNodes; b++ {
			net.blocked[a][b] = false
		}
	}
	net.mu.Unlock()
	x := r.cutNode
	r.cutNode = -1
	if !r.paused || x < 0 {
		return nil
	}
	// the paused process continues (SIGCONT): it registers as alive again and the cluster
	// manager hands its partitions back by assign events (the store still has them loaded)
	r.paused = false
	n := r.c.nodes[x]
	net.mu.Lock()
	n.unreach = false
	n.pausedCh = make(chan struct{})
	net.mu.Unlock()
	r.c.meta.nodeJoined(x)
	pts := r.c.meta.data.GetFailedPtInfos(r.c.meta.ids[x], meta.Offline)
	for _, p := range pts {
		if err := n.eng.Assign(uint64(r.c.gen), r.c.meta.ids[x], p.Db, p.Pti.PtId, p.Pti.Ver, p.Shards, p.DBBriefInfo, n.mc, n.st); err != nil {
			return pviol("assign_failed", fmt.Sprintf("node %d: assign of partition %d after the pause failed: %v", x, p.Pti.PtId, err), map[string]string{"victim": r.lastVictimRole})
		}
		r.c.meta.ptOnline(p.Pti)
	}
	r.c.metaChanged()
	r.wait()
	return nil
}

// finishPending drives the cluster until the client call in flight has an outcome,
// then folds the outcome into the model and checks the acknowledgement rules.
func (r *pwRun) finishPending(rnd *core.Rand) *core.Violation {
	call := r.pending
	if call == nil {
		return nil
	}
	if v := r.runUntil(pwCallWait, rnd, true, call.finished); v != nil {
		return v
	}
	if !call.finished() {
		// no outcome yet: the call stays indeterminate; the closing phase insists on an outcome
		r.out.Stats["calls_without_outcome_in_45s"]++
		r.indet = append(r.indet, call)
		r.pending = nil
		r.stuck = append(r.stuck, call)
		r.logf("w id=%d no outcome", call.id)
		return nil
	}
	r.pending = nil
	return r.fold(call)
}

func (r *pwRun) fold(call *pwCall) *core.Violation {
	out := r.out
	if call.attempts > 1 || call.routeErr > 0 {
		out.Probes["write retried by the client"]++
	}
	if !call.acked {
		r.indet = append(r.indet, call)
		cls := "other"
		switch {
		case errno.Equal(call.err, errno.WriteToRaftTimeoutAfterPropose):
			cls = "commit_timeout"
		case errno.IsRetryErrorForPtView(call.err):
			cls = "no_route_in_time"
		}
		out.Stats["writes_failed_"+cls]++
		for _, pa := range call.parts {
			if pa.seen && pa.err != nil {
				// the entry is committed in the raft log but its apply failed here (since fix f373037
				// the proposer is told so and the client gets an error): the entry stays in the log
				// and a replica restarted later may still apply it - the listed finding
				// C05-unapplied-entry-replayed-after-restart
				r.unapplied = true
				out.Stats["committed_entries_whose_apply_failed"]++
			}
		}
		r.logf("w id=%d failed %s attempts=%d", call.id, cls, call.attempts)
		return nil
	}
	out.Stats["writes_acked"]++
	for _, pa := range call.parts {
		if pa.seen && pa.err == nil {
			continue
		}
		what := "the acknowledging node had not applied the batch to its shard"
		at := map[string]string{"apply": "not_applied", "meta_lag": fmt.Sprint(r.cs.MetaLag), "acked_by": "unknown"}
		if pa.earlierLife {
			what += " (while the call waited the node applied an entry that an earlier process life of this node had proposed without getting an outcome)"
			at["acked_by"] = "entry_of_an_earlier_life"
		}
		if pa.seen && pa.err != nil {
			what = "the local apply of the batch had failed: " + pa.err.Error()
			at["apply"] = "failed"
		}
		v := pviol("ack_before_apply", fmt.Sprintf("write %d (shard group %d) was acknowledged by WriteToRaft on node %d, but %s", call.id, pa.sg, pa.node, what), at)
		if v = r.over(v, r.phase); v != nil {
			return v
		}
		// a listed finding: the write is treated as one without acknowledgement from here on, so
		// that its loss is not reported a second time by the read checks
		r.indet = append(r.indet, call)
		r.unapplied = true
		r.logf("w id=%d acked without apply", call.id)
		return nil
	}
	if call.attempts > len(call.parts) {
		// an earlier attempt may still be on its way through the group
		r.indet = append(r.indet, call)
	}
	r.model.applyWrite(call.id, call.rows)
	r.lastAck = call
	r.logf("w id=%d acked attempts=%d", call.id, call.attempts)
	return r.checkMaster("after_ack")
}

// pwIsRaftFile: the path is a file of the partition's raft store (entry log, hard state / snapshot meta).
func pwIsRaftFile(p string) bool {
	return strings.HasSuffix(p, "raft.meta") || strings.HasSuffix(p, ".entry")
}

func (r *pwRun) crash(i int, op POp, rnd *core.Rand) *core.Violation {
	if r.downNode >= 0 {
		r.logf("op%d crash skipped", i)
		return nil
	}
	x, role := r.resolve(op.Sel, rnd)
	if x < 0 {
		r.logf("op%d crash skipped", i)
		return nil
	}
	if r.cutNode >= 0 {
		if r.cutNode != x || r.paused {
			r.logf("op%d crash skipped", i)
			return nil
		}
		// the isolated node itself is killed: it stays the only faulty one, and what was cut
		// were the connections of a process that no longer exists
		net := r.c.net
		net.mu.Lock()
		for a := 0; a < pwNNodes; a++ {
			for b := 0; b < pwNNodes; b++ {
				net.blocked[a][b] = false
			}
		}
		net.mu.Unlock()
		r.cutNode = -1
		r.out.Stats["crash_of_the_isolated_node"]++
	}
	n := r.c.nodes[x]
	r.wait()
	inflight := r.pending != nil && !r.pending.finished()
	// entries the victim has sent but that nobody has received yet die with its connections
	unsentApp := false
	r.c.net.mu.Lock()
	for k := 0; k < pwNNodes; k++ {
		for _, m := range r.c.net.q[x][k] {
			if m.typ == raftpb.MsgApp && m.nent > 0 {
				unsentApp = true
			}
		}
	}
	r.c.net.mu.Unlock()
	r.noteKill(x)
	journal := r.c.kill(n)
	n.frozen = len(journal)
	k, torn := len(journal), -1
	lost := 0
	// The kill happened at some local instant t <= now.  Everything the process did after t is
	// lost - file-system mutations and sends alike - so t is legal only if nothing done after it
	// has been observed: lo is the journal length at the last observed action (a delivered
	// message counts with the length at its send instant, an answered client and a committed
	// entry the harness learned from this disk with the length at that instant).  Messages sent
	// after t are still queued and were purged by kill().
	lo := n.visible
	if r.cs.Cut != "observed" && n.sentMax > lo {
		lo = n.sentMax // replay files recorded under the rule before
	}
	if lo > len(journal) {
		lo = len(journal)
	}
	want := -1
	switch {
	case op.Early:
		want = lo // the earliest legal instant: right after the last observed action
	case op.Back > 0 && len(journal) > lo:
		span := len(journal) - lo
		back := (span*op.Back + 999) / 1000
		if back > span {
			back = span
		}
		want = len(journal) - back
	}
	if want >= 0 && want < len(journal) {
		k = want
		// raft.meta is updated by groups of small writes (hard state: length at 512 + body;
		// snapshot: index at 1024, term at 1032, length at 1040, body at 1044), possibly interleaved
		// with writes of other goroutines.  A kill inside such a group is lib/raftlog's own
		// crash-consistency subject (C17, known findings there).  Unless the case asks for it the
		// cut moves to the start of the group it would fall into (or, if the group began before
		// the last observed action, to its end).
		isMeta := func(q int) bool {
			return q >= 0 && q < len(journal) && journal[q].Kind == simfs.KWrite && strings.HasSuffix(journal[q].Path, "raft.meta")
		}
		start, inGroup, afterLen := -1, false, false
		feed := func(q int) {
			if !isMeta(q) {
				return
			}
			e := journal[q]
			switch {
			case !inGroup && (e.Off == 1024 || e.Off == 512):
				start, inGroup, afterLen = q, true, e.Off == 512 // at 512 the first write is the length itself
			case inGroup && afterLen:
				inGroup, afterLen = false, false // the body: the group is complete
			case inGroup && len(e.Data) == 4 && e.Off == 1040:
				afterLen = true
			}
		}
		from := lo - 8
		if from < 0 {
			from = 0
		}
		for q := from; q < k; q++ {
			feed(q)
		}
		if inGroup {
			switch {
			case r.cs.SplitMeta:
				r.metaTorn = true
			case start >= lo:
				k = start
			default:
				for k < len(journal) && inGroup {
					feed(k)
					k++
				}
			}
		}
		lost = len(journal) - k
		if op.Early || (!r.cs.SplitMeta && isMeta(k)) {
			op.Torn = false
		}
		if op.Torn && k < len(journal) {
			if e := journal[k]; (e.Kind == simfs.KWrite || e.Kind == simfs.KWriteFile) && len(e.Data) > 1 {
				// a SIGKILL (the only crash of C05's quantifier) interrupts write(2) between
				// pages, never inside one: the cut point is rounded down to a page boundary
				// of the file, and a write that lies within one page is all or nothing
				// (here: nothing).  A 32-byte slot torn after 21 bytes was a false alarm.
				torn = 1 + rnd.Intn(len(e.Data)-1)
				abs := e.Off + int64(torn)
				abs -= abs % 4096
				if abs <= e.Off {
					torn = -1
				} else {
					torn = int(abs - e.Off)
				}
			}
		}
	}
	if lost > 0 {
		raftLost := false
		for q := k; q < len(journal); q++ {
			if pwIsRaftFile(journal[q].Path) {
				raftLost = true
				break
			}
		}
		if k < n.sentMax {
			// the cut lies before a send nobody received: the rule before (cut >= last send) had no such image
			r.out.Stats["crash_cut_before_an_undelivered_send"]++
		}
		if k == lo && n.visKind == "send" && raftLost {
			r.out.Probes["kill between send and persist (earliest cut)"]++
		}
		if k == lo && n.visKind == "answer" && raftLost {
			r.out.Probes["kill right after the client was answered, raft writes lost"]++
		}
		if raftLost {
			r.out.Stats["crash_lost_raft_log_writes"]++
		}
	}
	if op.Early {
		r.out.Stats["kills_at_the_earliest_legal_instant"]++
		if k == lo && n.visKind == "send" {
			switch n.visMsg {
			case "MsgAppResp":
				r.out.Probes["node killed right after its append acknowledgement was delivered (earliest cut)"]++
			case "MsgVoteResp":
				r.out.Probes["node killed right after its granted vote was delivered (earliest cut)"]++
			}
		}
		if k == lo && n.visKind == "answer" {
			r.out.Probes["node killed right after it answered the client (earliest cut)"]++
		}
	}
	if unsentApp && x == r.leaderHint {
		r.out.Probes["leader killed before re-replication"]++
	}
	if r.dbg {
		for q := lo; q < len(journal); q++ {
			mark := "  "
			if q == k {
				mark = fmt.Sprintf("=> cut here (torn=%d) ", torn)
			}
			fmt.Printf("JOURNAL n%d %s%s\n", x, mark, journal[q].String())
		}
	}
	n.lastSnap = pwLastSnapshotPos(journal, k)
	dir := pwImagePath(r.env.Scratch, x, n.inc+1)
	if err := simfs.CopyTree(n.init, dir); err != nil {
		panic(core.InfraPanic("copy tree: " + err.Error()))
	}
	if err := simfs.Image(journal, k, torn, dir); err != nil {
		panic(core.InfraPanic("crash image: " + err.Error()))
	}
	r.c.reap(n)
	oldMaster := r.c.meta.masterPt()
	r.c.meta.nodeFailed(x)
	r.c.metaChanged()
	if r.c.meta.masterPt() != oldMaster {
		r.out.Probes["master partition changed"]++
		r.masterChangedAt = i
	}
	r.wait()
	r.downNode = x
	r.out.Faults["crash"]++
	r.window["crash"] = true
	if lost > 0 {
		r.out.Faults["crash_lost_journal_tail"]++
		r.out.Probes["crash that lost a journal tail"]++
		r.window["journal_cut"] = true
		if torn >= 0 {
			r.out.Faults["crash_torn_write"]++
		}
	}
	if inflight {
		r.out.Probes["crash with a write in flight"]++
	}
	if x == r.leaderHint {
		r.out.Probes["crash of the raft leader"]++
	}
	if r.c.meta.masterPt() != oldMaster {
		r.out.Probes["crash of the master partition owner"]++
	}
	r.victims = append(r.victims, role)
	r.lastVictimRole = role
	r.lastCut = "none"
	for q := k; q < len(journal); q++ {
		if strings.Contains(journal[q].Path, "/tssp/") {
			// the kill fell inside a memtable flush: data files of the flush are (partly) lost
			r.flushCut = true
			r.out.Probes["crash inside a memtable flush"]++
			break
		}
	}
	if lost > 0 {
		r.lastCut = simfs.PathClass(journal[k].Path)
		if i := strings.LastIndex(r.lastCut, "/"); i >= 0 {
			r.lastCut = journal[k].Kind.String() + " " + r.lastCut[i+1:]
		}
	}
	r.logf("op%d crash %s cut=%v torn=%v inflight=%v", i, role, lost > 0, torn >= 0, inflight)
	return nil
}

func (r *pwRun) restart(i int) *core.Violation {
	if r.downNode < 0 {
		r.logf("op%d restart skipped", i)
		return nil
	}
	x := r.downNode
	old := r.c.nodes[x]
	// a process does not come back within the same nanosecond: the code derives names
	// (mergeset part ids) from the clock at start-up
	time.Sleep(time.Second)
	r.wait()
	dir := pwImagePath(r.env.Scratch, x, old.inc+1)
	n, err := r.c.startNode(x, dir)
	if err != nil {
		v := pviol("restart_failed", fmt.Sprintf("node %d does not start on its crash image (journal cut at: %s): %v", x, r.lastCut, err),
			map[string]string{"victim": r.lastVictimRole, "cut_at": r.lastCut})
		if v = r.over(v, r.phase); v != nil {
			return v
		}
		// a listed finding: the run goes on with the node restarted on the image of its whole journal
		if n != nil {
			r.c.kill(n)
			r.c.reap(n)
			r.wait()
		}
		dir = pwImagePath(r.env.Scratch, x, n.inc+1)
		if err := simfs.CopyTree(old.init, dir); err != nil {
			panic(core.InfraPanic("copy tree: " + err.Error()))
		}
		j := old.disk.Journal()
		if len(j) > old.frozen {
			j = j[:old.frozen]
		}
		if err := simfs.Image(j, len(j), -1, dir); err != nil {
			panic(core.InfraPanic("crash image: " + err.Error()))
		}
		n, err = r.c.startNode(x, dir)
		if err != nil {
			return pviol("restart_failed", fmt.Sprintf("node %d does not start on the image of its complete journal: %v", x, err),
				map[string]string{"victim": r.lastVictimRole, "cut_at": "none", "meta_torn": fmt.Sprint(r.metaTorn)})
		}
	}
	r.c.metaChanged()
	r.wait()
	r.downNode = -1
	r.out.Faults["restart"]++
	n.mu.Lock()
	if n.applyN > 0 {
		r.out.Probes["restart replayed raft entries"]++
	}
	n.mu.Unlock()
	r.logf("op%d restart n%d", i, x)
	return r.checkCommitted()
}

// ---- closing phase ---------------------------------------------------------------------------

// over returns nil if v is nil or a listed finding that may be stepped over.
func (r *pwRun) over(v *core.Violation, phase string) *core.Violation {
	if v == nil {
		return nil
	}
	v.Attrs = mergeAttrsS(v.Attrs, r.runAttrs())
	v.Attrs["phase"] = phase
	if r.known(v) != "" {
		return nil
	}
	return v
}

func (r *pwRun) closing() *core.Violation {
	rnd := core.NewRand(r.cs.Seed ^ 0xc105)
	r.phase = "closing"
	r.opi = len(r.cs.Ops)
	r.releaseAll() // faults stop: every apply loop runs freely from here on
	// faults stop: heal, restart, perfect network
	if v := r.over(r.heal(), "closing"); v != nil {
		return v
	}
	if r.downNode >= 0 {
		if v := r.over(r.restart(r.opi), "closing"); v != nil {
			return v
		}
	}
	tStop := time.Now() // from here on no fault is injected
	if r.pending != nil {
		call := r.pending
		if v := r.runUntil(pwCallWait, rnd, false, call.finished); v != nil {
			return v
		}
		if !call.finished() {
			r.stuck = append(r.stuck, call)
			r.indet = append(r.indet, call)
			r.pending = nil
		} else {
			r.pending = nil
			if v := r.over(r.fold(call), "closing"); v != nil {
				return v
			}
		}
	}
	// (3a) a leader exists and a write commits within B
	probe := POp{K: "w", ID: 900001, Rows: []SRow{{M: 0, S: 0, T: sNumTimes/2 - 1, F: 15}}}
	t0 := time.Now()
	var call *pwCall
	for attempt := 0; ; attempt++ {
		probe.ID = 900001 + attempt
		call = r.startWrite(probe)
		if v := r.runUntil(pwBoundCommit-time.Since(t0), rnd, false, call.finished); v != nil {
			return v
		}
		if call.finished() && !call.acked && time.Since(t0) < pwBoundCommit {
			// a definite failure inside the bound: the client simply writes again
			r.indet = append(r.indet, call)
			continue
		}
		break
	}
	if !call.finished() || !call.acked {
		r.indet = append(r.indet, call)
		what := "still without an outcome"
		if call.finished() {
			what = fmt.Sprintf("failed: %v", call.err)
		}
		v := pviol("no_progress_after_heal", fmt.Sprintf("all three nodes are up and connected and no fault was injected for %v of virtual time, yet a write is %s (raft leader seen last: node %d term %d)",
			pwBoundCommit, what, r.leaderHint, r.leaderTerm), map[string]string{"what": "probe_write"})
		if v = r.over(v, "closing"); v != nil {
			return v
		}
	} else {
		r.out.Stats["probe_commit_ms"] += int64(time.Since(t0) / time.Millisecond)
		if v := r.over(r.fold(call), "closing"); v != nil {
			return v
		}
	}
	// Client calls that had no outcome within 45 s WHILE FAULTS FLOWED are judged only now, and only
	// once they have had 45 s without any fault (bounded liveness is never judged inside the fault
	// window: a store whose raft group has no leader keeps the call in WriteToRaft's
	// `proposeC <- data` - no timeout covers that stage - and a proposal made right after the heal
	// may still be inside its WaitCommitTimeout when the probe write is acknowledged; the first
	// version judged at that instant, 1 - 9 s after the heal: a false alarm).  The real coordinator
	// gives up on its own after shard-writer-timeout; the simulated one waits for the store.
	anyOpen := func() bool {
		for _, c := range r.stuck {
			if !c.finished() {
				return true
			}
		}
		return false
	}
	if anyOpen() {
		r.out.Stats["closing_waits_for_calls_without_outcome"]++
		if left := pwCallWait - time.Since(tStop); left > 0 {
			if v := r.runUntil(left, rnd, false, func() bool { return !anyOpen() }); v != nil {
				return v
			}
		}
		if !anyOpen() {
			how := ""
			for _, c := range r.stuck {
				switch {
				case c.acked:
					how += fmt.Sprintf(" %d:acked", c.id)
					r.out.Stats["calls_without_outcome_acked_after_the_heal"]++
				case errno.Equal(c.err, errno.WriteToRaftTimeoutAfterPropose):
					how += fmt.Sprintf(" %d:commit_timeout", c.id)
					r.out.Stats["calls_without_outcome_timed_out_after_the_heal"]++
				default:
					how += fmt.Sprintf(" %d:error", c.id)
					r.out.Stats["calls_without_outcome_failed_after_the_heal"]++
				}
			}
			r.out.Probes["call without outcome during the faults ended after the heal"]++
			r.logf("closing: the calls without outcome had all ended %dms after the faults stopped:%s", time.Since(tStop)/time.Millisecond, how)
		}
	}
	for _, c := range r.stuck {
		if !c.finished() {
			v := pviol("no_progress_after_heal", fmt.Sprintf("client write %d (issued at step %d) has had no outcome for more than %v after the faults stopped", c.id, c.issuedOp, pwCallWait),
				map[string]string{"what": "stuck_call"})
			// where the store-side call stands (goroutine dump of this process): matcher attribute and evidence
			at, stacks := pwStuckCalls()
			v.Attrs["stuck_at"] = at
			where := ""
			r.c.net.mu.Lock()
			for sgi := 0; sgi < 2; sgi++ {
				if ps := r.proposed[c.id*4+sgi]; len(ps) > 0 {
					last := ps[len(ps)-1]
					cur := r.c.nodes[last[0]]
					where += fmt.Sprintf("; its last attempt (of %d) went to node %d, cluster-wide incarnation %d (that incarnation is alive: %v)",
						len(ps), last[0], last[1], cur != nil && cur.gen == last[1] && cur.alive)
				}
			}
			r.c.net.mu.Unlock()
			v.Detail += fmt.Sprintf("%s; the probe write of the closing phase was acknowledged meanwhile: %v (raft leader seen last: node %d term %d)\n%s",
				where, call.finished() && call.acked, r.leaderHint, r.leaderTerm, stacks)
			if v = r.over(v, "closing"); v != nil {
				return v
			}
			break
		}
	}
	// (3b) within B' every live replica equals the model
	var last *core.Violation
	t1 := time.Now()
	for {
		last = r.checkAllReplicas("settled")
		if last == nil || time.Since(t1) >= pwBoundEqual {
			break
		}
		if v := r.runFor(2*time.Second, rnd, false); v != nil {
			return v
		}
	}
	if v := r.over(last, "closing"); v != nil {
		return v
	}
	if last == nil {
		r.out.Stats["converge_ms"] += int64(time.Since(t1) / time.Millisecond)
		r.out.Stats["converged"]++
	}
	r.window = map[string]bool{}
	// a later, different minority failure loses nothing
	r.phase = "second_failure"
	sel := r.cs.Second
	if sel < 0 {
		sel = rnd.Intn(pwNNodes)
	}
	if v := r.over(r.crash(r.opi, POp{K: "crash", Sel: fmt.Sprintf("n%d", sel)}, rnd), "second_failure"); v != nil {
		return v
	}
	if v := r.over(r.checkMaster("second_failure_at_once"), "second_failure"); v != nil {
		return v
	}
	if v := r.runFor(20*time.Second, rnd, false); v != nil {
		return v
	}
	if v := r.over(r.checkMaster("second_failure"), "second_failure"); v != nil {
		return v
	}
	// and the store that rejoins catches up
	if v := r.over(r.restart(r.opi), "second_failure"); v != nil {
		return v
	}
	if v := r.runFor(20*time.Second, rnd, false); v != nil {
		return v
	}
	if v := r.over(r.checkAllReplicas("rejoined"), "second_failure"); v != nil {
		return v
	}
	return nil
}

var _ = os.Getenv
var _ = metaclient.LogicClock
