package engine

import (
	"encoding/json"
	"fmt"
	"os"
	"path/filepath"
	"strings"
	"testing"

	"github.com/openGemini/openGemini/engine/executor"
	"github.com/openGemini/openGemini/engine/hybridqp"
	"github.com/openGemini/openGemini/engine/index/tsi"
	"github.com/openGemini/openGemini/lib/util/lifted/influx/influxql"
	"github.com/openGemini/openGemini/lib/util/lifted/influx/query"
	"github.com/openGemini/openGemini/verifsim/core"

	"github.com/openGemini/openGemini/lib/util/lifted/vm/protoparser/influx"
	"github.com/openGemini/openGemini/verifsim/simfs"
)

func TestVerifDebugS(t *testing.T) {
	if os.Getenv("VERIF_DEBUG") == "" {
		t.Skip()
	}
	dir := t.TempDir()
	fs := simfs.Install()
	d := fs.NewDisk(dir)
	_ = d
	k := SKnobs{Partitions: 2, RowsPerSegment: 16, SegmentLimit: 4, MinGroupFiles: 2, MutableLimit: 30 << 20, ChunkSize: 1024, MaxParallel: 1}
	node, err := openShard(dir, k, 1)
	if err != nil {
		t.Fatal(err)
	}
	rows := sBuildRows(1, []SRow{{M: 0, S: 0, T: 3, F: 15}, {M: 0, S: 1, T: 4, F: 5}, {M: 0, S: 1, T: 8, F: 8}, {M: 0, S: 2, T: 1, F: 8}, {M: 0, S: 2, T: 2, F: 9}})
	node.ib.Flush()
	bin, _ := influx.FastMarshalMultiRows(nil, rows)
	dec, _, _, _, _, err := influx.FastUnmarshalMultiRows(bin, nil, nil, nil, nil, nil)
	fmt.Println("dec", len(dec), err)
	fmt.Println("write", node.sh.WriteRows(dec, bin))
	for _, tr := range [][2]int64{{-(1 << 62), 1 << 62}, {sTime(0), sTime(23)}, {0, 1 << 62}} {
		q := &sQuery{Mst: 0, Fields: sFieldNames, TMin: tr[0], TMax: tr[1]}
		got, err := runQuery(node.sh, q)
		fmt.Println("query", q.text(), tr, "rows", len(got), err)
		for _, r := range got {
			fmt.Printf("   %s %d", r.Group, r.Time)
			for _, v := range r.Vals {
				if v != nil {
					fmt.Printf(" %v", *v)
				} else {
					fmt.Printf(" nil")
				}
			}
			fmt.Println()
		}
	}
	node.sh.ForceFlush()
	q := &sQuery{Mst: 0, Fields: sFieldNames, TMin: sTime(0), TMax: sTime(23)}
	got, err := runQuery(node.sh, q)
	fmt.Println("after flush rows", len(got), err)
	fmt.Println(node.close())
}

func TestVerifDebugFlaky(t *testing.T) {
	path := os.Getenv("VERIF_DEBUG_CASE")
	if path == "" {
		t.Skip()
	}
	b, _ := os.ReadFile(path)
	var rf struct {
		Case SCase `json:"case"`
	}
	if err := json.Unmarshal(b, &rf); err != nil {
		t.Fatal(err)
	}
	c := rf.Case
	fs := simfs.Install()
	for attempt := 0; attempt < 600; attempt++ {
		var logb strings.Builder
		dir := filepath.Join(t.TempDir(), fmt.Sprintf("a%d", attempt))
		out := core.NewOutcome()
		env := &core.Env{Property: "C02", Scratch: dir}
		run := &sRun{c: c, env: env, out: out, fs: fs, model: newSModel(), r: core.NewRand(c.ReadSeed), prop: "C02", ackPos: map[[2]int]int{}, seen: map[[2]int]bool{}}
		if err := run.open(filepath.Join(dir, "inc0"), ""); err != nil {
			t.Fatal(err)
		}
		bad := false
		for i, op := range c.Ops {
			run.states = append(run.states, run.model.clone())
			before := run.flushCount()
			v := run.step(i, op)
			seq := run.node.sh.immTables.Sequencer()
			fmt.Fprintf(&logb, "op%d %s flushes+%d seq(free=%v loading=%v)", i, op.K, run.flushCount()-before, seq.IsFreeDbg(), seq.IsLoading())
			ms := run.node.ib.GetPrimaryIndex().(*tsi.MergeSetIndex)
			for m := 0; m < c.NMst; m++ {
				rows := sBuildRows(1, []SRow{{M: m, S: 0, T: 0, F: 1}})
				sid, _ := ms.GetSeriesIdBySeriesKey(rows[0].IndexKey)
				lt, _ := seq.Get(sMstName(m), sid)
				fmt.Fprintf(&logb, " m%d sid=%d last=t%d", m, sid, (lt-sBaseTime)/sStep)
			}
			seq.UnRef()
			fmt.Fprintf(&logb, "\n    m0 %s\n    m1 %s\n", fileLayout(run.node.sh, 0), fileLayout(run.node.sh, 1))
			if v == nil {
				v = run.readChecks(i, op.K, 0)
			}
			if v != nil {
				fmt.Println("ATTEMPT", attempt, "FAILED:", v.Kind, v.Detail[:200])
				fmt.Println(logb.String())
				bad = true
				break
			}
		}
		run.cleanup()
		if bad {
			return
		}
	}
	fmt.Println("no failure in 600 attempts")
}

func sPlanString(n hybridqp.QueryNode, depth int) string {
	if n == nil {
		return "<nil>"
	}
	s := strings.Repeat("  ", depth) + fmt.Sprintf("%T ops=%v rt=%v\n", n, n.RowExprOptions(), n.RowDataType().Fields())
	for _, c := range n.Children() {
		s += sPlanString(c, depth+1)
	}
	return s
}

func TestVerifDebugPlan(t *testing.T) {
	if os.Getenv("VERIF_DEBUG") == "" {
		t.Skip()
	}
	sSetup()
	for _, fc := range []bool{false, true} {
		executor.EnableFileCursor(fc)
		for _, qt := range []string{
			"SELECT count(fi) FROM mst0_0000 GROUP BY host, region",
			"SELECT /*+ Exact_Statistic_Query */ count(fi) FROM mst0_0000 GROUP BY host, region",
			"SELECT sum(ff) FROM mst0_0000 GROUP BY time(5s), host, region",
			"SELECT first(fs) FROM mst0_0000 WHERE fi > 5 GROUP BY host",
		} {
			shardGroup := &mockShardGroup{Fields: sFieldTypes, Dimensions: sTagKeys}
			stmt := MustParseSelectStatement(qt)
			stmt, _ = stmt.RewriteFields(shardGroup, true, false)
			stmt.OmitTime = true
			RemoveTimeCondition(stmt)
			opt, _ := query.NewProcessorOptionsStmt(stmt, query.SelectOptions{ChunkSize: 1024})
			opt.Name = "mst0_0000"
			opt.Sources = influxql.Sources{&influxql.Measurement{Database: sDB, RetentionPolicy: sRP, Name: "mst0_0000"}}
			if strings.Contains(qt, "Exact") {
				opt.HintType = hybridqp.ExactStatisticQuery
			}
			schema := executor.NewQuerySchema(stmt.Fields, stmt.ColumnNames(), &opt, nil)
			b := executor.NewLogicalPlanBuilderImpl(schema)
			sp, err := b.CreateSeriesPlan()
			mp, err2 := b.CreateMeasurementPlan(sp)
			b.Push(mp)
			b.Aggregate()
			plan, err3 := b.Build()
			fmt.Println("QUERY fc=", fc, qt, err, err2, err3, "matchPreAgg", schema.MatchPreAgg())
			planner := executor.BuildHeuristicPlanner()
			planner.SetRoot(plan)
			best := planner.FindBestExp()
			fmt.Print(sPlanString(best, 1))
		}
	}
}
