package engine

// Read side of world S: statements are parsed by the real InfluxQL parser, turned
// into a QuerySchema, answered by shard.CreateCursor and drained through the real
// ChunkReader (and, for calls, the real StreamAggregateTransform).

import (
	"context"
	"fmt"
	"math"
	"os"
	"sort"
	"strings"
	"time"

	"github.com/openGemini/openGemini/engine/executor"
	"github.com/openGemini/openGemini/engine/hybridqp"
	"github.com/openGemini/openGemini/lib/util/lifted/influx/influxql"
	"github.com/openGemini/openGemini/lib/util/lifted/influx/query"
	"github.com/openGemini/openGemini/verifsim/core"
)

type sQuery struct {
	Mst       int
	Fields    []string // plain fields (no calls)
	Call      string   // aggregate function ("" = plain select)
	CallField string
	Call2     string // optional second call in the same statement
	CallField2 string
	TMin      int64
	TMax      int64
	Desc      bool
	GroupTags []string // nil = group by all tag keys
	Interval  int64    // ns, 0 = none
	Where     string   // field/tag condition text (without time)
	Exact     bool     // hint: exact statistics
	ChunkSize int
	Parallel  int
}

func (q *sQuery) text() string {
	var sel []string
	if q.Call != "" {
		sel = append(sel, fmt.Sprintf("%s(%s)", q.Call, q.CallField))
		if q.Call2 != "" {
			sel = append(sel, fmt.Sprintf("%s(%s)", q.Call2, q.CallField2))
		}
	} else {
		sel = append(sel, q.Fields...)
	}
	hint := ""
	if q.Exact {
		hint = "/*+ Exact_Statistic_Query */ "
	}
	s := fmt.Sprintf("SELECT %s%s FROM %s", hint, strings.Join(sel, ", "), sMstName(q.Mst))
	if q.Where != "" {
		s += " WHERE " + q.Where
	}
	var dims []string
	if q.Interval > 0 {
		dims = append(dims, fmt.Sprintf("time(%dns)", q.Interval))
	}
	gt := q.GroupTags
	if gt == nil {
		gt = sTagKeys
	}
	dims = append(dims, gt...)
	if len(dims) > 0 {
		s += " GROUP BY " + strings.Join(dims, ", ")
	}
	if q.Desc {
		s += " ORDER BY time DESC"
	}
	return s
}

// sChunkRow is one row of a result chunk.
type sChunkRow struct {
	Group string // group key "host=..,region=..,"
	Time  int64
	Vals  []*sVal // per output column, nil = null
}

func groupKeyOf(ct executor.ChunkTags, dims []string) string {
	var b strings.Builder
	for _, k := range dims {
		v, _ := ct.GetChunkTagValue(k)
		b.WriteString(k + "=" + v + ",")
	}
	return b.String()
}

// runQuery executes q against the shard and returns the rows of all chunks in
// the order produced.
func runQuery(sh *shard, q *sQuery) (rows []sChunkRow, err error) {
	stmtText := q.text()
	var colOf map[string]int
	defer func() {
		if r := recover(); r != nil {
			// a panic inside the read path is the engine's, report it as such
			panic(fmt.Sprintf("query %q panicked: %v", stmtText, r))
		}
	}()
	shardGroup := &mockShardGroup{sh: sh, Fields: sFieldTypes, Dimensions: sTagKeys}
	stmt := MustParseSelectStatement(stmtText)
	stmt, err = stmt.RewriteFields(shardGroup, true, false)
	if err != nil {
		return nil, fmt.Errorf("rewrite %q: %w", stmtText, err)
	}
	stmt.OmitTime = true
	cs := q.ChunkSize
	if cs <= 0 {
		cs = 1024
	}
	sopt := query.SelectOptions{ChunkSize: cs}
	RemoveTimeCondition(stmt)
	opt, err := query.NewProcessorOptionsStmt(stmt, sopt)
	if err != nil {
		return nil, fmt.Errorf("options %q: %w", stmtText, err)
	}
	name := sMstName(q.Mst)
	source := influxql.Sources{&influxql.Measurement{Database: sDB, RetentionPolicy: sRP, Name: name}}
	opt.Name = name
	opt.Sources = source
	opt.StartTime = q.TMin
	opt.EndTime = q.TMax
	if q.Parallel > 0 {
		opt.MaxParallel = q.Parallel
	}
	if q.Exact {
		opt.HintType = hybridqp.ExactStatisticQuery
	}
	querySchema := executor.NewQuerySchema(stmt.Fields, stmt.ColumnNames(), &opt, nil)
	if os.Getenv("VERIF_DEBUG") != "" {
		fmt.Println("DEBUG stmt:", stmt.String(), "refs:", querySchema.Refs(), "dims:", opt.Dimensions)
	}

	ctx := context.Background()
	info, err := sh.CreateCursor(ctx, querySchema)
	if err != nil {
		return nil, fmt.Errorf("create cursor %q: %w", stmtText, err)
	}
	if info == nil {
		return nil, nil
	}
	defer info.Unref()
	var keyCursors []interface{}
	for _, cur := range info.GetCursors() {
		keyCursors = append(keyCursors, cur)
	}
	if len(keyCursors) == 0 {
		return nil, nil
	}

	var outType hybridqp.RowDataType
	var readerOps, aggOps []hybridqp.ExprOptions
	var seriesPlan hybridqp.QueryNode
	var topAgg hybridqp.QueryNode
	if q.Call != "" {
		// the plan the query layer would ship: built by the real plan builder and
		// optimised by the real heuristic planner (aggregate push-down to the reader
		// for the pre-aggregation shortcut, to the series level otherwise)
		builder := executor.NewLogicalPlanBuilderImpl(querySchema)
		sp, perr := builder.CreateSeriesPlan()
		if perr != nil {
			return nil, fmt.Errorf("series plan %q: %w", stmtText, perr)
		}
		mp, perr := builder.CreateMeasurementPlan(sp)
		if perr != nil {
			return nil, fmt.Errorf("measurement plan %q: %w", stmtText, perr)
		}
		builder.Push(mp)
		builder.Aggregate()
		plan, perr := builder.Build()
		if perr != nil {
			return nil, fmt.Errorf("plan %q: %w", stmtText, perr)
		}
		planner := executor.BuildHeuristicPlanner()
		planner.SetRoot(plan)
		best := planner.FindBestExp()
		var reader *executor.LogicalReader
		for n := best; n != nil; {
			if lr, ok := n.(*executor.LogicalReader); ok {
				reader = lr
				break
			}
			if _, ok := n.(*executor.LogicalAggregate); ok && topAgg == nil {
				topAgg = n
			}
			if len(n.Children()) == 0 {
				break
			}
			n = n.Children()[0]
		}
		if reader == nil || topAgg == nil {
			panic(core.InfraPanic("unexpected plan shape for " + stmtText))
		}
		outType = reader.RowDataType()
		readerOps = reader.RowExprOptions()
		if len(reader.Children()) > 0 {
			seriesPlan = reader.Children()[0]
		}
		aggOps = topAgg.RowExprOptions()
	} else {
		// the store-side plan of a plain selection, built by the real plan builder:
		// Exchange(Reader(Exchange(Series)))
		builder := executor.NewLogicalPlanBuilderImpl(querySchema)
		sp, perr := builder.CreateSeriesPlan()
		if perr != nil {
			return nil, fmt.Errorf("series plan %q: %w", stmtText, perr)
		}
		mp, perr := builder.CreateMeasurementPlan(sp)
		if perr != nil {
			return nil, fmt.Errorf("measurement plan %q: %w", stmtText, perr)
		}
		var reader *executor.LogicalReader
		for n := mp; n != nil; {
			if lr, ok := n.(*executor.LogicalReader); ok {
				reader = lr
				break
			}
			if len(n.Children()) == 0 {
				break
			}
			n = n.Children()[0]
		}
		if reader == nil {
			panic(core.InfraPanic("no LogicalReader in the plan of " + stmtText))
		}
		outType = reader.RowDataType()
		readerOps = reader.RowExprOptions()
		if len(reader.Children()) > 0 {
			seriesPlan = reader.Children()[0]
		}
		if os.Getenv("VERIF_DEBUG") != "" {
			fmt.Println("DEBUG outType:", outType.Fields(), "ops:", readerOps)
		}
		colOf = map[string]int{}
		var seriesOps []hybridqp.ExprOptions
		for n := seriesPlan; n != nil; {
			if ls, ok := n.(*executor.LogicalSeries); ok {
				seriesOps = ls.RowExprOptions()
				break
			}
			if len(n.Children()) == 0 {
				break
			}
			n = n.Children()[0]
		}
		for i, f := range outType.Fields() {
			// output column -> reader op -> series op -> stored field name
			name := f.Name()
			for _, op := range readerOps {
				if op.Ref.Val == name {
					if vr, ok := op.Expr.(*influxql.VarRef); ok {
						name = vr.Val
					}
					break
				}
			}
			for _, op := range seriesOps {
				if op.Ref.Val == name {
					if vr, ok := op.Expr.(*influxql.VarRef); ok {
						name = vr.Val
					}
					break
				}
			}
			colOf[name] = i
		}
	}

	chunkReader := NewChunkReader(outType, readerOps, seriesPlan, querySchema, keyCursors, false)
	defer chunkReader.Release()
	outPortType := outType
	if topAgg != nil {
		outPortType = topAgg.RowDataType()
	}
	outPort := executor.NewChunkPort(outPortType)
	errc := make(chan error, 2)
	if q.Call != "" {
		agg, aerr := executor.NewStreamAggregateTransform(
			[]hybridqp.RowDataType{outType}, []hybridqp.RowDataType{topAgg.RowDataType()}, aggOps, &opt, querySchema, false)
		if aerr != nil {
			return nil, fmt.Errorf("aggregate transform %q: %w", stmtText, aerr)
		}
		agg.GetInputs()[0].Connect(chunkReader.GetOutputs()[0])
		agg.GetOutputs()[0].Connect(outPort)
		chunkReader.GetOutputs()[0].Connect(agg.GetInputs()[0])
		go func() { errc <- chunkReader.Work(ctx) }()
		go func() { errc <- agg.Work(ctx) }()
	} else {
		chunkReader.GetOutputs()[0].Connect(outPort)
		outPort.Connect(chunkReader.GetOutputs()[0])
		go func() { errc <- chunkReader.Work(ctx) }()
		errc <- nil
	}
	dims := q.GroupTags
	if dims == nil {
		dims = sTagKeys
	}
	timeout := time.After(60 * time.Second)
loop:
	for {
		select {
		case ck, ok := <-outPort.State:
			if !ok {
				break loop
			}
			cr := chunkRows(ck, dims)
			if os.Getenv("VERIF_DEBUG") != "" {
				for _, r := range cr {
					fmt.Printf("DEBUG row %q: group=%s t=%d vals=", stmtText, r.Group, (r.Time-sBaseTime)/sStep)
					for _, v := range r.Vals {
						if v == nil {
							fmt.Print(" nil")
						} else {
							fmt.Print(" ", *v)
						}
					}
					fmt.Println()
				}
			}
			rows = append(rows, cr...)
		case <-timeout:
			return nil, fmt.Errorf("query %q did not finish within 60s", stmtText)
		}
	}
	for i := 0; i < 2; i++ {
		if e := <-errc; e != nil && err == nil {
			err = fmt.Errorf("query %q: %w", stmtText, e)
		}
	}
	if colOf != nil {
		for ri := range rows {
			nv := make([]*sVal, len(q.Fields))
			for fi, f := range q.Fields {
				if ci, ok := colOf[f]; ok && ci < len(rows[ri].Vals) {
					nv[fi] = rows[ri].Vals[ci]
				}
			}
			rows[ri].Vals = nv
		}
	}
	return rows, err
}

func chunkRows(ck executor.Chunk, dims []string) []sChunkRow {
	n := ck.NumberOfRows()
	out := make([]sChunkRow, 0, n)
	if os.Getenv("VERIF_DEBUG") != "" {
		for ci, col := range ck.Columns() {
			if col.DataType() == influxql.String {
				fmt.Println("DEBUG chunk col", ci, "strings", col.StringValuesV2(nil), "len", col.Length(), "nil", col.NilCount(), "tagidx", ck.TagIndex(), "times", ck.Time())
			}
		}
	}
	tags := ck.Tags()
	tidx := ck.TagIndex()
	times := ck.Time()
	cols := ck.Columns()
	g := 0
	for r := 0; r < n; r++ {
		for g+1 < len(tidx) && tidx[g+1] <= r {
			g++
		}
		row := sChunkRow{Time: times[r], Vals: make([]*sVal, len(cols))}
		if len(tags) > 0 {
			row.Group = groupKeyOf(tags[g], dims)
		}
		for c, col := range cols {
			if col.IsNilV2(r) {
				continue
			}
			vi := col.GetValueIndexV2(r)
			v := &sVal{Typ: col.DataType()}
			switch col.DataType() {
			case influxql.Integer:
				v.I = col.IntegerValue(vi)
			case influxql.Float:
				v.F = col.FloatValue(vi)
			case influxql.String:
				v.S = strings.Clone(col.StringValue(vi)) // the column aliases pooled memory
			case influxql.Boolean:
				v.B = col.BooleanValue(vi)
			}
			row.Vals[c] = v
		}
		out = append(out, row)
	}
	return out
}

// selectRows runs a plain select and returns rows per series in the order read.
func selectRows(sh *shard, q *sQuery) (map[string][]sDumpRow, []string, error) {
	rows, err := runQuery(sh, q)
	if err != nil {
		return nil, nil, err
	}
	out := map[string][]sDumpRow{}
	var order []string
	for _, r := range rows {
		d := sDumpRow{Series: r.Group, Time: r.Time, Fields: map[string]sVal{}}
		for i, f := range q.Fields {
			if r.Vals[i] != nil {
				d.Fields[f] = *r.Vals[i]
			}
		}
		if _, ok := out[r.Group]; !ok {
			order = append(order, r.Group)
		}
		out[r.Group] = append(out[r.Group], d)
	}
	return out, order, nil
}

// compareDump compares rows read with rows expected (both per series).  It
// returns a violation kind and detail, or "" if equal.  Order inside a series
// must be strictly monotone in the requested direction.
func compareDump(got, want map[string][]sDumpRow, desc bool, model *sModel, mst int) (kind, detail string) {
	kind, detail, _ = compareDumpX(got, want, desc, model, mst)
	return kind, detail
}

// compareDumpX: compareDump plus matcher attributes that describe the difference
// ("diff" = negzero_read_as_zero: a float written as -0.0 came back as +0.0).
func compareDumpX(got, want map[string][]sDumpRow, desc bool, model *sModel, mst int) (kind, detail string, xa map[string]string) {
	var keys []string
	seen := map[string]bool{}
	for k := range want {
		keys = append(keys, k)
		seen[k] = true
	}
	for k := range got {
		if !seen[k] {
			keys = append(keys, k)
		}
	}
	sort.Strings(keys)
	for _, s := range keys {
		g, w := got[s], want[s]
		// order / duplicates
		for i := 1; i < len(g); i++ {
			if g[i].Time == g[i-1].Time {
				return "duplicate_timestamp", fmt.Sprintf("series %s returns timestamp t=%d twice: %s and %s", s, sSlot(g[i].Time), fmtRow(g[i-1]), fmtRow(g[i])), nil
			}
			if (g[i].Time < g[i-1].Time) != desc {
				return "wrong_order", fmt.Sprintf("series %s rows not in %s time order: %s then %s", s, map[bool]string{false: "ascending", true: "descending"}[desc], fmtRow(g[i-1]), fmtRow(g[i])), nil
			}
		}
		gs := append([]sDumpRow(nil), g...)
		sort.Slice(gs, func(i, j int) bool { return gs[i].Time < gs[j].Time })
		i, j := 0, 0
		for i < len(gs) || j < len(w) {
			switch {
			case j >= len(w) || (i < len(gs) && gs[i].Time < w[j].Time):
				return "extra_row", fmt.Sprintf("row %s was returned but the acknowledged writes contain no such row", fmtRow(gs[i])), nil
			case i >= len(gs) || gs[i].Time > w[j].Time:
				return "missing_row", fmt.Sprintf("row %s is in the acknowledged writes but was not returned", fmtRow(w[j])), nil
			default:
				for f, wv := range w[j].Fields {
					gv, ok := gs[i].Fields[f]
					if !ok {
						return "missing_field", fmt.Sprintf("row %s lacks field %s, expected %s", fmtRow(gs[i]), f, fmtRow(w[j])), nil
					}
					if !gv.equal(wv) {
						kind := "wrong_value"
						if model != nil {
							kind = model.classifyM(mst, s, gs[i].Time, f, gv)
						}
						if wv.Typ == influxql.Float && wv.F == 0 && gv.F == 0 && math.Signbit(wv.F) && !math.Signbit(gv.F) {
							xa = map[string]string{"diff": "negzero_read_as_zero"}
						}
						return kind, fmt.Sprintf("field %s of row %s (value produced by write %d): expected %s", f, fmtRow(gs[i]), attribute(gv), wv), xa
					}
				}
				for f := range gs[i].Fields {
					if _, ok := w[j].Fields[f]; !ok {
						return "extra_field", fmt.Sprintf("row %s has field %s which was never written for it; expected %s", fmtRow(gs[i]), f, fmtRow(w[j])), nil
					}
				}
				i++
				j++
			}
		}
	}
	return "", "", nil
}
