package engine

// World C oracle: the recorded history (events stamped with scheduler step
// numbers) and the per-query checks of C04.

import (
	"fmt"
	"sort"
	"strings"
	"time"

	"github.com/openGemini/openGemini/verifsim/core"
)

type cwWrite struct {
	id     int
	op     int
	task   int
	issued int
	acked  int // step at whose end the acknowledgement was observed; -1 = not (yet)
	failed bool
}

type cwInterval struct {
	kind       string
	op         int
	start, end int // end = -1 while in flight
}

type cwHist struct {
	c       CCase
	writes  map[int]*cwWrite // by op index
	byID    map[int]*cwWrite
	cells   map[cellKey]map[string][]*cwWrite // field -> writes in issue order
	dropAt  map[int][2]int                    // measurement -> [issued, done] (done=-1 in flight)
	idxFl   []int                             // steps at which an index flush is known to be complete
	seenSer map[[2]int]int                    // (mst, series) -> first step at whose end a query had returned the series
	reader  map[int]map[[3]int64]int          // reader task -> (mst, series index, time) -> step it was seen
	ivs     []*cwInterval
	nAcked  int
}

func newCwHist(c CCase) *cwHist {
	return &cwHist{c: c, writes: map[int]*cwWrite{}, byID: map[int]*cwWrite{}, cells: map[cellKey]map[string][]*cwWrite{}, dropAt: map[int][2]int{},
		seenSer: map[[2]int]int{}, reader: map[int]map[[3]int64]int{}}
}

func (h *cwHist) issue(i int, op COp, step int) {
	w := &cwWrite{id: op.ID, op: i, task: op.T, issued: step, acked: -1}
	h.writes[i] = w
	h.byID[op.ID] = w
	for _, r := range op.Rows {
		k := cellKey{r.M, r.S, r.T}
		if h.cells[k] == nil {
			h.cells[k] = map[string][]*cwWrite{}
		}
		for _, f := range rowFields(r) {
			ws := h.cells[k][f]
			if len(ws) > 0 && ws[len(ws)-1] == w {
				continue // the same write carries the cell twice: the later row wins inside the batch, same write id
			}
			h.cells[k][f] = append(ws, w)
		}
	}
}

func (h *cwHist) ack(i int, step int) {
	if w := h.writes[i]; w != nil {
		w.acked = step
		h.nAcked++
	}
}

func (h *cwHist) failed(i int, step int) {
	if w := h.writes[i]; w != nil {
		w.failed = true
	}
}

func (h *cwHist) indexFlushed(step int) { h.idxFl = append(h.idxFl, step) }

func (h *cwHist) dropIssued(m, step int) { h.dropAt[m] = [2]int{step, -1} }
func (h *cwHist) dropDone(m, step int) {
	d := h.dropAt[m]
	d[1] = step
	h.dropAt[m] = d
}

func (h *cwHist) opStart(i int, op COp, step int) {
	h.ivs = append(h.ivs, &cwInterval{kind: cwInflightName(op.K), op: i, start: step, end: -1})
}

// bg records a background activity interval that is not a client operation.
func (h *cwHist) bg(kind string, on bool, step int) {
	if on {
		if kind == "close" || kind == "drop" {
			return // already recorded as operations
		}
		h.ivs = append(h.ivs, &cwInterval{kind: kind, op: -1, start: step, end: -1})
		return
	}
	for _, iv := range h.ivs {
		if iv.kind == kind && iv.end < 0 {
			iv.end = step
		}
	}
}

// inflightDuring lists the background kinds (flush/compact/merge/seq_reload/drop/close)
// that overlapped [a,b], other than the operation itself; also closes the interval of
// the finished operation.
func (h *cwHist) inflightDuring(a, b int, self int) string {
	set := map[string]bool{}
	for _, iv := range h.ivs {
		if iv.op == self && self >= 0 {
			if iv.end < 0 {
				iv.end = b
			}
			continue
		}
		if iv.kind == "write" || iv.kind == "query" {
			continue
		}
		if iv.start <= b && (iv.end < 0 || iv.end >= a) {
			set[iv.kind] = true
		}
	}
	return cwSortedSet(set)
}

var cwSeriesIdx = func() map[string]int {
	m := map[string]int{}
	for s := 0; s < 8; s++ {
		m[sSeriesKey(s)] = s
	}
	return m
}()

// visible: the series is required to be returned by a query that started at qs —
// a write to it was acknowledged no later than an index flush that completed
// before qs, or an earlier query already returned it.
func (h *cwHist) visible(m, s int, qs int) bool {
	if st, ok := h.seenSer[[2]int{m, s}]; ok && st < qs {
		return true
	}
	lastFl := -1
	for _, f := range h.idxFl {
		if f < qs && f > lastFl {
			lastFl = f
		}
	}
	if lastFl < 0 {
		return false
	}
	for k, fs := range h.cells {
		if k.M != m || k.S != s {
			continue
		}
		for _, ws := range fs {
			for _, w := range ws {
				if w.acked >= 0 && w.acked <= lastFl {
					return true
				}
			}
		}
	}
	return false
}

// checkQuery judges one query result.  qs/qe: steps at which the query was started
// and observed finished.
func (h *cwHist) checkQuery(run *cwRun, tr *cwTaskRun, op COp, qs, qe int, at map[string]string, lenient bool) *core.Violation {
	prop := run.prop
	m := op.M
	mk := func(kind, detail string) *core.Violation {
		a := map[string]string{}
		for k, v := range at {
			a[k] = v
		}
		a["reload_left_seq_behind"] = "no"
		if run.seqBehind != "" {
			a["reload_left_seq_behind"] = "yes"
			a["reorg_during_reload"] = run.seqBehindReorg
		}
		a["unlisted_files_before_restart"] = "no"
		if run.unlistedBeforeRestart == "yes" {
			a["unlisted_files_before_restart"] = "yes"
		}
		a["wal_parts"] = "1"
		if run.c.Knobs.Partitions > 1 {
			a["wal_parts"] = "n"
		}
		who := "final read"
		if tr.task >= 0 {
			who = fmt.Sprintf("%s op%d", cwTaskName(tr.task), tr.op)
		}
		files := ""
		if run.node != nil && run.node.sh != nil && !run.closed && !run.closeStarted {
			files = "\n  files: " + cwFileLayout(run.node.sh, m)
			if kind != "foreign_value" || true {
				da, dt := cwDiag(run.node, m)
				for k, v := range da {
					a[k] = v
				}
				if dt != "" {
					files += "\n  diagnosis:" + dt
				}
				if run.seqBehindTxt != "" {
					files += "\n  when the sequencer reload finished:" + run.seqBehindTxt
				}
			}
		}
		if run.unlistedBeforeRestart == "yes" {
			files += "\n  at an earlier clean close of this run:" + run.unlistedTxt
		}
		return sviol(prop, kind, fmt.Sprintf("%s (query of %s slots %d..%d desc=%v, started at step %d, finished at step %d, in flight meanwhile: %s): %s%s",
			who, sMstName(m), op.A, op.B, op.Desc, qs, qe, at["inflight"], detail, files), a)
	}
	drop, dropped := h.dropAt[m]
	dropRelax := (dropped && drop[0] <= qe) || lenient // the drop was issued before the query ended
	// (b) each (series,timestamp) at most once, in the requested order
	for _, s := range tr.order {
		g := tr.rows[s]
		for i := 1; i < len(g); i++ {
			if g[i].Time == g[i-1].Time {
				return mk("duplicate_timestamp", fmt.Sprintf("series %s returns timestamp t=%d twice: %s and %s", s, (g[i].Time-sBaseTime)/sStep, fmtRow(g[i-1]), fmtRow(g[i])))
			}
			if (g[i].Time < g[i-1].Time) != op.Desc {
				return mk("wrong_order", fmt.Sprintf("series %s rows are not in %s time order: %s then %s", s, map[bool]string{false: "ascending", true: "descending"}[op.Desc], fmtRow(g[i-1]), fmtRow(g[i])))
			}
		}
	}
	// index the result
	got := map[[2]int64]sDumpRow{} // (series index, time)
	var skeys []string
	for s := range tr.rows {
		skeys = append(skeys, s)
	}
	sort.Strings(skeys)
	for _, s := range skeys {
		si, ok := cwSeriesIdx[s]
		if !ok {
			return mk("foreign_value", fmt.Sprintf("the result has a series %q that was never written", s))
		}
		for _, r := range tr.rows[s] {
			if _, dup := got[[2]int64{int64(si), r.Time}]; !dup {
				got[[2]int64{int64(si), r.Time}] = r
			}
		}
	}
	// (c) every value returned was written to that cell by a write issued before the query ended
	var gk [][2]int64
	for k := range got {
		gk = append(gk, k)
	}
	sort.Slice(gk, func(i, j int) bool { return gk[i][0] < gk[j][0] || (gk[i][0] == gk[j][0] && gk[i][1] < gk[j][1]) })
	for _, k := range gk {
		r := got[k]
		slot := int((r.Time - sBaseTime) / sStep)
		if (r.Time-sBaseTime)%sStep != 0 || slot < op.A || slot > op.B {
			return mk("foreign_value", fmt.Sprintf("row %s lies outside the queried time range or on no written timestamp", fmtRow(r)))
		}
		cell := cellKey{m, int(k[0]), slot}
		for _, f := range sFieldNames {
			gv, ok := r.Fields[f]
			if !ok {
				continue
			}
			okv := false
			stale := false
			ws := h.cells[cell][f]
			last := h.lastAcked(ws, qs)
			if dropRelax {
				last = -1 // completeness (which includes "the newest acknowledged value") is not judged here
			}
			for wi, w := range ws {
				if w.issued > qe {
					continue
				}
				if cellValue(w.id, SRow{M: cell.M, S: cell.S, T: cell.T}, f).equal(gv) {
					if wi >= last {
						okv = true
						break
					}
					stale = true
				}
			}
			if !okv {
				if stale {
					return mk("stale_value", fmt.Sprintf("field %s of row %s holds the value of write %d, but write %d to the same cell was acknowledged before the query started", f, fmtRow(r), attribute(gv), ws[last].id))
				}
				return mk("foreign_value", fmt.Sprintf("field %s of row %s (value attributable to write %d) was written to this cell by no write issued before the query ended (writes to the cell: %s)", f, fmtRow(r), attribute(gv), cwWriteList(ws)))
			}
		}
	}
	// (a) every point acknowledged before the query started is returned
	if !dropRelax {
		var ck []cellKey
		for k := range h.cells {
			if k.M == m && k.T >= op.A && k.T <= op.B {
				ck = append(ck, k)
			}
		}
		sort.Slice(ck, func(i, j int) bool {
			if ck[i].S != ck[j].S {
				return ck[i].S < ck[j].S
			}
			return ck[i].T < ck[j].T
		})
		for _, k := range ck {
			if !h.visible(m, k.S, qs) {
				run.out.Stats["cells_not_judged_series_not_yet_visible"]++
				continue
			}
			r, present := got[[2]int64{int64(k.S), sTime(k.T)}]
			for _, f := range sFieldNames {
				ws := h.cells[k][f]
				last := h.lastAcked(ws, qs)
				if last < 0 {
					continue
				}
				if !present {
					return mk("acked_point_missing", fmt.Sprintf("point {%s t=%d} was acknowledged (write %d, acknowledged at step %d) before the query started but is not in the result (result has %d rows for the series)",
						sSeriesKey(k.S), k.T, ws[last].id, ws[last].acked, len(tr.rows[sSeriesKey(k.S)])))
				}
				if _, ok := r.Fields[f]; !ok {
					return mk("acked_field_missing", fmt.Sprintf("row %s lacks field %s written by write %d (acknowledged at step %d, before the query started)", fmtRow(r), f, ws[last].id, ws[last].acked))
				}
			}
		}
	}
	// (d) per reader, points never disappear
	if tr.task >= 0 {
		seen := h.reader[tr.task]
		if seen == nil {
			seen = map[[3]int64]int{}
			h.reader[tr.task] = seen
		}
		if !dropRelax {
			var pk [][3]int64
			for p := range seen {
				if int(p[0]) == m {
					pk = append(pk, p)
				}
			}
			sort.Slice(pk, func(i, j int) bool { return pk[i][1] < pk[j][1] || (pk[i][1] == pk[j][1] && pk[i][2] < pk[j][2]) })
			for _, p := range pk {
				slot := int((p[2] - sBaseTime) / sStep)
				if slot < op.A || slot > op.B {
					continue
				}
				if _, ok := got[[2]int64{p[1], p[2]}]; !ok {
					if !h.anyAcked(cellKey{m, int(p[1]), slot}) {
						continue // the point came from a write that was refused (close): it was never promised
					}
					return mk("point_disappeared", fmt.Sprintf("point {%s t=%d} was returned to this reader by its query that finished at step %d and is missing now", sSeriesKey(int(p[1])), slot, seen[p]))
				}
			}
		}
		for k := range got {
			p := [3]int64{int64(m), k[0], k[1]}
			if _, ok := seen[p]; !ok {
				seen[p] = qe
			}
		}
		for k := range got {
			sk := [2]int{m, int(k[0])}
			if _, ok := h.seenSer[sk]; !ok {
				h.seenSer[sk] = qe
			}
		}
	}
	return nil
}

func (h *cwHist) anyAcked(k cellKey) bool {
	for _, ws := range h.cells[k] {
		for _, w := range ws {
			if w.acked >= 0 {
				return true
			}
		}
	}
	return false
}

// lastAcked: index of the last write in ws (issue order) acknowledged before step qs; -1 if none.
func (h *cwHist) lastAcked(ws []*cwWrite, qs int) int {
	last := -1
	for i, w := range ws {
		if w.acked >= 0 && w.acked < qs {
			last = i
		}
	}
	return last
}

func cwWriteList(ws []*cwWrite) string {
	var p []string
	for _, w := range ws {
		st := fmt.Sprintf("acked@%d", w.acked)
		if w.failed {
			st = "failed"
		} else if w.acked < 0 {
			st = "in flight"
		}
		p = append(p, fmt.Sprintf("w%d issued@%d %s", w.id, w.issued, st))
	}
	if len(p) == 0 {
		return "none"
	}
	return strings.Join(p, ", ")
}

func cwFileLayout(sh *shard, m int) string {
	ch := make(chan string, 1)
	go func() {
		defer func() {
			if r := recover(); r != nil {
				ch <- "?"
			}
		}()
		ch <- fileLayout(sh, m)
	}()
	select {
	case s := <-ch:
		return s
	case <-time.After(300 * time.Millisecond):
		return "(busy)"
	}
}
