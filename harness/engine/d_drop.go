package engine

// World D: the four drop statements, executed the way the product executes them.
//
//	DROP SERIES              coordinator.DropSeriesExecutor: MatchMeasurements, then one DropSeries
//	                         request per store node (all its partitions, the matched versioned names,
//	                         the condition text); acknowledged when the store has answered.
//	DROP MEASUREMENT         statement_executor: MarkMeasurementDelete in the catalogue (the client is
//	DROP RETENTION POLICY    acknowledged here); the meta service's checkDelete loop then asks the store
//	DROP DATABASE            to delete (DeleteMeasurement with the policy's shard ids / DeleteRetentionPolicy
//	                         and DeleteDatabase per partition) and, when the store has answered, removes
//	                         the object from the catalogue (DropMeasurement / DropRetentionPolicy /
//	                         DropDatabase).  While the mark is pending the SQL node resolves nothing under
//	                         the object, so the harness reads only after the third step.

import (
	"fmt"
	"os"
	"sort"

	"github.com/openGemini/openGemini/engine/index/tsi"
	"github.com/openGemini/openGemini/lib/util/lifted/influx/influxql"

	"github.com/openGemini/openGemini/engine/immutable"
	"github.com/openGemini/openGemini/lib/util/lifted/influx/meta"
	"github.com/openGemini/openGemini/verifsim/core"
)

func dUnrefFiles(files *immutable.TSSPFiles) {
	immutable.UnrefFilesReader(files.Files()...)
	immutable.UnrefFiles(files.Files()...)
}

func (run *dRun) physNamesNow(cat *dCatalogue) map[[3]int]string {
	out := map[[3]int]string{}
	for db := 0; db < run.c.NDB; db++ {
		for rp := 0; rp < run.c.NRP; rp++ {
			for m := 0; m < run.c.NMst; m++ {
				if n := cat.physName(db, rp, m); n != "" {
					out[[3]int{db, rp, m}] = n
				}
			}
		}
	}
	return out
}

func (run *dRun) dropProbes(g *dGen, what string, node *dNode, cat *dCatalogue, names map[[3]int]string, scope func(c dCell) bool, model *dModel) {
	out := run.out
	out.Stats["drops"]++
	if len(g.Rows) == 0 {
		out.Probes[what+" selected no series"]++
		return
	}
	rest := 0
	for c := range model.rows {
		if scope(c) {
			rest++
		}
	}
	if rest == 0 {
		out.Probes[what+" selected all series"]++
	} else {
		out.Probes[what+" selected some series"]++
	}
	for c := range g.Rows {
		if run.unflushed[c] {
			out.Probes["drop of data in memtable"]++
			break
		}
	}
	run.layoutProbesForDrop(g, node, cat, names)
}

// opDropSeries: live = part of the history (probes, logging); otherwise a retry after a crash.
func (run *dRun) opDropSeries(i int, op DOp, model *dModel, cat *dCatalogue, node *dNode, live bool) *core.Violation {
	out := run.out
	names := cat.matchMeasurements(op.DB, op.RP, op.M, run.c.Desc)
	if len(names) == 0 {
		// DropSeriesExecutor: "the current input table does not exist"
		if live {
			out.Log("op%d drop series from %s.%s.%s where %q: no such measurement", i, dDBName(op.DB), dRPArg(op.RP), dMstName(op.M), op.Cond)
			out.Probes["drop series on a measurement that does not exist"]++
			model.drop(i, "drop_series", func(dCell) bool { return false })
		}
		return nil
	}
	sel, err := dPredSeries(op.Cond, run.c.NSeries)
	if err != nil {
		panic(core.InfraPanic("predicate " + op.Cond + ": " + err.Error()))
	}
	if live && len(dUniq(names)) > 1 {
		out.Probes["drop series matched several versioned names"]++
	}
	physBefore := run.physNamesNow(cat)
	if os.Getenv("DW_DEBUG") != "" {
		for _, es := range node.shardList() {
			var ex influxql.Expr
			if op.Cond != "" {
				ex, _ = influxql.ParseExpr(op.Cond)
				influxql.WalkFunc(ex, func(n influxql.Node) {
					if r, ok := n.(*influxql.VarRef); ok {
						r.Type = influxql.Tag
					}
				})
			}
			ids, e := es.sh.indexBuilder.GetPrimaryIndex().SearchSeriesByTableAndCond([]byte(names[0]), ex, tsi.TimeRange{Min: 0, Max: 1 << 62})
			fmt.Println("DEBUG drop pre-search", es.db, es.pt, es.id, names[0], op.Cond, ids, e)
		}
	}
	err = DwStore.DropSeries(dDBName(op.DB), cat.pts(op.DB), names, op.Cond)
	if os.Getenv("DW_DEBUG") != "" {
		for _, es := range node.shardList() {
			idx := es.sh.indexBuilder.GetPrimaryIndex().(*tsi.MergeSetIndex)
			ids, e := idx.SearchSeriesByTableAndCond([]byte(names[0]), nil, tsi.TimeRange{Min: 0, Max: 1 << 62})
			fmt.Println("DEBUG drop post-search", es.db, es.pt, es.id, names[0], ids, e, "deleted:", idx.GetDeletedTSIDs().AppendTo(nil), idx.DeleteMergeSet() != nil)
			ser, e5 := idx.SearchSeriesKeys(nil, []byte(names[0]), nil)
			fmt.Println("DEBUG drop post-keys", len(ser), e5)
			ids2, e6 := idx.SearchSeriesByTableAndCond([]byte(names[0]), nil, tsi.DefaultTR)
			fmt.Println("DEBUG drop post-search DefaultTR", ids2, e6, tsi.DefaultTR)
		}
	}
	if live {
		out.Log("op%d drop series from %s.%s.%s where %q names=%v err=%v", i, dDBName(op.DB), dRPArg(op.RP), dMstName(op.M), op.Cond, names, err != nil)
	}
	if err != nil {
		return sviol(run.prop, "drop_error", fmt.Sprintf("op %d: DROP SERIES failed: %v", i, err), map[string]string{"op": "drop_series", "shape": "-", "after": "immediately"})
	}
	scope := func(c dCell) bool {
		return c.DB == op.DB && (op.RP < 0 || c.RP == op.RP) && c.M == op.M && cat.physName(c.DB, c.RP, c.M) != ""
	}
	g := model.drop(i, "drop_series", func(c dCell) bool { return scope(c) && sel[c.S] })
	g.Names = len(dUniq(names))
	if live {
		// storeTsids makes the partition's deleted-id index builder for the policy when the drop found ids there
		for c := range g.Rows {
			k := fmt.Sprintf("%d/%d/%d", c.DB, c.RP, run.c.ptOf(c.S))
			if _, ok := run.delIdxAt[k]; !ok {
				run.delIdxAt[k] = i
			}
		}
	}
	if live {
		run.dropProbes(g, "drop series", node, cat, physBefore, scope, model)
		run.seen = map[string]bool{}
	}
	return nil
}

func dRPArg(rp int) string {
	if rp < 0 {
		return "*"
	}
	return dRPName(rp)
}

func (run *dRun) opDropMeasurement(i int, op DOp) *core.Violation {
	out, cat, node := run.out, run.cat, run.node
	db, rp := dDBName(op.DB), dRPName(op.RP)
	name := cat.physName(op.DB, op.RP, op.M)
	if name == "" {
		out.Log("op%d drop measurement %s.%s.%s: not found", i, db, rp, dMstName(op.M))
		run.model.drop(i, "drop_measurement", func(dCell) bool { return false })
		return nil
	}
	physBefore := run.physNamesNow(cat)
	inc, pos := run.pos()
	dMust(cat.apply(inc, pos, "mark measurement "+name, func(d *meta.Data) error { return d.MarkMeasurementDelete(db, rp, dMstName(op.M)) }), "MarkMeasurementDelete")
	// ---- the statement is acknowledged here; the meta service's delete loop takes over ----
	if err := run.driveMeasurementDelete(cat, op.DB, op.RP, name); err != nil {
		out.Log("op%d drop measurement %s.%s.%s err", i, db, rp, name)
		return sviol(run.prop, "drop_error", fmt.Sprintf("op %d: the store's DeleteMeasurement(%s.%s.%s) failed: %v", i, db, rp, name, err), map[string]string{"op": "drop_measurement", "shape": "-", "after": "immediately"})
	}
	out.Log("op%d drop measurement %s.%s.%s", i, db, rp, name)
	scope := func(c dCell) bool { return c.DB == op.DB && c.RP == op.RP }
	g := run.model.drop(i, "drop_measurement", func(c dCell) bool { return c.DB == op.DB && c.RP == op.RP && c.M == op.M })
	run.physOld[fmt.Sprintf("%d/%d/%d/%s", op.DB, op.RP, op.M, name)] = i
	run.dropProbes(g, "drop measurement", node, cat, physBefore, scope, run.model)
	run.seen = map[string]bool{}
	run.noteFlushed() // DropMeasurement flushes the shard first
	return nil
}

// driveMeasurementDelete = Store.deleteMeasurement of the meta service.
func (run *dRun) driveMeasurementDelete(cat *dCatalogue, db, rp int, name string) error {
	ids := cat.nodeShards(db, rp, name)
	if len(ids) > 0 {
		if err := DwStore.DeleteMeasurement(dDBName(db), dRPName(rp), name, ids); err != nil {
			return err
		}
	}
	inc, pos := run.pos()
	return cat.apply(inc, pos, "drop measurement "+name, func(d *meta.Data) error { return d.DropMeasurement(dDBName(db), dRPName(rp), name) })
}

func (run *dRun) driveRPDelete(cat *dCatalogue, db, rp int) error {
	for _, pt := range cat.pts(db) {
		if err := DwStore.DeleteRetentionPolicy(dDBName(db), dRPName(rp), pt); err != nil {
			return err
		}
	}
	inc, pos := run.pos()
	return cat.apply(inc, pos, "drop retention policy "+dRPName(rp), func(d *meta.Data) error { return d.DropRetentionPolicy(dDBName(db), dRPName(rp)) })
}

func (run *dRun) driveDBDelete(cat *dCatalogue, db int) error {
	for _, pt := range cat.pts(db) {
		if err := DwStore.DeleteDatabase(dDBName(db), pt); err != nil {
			return err
		}
	}
	inc, pos := run.pos()
	return cat.apply(inc, pos, "drop database "+dDBName(db), func(d *meta.Data) error {
		// storeFSM.applyDropDatabaseCommand
		if d.Database(dDBName(db)) == nil {
			return nil
		}
		d.DropDatabase(dDBName(db))
		return nil
	})
}

func (run *dRun) opDropRP(i int, op DOp) *core.Violation {
	out, cat, node := run.out, run.cat, run.node
	db, rp := dDBName(op.DB), dRPName(op.RP)
	if !cat.rpExists(op.DB, op.RP) {
		out.Log("op%d drop retention policy %s.%s: not found", i, db, rp)
		run.model.drop(i, "drop_rp", func(dCell) bool { return false })
		return nil
	}
	physBefore := run.physNamesNow(cat)
	inc, pos := run.pos()
	dMust(cat.apply(inc, pos, "mark retention policy "+rp, func(d *meta.Data) error { return d.MarkRetentionPolicyDelete(db, rp) }), "MarkRetentionPolicyDelete")
	if err := run.driveRPDelete(cat, op.DB, op.RP); err != nil {
		out.Log("op%d drop retention policy %s.%s err", i, db, rp)
		return sviol(run.prop, "drop_error", fmt.Sprintf("op %d: the store's DeleteRetentionPolicy(%s.%s) failed: %v", i, db, rp, err), map[string]string{"op": "drop_rp", "shape": "-", "after": "immediately"})
	}
	out.Log("op%d drop retention policy %s.%s", i, db, rp)
	scope := func(c dCell) bool { return c.DB == op.DB }
	g := run.model.drop(i, "drop_rp", func(c dCell) bool { return c.DB == op.DB && c.RP == op.RP })
	for k, n := range physBefore {
		if k[0] == op.DB && k[1] == op.RP {
			run.physOld[fmt.Sprintf("%d/%d/%d/%s", k[0], k[1], k[2], n)] = i
		}
	}
	run.dropProbes(g, "drop retention policy", node, cat, physBefore, scope, run.model)
	run.seen = map[string]bool{}
	return nil
}

func (run *dRun) opDropDB(i int, op DOp) *core.Violation {
	out, cat, node := run.out, run.cat, run.node
	db := dDBName(op.DB)
	if !cat.dbExists(op.DB) {
		out.Log("op%d drop database %s: not found", i, db)
		run.model.drop(i, "drop_database", func(dCell) bool { return false })
		return nil
	}
	physBefore := run.physNamesNow(cat)
	inc, pos := run.pos()
	dMust(cat.apply(inc, pos, "mark database "+db, func(d *meta.Data) error { return d.MarkDatabaseDelete(db) }), "MarkDatabaseDelete")
	if err := run.driveDBDelete(cat, op.DB); err != nil {
		out.Log("op%d drop database %s err", i, db)
		return sviol(run.prop, "drop_error", fmt.Sprintf("op %d: the store's DeleteDatabase(%s) failed: %v", i, db, err), map[string]string{"op": "drop_database", "shape": "-", "after": "immediately"})
	}
	out.Log("op%d drop database %s", i, db)
	scope := func(c dCell) bool { return true }
	g := run.model.drop(i, "drop_database", func(c dCell) bool { return c.DB == op.DB })
	for k, n := range physBefore {
		if k[0] == op.DB {
			run.physOld[fmt.Sprintf("%d/%d/%d/%s", k[0], k[1], k[2], n)] = i
		}
	}
	run.dropProbes(g, "drop database", node, cat, physBefore, scope, run.model)
	run.seen = map[string]bool{}
	return nil
}

// redrive: what the meta service's checkDelete loops do with every object still marked
// (after a store restart the deletion that was in flight is simply asked for again).
func (run *dRun) redrive(cat *dCatalogue) error {
	p := cat.pending(run.c.NDB, run.c.NRP)
	for _, db := range p.dbs {
		if err := run.driveDBDelete(cat, db); err != nil {
			return fmt.Errorf("DeleteDatabase(%s): %w", dDBName(db), err)
		}
	}
	for _, x := range p.rps {
		if err := run.driveRPDelete(cat, x[0], x[1]); err != nil {
			return fmt.Errorf("DeleteRetentionPolicy(%s.%s): %w", dDBName(x[0]), dRPName(x[1]), err)
		}
	}
	sort.Slice(p.msts, func(i, j int) bool { return p.msts[i].name < p.msts[j].name })
	for _, x := range p.msts {
		if err := run.driveMeasurementDelete(cat, x.db, x.rp, x.name); err != nil {
			return fmt.Errorf("DeleteMeasurement(%s.%s.%s): %w", dDBName(x.db), dRPName(x.rp), x.name, err)
		}
	}
	return nil
}
