package engine_test

// World T: the catalogue façade.  One un-replicated, REAL meta.Data is the
// catalogue; every command is executed by the same Data method the meta
// service's state machine calls (ApplyDeleteShardGroup -> Data.DeleteShardGroup,
// ApplyPruneGroups -> Data.PruneGroups, ...), read requests by the methods the
// meta store calls (DurationInfos, IndexDurationInfos, TimeRangeInfo) including
// the marshal/unmarshal round trip of the RPC.  Stubbed: consensus, RPC, the
// client-side cache (reads go to the catalogue directly).

import (
	"errors"
	"fmt"
	"sort"
	"sync"
	"time"

	"github.com/openGemini/openGemini/engine"
	"github.com/openGemini/openGemini/lib/errno"
	"github.com/openGemini/openGemini/lib/metaclient"
	"github.com/openGemini/openGemini/lib/obs"
	"github.com/openGemini/openGemini/lib/util/lifted/influx/influxql"
	"github.com/openGemini/openGemini/lib/util/lifted/influx/meta"
)

const twDB = "db0"

// twCatalogue is shared by all incarnations of the store process.
type twCatalogue struct {
	mu   sync.Mutex
	data *meta.Data
}

// command: what the state machine does around every applied log entry
func (c *twCatalogue) apply(fn func(d *meta.Data) error) error {
	c.mu.Lock()
	defer c.mu.Unlock()
	c.data.Index++
	return fn(c.data)
}

func (c *twCatalogue) read(fn func(d *meta.Data)) {
	c.mu.Lock()
	defer c.mu.Unlock()
	fn(c.data)
}

var errTwDead = errors.New("verif: the store process was killed; this call never left it")

// twMeta is the MetaClient of ONE incarnation of the store process.
type twMeta struct {
	metaclient.MetaClient // nil: a method the world did not anticipate panics with a nil dereference
	cat                   *twCatalogue
	nodeID                uint64

	mu          sync.Mutex
	dead        bool
	killPoint   string // "", "mark" (die right after the first DeleteShardGroup returned), "delete" (right after the first DeleteShard returned)
	killFired   string
	refreshes   []time.Time // clock readings at GetShardDurationInfo / GetIndexDurationInfo (= start of a service run)
	marks       []uint64    // shard group ids passed to DeleteShardGroup since the last reset
	prunes      []uint64    // shard ids passed to PruneGroupsCommand(true, id)
	idxMarks    []uint64
	idxPrunes   []uint64
	engDeletes  []uint64 // shard ids passed to Engine.DeleteShard
	engIdxDels  []uint64
	engDelErrs  []string
	svcCalls    int
}

func (m *twMeta) isDead() bool {
	m.mu.Lock()
	defer m.mu.Unlock()
	return m.dead
}

func (m *twMeta) resetTrace() {
	m.mu.Lock()
	m.marks, m.prunes, m.idxMarks, m.idxPrunes, m.engDeletes, m.engIdxDels, m.engDelErrs = nil, nil, nil, nil, nil, nil, nil
	m.mu.Unlock()
}

func (m *twMeta) pts() map[string][]uint32 {
	out := map[string][]uint32{}
	m.cat.read(func(d *meta.Data) {
		for db, pis := range d.PtView {
			for i := range pis {
				if pis[i].Owner.NodeID == m.nodeID {
					out[db] = append(out[db], pis[i].PtId)
				}
			}
		}
	})
	return out
}

// ---- what services/retention.Service calls ---------------------------------------

func (m *twMeta) GetShardDurationInfo(index uint64) (*meta.ShardDurationResponse, error) {
	m.mu.Lock()
	if m.dead {
		m.mu.Unlock()
		return nil, errTwDead
	}
	m.refreshes = append(m.refreshes, time.Now())
	m.svcCalls++
	m.mu.Unlock()
	pts := m.pts()
	var b []byte
	var err error
	m.cat.read(func(d *meta.Data) {
		if d.Index < index {
			err = errno.NewError(errno.DataIsOlder)
			return
		}
		b, err = d.DurationInfos(pts).MarshalBinary()
	})
	if err != nil {
		return nil, err
	}
	out := &meta.ShardDurationResponse{}
	return out, out.UnmarshalBinary(b)
}

func (m *twMeta) GetIndexDurationInfo(index uint64) (*meta.IndexDurationResponse, error) {
	m.mu.Lock()
	if m.dead {
		m.mu.Unlock()
		return nil, errTwDead
	}
	m.refreshes = append(m.refreshes, time.Now())
	m.mu.Unlock()
	pts := m.pts()
	var b []byte
	var err error
	m.cat.read(func(d *meta.Data) {
		if d.Index < index {
			err = errno.NewError(errno.DataIsOlder)
			return
		}
		b, err = d.IndexDurationInfos(pts).MarshalBinary()
	})
	if err != nil {
		return nil, err
	}
	out := &meta.IndexDurationResponse{}
	return out, out.UnmarshalBinary(b)
}

func (m *twMeta) DeleteShardGroup(database, policy string, id uint64, deleteType int32) error {
	m.mu.Lock()
	if m.dead {
		m.mu.Unlock()
		return errTwDead
	}
	m.marks = append(m.marks, id)
	kill := m.killPoint == "mark"
	if kill {
		m.killPoint, m.killFired, m.dead = "", "mark", true
	}
	m.mu.Unlock()
	// deletedAt = 0: the state machine stamps the group with the meta node's clock
	return m.cat.apply(func(d *meta.Data) error { return d.DeleteShardGroup(database, policy, id, 0, deleteType) })
}

func (m *twMeta) DeleteIndexGroup(database, policy string, id uint64) error {
	m.mu.Lock()
	if m.dead {
		m.mu.Unlock()
		return errTwDead
	}
	m.idxMarks = append(m.idxMarks, id)
	m.mu.Unlock()
	return m.cat.apply(func(d *meta.Data) error { return d.DeleteIndexGroup(database, policy, id) })
}

func (m *twMeta) PruneGroupsCommand(shardGroup bool, id uint64) error {
	m.mu.Lock()
	if m.dead {
		m.mu.Unlock()
		return errTwDead
	}
	if shardGroup {
		m.prunes = append(m.prunes, id)
	} else {
		m.idxPrunes = append(m.idxPrunes, id)
	}
	m.mu.Unlock()
	return m.cat.apply(func(d *meta.Data) error { return d.PruneGroups(shardGroup, id) })
}

func (m *twMeta) DelayDeleteShardGroup(database, policy string, id uint64, deletedAt time.Time, deleteType int32) error {
	panic("DelayDeleteShardGroup: shared-storage (logkeeper) path, not part of world T")
}
func (m *twMeta) GetExpiredShards() ([]meta.ExpiredShardInfos, []meta.ExpiredShardInfos) {
	panic("GetExpiredShards: shared-storage (logkeeper) path, not part of world T")
}
func (m *twMeta) GetExpiredIndexes() []meta.ExpiredIndexInfos {
	panic("GetExpiredIndexes: shared-storage (logkeeper) path, not part of world T")
}

// ---- what the engine calls ----------------------------------------------------------

func (m *twMeta) IsSQLiteEnabled() bool { return false }

func (m *twMeta) DatabaseOption(name string) (*obs.ObsOptions, error) {
	var o *obs.ObsOptions
	var err error
	m.cat.read(func(d *meta.Data) {
		dbi := d.Database(name)
		if dbi == nil {
			err = errno.NewError(errno.DatabaseNotFound, name)
			return
		}
		o = dbi.Options
	})
	return o, err
}

func (m *twMeta) Databases() map[string]*meta.DatabaseInfo {
	var out map[string]*meta.DatabaseInfo
	m.cat.read(func(d *meta.Data) { out = d.Databases })
	return out
}

func (m *twMeta) Database(name string) (*meta.DatabaseInfo, error) {
	var out *meta.DatabaseInfo
	var err error
	m.cat.read(func(d *meta.Data) { out, err = d.GetDatabase(name) })
	return out, err
}

func (m *twMeta) GetMeasurements(mm *influxql.Measurement) ([]*meta.MeasurementInfo, error) {
	var out []*meta.MeasurementInfo
	var err error
	m.cat.read(func(d *meta.Data) {
		dbi, e := d.GetDatabase(mm.Database)
		if e != nil {
			err = e
			return
		}
		rpi, e := dbi.GetRetentionPolicy(mm.RetentionPolicy)
		if e != nil {
			err = e
			return
		}
		var names []string
		for n := range rpi.Measurements {
			names = append(names, n)
		}
		sort.Strings(names)
		for _, n := range names {
			out = append(out, rpi.Measurements[n])
		}
	})
	return out, err
}

// ThermalShards: same rule as lib/metaclient.Client.ThermalShards, on the catalogue.
func (m *twMeta) ThermalShards(dbName string, start, end time.Duration) map[uint64]struct{} {
	shards := make(map[uint64]struct{})
	var lt, rt time.Time
	if start != 0 {
		lt = time.Now().Add(-start).UTC()
	}
	if end != 0 {
		rt = time.Now().Add(end).UTC()
	}
	m.cat.read(func(d *meta.Data) {
		db, ok := d.Databases[dbName]
		if !ok {
			shards = nil
			return
		}
		var names []string
		for n := range db.RetentionPolicies {
			names = append(names, n)
		}
		sort.Strings(names) // the client ranges over the map; the first policy fixes lt/rt when they are zero
		for _, n := range names {
			rp := db.RetentionPolicies[n]
			if lt.IsZero() {
				lt = time.Now().Add(-rp.ShardGroupDuration).UTC()
			}
			if rt.IsZero() {
				rt = time.Now().Add(rp.ShardGroupDuration).UTC()
			}
			for i := 0; i < len(rp.ShardGroups); i++ {
				if rp.ShardGroups[i].Deleted() {
					continue
				}
				sg := &rp.ShardGroups[i]
				if sg.EndTime.Before(lt) || sg.EndTime.After(rt) {
					continue
				}
				for k := 0; k < len(sg.Shards); k++ {
					shards[sg.Shards[k].ID] = struct{}{}
				}
			}
		}
	})
	return shards
}

func (m *twMeta) UpdateShardDownSampleInfo(*meta.ShardIdentifier) error { return nil }

func (m *twMeta) GetShardRangeInfo(db string, rp string, shardID uint64) (*meta.ShardTimeRangeInfo, error) {
	var b []byte
	var err error
	m.cat.read(func(d *meta.Data) {
		dbi, e := d.GetDatabase(db)
		if e != nil {
			err = e
			return
		}
		rpi, e := dbi.GetRetentionPolicy(rp)
		if e != nil {
			err = e
			return
		}
		tri := rpi.TimeRangeInfo(shardID)
		if tri == nil {
			err = errno.NewError(errno.ShardMetaNotFound, shardID)
			return
		}
		b, err = tri.MarshalBinary()
	})
	if err != nil {
		return nil, err
	}
	out := &meta.ShardTimeRangeInfo{}
	return out, out.UnmarshalBinary(b)
}

// ---- the Engine the service talks to --------------------------------------------------

// twEngine is the real engine plus call recording and the two process-kill
// points of a service run (a killed process makes no further calls).
type twEngine struct {
	*engine.EngineImpl
	mc       *twMeta
	desc     bool
	onDelete func(what string, id uint64) // called before the engine is asked to delete a shard or an index
}

// The engine collects expired shards and indexes by ranging over maps; the order
// is arbitrary.  The wrapper fixes one of the legal orders (ascending or
// descending id, a knob of the case) so that an execution is a function of the case.
func (e *twEngine) ExpiredShards(nilShardMap *map[uint64]*meta.ShardDurationInfo) []*meta.ShardIdentifier {
	res := e.EngineImpl.ExpiredShards(nilShardMap)
	sort.SliceStable(res, func(i, j int) bool {
		if e.desc {
			return res[i].ShardID > res[j].ShardID
		}
		return res[i].ShardID < res[j].ShardID
	})
	return res
}

func (e *twEngine) ExpiredIndexes(nilIndexMap *map[uint64]*meta.IndexDurationInfo) []*meta.IndexIdentifier {
	res := e.EngineImpl.ExpiredIndexes(nilIndexMap)
	sort.SliceStable(res, func(i, j int) bool {
		if e.desc {
			return res[i].Index.IndexID > res[j].Index.IndexID
		}
		return res[i].Index.IndexID < res[j].Index.IndexID
	})
	return res
}

func (e *twEngine) ExpiredCacheIndexes() []*meta.IndexIdentifier {
	res := e.EngineImpl.ExpiredCacheIndexes()
	sort.SliceStable(res, func(i, j int) bool { return res[i].Index.IndexID < res[j].Index.IndexID })
	return res
}

func (e *twEngine) DeleteShard(db string, ptId uint32, shardID uint64) error {
	if e.mc.isDead() {
		return errTwDead
	}
	if e.onDelete != nil {
		e.onDelete("shard", shardID)
	}
	err := e.EngineImpl.DeleteShard(db, ptId, shardID)
	e.mc.mu.Lock()
	e.mc.engDeletes = append(e.mc.engDeletes, shardID)
	if err != nil {
		if errno.Equal(err, errno.ShardNotFound) {
			e.mc.engDelErrs = append(e.mc.engDelErrs, "shard not found")
		} else {
			e.mc.engDelErrs = append(e.mc.engDelErrs, fmt.Sprintf("other: %v", err))
		}
	}
	if e.mc.killPoint == "delete" {
		e.mc.killPoint, e.mc.killFired, e.mc.dead = "", "delete", true
	}
	e.mc.mu.Unlock()
	return err
}

func (e *twEngine) DeleteIndex(db string, ptId uint32, indexID uint64) error {
	if e.mc.isDead() {
		return errTwDead
	}
	if e.onDelete != nil {
		e.onDelete("index", indexID)
	}
	err := e.EngineImpl.DeleteIndex(db, ptId, indexID)
	e.mc.mu.Lock()
	e.mc.engIdxDels = append(e.mc.engIdxDels, indexID)
	e.mc.mu.Unlock()
	return err
}

func (e *twEngine) ClearIndexCache(db string, ptId uint32, indexID uint64) error {
	if e.mc.isDead() {
		return errTwDead
	}
	return e.EngineImpl.ClearIndexCache(db, ptId, indexID)
}
