package engine_test

// World T - retention under a simulated clock (property C14).
//
// Real: engine.EngineImpl with its partitions, shards, index builders (Assign,
// CreateShard, WriteRows, lazy loading, DeleteShard, DeleteIndex, ExpiredShards,
// UpdateShardDurationInfo ...), services/retention.Service with its own ticker
// loop, and one meta.Data catalogue driven through its real methods.  The wall
// clock is the virtual clock of a testing/synctest bubble: one bubble per
// execution, everything with goroutines, channels or timers is created inside it.
//
// Stub: consensus/RPC of the catalogue (t_meta.go), the coordinator (routing of a
// point to a shard group / shard and the up-front "older than now - duration"
// rejection are re-implemented in a few lines below), the StorageService adapter
// ("write; on ShardNotFound ask the catalogue for the shard's range, create the
// shard, write again" as app/ts-store/storage.Storage.Write does).

import (
	"encoding/json"
	"fmt"
	"os"
	"path/filepath"
	"runtime"
	"runtime/debug"
	"sort"
	"strings"
	"sync"
	"sync/atomic"
	"testing"
	"testing/synctest"
	"time"

	"github.com/gogo/protobuf/proto"
	"github.com/openGemini/openGemini/engine"
	"github.com/openGemini/openGemini/lib/config"
	"github.com/openGemini/openGemini/lib/errno"
	"github.com/openGemini/openGemini/lib/metaclient"
	"github.com/openGemini/openGemini/lib/util"
	"github.com/openGemini/openGemini/lib/util/lifted/influx/influxql"
	"github.com/openGemini/openGemini/lib/util/lifted/influx/meta"
	proto2 "github.com/openGemini/openGemini/lib/util/lifted/influx/meta/proto"
	"github.com/openGemini/openGemini/lib/util/lifted/vm/protoparser/influx"
	"github.com/openGemini/openGemini/services/retention"
	"github.com/openGemini/openGemini/verifsim/core"
	"github.com/openGemini/openGemini/verifsim/simfs"
	"go.uber.org/zap"
)

// ---- the case ------------------------------------------------------------------------

// TRP is a retention policy as created at the start of the case (hours; 0 = not
// given: unlimited duration / derived group durations).
type TRP struct {
	DurH int `json:"dur_h"`
	SgdH int `json:"sgd_h"`
	IgdH int `json:"igd_h"`
}

// TRow is one point: series index and timestamp (ns relative to the epoch of the
// bubble, may be negative).
type TRow struct {
	S int   `json:"s"`
	T int64 `json:"t"`
}

// TOp is one operation, issued when the virtual clock reads epoch+At.
//
//	w       write Rows (value = ID*1000+row index) into policy RP through the coordinator stub
//	alter   UpdateRetentionPolicy of policy RP (DurH / SgdH / IgdH, nil = unchanged)
//	read    query every shard the catalogue lists (loads not-yet-loaded shards, as a query does)
//	restart stop the store (Mode "clean": close; "crash": process kill), stay down for Down ns, start it on a copy of the directory
//	whold   write one point (Rows[0]) and hold the write inside the shard (at its WAL write, the shard
//	        lock taken) across the next service run: released right after that run, or - when the
//	        run deletes that very shard - at the moment the service asks the engine to delete it
//	addnode a second data node joins the cluster (CreateDataNode); with Expand the catalogue adds
//	        shards and indexes for the new node's partitions to every existing group (ExpandGroups)
//	kill    arm a process kill inside the next service run that gets that far: Mode "mark" = right
//	        after the catalogue marked the first group, "delete" = right after the first shard was
//	        deleted from the engine; the store is restarted after Down ns
type TOp struct {
	K    string `json:"k"`
	At   int64  `json:"at"`
	RP   int    `json:"rp,omitempty"`
	ID   int    `json:"id,omitempty"`
	Rows []TRow `json:"rows,omitempty"`
	DurH *int   `json:"dur_h,omitempty"`
	SgdH *int   `json:"sgd_h,omitempty"`
	IgdH *int   `json:"igd_h,omitempty"`
	Down int64  `json:"down,omitempty"`
	Mode string `json:"mode,omitempty"`
}

type TCase struct {
	PTs       int   `json:"pts"`        // partitions of the database, all on the one store node
	Lazy      bool  `json:"lazy"`       // LazyLoadShardEnable
	ThermalH  int   `json:"thermal_h"`  // ThermalShardStart/EndDuration (0 = the policy's shard group duration)
	IntervalS int64 `json:"interval_s"` // retention check interval
	Expand    bool  `json:"expand"`     // meta configuration expand-shards-enable
	Desc      bool  `json:"desc"`       // the service handles expired shards in descending (else ascending) id order
	StartOff  int64 `json:"start_off"`  // the store (and the service ticker) starts at epoch+StartOff ns
	EndAt     int64 `json:"end_at"`     // the run ends at epoch+EndAt ns
	RPs       []TRP `json:"rps"`
	Ops       []TOp `json:"ops"`
}

const (
	twHour = int64(time.Hour)
	twSec  = int64(time.Second)
	twMin  = int64(time.Minute)
)

type worldT struct{}

func (worldT) Name() string { return "T" }

func (worldT) Components() ([]string, []string) {
	return []string{
			"services/retention.Service (ticker loop, handle, HandleLocalStorage, DeleteShardOrIndex)",
			"engine.EngineImpl (Assign, CreateShard, WriteRows, lazy shard loading, UpdateShardDurationInfo, ExpiredShards, nilShardIsExpired, DeleteShard, ExpiredIndexes, DeleteIndex, Close)",
			"engine shard / tsi index builder / immutable store (as world S)",
			"meta.Data catalogue methods (CreateDatabase, CreateRetentionPolicy, CreateMeasurement, CreateShardGroup, UpdateRetentionPolicy, DurationInfos, IndexDurationInfos, DeleteShardGroup, DeleteIndexGroup, PruneGroups, TimeRangeInfo, GetShardDurationsByDbPtForRetention)",
			"wall clock: testing/synctest bubble (time.Now / tickers / timers of every component)",
		}, []string{
			"catalogue consensus + RPC (one un-replicated meta.Data; responses still go through MarshalBinary/UnmarshalBinary)",
			"coordinator (point -> shard group -> shard routing and the up-front rejection of points older than now - duration)",
			"StorageService adapter (create the shard on ShardNotFound, as Storage.Write)",
			"SQL layer (shards are read through world S's cursor/ChunkReader reader)",
		}
}

// ---- generation ----------------------------------------------------------------------

func twEffSgd(p TRP) int64 {
	if p.SgdH > 0 {
		return int64(p.SgdH) * twHour
	}
	d := int64(p.DurH) * twHour
	switch {
	case d == 0 || d >= 180*24*twHour:
		return 7 * 24 * twHour
	case d >= 2*24*twHour:
		return 24 * twHour
	}
	return twHour
}

func twIntp(v int) *int { return &v }

func (worldT) Gen(r *core.Rand, env *core.Env) TCase {
	c := TCase{}
	// flavour: 0 generic, 1 "regroup" (the group durations of a policy are altered while it
	// holds data), 2 "expand" (a second data node joins; with expand-shards-enable the
	// catalogue adds shards to existing groups)
	flavour := r.Weighted([]int{60, 20, 20})
	c.PTs = core.Pick(r, []int{1, 1, 1, 2})
	c.Lazy = r.Bool(0.4)
	c.Desc = r.Bool(0.5)
	c.ThermalH = core.Pick(r, []int{0, 0, 1, 2})
	c.IntervalS = core.Pick(r, []int64{300, 600, 600, 900, 1020, 1800, 1800, 3600})
	if flavour == 2 {
		c.Expand = r.Bool(0.75)
	}
	iv := c.IntervalS * twSec
	// phase of the service ticker relative to the full hour (group ends and
	// durations are whole hours): 0 = a run exactly at end+duration, 1 = one
	// nanosecond after it, interval-1 = one nanosecond before it
	switch r.Intn(6) {
	case 0, 1:
		c.StartOff = 0
	case 2:
		c.StartOff = 1
	case 3:
		c.StartOff = iv - 1
	case 4:
		c.StartOff = int64(r.Intn(int(c.IntervalS))) * twSec
	default:
		c.StartOff = r.Int63n(iv)
	}
	nrp := core.Pick(r, []int{1, 1, 2})
	for i := 0; i < nrp; i++ {
		p := TRP{}
		p.SgdH = core.Pick(r, []int{1, 1, 1, 1, 2, 3, 0})
		s := p.SgdH
		if s == 0 {
			p.DurH = core.Pick(r, []int{0, 1, 2, 3})
		} else {
			switch r.Weighted([]int{15, 35, 20, 15, 15}) {
			case 0:
				p.DurH = 0
			case 1:
				p.DurH = s
			case 2:
				p.DurH = s + 1
			case 3:
				p.DurH = 2 * s
			default:
				p.DurH = core.Pick(r, []int{24, 30, 48})
			}
		}
		p.IgdH = core.Pick(r, []int{0, 0, p.SgdH, 2 * p.SgdH, 3})
		if flavour == 1 && i == 0 {
			// index groups wider than shard groups: an index group then has room for
			// shard groups that do not exist yet when the group duration changes
			p.SgdH = 1
			p.DurH = core.Pick(r, []int{1, 2, 2, 3})
			p.IgdH = core.Pick(r, []int{2, 2, 3, 4})
		}
		c.RPs = append(c.RPs, p)
	}
	horizon := core.Pick(r, []int64{3, 4, 4, 5, 6}) * twHour
	if flavour == 1 {
		horizon = core.Pick(r, []int64{6, 7, 8}) * twHour
	}
	// generator's own idea of the policies (for aiming only; the oracle has its own model)
	dur := make([]int64, nrp)
	sgd := make([]int64, nrp)
	for i, p := range c.RPs {
		dur[i] = int64(p.DurH) * twHour
		sgd[i] = twEffSgd(p)
	}
	nextTickAfter := func(t int64) int64 {
		if t < c.StartOff {
			return c.StartOff + iv
		}
		k := (t-c.StartOff)/iv + 1
		return c.StartOff + k*iv
	}
	small := func() int64 {
		return core.Pick(r, []int64{1, 1, twSec, 2 * twSec, 30 * twSec, twMin})
	}
	t := c.StartOff + core.Pick(r, []int64{5 * twSec, twMin, 10 * twMin})
	nops := r.Range(6, 18)
	wid := 0
	nodeAdded := false
	regrouped := false
	for len(c.Ops) < nops && t < horizon {
		rp := r.Intn(nrp)
		kind := r.Weighted([]int{40, 18, 8, 8, 6, 0, 0, 7})
		if flavour == 1 {
			if len(c.Ops) == 0 {
				kind, rp = 0, 0
			} else if !regrouped && r.Bool(0.6) {
				kind, rp = 5, 0
			} else if regrouped && r.Bool(0.5) {
				kind, rp = 0, 0
			}
		}
		if flavour == 2 && !nodeAdded && len(c.Ops) >= 1 && r.Bool(0.4) {
			kind = 6
		}
		switch kind {
		case 0: // write
			wid++
			op := TOp{K: "w", At: t, RP: rp, ID: wid}
			n := r.Range(1, 4)
			for j := 0; j < n; j++ {
				var ts int64
				d := dur[rp]
				wts := []int{30, 25, 20, 25}
				if flavour == 1 && rp == 0 {
					wts = []int{10, 25, 10, 55}
				}
				switch r.Weighted(wts) {
				case 0: // around the window edge now - duration
					if d == 0 {
						ts = t - r.Int63n(6*twHour)
					} else {
						ts = t - d + core.Pick(r, []int64{-twSec, 0, 1, twSec, twMin, 10 * twMin})
					}
				case 1: // current time
					ts = t - r.Int63n(10*twMin)
				case 2: // somewhere inside the window
					if d == 0 || d > 8*twHour {
						ts = t - r.Int63n(8*twHour)
					} else {
						ts = t - r.Int63n(d)
					}
				default: // the near future
					ts = t + r.Int63n(3*twHour)
				}
				op.Rows = append(op.Rows, TRow{S: r.Intn(4), T: ts})
			}
			c.Ops = append(c.Ops, op)
		case 1: // alter
			op := TOp{K: "alter", At: t, RP: rp}
			s := int(sgd[rp] / twHour)
			cur := int(dur[rp] / twHour)
			if r.Bool(0.8) {
				var nd int
				switch r.Weighted([]int{12, 25, 25, 12, 10, 10, 6}) {
				case 0:
					nd = 0
				case 1:
					nd = cur + 1
				case 2:
					nd = cur - 1
					if nd < 0 {
						nd = 1
					}
				case 3:
					nd = s
				case 4:
					nd = 2 * cur
				case 5:
					nd = core.Pick(r, []int{24, 48})
				default:
					nd = s - 1 // shorter than the shard group duration (0 if s == 1: unlimited)
				}
				op.DurH = twIntp(nd)
				// the catalogue rejects durations below the group duration; the generator's aim follows
				if nd == 0 || nd >= s {
					dur[rp] = int64(nd) * twHour
				}
			} else {
				if r.Bool(0.6) {
					ns := core.Pick(r, []int{1, 2, 3})
					op.SgdH = twIntp(ns)
					if cur != 0 && cur < ns && r.Bool(0.7) {
						op.DurH = twIntp(ns)
						dur[rp] = int64(ns) * twHour
					}
					if cur == 0 || cur >= ns || op.DurH != nil {
						sgd[rp] = int64(ns) * twHour
					}
				}
				if op.SgdH == nil || r.Bool(0.5) {
					op.IgdH = twIntp(core.Pick(r, []int{1, 2, 3, 4}))
				}
			}
			c.Ops = append(c.Ops, op)
		case 2:
			c.Ops = append(c.Ops, TOp{K: "read", At: t})
		case 3:
			op := TOp{K: "restart", At: t, Mode: core.Pick(r, []string{"clean", "clean", "crash"})}
			op.Down = core.Pick(r, []int64{0, twSec, 10 * twMin, twHour, 3 * twHour, 26 * twHour, 50 * twHour})
			c.Ops = append(c.Ops, op)
			t += op.Down
			horizon += op.Down
		case 4:
			op := TOp{K: "kill", At: t, Mode: core.Pick(r, []string{"mark", "delete"})}
			op.Down = core.Pick(r, []int64{0, twSec, 10 * twMin, twHour})
			c.Ops = append(c.Ops, op)
		case 5: // regroup: a longer shard group duration (and a policy duration that admits it)
			regrouped = true
			cur := int(dur[0] / twHour)
			ns := int(sgd[0]/twHour) + core.Pick(r, []int{1, 1, 2})
			op := TOp{K: "alter", At: t, RP: 0, SgdH: twIntp(ns)}
			if cur != 0 && cur < ns {
				op.DurH = twIntp(ns)
				dur[0] = int64(ns) * twHour
			}
			sgd[0] = int64(ns) * twHour
			c.Ops = append(c.Ops, op)
		case 6:
			nodeAdded = true
			c.Ops = append(c.Ops, TOp{K: "addnode", At: t})
		case 7: // a write kept in flight across the next service run
			if at := nextTickAfter(t) - core.Pick(r, []int64{twSec, 2 * twSec, 5 * twSec}); at > t {
				t = at
			}
			wid++
			d := dur[rp]
			var ts int64
			nh := (t/twHour + 1) * twHour
			switch {
			case d != 0 && r.Bool(0.5) && nh-5*twSec > t-6*twSec:
				// just before a full hour, the oldest point still accepted: its shard ends
				// exactly duration ago at that hour and expires at the first run after it
				if at := nh - core.Pick(r, []int64{twSec, 2 * twSec, 4 * twSec}); at > t {
					t = at
				}
				ts = t - d + core.Pick(r, []int64{0, twSec})
			case d != 0 && r.Bool(0.5):
				// the oldest point the coordinator still accepts: its shard is the next to expire
				ts = t - d + core.Pick(r, []int64{0, 1, twSec, twMin})
			case r.Bool(0.5):
				ts = t - r.Int63n(10*twMin)
			default:
				ts = t + r.Int63n(2*twHour)
			}
			c.Ops = append(c.Ops, TOp{K: "whold", At: t, RP: rp, ID: wid, Rows: []TRow{{S: r.Intn(4), T: ts}}})
		}
		// next instant: plain steps, or aimed just before / just after the next service run
		switch r.Weighted([]int{30, 25, 25, 20}) {
		case 0:
			t += core.Pick(r, []int64{3 * twSec, 40 * twSec, 5 * twMin, 20 * twMin, 50 * twMin})
		case 1:
			nt := nextTickAfter(t)
			if nt-small()-3*twSec > t {
				t = nt - small() - 3*twSec
			} else {
				t = nt + small()
			}
		case 2:
			t = nextTickAfter(t) + small()
		default:
			// the next full hour (group ends / expiry instants), a little before or after
			nh := (t/twHour + 1) * twHour
			if r.Bool(0.5) && nh-small()-3*twSec > t {
				t = nh - small() - 3*twSec
			} else {
				t = nh + small()
			}
		}
	}
	if t > horizon {
		horizon = t
	}
	// let the service run at least three more times after the last operation
	c.EndAt = horizon + 3*iv + twSec
	return c
}

func (worldT) NumOps(c TCase) int { return len(c.Ops) }

func twCloneCase(c TCase) TCase {
	b, _ := json.Marshal(c)
	var n TCase
	_ = json.Unmarshal(b, &n)
	return n
}

// Subset: operations carry absolute instants, so dropping some does not shift the others.
func (worldT) Subset(c TCase, keep []int) TCase {
	n := twCloneCase(c)
	n.Ops = nil
	cc := twCloneCase(c)
	for _, i := range keep {
		n.Ops = append(n.Ops, cc.Ops[i])
	}
	return n
}

func (worldT) Simplify(c TCase) []TCase {
	var out []TCase
	if c.PTs > 1 {
		n := twCloneCase(c)
		n.PTs = 1
		out = append(out, n)
	}
	if c.Lazy {
		n := twCloneCase(c)
		n.Lazy = false
		out = append(out, n)
	}
	if c.ThermalH != 0 {
		n := twCloneCase(c)
		n.ThermalH = 0
		out = append(out, n)
	}
	if c.Desc {
		n := twCloneCase(c)
		n.Desc = false
		out = append(out, n)
	}
	if c.Expand {
		n := twCloneCase(c)
		n.Expand = false
		out = append(out, n)
	}
	if len(c.RPs) > 1 {
		used := false
		for _, op := range c.Ops {
			if (op.K == "w" || op.K == "alter") && op.RP == len(c.RPs)-1 {
				used = true
			}
		}
		if !used {
			n := twCloneCase(c)
			n.RPs = n.RPs[:len(n.RPs)-1]
			out = append(out, n)
		}
	}
	for i, p := range c.RPs {
		if p.IgdH != 0 {
			n := twCloneCase(c)
			n.RPs[i].IgdH = 0
			out = append(out, n)
		}
	}
	for i, op := range c.Ops {
		if op.K == "w" && len(op.Rows) > 1 {
			for j := range op.Rows {
				n := twCloneCase(c)
				n.Ops[i].Rows = append(append([]TRow{}, op.Rows[:j]...), op.Rows[j+1:]...)
				out = append(out, n)
			}
		}
		if (op.K == "restart" || op.K == "kill") && op.Down > 0 {
			n := twCloneCase(c)
			n.Ops[i].Down = 0
			out = append(out, n)
		}
		if op.K == "restart" && op.Mode == "crash" {
			n := twCloneCase(c)
			n.Ops[i].Mode = "clean"
			out = append(out, n)
		}
		if op.K == "whold" {
			n := twCloneCase(c)
			n.Ops[i].K = "w"
			out = append(out, n)
		}
		if op.K == "alter" && op.DurH != nil && (op.SgdH != nil || op.IgdH != nil) {
			n := twCloneCase(c)
			n.Ops[i].SgdH, n.Ops[i].IgdH = nil, nil
			out = append(out, n)
		}
	}
	// a shorter tail
	last := c.StartOff
	for _, op := range c.Ops {
		if op.At+op.Down > last {
			last = op.At + op.Down
		}
	}
	iv := c.IntervalS * twSec
	if c.EndAt > last+2*iv+twSec+twHour {
		n := twCloneCase(c)
		n.EndAt = c.EndAt - twHour
		out = append(out, n)
	}
	return out
}

func (worldT) Neutralise(c TCase, name string) (TCase, bool) {
	drop := func(pred func(op TOp) bool) TCase {
		n := twCloneCase(c)
		n.Ops = nil
		for _, op := range twCloneCase(c).Ops {
			if !pred(op) {
				n.Ops = append(n.Ops, op)
			}
		}
		return n
	}
	switch name {
	case "no-alter":
		return drop(func(op TOp) bool { return op.K == "alter" }), true
	case "no-addnode":
		return drop(func(op TOp) bool { return op.K == "addnode" }), true
	case "no-regroup":
		n := twCloneCase(c)
		for i := range n.Ops {
			if n.Ops[i].K == "alter" {
				n.Ops[i].SgdH, n.Ops[i].IgdH = nil, nil
			}
		}
		return n, true
	case "no-restart":
		return drop(func(op TOp) bool { return op.K == "restart" || op.K == "kill" }), true
	case "no-kill":
		return drop(func(op TOp) bool { return op.K == "kill" }), true
	case "not-lazy":
		n := twCloneCase(c)
		n.Lazy = false
		return n, true
	case "one-pt":
		n := twCloneCase(c)
		n.PTs = 1
		return n, true
	}
	return c, false
}

// ---- execution -----------------------------------------------------------------------

var (
	twT        *testing.T
	twPrevKeys []string
	twFS       *simfs.FS
)

func TestVerifWorldT(t *testing.T) {
	twT = t
	// One P, whatever -test.cpu says.  go1.25.0's synctest support allocates the
	// "bubble special" of a WaitGroup (runtime.getOrSetBubbleSpecial, reached from
	// every WaitGroup.Add inside a bubble) from a fixalloc without taking
	// mheap_.speciallock; with several Ps two allocations race, the specials list of
	// a span becomes cyclic and the next Add spins for ever in
	// (*mspan).specialFindSplicePoint with the M locked (not preemptible; observed
	// with gdb under GOMAXPROCS 4 and 16, never with 1).
	runtime.GOMAXPROCS(1)
	engine.TwSetup()
	meta.DataLogger = zap.NewNop() // the meta service sets it at start-up
	twFS = simfs.Install()
	core.RunWorker[TCase](worldT{})
}

type twRun struct {
	c    TCase
	env  *core.Env
	out  *core.Outcome
	prop string

	epoch time.Time
	cat   *twCatalogue
	nid   uint64

	// the running incarnation of the store
	inc      int
	root     string
	eng      engine.Engine
	ei       *engine.EngineImpl
	mc       *twMeta
	svc      *retention.Service
	svcStart time.Time
	ticks    int64 // service runs of this incarnation processed so far
	up       bool

	m          *twModel
	lastWrite  time.Time
	indexDirty bool // series written since the harness last issued the index flush
	stop       bool // a violation was recorded: finish
	virtUp     time.Duration
	nodes      int
	pendingKil *TOp
	disk       *simfs.Disk
	hold       atomic.Pointer[twHold]
}

// twHold is a write kept in flight inside a shard.
type twHold struct {
	shard   uint64
	frag    string // fragment of the shard's WAL path
	series  int
	ts      int64
	val     int64
	release chan struct{}
	done    chan struct{}
	err     error
	mu      sync.Mutex
	caught  bool
	relOnce sync.Once
	byDel   bool // released because the service asked the engine to delete something
}

func (h *twHold) open(byDelete bool) {
	h.relOnce.Do(func() {
		h.mu.Lock()
		h.byDel = byDelete
		h.mu.Unlock()
		close(h.release)
	})
}

// gate is consulted by the simulated disk before every mutation.
func (r *twRun) gate(d *simfs.Disk, e *simfs.Entry) {
	h := r.hold.Load()
	if h == nil || e.Kind != simfs.KWrite || !strings.HasPrefix(e.Path, "wal/") || !strings.Contains(e.Path, h.frag) {
		return
	}
	h.mu.Lock()
	if h.caught {
		h.mu.Unlock()
		return
	}
	h.caught = true
	h.mu.Unlock()
	<-h.release
}

// finishHold lets the held write go on, waits for it and books it.
func (r *twRun) finishHold(ack bool) {
	h := r.hold.Load()
	if h == nil {
		return
	}
	h.open(false)
	<-h.done
	r.hold.Store(nil)
	h.mu.Lock()
	byDel := h.byDel
	h.mu.Unlock()
	if byDel {
		r.out.Probes["held write released because the service asked the engine to delete a shard or index"]++
	}
	r.m.bookHeld(h, ack && h.err == nil)
	if ack {
		r.lastWrite = time.Now()
		r.indexDirty = true
	}

}

func (r *twRun) rel(t time.Time) int64 { return int64(t.Sub(r.epoch)) }
func (r *twRun) abs(off int64) time.Time { return r.epoch.Add(time.Duration(off)) }

func twFmtRel(off int64) string {
	neg := ""
	if off < 0 {
		neg, off = "-", -off
	}
	h := off / twHour
	rest := off % twHour
	if rest%twSec == 0 {
		return fmt.Sprintf("%s%dh%02dm%02ds", neg, h, rest/twMin, (rest%twMin)/twSec)
	}
	return fmt.Sprintf("%s%dh%02dm%02ds+%dns", neg, h, rest/twMin, (rest%twMin)/twSec, rest%twSec)
}

func (w worldT) Exec(c TCase, env *core.Env) *core.Outcome {
	out := core.NewOutcome()
	if twT == nil {
		out.Infra = "world T needs the *testing.T of TestVerifWorldT (synctest.Test)"
		return out
	}
	if c.PTs < 1 || c.IntervalS < 1 || len(c.RPs) == 0 {
		out.Infra = "malformed case"
		return out
	}
	r := &twRun{c: c, env: env, out: out, prop: env.Property}
	if r.prop == "" {
		r.prop = "C14"
	}
	engine.TwResetProcessState(twPrevKeys)
	twPrevKeys = nil
	for i := range c.RPs {
		twPrevKeys = append(twPrevKeys, twDB+"/"+twRPName(i))
	}
	func() {
		defer func() {
			if p := recover(); p != nil {
				if s := fmt.Sprint(p); strings.Contains(s, "deadlock: main bubble goroutine has exited") {
					// goroutines parked for good on channels of this bubble (none of them owns a timer)
					return
				}
				panic(p)
			}
		}()
		synctest.Test(twT, func(t *testing.T) { r.bubble() })
	}()
	if os.Getenv("TW_PRINTLOG") != "" {
		for _, l := range out.APILog {
			fmt.Fprintln(os.Stderr, "APILOG", l)
		}
	}
	var dg []string
	b, _ := json.Marshal(c)
	dg = append(dg, string(b))
	out.Digest = core.DigestStrings(dg)
	out.SimTimeNs = int64(r.virtUp)
	out.Nontrivial = out.Stats["shards_removed_with_rows"] > 0 && out.Stats["kept_checks_with_rows"] > 0
	return out
}

func twRPName(i int) string { return fmt.Sprintf("rp%d", i) }

// bubble is the root goroutine of the execution's synctest bubble.
func (r *twRun) bubble() {
	defer func() {
		if p := recover(); p != nil {
			st := string(debug.Stack())
			if ip, ok := p.(core.InfraPanic); ok {
				r.out.Infra = string(ip)
			} else {
				ls := strings.Split(st, "\n")
				if len(ls) > 60 {
					ls = ls[:60]
				}
				r.out.Violation = &core.Violation{Property: r.prop, Kind: "panic", Detail: fmt.Sprintf("panic: %v\n%s", p, strings.Join(ls, "\n")),
					Attrs: map[string]string{"frames": twInnerFrames(st)}}
			}
			// whatever still runs must be stopped, or its tickers keep the bubble alive for ever
			func() {
				defer func() { _ = recover() }()
				r.stopStore("final")
			}()
		}
	}()
	r.epoch = time.Now()
	r.setupCatalogue()
	r.m = newTwModel(r)
	if r.c.StartOff > 0 {
		time.Sleep(time.Duration(r.c.StartOff))
	}
	r.startStore()
	for i, op := range r.c.Ops {
		if r.stop {
			break
		}
		r.sleepUntil(r.abs(op.At))
		if r.stop {
			break
		}
		r.step(i, op)
	}
	if !r.stop {
		r.sleepUntil(r.abs(r.c.EndAt))
	}
	if !r.stop {
		r.finishHold(true)
		r.readAll("end")
	}
	r.stopStore("final")
}

// twInnerFrames: the three innermost frames of the code under test below the panic.
func twInnerFrames(st string) string {
	var fr []string
	seenPanic := false
	for _, l := range strings.Split(st, "\n") {
		if strings.HasPrefix(l, "panic(") {
			seenPanic = true
			fr = nil
			continue
		}
		if !seenPanic || !strings.HasPrefix(l, "github.com/openGemini/openGemini/") || strings.Contains(l, "engine_test.") || strings.Contains(l, "verifsim") {
			continue
		}
		f := strings.TrimPrefix(l, "github.com/openGemini/openGemini/")
		if i := strings.LastIndex(f, "("); i > 0 {
			f = f[:i]
		}
		if strings.Contains(f, "engine.Tw") || strings.Contains(f, "engine.runQuery") || strings.Contains(f, "engine.selectRows") {
			continue
		}
		fr = append(fr, f)
		if len(fr) == 3 {
			break
		}
	}
	return strings.Join(fr, "<")
}

func twMust(err error, what string) {
	if err != nil {
		panic(core.InfraPanic(what + ": " + err.Error()))
	}
}

func (r *twRun) setupCatalogue() {
	d := &meta.Data{PtNumPerNode: uint32(r.c.PTs), ExpandShardsEnable: r.c.Expand}
	nid, err := d.CreateDataNode("127.0.0.1:8400", "127.0.0.1:8401", "", "")
	twMust(err, "CreateDataNode")
	r.nid = nid
	twMust(d.CreateDatabase(twDB, nil, nil, false, 1, nil), "CreateDatabase")
	_, err = d.CreateDBPtView(twDB)
	twMust(err, "CreateDBPtView")
	r.cat = &twCatalogue{data: d}
	r.nodes = 1
	for i, p := range r.c.RPs {
		rpi := &meta.RetentionPolicyInfo{Name: twRPName(i), ReplicaN: 1,
			Duration:           time.Duration(p.DurH) * time.Hour,
			ShardGroupDuration: time.Duration(p.SgdH) * time.Hour,
			IndexGroupDuration: time.Duration(p.IgdH) * time.Hour}
		err := r.cat.apply(func(d *meta.Data) error { return d.CreateRetentionPolicy(twDB, rpi, i == 0) })
		twMust(err, fmt.Sprintf("CreateRetentionPolicy %+v", p))
		err = r.cat.apply(func(d *meta.Data) error {
			return d.CreateMeasurement(twDB, twRPName(i), "mst0", &proto2.ShardKeyInfo{ShardKey: []string{"host"}, Type: proto.String(influxql.HASH)},
				0, nil, config.TSSTORE, nil, nil, nil)
		})
		twMust(err, "CreateMeasurement")
	}
	r.cat.read(func(d *meta.Data) {
		for i := range d.PtView[twDB] {
			if d.PtView[twDB][i].Owner.NodeID != nid {
				panic(core.InfraPanic("partition not owned by the store node"))
			}
		}
		if len(d.PtView[twDB]) != r.c.PTs {
			panic(core.InfraPanic(fmt.Sprintf("expected %d partitions, catalogue has %d", r.c.PTs, len(d.PtView[twDB]))))
		}
	})
}

// startStore starts a new incarnation of the store process on r.root (created if
// empty): engine, partitions assigned from the catalogue, retention service.
func (r *twRun) startStore() {
	r.inc++
	if r.root == "" {
		r.root = filepath.Join(r.env.Scratch, fmt.Sprintf("inc%d", r.inc))
		twMust(os.MkdirAll(r.root, 0o755), "mkdir")
	}
	r.disk = twFS.NewDisk(r.root)
	r.disk.SetGate(r.gate)
	th := time.Duration(r.c.ThermalH) * time.Hour
	opts := engine.TwEngineOptions(r.c.Lazy, th, th)
	lc := &metaclient.LoadCtx{LoadCh: make(chan *metaclient.DBPTCtx)}
	e, err := engine.NewEngine(r.root, r.root, opts, lc)
	twMust(err, "NewEngine")
	r.eng = e
	r.ei = e.(*engine.EngineImpl)
	r.mc = &twMeta{cat: r.cat, nodeID: r.nid}
	metaclient.LogicClock = uint64(r.inc) // what LoadLogicalClock does at every process start
	brief := &meta.DatabaseBriefInfo{Name: twDB, Replicas: 1}
	for pt := 0; pt < r.c.PTs; pt++ {
		var durs map[uint64]*meta.ShardDurationInfo
		r.cat.read(func(d *meta.Data) { durs = d.GetShardDurationsByDbPtForRetention(twDB, uint32(pt)) })
		err := r.ei.Assign(uint64(r.inc), r.nid, twDB, uint32(pt), 0, durs, brief, r.mc, nil)
		if err != nil {
			// the real cluster manager would retry; nothing in a fault-free world may make it fail
			r.violation("store_start_failed", fmt.Sprintf("incarnation %d: Assign(pt %d) failed: %v", r.inc, pt, err), nil)
			// nothing of the half-started engine may stay behind: its tickers would keep the bubble alive
			_ = r.eng.Close()
			r.eng, r.ei = nil, nil
			return
		}
	}
	r.svc = retention.NewService(time.Duration(r.c.IntervalS) * time.Second)
	r.svc.Engine = &twEngine{EngineImpl: r.ei, mc: r.mc, desc: r.c.Desc, onDelete: func(string, uint64) {
		if h := r.hold.Load(); h != nil {
			h.open(true)
		}
	}}
	r.svc.MetaClient = r.mc
	twMust(r.svc.Open(), "service open")
	r.svcStart = time.Now()
	r.ticks = 0
	r.up = true
	r.indexDirty = true // WAL replay re-created the series of unflushed rows
	if r.pendingKil != nil {
		r.mc.killPoint = r.pendingKil.Mode
	}
	r.out.Stats["store_starts"]++
	r.out.Log("start inc=%d at=%s", r.inc, twFmtRel(r.rel(time.Now())))
}

// stopStore stops the running incarnation.  mode "crash": the directory is copied
// first (completed file-system calls survive a process kill, nothing else does),
// the old process is then shut down away from the copy.
func (r *twRun) stopStore(mode string) {
	if !r.up {
		return
	}
	next := ""
	if mode == "crash" {
		next = filepath.Join(r.env.Scratch, fmt.Sprintf("inc%d", r.inc+1))
		twMust(simfs.CopyTree(r.root, next), "copy tree")
		twMust(simfs.RelocateTxn(next, r.env.Scratch, next), "relocate txn")
		r.finishHold(false) // the process died with the write in flight: never acknowledged
	} else {
		r.finishHold(true)
	}
	r.up = false
	if r.svc != nil {
		_ = r.svc.Close()
		r.svc = nil
	}
	if r.eng != nil {
		if err := r.eng.Close(); err != nil {
			r.out.Stats["engine_close_errors"]++
		}
		r.eng, r.ei = nil, nil
	}
	if mode == "clean" {
		// a restarted incarnation always opens a fresh path (process-global caches are keyed by path)
		next = filepath.Join(r.env.Scratch, fmt.Sprintf("inc%d", r.inc+1))
		twMust(simfs.CopyTree(r.root, next), "copy tree")
		twMust(simfs.RelocateTxn(next, r.env.Scratch, next), "relocate txn")
	}
	if r.disk != nil {
		twFS.Forget(r.disk)
		r.disk = nil
	}
	_ = os.RemoveAll(r.root)
	r.root = next
}

func (r *twRun) violation(kind, detail string, attrs map[string]string) {
	if r.out.Violation == nil {
		r.out.Violation = &core.Violation{Property: r.prop, Kind: kind, Detail: detail, Attrs: attrs}
	}
	r.stop = true
}

// report hands a violation to the known-findings matcher; true = listed, step over it.
func (r *twRun) report(v *core.Violation) bool {
	if id := r.env.KnownID(v, r.out); id != "" {
		return true
	}
	if r.out.Violation == nil {
		r.out.Violation = v
	}
	r.stop = true
	return false
}

func (r *twRun) nextTick() time.Time {
	return r.svcStart.Add(time.Duration(r.ticks+1) * time.Duration(r.c.IntervalS) * time.Second)
}

// sleepUntil advances the virtual clock to t, stopping at every service run on
// the way: the harness wakes at the instant of the run, waits until every other
// goroutine of the bubble is durably blocked again (= the run is over) and judges.
func (r *twRun) sleepUntil(t time.Time) {
	for !r.stop {
		now := time.Now()
		if r.up {
			nt := r.nextTick()
			if !nt.After(t) {
				if d := nt.Sub(now); d > 0 {
					time.Sleep(d)
					r.virtUp += d
				}
				synctest.Wait()
				r.ticks++
				r.afterTick(nt)
				continue
			}
		}
		if d := t.Sub(now); d > 0 {
			time.Sleep(d)
			if r.up {
				r.virtUp += d
			}
		}
		synctest.Wait()
		return
	}
}

func (r *twRun) afterTick(nt time.Time) {
	r.out.Stats["service_runs"]++
	r.mc.mu.Lock()
	ref := append([]time.Time(nil), r.mc.refreshes...)
	r.mc.refreshes = nil
	marks := append([]uint64(nil), r.mc.marks...)
	prunes := append([]uint64(nil), r.mc.prunes...)
	dels := append([]uint64(nil), r.mc.engDeletes...)
	idels := append([]uint64(nil), r.mc.engIdxDels...)
	delErrs := append([]string(nil), r.mc.engDelErrs...)
	fired := r.mc.killFired
	r.mc.killFired = ""
	r.mc.mu.Unlock()
	r.mc.resetTrace()
	if len(ref) == 0 || len(ref) > 2 || !ref[0].Equal(nt) {
		panic(core.InfraPanic(fmt.Sprintf("service run expected at %s, catalogue refreshes seen at %v", twFmtRel(r.rel(nt)), ref)))
	}
	sortU := func(x []uint64) []uint64 { sort.Slice(x, func(i, j int) bool { return x[i] < x[j] }); return x }
	r.out.Log("tick at=%s marks=%v engdel=%v prunes=%v idxdel=%v kill=%q", twFmtRel(r.rel(nt)), twUniq(sortU(marks)), sortU(dels), sortU(prunes), sortU(idels), fired)
	for _, e := range delErrs {
		if e == "shard not found" {
			r.out.Stats["engine_delete_of_unknown_shard"]++ // shards the engine never created: expected
		} else {
			r.out.Stats["engine_delete_errors"]++
			if len(e) > 120 {
				e = e[:120]
			}
			r.out.Probes["DeleteShard failed: "+e]++
		}
	}
	after := time.Now()
	r.m.judgeTick(nt, after, fired)
	if r.stop {
		return
	}
	if r.hold.Load() != nil && fired == "" {
		r.finishHold(true)
		synctest.Wait()
		r.m.judgeState("whold_end", false)
		if r.stop {
			return
		}
	}
	if fired != "" {
		// the process died inside this run
		k := r.pendingKil
		r.pendingKil = nil
		r.out.Probes["process killed between catalogue mark and prune"]++
		r.out.Stats["kills_"+fired]++
		r.m.lastRestart = "kill_" + fired
		r.stopStore("crash")
		if k != nil && k.Down > 0 {
			time.Sleep(time.Duration(k.Down))
		}
		r.m.noteChange()
		r.startStore()
		if r.stop {
			return
		}
		synctest.Wait()
		r.m.judgeState("restart", false)
	}
}

func twUniq(x []uint64) []uint64 {
	var out []uint64
	for i, v := range x {
		if i == 0 || v != x[i-1] {
			out = append(out, v)
		}
	}
	return out
}

// ---- operations -------------------------------------------------------------------------

func (r *twRun) step(i int, op TOp) {
	switch op.K {
	case "w", "whold", "read", "restart":
		if r.hold.Load() != nil {
			r.finishHold(true)
			synctest.Wait()
		}
	}
	switch op.K {
	case "whold":
		r.opWriteHeld(i, op)
	case "w":
		r.opWrite(i, op)
	case "alter":
		r.opAlter(i, op)
	case "read":
		r.out.Log("op%d read at=%s", i, twFmtRel(r.rel(time.Now())))
		r.readAll("read")
		return
	case "restart":
		mode := op.Mode
		if mode != "crash" {
			mode = "clean"
		}
		r.out.Log("op%d restart mode=%s down=%s at=%s", i, mode, twFmtRel(op.Down), twFmtRel(r.rel(time.Now())))
		r.m.lastRestart = mode
		r.stopStore(mode)
		if op.Down > 0 {
			time.Sleep(time.Duration(op.Down))
		}
		r.m.noteChange()
		r.startStore()
		r.out.Stats["restarts"]++
	case "addnode":
		if r.nodes >= 2 {
			return
		}
		r.nodes++
		err := r.cat.apply(func(d *meta.Data) error {
			_, e := d.CreateDataNode("127.0.0.2:8400", "127.0.0.2:8401", "", "")
			return e
		})
		twMust(err, "CreateDataNode")
		r.out.Log("op%d addnode at=%s", i, twFmtRel(r.rel(time.Now())))
		r.out.Stats["nodes_added"]++
		r.m.noteChange()
	case "kill":
		if op.Mode != "mark" && op.Mode != "delete" {
			return
		}
		o := op
		r.pendingKil = &o
		r.mc.mu.Lock()
		r.mc.killPoint = op.Mode
		r.mc.mu.Unlock()
		r.out.Log("op%d arm kill point=%s at=%s", i, op.Mode, twFmtRel(r.rel(time.Now())))
		return
	default:
		return
	}
	if r.stop {
		return
	}
	synctest.Wait()
	r.m.judgeState(op.K, false)
}

func (r *twRun) opAlter(i int, op TOp) {
	if op.RP < 0 || op.RP >= len(r.c.RPs) {
		return
	}
	rpu := &meta.RetentionPolicyUpdate{}
	desc := ""
	if op.DurH != nil {
		d := time.Duration(*op.DurH) * time.Hour
		rpu.Duration = &d
		desc += fmt.Sprintf(" duration=%dh", *op.DurH)
	}
	if op.SgdH != nil {
		d := time.Duration(*op.SgdH) * time.Hour
		rpu.ShardGroupDuration = &d
		desc += fmt.Sprintf(" shard_group_duration=%dh", *op.SgdH)
	}
	if op.IgdH != nil {
		d := time.Duration(*op.IgdH) * time.Hour
		rpu.IndexGroupDuration = &d
		desc += fmt.Sprintf(" index_group_duration=%dh", *op.IgdH)
	}
	if desc == "" {
		return
	}
	name := twRPName(op.RP)
	err := r.cat.apply(func(d *meta.Data) error { return d.UpdateRetentionPolicy(twDB, name, rpu, false) })
	r.out.Log("op%d alter %s%s at=%s err=%v", i, name, desc, twFmtRel(r.rel(time.Now())), err != nil)
	r.out.Stats["alters"]++
	if err != nil {
		r.out.Stats["alters_rejected"]++
		if op.DurH != nil && *op.DurH != 0 && int64(*op.DurH)*twHour < r.m.rps[op.RP].sgd {
			r.out.Probes["alter to a duration shorter than the shard group duration rejected"]++
		}
	}
	r.m.applyAlter(op, err)
	r.m.noteChange()
}

func twRow(series int, ts int64, v int64) influx.Row {
	var ir influx.Row
	ir.Name = engine.TwMstName(0)
	ir.Timestamp = ts
	tags := engine.TwSeriesTags(series)
	ir.Tags = make(influx.PointTags, len(tags))
	for i, t := range tags {
		ir.Tags[i].Key, ir.Tags[i].Value = t[0], t[1]
	}
	sort.Sort(&ir.Tags)
	ir.Fields = []influx.Field{{Key: "fi", Type: influx.Field_Type_Int, NumValue: float64(v)}}
	ir.UnmarshalIndexKeys(nil)
	_ = ir.UnmarshalShardKeyByTag(nil)
	return ir
}

// opWrite: the coordinator stub.  Per point: reject it when it is older than
// now - duration (points_writer: minTime = fasttime.UnixTimestamp()*1e9 - duration,
// second granularity), otherwise make sure a live shard group covers the
// timestamp (CreateShardGroup is a no-op when one exists), pick the shard of the
// point's partition and hand the batch of that shard to the store.
func (r *twRun) opWrite(i int, op TOp) {
	if op.RP < 0 || op.RP >= len(r.c.RPs) || !r.up {
		return
	}
	name := twRPName(op.RP)
	now := time.Now()
	type tgt struct {
		pt    uint32
		shard uint64
	}
	batches := map[tgt][]int{}
	var order []tgt
	rejected := 0
	for j, row := range op.Rows {
		ts := r.epoch.UnixNano() + row.T
		var dur time.Duration
		r.cat.read(func(d *meta.Data) {
			rpi, err := d.RetentionPolicy(twDB, name)
			twMust(err, "RetentionPolicy")
			dur = rpi.Duration
		})
		if dur != 0 && ts < now.Unix()*1e9-int64(dur) {
			rejected++
			continue
		}
		err := r.cat.apply(func(d *meta.Data) error { return d.CreateShardGroup(twDB, name, time.Unix(0, ts), util.Hot, config.TSSTORE, 0) })
		twMust(err, "CreateShardGroup")
		pt := uint32(row.S % r.c.PTs)
		var sid uint64
		r.cat.read(func(d *meta.Data) {
			sg, err := d.ShardGroupByTimestampAndEngineType(twDB, name, time.Unix(0, ts), config.TSSTORE)
			if err != nil || sg == nil {
				panic(core.InfraPanic(fmt.Sprintf("no shard group for a timestamp right after CreateShardGroup: %v", err)))
			}
			r.m.learnGroup(op.RP, sg)
			for _, sh := range sg.Shards {
				if len(sh.Owners) > 0 && sh.Owners[0] == pt {
					sid = sh.ID
				}
			}
		})
		if sid == 0 {
			panic(core.InfraPanic("no shard of the group is owned by the point's partition"))
		}
		k := tgt{pt, sid}
		if _, ok := batches[k]; !ok {
			order = append(order, k)
		}
		batches[k] = append(batches[k], j)
	}
	r.out.Stats["points_rejected_out_of_window"] += int64(rejected)
	nerr := 0
	for _, k := range order {
		var rows []influx.Row
		for _, j := range batches[k] {
			rows = append(rows, twRow(op.Rows[j].S, r.epoch.UnixNano()+op.Rows[j].T, int64(op.ID)*1000+int64(j)))
		}
		err := r.storeWrite(name, k.pt, k.shard, rows)
		if err != nil {
			nerr++
			r.out.Stats["write_errors"]++
			if os.Getenv("VERIF_DEBUG") != "" {
				fmt.Println("DEBUG write error:", err)
			}
		}
		for _, j := range batches[k] {
			r.m.applyWrite(k.shard, op.Rows[j].S, r.epoch.UnixNano()+op.Rows[j].T, int64(op.ID)*1000+int64(j), err != nil)
		}
		r.out.Stats["points_written"] += int64(len(rows))
	}
	r.lastWrite = time.Now()
	r.indexDirty = true
	r.out.Stats["writes"]++
	r.out.Log("op%d w id=%d rp=%s at=%s rows=%d rejected=%d shards=%d errs=%d", i, op.ID, name, twFmtRel(r.rel(now)), len(op.Rows), rejected, len(order), nerr)
	r.m.noteChange()
}

// opWriteHeld: one point, routed like any other, whose write is kept in flight.
func (r *twRun) opWriteHeld(i int, op TOp) {
	if op.RP < 0 || op.RP >= len(r.c.RPs) || !r.up || len(op.Rows) == 0 {
		return
	}
	name := twRPName(op.RP)
	now := time.Now()
	row := op.Rows[0]
	ts := r.epoch.UnixNano() + row.T
	var dur time.Duration
	r.cat.read(func(d *meta.Data) {
		rpi, err := d.RetentionPolicy(twDB, name)
		twMust(err, "RetentionPolicy")
		dur = rpi.Duration
	})
	if dur != 0 && ts < now.Unix()*1e9-int64(dur) {
		r.out.Stats["points_rejected_out_of_window"]++
		r.out.Log("op%d whold id=%d rp=%s at=%s rejected", i, op.ID, name, twFmtRel(r.rel(now)))
		return
	}
	err := r.cat.apply(func(d *meta.Data) error { return d.CreateShardGroup(twDB, name, time.Unix(0, ts), util.Hot, config.TSSTORE, 0) })
	twMust(err, "CreateShardGroup")
	pt := uint32(row.S % r.c.PTs)
	var sid uint64
	r.cat.read(func(d *meta.Data) {
		sg, err := d.ShardGroupByTimestampAndEngineType(twDB, name, time.Unix(0, ts), config.TSSTORE)
		if err != nil || sg == nil {
			panic(core.InfraPanic(fmt.Sprintf("no shard group for a timestamp right after CreateShardGroup: %v", err)))
		}
		r.m.learnGroup(op.RP, sg)
		for _, sh := range sg.Shards {
			if len(sh.Owners) > 0 && sh.Owners[0] == pt {
				sid = sh.ID
			}
		}
	})
	if sid == 0 {
		panic(core.InfraPanic("no shard of the group is owned by the point's partition"))
	}
	h := &twHold{shard: sid, frag: fmt.Sprintf("/%s/%d_", name, sid), series: row.S, ts: ts, val: int64(op.ID) * 1000,
		release: make(chan struct{}), done: make(chan struct{})}
	r.hold.Store(h)
	r.m.noteHeld(h)
	rows := []influx.Row{twRow(row.S, ts, h.val)}
	go func() {
		defer close(h.done)
		h.err = r.storeWrite(name, pt, sid, rows)
	}()
	synctest.Wait()
	h.mu.Lock()
	caught := h.caught
	h.mu.Unlock()
	r.out.Log("op%d whold id=%d rp=%s at=%s shard=%d held=%v", i, op.ID, name, twFmtRel(r.rel(now)), sid, caught)
	r.out.Stats["writes_held"]++
	r.m.noteChange()
	if !caught {
		// the write did not reach the WAL (it failed or finished at once): an ordinary write
		r.finishHold(true)
	}
}

// storeWrite = Storage.Write: the batch is received in wire form; a shard the
// store does not know yet is created from the catalogue's description of it.
func (r *twRun) storeWrite(rp string, pt uint32, shardID uint64, rows []influx.Row) error {
	bin, err := influx.FastMarshalMultiRows(nil, rows)
	if err != nil {
		panic(core.InfraPanic("marshal rows: " + err.Error()))
	}
	dec, _, _, _, _, err := influx.FastUnmarshalMultiRows(bin, nil, nil, nil, nil, nil)
	if err != nil {
		panic(core.InfraPanic("unmarshal rows: " + err.Error()))
	}
	err = r.ei.WriteRows(twDB, rp, pt, shardID, dec, bin, nil)
	if err == nil || !errno.Equal(err, errno.ShardNotFound) {
		return err
	}
	tri, err := r.mc.GetShardRangeInfo(twDB, rp, shardID)
	if err != nil {
		return err
	}
	var mst *meta.MeasurementInfo
	r.cat.read(func(d *meta.Data) { mst, err = d.Measurement(twDB, rp, "mst0") })
	if err != nil {
		return err
	}
	if err = r.ei.CreateShard(twDB, rp, pt, shardID, tri, mst); err != nil {
		return err
	}
	dec, _, _, _, _, err = influx.FastUnmarshalMultiRows(bin, nil, nil, nil, nil, nil)
	if err != nil {
		panic(core.InfraPanic("unmarshal rows: " + err.Error()))
	}
	return r.ei.WriteRows(twDB, rp, pt, shardID, dec, bin, nil)
}

// readAll queries every shard the model has rows for (this loads lazy shards).
func (r *twRun) readAll(phase string) {
	if !r.up || r.stop {
		return
	}
	// a new series is visible to queries once the index flushed its in-memory items (1 s timer)
	if !r.lastWrite.IsZero() {
		if d := r.lastWrite.Add(1500 * time.Millisecond).Sub(time.Now()); d > 0 {
			r.sleepUntil(time.Now().Add(d))
		}
	}
	if r.stop || !r.up {
		return
	}
	r.m.judgeState(phase, true)
}
